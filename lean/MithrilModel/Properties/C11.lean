import MithrilModel.Proofs
import MithrilModel.Properties.C09
import MithrilModel.Properties.C04
/-!
# C11 — Certified transaction, block and stake sets are reported exactly as signed

Model: `Proofs.verifyLegacy` / `verifyV2` over the `MKMapProof` model of C09, the leaf encoders
(`Leaf.txLeaf`, `Proofs.stakeLeaf`), the protocol-message digest of C04.
-/
namespace C11
open Proofs MkProof Leaf

/-- **set soundness (legacy transaction-hash sets)**: accepted ⇒ at least one part, every part's nested
proof verifies, ALL parts prove under the single returned root, every reported item's leaf is contained in
its part's proof. With `C09_map_sound` every contained non-merge value is a committed leaf of that root. -/
theorem C11_set_sound {α : Type} [DecidableEq α] (merge : α → α → α)
    (parts : List (List α × MapProof α)) (root : α) (h : verifyLegacy merge parts = .ok root) :
    parts ≠ [] ∧ ∀ part ∈ parts, part.2.verify merge = true ∧ part.2.master.root = root ∧
      ∀ l ∈ part.1, part.2.contains l = true := verifyLegacy_sound merge parts root h

/-- the v2 format (one part for transactions, one for blocks) -/
theorem C11_set_sound_v2 {α : Type} [DecidableEq α] (merge : α → α → α)
    (ls : List α) (p : MapProof α) (root : α) (h : verifyV2 merge (some (ls, p)) = .ok root) :
    p.verify merge = true ∧ p.master.root = root ∧ ∀ l ∈ ls, p.contains l = true :=
  verifyV2_sound merge ls p root h

open ExprTree in
/-- **every reported item is committed under the single returned root**: composing acceptance with the
soundness of the executable nested verifier (C09): if the returned root is the value of the committed
tree `t` (leaves not merge values, `merge` injective), every reported item leaf that is not itself a merge
value is a leaf of `t` -/
theorem C11_set_committed {α : Type} [DecidableEq α] (merge : α → α → α)
    (hinj : ∀ a b c d, merge a b = merge c d → a = c ∧ b = d)
    (parts : List (List α × MapProof α)) (root : α) (h : verifyLegacy merge parts = .ok root)
    (t : E α) (hr : root = eval merge t) (hT : ∀ a ∈ leaves t, ¬ IsMerge merge a) :
    ∀ part ∈ parts, ∀ l ∈ part.1, ¬ IsMerge merge l → l ∈ leaves t := by
  intro part hp l hl hnm
  obtain ⟨hv, hroot, hc⟩ := (verifyLegacy_sound merge parts root h).2 part hp
  exact C09.C09_map_exec_sound merge hinj part.2 l hv (hc l hl) t (by rw [hroot, hr]) hT hnm

/-- a response without any certified item is rejected -/
theorem C11_empty_rejected {α : Type} [DecidableEq α] (merge : α → α → α) :
    verifyLegacy merge ([] : List (List α × MapProof α)) = .error .noCertifiedItem ∧
    verifyV2 merge (none : Option (List α × MapProof α)) = .error .noCertifiedItem := ⟨rfl, rfl⟩

/-- parts whose proofs belong to different roots are rejected -/
theorem C11_roots_must_agree {α : Type} [DecidableEq α] (merge : α → α → α)
    (l1 l2 : List α) (p1 p2 : MapProof α) (hne : p1.master.root ≠ p2.master.root) :
    ∀ r, verifyLegacy merge [(l1, p1), (l2, p2)] ≠ .ok r := roots_must_agree merge l1 l2 p1 p2 hne

/-- the `Tx/<tx>/<block>/<n>/<slot>` leaf is injective on items whose fields contain no `/`
(hex hashes, decimal numbers) -/
theorem C11_leaf_injective {t b n s t' b' n' s' : List Char}
    (h1 : '/' ∉ t) (h2 : '/' ∉ b) (h3 : '/' ∉ n) (h4 : '/' ∉ s)
    (h1' : '/' ∉ t') (h2' : '/' ∉ b') (h3' : '/' ∉ n') (h4' : '/' ∉ s')
    (h : txLeaf t b n s = txLeaf t' b' n' s') : t = t' ∧ b = b' ∧ n = n' ∧ s = s' :=
  txLeaf_inj h1 h2 h3 h4 h1' h2' h3' h4' h

/-- observation: with `/` inside a hash field two different items share a leaf (block hashes are
unvalidated strings) -/
theorem C11_leaf_slash_note :
    txLeaf "T".toList "B/1/2".toList "3".toList "4".toList = txLeaf "T".toList "B".toList "1".toList "2/3/4".toList :=
  txLeaf_slash_counterexample

/-- KNOWN FINDING: the stake-distribution leaf `pool_id ‖ decimal stake` is not injective:
`("pool1abc7", 123)` and `("pool1abc", 7123)` have the same leaf -/
theorem C11_stake_leaf_counterexample :
    stakeLeaf "pool1abc7".toList 123 = stakeLeaf "pool1abc".toList 7123 ∧
    ("pool1abc7".toList, 123) ≠ ("pool1abc".toList, 7123) := by decide

/-- … it is injective when both pool identifiers have the same length (bech32 pool ids do) -/
theorem C11_stake_partial (p p' : List Char) (s s' : Nat) (hl : p.length = p'.length)
    (h : stakeLeaf p s = stakeLeaf p' s') : p = p' ∧ natDigits s = natDigits s' :=
  List.append_inj h hl

/-- message binding: the recomputed message (certificate's own message with root / block number /
offset overwritten) has the certificate's signed digest only if the overwritten values are the signed
ones — for messages with the same keys, by C04 -/
def C11_message_binding := @C04.C04_pm_single_value

/-- non-vacuity: a one-part response over a single-leaf tree is accepted (string-free instance) -/
example : setVerify C09.pairM [5] (MapProof.mk { root := 5, leaves := [(0, 5)], size := 1, items := [] } []) = true := by
  decide +kernel

end C11
