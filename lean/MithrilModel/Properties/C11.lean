import MithrilModel.Proofs
import MithrilModel.Properties.C09
import MithrilModel.Properties.C04
import MithrilModel.ProverProofs
import MithrilModel.ClientMsg
/-!
# C11 — Certified transaction, block and stake sets are reported exactly as signed

Model: `Proofs.verifyLegacy` / `verifyV2` over the `MKMapProof` model of C09, the leaf encoders
(`Leaf.txLeaf`, `Proofs.stakeLeaf`), the protocol-message digest of C04.
-/
namespace C11
open Proofs MkProof Leaf

/-- **set soundness (legacy transaction-hash sets)**: accepted ⇒ at least one part, every part's nested
proof verifies, ALL parts prove under the single returned root, every reported item's leaf is contained in
its part's proof. With `C09_map_sound` every contained non-merge value is a committed leaf of that root. -/
theorem C11_set_sound {α : Type} [DecidableEq α] (merge : α → α → α)
    (parts : List (List α × MapProof α)) (root : α) (h : verifyLegacy merge parts = .ok root) :
    parts ≠ [] ∧ ∀ part ∈ parts, part.2.verify merge = true ∧ part.2.master.root = root ∧
      ∀ l ∈ part.1, part.2.contains l = true := verifyLegacy_sound merge parts root h

/-- the v2 format (one part for transactions, one for blocks) -/
theorem C11_set_sound_v2 {α : Type} [DecidableEq α] (merge : α → α → α)
    (ls : List α) (p : MapProof α) (root : α) (h : verifyV2 merge (some (ls, p)) = .ok root) :
    p.verify merge = true ∧ p.master.root = root ∧ ∀ l ∈ ls, p.contains l = true :=
  verifyV2_sound merge ls p root h

open ExprTree in
/-- **every reported item is committed under the single returned root**: composing acceptance with the
soundness of the executable nested verifier (C09): if the returned root is the value of the committed
tree `t` (leaves not merge values, `merge` injective), every reported item leaf that is not itself a merge
value is a leaf of `t` -/
theorem C11_set_committed {α : Type} [DecidableEq α] (merge : α → α → α)
    (hinj : ∀ a b c d, merge a b = merge c d → a = c ∧ b = d)
    (parts : List (List α × MapProof α)) (root : α) (h : verifyLegacy merge parts = .ok root)
    (t : E α) (hr : root = eval merge t) (hT : ∀ a ∈ leaves t, ¬ IsMerge merge a) :
    ∀ part ∈ parts, ∀ l ∈ part.1, ¬ IsMerge merge l → l ∈ leaves t := by
  intro part hp l hl hnm
  obtain ⟨hv, hroot, hc⟩ := (verifyLegacy_sound merge parts root h).2 part hp
  exact C09.C09_map_exec_sound merge hinj part.2 l hv (hc l hl) t (by rw [hroot, hr]) hT hnm

/-- a response without any certified item is rejected -/
theorem C11_empty_rejected {α : Type} [DecidableEq α] (merge : α → α → α) :
    verifyLegacy merge ([] : List (List α × MapProof α)) = .error .noCertifiedItem ∧
    verifyV2 merge (none : Option (List α × MapProof α)) = .error .noCertifiedItem := ⟨rfl, rfl⟩

/-- parts whose proofs belong to different roots are rejected -/
theorem C11_roots_must_agree {α : Type} [DecidableEq α] (merge : α → α → α)
    (l1 l2 : List α) (p1 p2 : MapProof α) (hne : p1.master.root ≠ p2.master.root) :
    ∀ r, verifyLegacy merge [(l1, p1), (l2, p2)] ≠ .ok r := roots_must_agree merge l1 l2 p1 p2 hne

/-- the `Tx/<tx>/<block>/<n>/<slot>` leaf is injective on items whose fields contain no `/`
(hex hashes, decimal numbers) -/
theorem C11_leaf_injective {t b n s t' b' n' s' : List Char}
    (h1 : '/' ∉ t) (h2 : '/' ∉ b) (h3 : '/' ∉ n) (h4 : '/' ∉ s)
    (h1' : '/' ∉ t') (h2' : '/' ∉ b') (h3' : '/' ∉ n') (h4' : '/' ∉ s')
    (h : txLeaf t b n s = txLeaf t' b' n' s') : t = t' ∧ b = b' ∧ n = n' ∧ s = s' :=
  txLeaf_inj h1 h2 h3 h4 h1' h2' h3' h4' h

/-- observation: with `/` inside a hash field two different items share a leaf (block hashes are
unvalidated strings) -/
theorem C11_leaf_slash_note :
    txLeaf "T".toList "B/1/2".toList "3".toList "4".toList = txLeaf "T".toList "B".toList "1".toList "2/3/4".toList :=
  txLeaf_slash_counterexample

/-- KNOWN FINDING: the stake-distribution leaf `pool_id ‖ decimal stake` is not injective:
`("pool1abc7", 123)` and `("pool1abc", 7123)` have the same leaf -/
theorem C11_stake_leaf_counterexample :
    stakeLeaf "pool1abc7".toList 123 = stakeLeaf "pool1abc".toList 7123 ∧
    ("pool1abc7".toList, 123) ≠ ("pool1abc".toList, 7123) := by decide

/-- … it is injective when both pool identifiers have the same length (bech32 pool ids do) -/
theorem C11_stake_partial (p p' : List Char) (s s' : Nat) (hl : p.length = p'.length)
    (h : stakeLeaf p s = stakeLeaf p' s') : p = p' ∧ natDigits s = natDigits s' :=
  List.append_inj h hl

/-- message binding: the recomputed message (certificate's own message with root / block number /
offset overwritten) has the certificate's signed digest only if the overwritten values are the signed
ones — for messages with the same keys, by C04 -/
def C11_message_binding := @C04.C04_pm_single_value

/-- non-vacuity: a one-part response over a single-leaf tree is accepted (string-free instance) -/
example : setVerify C09.pairM [5] (MapProof.mk { root := 5, leaves := [(0, 5)], size := 1, items := [] } []) = true := by
  decide +kernel

end C11

/-! ## the aggregator's provers (`Prover.lean`) and the client's message builder (`ClientMsg.lean`) -/
namespace C11
open Prover

/-- **the reported certified set = requested ∩ stored at or below the beacon** (`MithrilProverService`,
transactions when `kindTx`, blocks otherwise): an answer with a proof reports exactly the items of the
store — with their stored block number, slot and block hash — that the request names and whose block
number is at or below the beacon -/
theorem C11_prover_certified_exact {kindTx : Bool} {S : List Blk} {cache : Option (RMap Item)} {U : Nat}
    {req : List Nat} {items : List Item} (h : prove2 kindTx S cache U req = .ok items) :
    ∀ x, x ∈ items ↔ StoredItem kindTx S x ∧ x.number ≤ U ∧ x.key ∈ req := by
  intro x; rw [prove2_items h]; exact mem_found

/-- **the reported non-certified set = requested \ certified**, and none of them is stored at or below the
beacon; when no proof is returned nothing requested is -/
theorem C11_prover_non_certified_exact {kindTx : Bool} {S : List Blk} {cache : Option (RMap Item)} {U : Nat}
    {req : List Nat} :
    (∀ items, prove2 kindTx S cache U req = .ok items → ∀ h,
      h ∈ nonCertified req (items.map Item.key) ↔
        h ∈ req ∧ ¬ ∃ x, StoredItem kindTx S x ∧ x.number ≤ U ∧ x.key = h) ∧
    (prove2 kindTx S cache U req = .none →
      ∀ h ∈ req, ¬ ∃ x, StoredItem kindTx S x ∧ x.number ≤ U ∧ x.key = h) := by
  refine ⟨?_, ?_⟩
  · intro items hok h
    rw [mem_nonCertified, prove2_items hok]
    constructor
    · rintro ⟨hr, hn⟩
      refine ⟨hr, ?_⟩
      rintro ⟨x, hs, hu, rfl⟩
      exact hn (List.mem_map.mpr ⟨x, mem_found.mpr ⟨hs, hu, hr⟩, rfl⟩)
    · rintro ⟨hr, hn⟩
      refine ⟨hr, ?_⟩
      intro hm
      obtain ⟨x, hx, rfl⟩ := List.mem_map.mp hm
      obtain ⟨hs, hu, _⟩ := mem_found.mp hx
      exact hn ⟨x, hs, hu, rfl⟩
  · intro hnone h hr
    rintro ⟨x, hs, hu, rfl⟩
    have : x ∈ found kindTx S U req := mem_found.mpr ⟨hs, hu, hr⟩
    rw [prove2_none.mp hnone] at this
    simp at this

/-- **every certified item is committed under the map the signable builder signed for the beacon the
cache was computed for**: the signable for `U` is computed (import, then the map `m`), `compute_cache(U)`
pools `m`; in ANY later state that still pools it — whatever was imported since, whichever beacon the
request names — an answer with a proof reports only items whose leaf is a leaf of the sub-tree `m` commits
under the item's block range, and the proof's root is the root of `m` (a successful replacement keeps every
root of the pooled map). A stale or foreign cache therefore yields a refusal, never a wrong item. -/
theorem C11_prover_items_under_signed_map (s s' : St) (U U' : Nat) (kindTx : Bool) (req : List Nat) (items : List Item)
    (hc : s'.cache2 = (step (step s (.sign2 U)).1 (.cache2 U)).1.cache2)
    (h : prove2 kindTx s'.blocks s'.cache2 U' req = .ok items) :
    ∃ m, (step s (.sign2 U)).2 = .signed2 m ∧ s'.cache2 = some m ∧
      ∀ x ∈ items, ∃ c, m.get (x.number / LEN) = some c ∧ x ∈ c := by
  obtain ⟨m, hm, hall⟩ := prove2_committed h
  refine ⟨m, ?_, hm, fun x hx => ⟨_, (hall x hx).1, (hall x hx).2⟩⟩
  have h1 := (cache_after_sign2 s U).1
  rw [← hc, hm] at h1
  rw [(cache_after_sign2 s U).2, Option.some.inj h1]

/-- the same for the pooled map itself, whatever it is: the entry of the item's range is that range as
the store holds it now, cut at the requested beacon -/
theorem C11_prover_committed {kindTx : Bool} {S : List Blk} {cache : Option (RMap Item)} {U : Nat} {req : List Nat}
    {items : List Item} (h : prove2 kindTx S cache U req = .ok items) :
    ∃ m, cache = some m ∧ ∀ x ∈ items,
      m.get (x.number / LEN) = some (cut nodes2 S (x.number / LEN) U) ∧ x ∈ cut nodes2 S (x.number / LEN) U :=
  prove2_committed h

/-- **legacy prover, beacon at the end of a block range** (C17: every `CardanoTransactions` beacon is):
the reported hashes are exactly the requested ones stored at or below the beacon, in the order of the
request; each is a leaf of a range the pooled map holds exactly as the store does -/
theorem C11_legacy_prover_exact {S : List Blk} {cache : Option (RMap Nat)} {U : Nat} {req cert : List Nat}
    (hal : (U + 1) % LEN = 0) (h : proveL S cache U req = .ok cert) :
    cert = req.filter (fun x => decide (∃ b ∈ S, b.number ≤ U ∧ x ∈ b.txs)) ∧
    (∀ x, x ∈ nonCertified req cert ↔ x ∈ req ∧ ¬ ∃ b ∈ S, b.number ≤ U ∧ x ∈ b.txs) ∧
    ∃ m, cache = some m ∧ ∀ x ∈ cert, ∃ k, m.get k = some (full nodesL S k) ∧ x ∈ full nodesL S k := by
  have he := proveL_exact_aligned hal h
  refine ⟨he, ?_, proveL_committed h⟩
  intro x
  rw [mem_nonCertified, he]
  simp only [List.mem_filter, decide_eq_true_eq, not_and]
  constructor
  · rintro ⟨hr, hn⟩; exact ⟨hr, fun hb => hn hr hb⟩
  · rintro ⟨hr, hn⟩; exact ⟨hr, fun _ hb => hn hb⟩

/-- legacy, beacon strictly inside a range (never produced): a transaction above the beacon is reported —
the whole range is committed (and signed) -/
theorem C11_legacy_unaligned_counterexample :
    (run {} [.grow ((List.range 21).map blk), .imp 20, .signL 5, .cacheL 5, .pl 5 [2003, 2009]]).2.getLast? =
      some (.provedL [2003, 2009] (.ok [2003, 2009]) [(0, full nodesL ((List.range 21).map blk) 0)]) :=
  legacy_unaligned_counterexample

/-- **the certification flow is never refused**: the pooled map computed for the beacon from a store whose
complete ranges at or below the beacon have their roots (`hcover`) and which holds no root for the range the
beacon lies strictly inside (`hinside`), then any import above the beacon: every request for that beacon is
answered — with `C11_prover_certified_exact`, every requested item stored at or below the beacon is
certified -/
theorem C11_prover_not_refused {kindTx : Bool} {S0 ext : List Blk} {roots : RMap Item} {U : Nat} {req : List Nat}
    (hcover : ∀ k, (k + 1) * LEN ≤ U + 1 → full nodes2 S0 k ≠ [] → roots.get k = some (full nodes2 S0 k))
    (hinside : (U + 1) % LEN ≠ 0 → ∀ r ∈ roots, r.1 ≠ U / LEN)
    (hext : ∀ b ∈ ext, U < b.number) :
    ∀ e, prove2 kindTx (S0 ++ ext) (some (mapAt2 nodes2 S0 roots U)) U req ≠ .err e :=
  prove2_not_refused hcover hinside hext

theorem C11_legacy_prover_not_refused {S0 ext : List Blk} {roots : RMap Nat} {U : Nat} {req : List Nat}
    (hal : (U + 1) % LEN = 0)
    (hcover : ∀ k, (k + 1) * LEN ≤ U + 1 → full nodesL S0 k ≠ [] → roots.get k = some (full nodesL S0 k))
    (hext : ∀ b ∈ ext, U < b.number) :
    ∀ e, proveL (S0 ++ ext) (some (mapAtL roots U)) U req ≠ .err e :=
  proveL_not_refused hal hcover hext

/-- KNOWN FINDING (prover side of C13's beacon-inside-stored-range): without `hinside` a stored item below
the signed beacon is refused -/
theorem C11_prover_inside_range_counterexample :
    (run {} [.grow ((List.range 21).map blk), .imp 20, .sign2 5, .cache2 5, .ptx 5 [2003]]).2.getLast? =
      some (.proved2 [2003] (.err .rootDiffers) [(0, full nodes2 ((List.range 21).map blk) 0)]) :=
  inside_range_counterexample

/-- a stale cache (the chain moved on, no new `compute_cache`) refuses the new range instead of serving it -/
theorem C11_prover_stale_cache_refused :
    (run {} [.grow ((List.range 21).map blk), .sign2 20, .cache2 20, .grow ((List.range' 21 20).map blk), .sign2 33,
      .ptx 33 [2031]]).2.getLast? = some (.proved2 [2031] (.err .noKey)
        [(0, full nodes2 ((List.range 21).map blk) 0), (1, cut nodes2 ((List.range 21).map blk) 1 20)]) :=
  stale_cache_refused

/-- non-vacuity: sign, cache, ask (a stored transaction, one above the beacon, an unknown one): one certified
item; the hypotheses of `C11_prover_not_refused` hold for a node that imported exactly to the beacon -/
example : (run {} [.grow ((List.range 21).map blk), .sign2 5, .cache2 5, .ptx 5 [2003, 2007, 4]]).2.getLast? =
    some (.proved2 [2003, 2007, 4] (.ok [.tx 2003 1003 3 60]) [(0, cut nodes2 ((List.range 21).map blk) 0 5)]) :=
  exact_import_example

example : nonCertified [2003, 2007, 4] [2003] = [2007, 4] := by decide

example : (∀ k, (k + 1) * LEN ≤ 5 + 1 → full nodes2 ((List.range 6).map blk) k ≠ [] →
      RMap.get ([] : RMap Item) k = some (full nodes2 ((List.range 6).map blk) k)) ∧
    ((5 + 1) % LEN ≠ 0 → ∀ r ∈ ([] : RMap Item), r.1 ≠ 5 / LEN) := by
  refine ⟨?_, fun _ r hr => by simp at hr⟩
  intro k hk; simp only [LEN] at hk; omega

example : proveL ((List.range 21).map blk) (some [(0, full nodesL ((List.range 21).map blk) 0)]) 14 [2003, 2016, 2003] =
    .ok [2003, 2003] := by decide +kernel

/-- grounding of the abstraction used by `Prover.lean` (a tree is named by its ordered leaves): two leaf
lists with the same `MKTree` root are equal when the merge is injective and no leaf is a merge value
(`MmrBuild.root_injective`); the converse — same leaves, same root — is functionality -/
theorem C11_range_root_faithful {α : Type} (m : α → α → α) (hinj : ∀ a b c d, m a b = m c d → a = c ∧ b = d)
    (ls ls' : List α) (hl : ∀ a ∈ ls, ¬ ExprTree.IsMerge m a) (hl' : ∀ a ∈ ls', ¬ ExprTree.IsMerge m a)
    (r : α) (h : MmrBuild.root m ls = some r) (h' : MmrBuild.root m ls' = some r) : ls = ls' :=
  MmrBuild.root_injective m hinj ls ls' hl hl' r h h'

/-! ### the client: from the verified response to `match_message` -/

/- VACUITY AUDIT: no longer an obligation of the check. the collision disjunct is trivial for every finite digest type. Replaced by: Vacuity.C11.C11_client_match_binds_witness. -/
/-- **message binding of the client's builders**: `match_message` on the message rebuilt from the response
(`MessageBuilder::compute_cardano_transactions_proofs_message`, `…_v2_message`,
`compute_cardano_blocks_proofs_message`, `compute_cardano_stake_distribution_message`) is true only if that
message IS the signed message, part by part — or the digest collides -/
theorem C11_client_match_binds {β : Type} [DecidableEq β] (Hc : List Char → β) (cert signed : ClientMsg.Msg)
    (sets : List ClientMsg.Part) (hw : ClientMsg.WF (ClientMsg.rebuild cert sets)) (hs : ClientMsg.WF signed)
    (h : ClientMsg.matchMessage Hc (ClientMsg.rebuild cert sets) (Hc (ClientMsg.pre signed)) = true) :
    ClientMsg.rebuild cert sets = signed ∨ ∃ x y : List Char, x ≠ y ∧ Hc x = Hc y :=
  ClientMsg.match_binds Hc cert signed sets hw hs h

/- VACUITY AUDIT: no longer an obligation of the check. the collision disjunct is trivial for every finite digest type. Replaced by: Vacuity.C11.C11_client_match_values_witness. -/
/-- … so the Merkle root, block number, offset / epoch the client took from the response are the signed
ones, and every other part of the certificate's own message is the signed one -/
theorem C11_client_match_values {β : Type} [DecidableEq β] (Hc : List Char → β) (cert signed : ClientMsg.Msg)
    (sets : List ClientMsg.Part) (hd : sets.Pairwise (fun a b => a.1 ≠ b.1))
    (hw : ClientMsg.WF (ClientMsg.rebuild cert sets)) (hs : ClientMsg.WF signed)
    (h : ClientMsg.matchMessage Hc (ClientMsg.rebuild cert sets) (Hc (ClientMsg.pre signed)) = true) :
    ((∀ p ∈ sets, ClientMsg.get signed p.1 = some p.2) ∧
      ∀ k, (∀ p ∈ sets, p.1 ≠ k) → ClientMsg.get signed k = ClientMsg.get cert k) ∨
    ∃ x y : List Char, x ≠ y ∧ Hc x = Hc y :=
  ClientMsg.match_values Hc cert signed sets hd hw hs h

/- VACUITY AUDIT: no longer an obligation of the check. reduces to `decide (a = a)`. Replaced by: - (K). -/
/-- … and conversely the message rebuilt from the signed values matches -/
theorem C11_client_match_complete {β : Type} [DecidableEq β] (Hc : List Char → β) (cert signed : ClientMsg.Msg)
    (sets : List ClientMsg.Part) (h : ClientMsg.rebuild cert sets = signed) :
    ClientMsg.matchMessage Hc (ClientMsg.rebuild cert sets) (Hc (ClientMsg.pre signed)) = true :=
  ClientMsg.match_complete Hc cert signed sets h

/-- non-vacuity: a v2 certificate message (root `ab`, block 42, offset 7, epoch 3); the certificate's own
copy of the root is garbled, the response carries the signed values: the rebuilt message is the signed one -/
example : ClientMsg.rebuild [(2, "ff".toList), (5, "3".toList), (6, "42".toList), (7, "7".toList)]
      [(2, "ab".toList), (6, "42".toList), (7, "7".toList)] =
    [(2, "ab".toList), (5, "3".toList), (6, "42".toList), (7, "7".toList)] ∧
    ClientMsg.WF [(2, "ab".toList), (5, "3".toList), (6, "42".toList), (7, "7".toList)] := by
  refine ⟨by decide, ?_⟩
  intro p hp
  simp only [List.mem_cons, List.mem_nil_iff, or_false] at hp
  rcases hp with rfl | rfl | rfl | rfl <;> exact ⟨by decide, by decide⟩

end C11
