import MithrilModel.Registration
import MithrilModel.RegLeader
/-!
# C07 — Signer registration requires a genuine, pool-bound, stake-bound key

Model: `Registration.register` = `KeyRegWrapper::register` (mithril-common, built without
`allow_skip_signer_certification`) + `KesVerifierStandard::verify` + `KeyRegistration::register`
(mithril-stm). The cryptographic checks are uninterpreted primitives (`Prim`).
-/
namespace C07
open Registration

/-- **Acceptance is exactly the conjunction the property lists**: op-cert present and signed by the
cold key; the verification key signed by the KES key named in that very certificate at an evolution
within one period of the announced one (and ≤ 63, the last evolution of the key); valid proof of possession; the pool id derived from
the cold key present in the round's stake distribution, whose value is the recorded stake; key not
already registered. -/
theorem C07_iff (P : Prim) (sd : Nat → Option Nat) (registered : List Nat) (p : Params) (pid st : Nat) :
    register P sd registered p = .ok (pid, st) ↔
      ∃ oc e sig, p.opcert = some oc ∧ p.kesEvolutions = some e ∧ p.kesSig = some sig ∧
        P.opcertOk oc = true ∧
        (∃ t, e - 1 ≤ t ∧ t ≤ e + 1 ∧ t ≤ 63 ∧ P.kesVerify t (P.kesVkOf oc) p.vk sig = true) ∧
        P.poolIdOf (P.coldOf oc) = some pid ∧ sd pid = some st ∧
        P.popVerify p.vk = true ∧ p.vk ∉ registered := register_iff P sd registered p pid st

/-- the recorded stake (and the party id) never depend on values supplied by the registrant -/
theorem C07_stake_from_distribution (P : Prim) (sd registered) (p : Params) (s' : Nat) (pid' : Option Nat) :
    register P sd registered { p with claimedStake := s', partyId := pid' } = register P sd registered p :=
  stake_from_distribution P sd registered p s' pid'

/-- the KES window: exactly the evolutions `e-1 … e+1`, capped at 63 (the last evolution of a Sum6 KES key); empty for `e ≥ 65` -/
theorem C07_window (P : Prim) (oc vk sig e : Nat) :
    kesWindow P oc vk sig e = true ↔
      ∃ t, e - 1 ≤ t ∧ t ≤ e + 1 ∧ t ≤ 63 ∧ P.kesVerify t (P.kesVkOf oc) vk sig = true :=
  kesWindow_iff P oc vk sig e

theorem C07_window_empty (P : Prim) (oc vk sig e : Nat) (he : 65 ≤ e) : kesWindow P oc vk sig e = false := by
  cases h : kesWindow P oc vk sig e with
  | false => rfl
  | true =>
    obtain ⟨t, h1, _, h3, _⟩ := (kesWindow_iff P oc vk sig e).mp h
    omega

/-- the KES key used is the one inside the validated certificate: the verdict is a function of
`P.kesVkOf oc` only -/
theorem C07_kes_bound_to_opcert (P : Prim) (sd registered) (p : Params) (pid st oc : Nat)
    (h : register P sd registered p = .ok (pid, st)) (hoc : p.opcert = some oc) :
    P.opcertOk oc = true ∧ ∃ e sig t, p.kesEvolutions = some e ∧ p.kesSig = some sig ∧
      P.kesVerify t (P.kesVkOf oc) p.vk sig = true := by
  obtain ⟨oc', e, sig, h1, h2, h3, h4, ⟨t, _, _, _, ht⟩, _⟩ := (register_iff P sd registered p pid st).mp h
  rw [hoc] at h1
  cases h1
  exact ⟨h4, e, sig, t, h2, h3, ht⟩

/-- registering a key twice fails and the pool/stake binding of the first registration stands -/
theorem C07_duplicate_rejected (P : Prim) (sd registered) (p : Params) (h : p.vk ∈ registered) :
    ∀ pid st, register P sd registered p ≠ .ok (pid, st) := by
  intro pid st hr
  exact ((register_iff P sd registered p pid st).mp hr).choose_spec.choose_spec.choose_spec.2.2.2.2.2.2.2.2 h

/-- non-vacuity: a registration meeting every clause is accepted -/
example :
    let P : Prim := { opcertOk := fun _ => true, kesVerify := fun t _ _ _ => t == 5, popVerify := fun _ => true,
                      poolIdOf := fun _ => some 9, kesVkOf := fun _ => 0, coldOf := fun _ => 0 }
    register P (fun q => if q = 9 then some 42 else none) []
      { partyId := none, opcert := some 0, vk := 1, kesSig := some 0, kesEvolutions := some 4, claimedStake := 0 }
      = .ok (9, 42) := by rfl

/-! ### at the aggregator (`SignerRegistrationVerifier::verify`, `MithrilSignerRegistrationLeader::register_signer`)

Model: `RegLeader.run` (production configuration `RegLeader.prod`: built without
`allow_skip_signer_certification`, both `fix:` commits in). The store is keyed by (round epoch, party). -/

open RegLeader in
/-- **for every history** of rounds opened and closed, chain KES periods and registration attempts, every
registration the aggregator's store holds meets every clause of the property — op-cert signed by the cold
key, party = pool id derived from it, stake = the round's distribution value for that pool, valid proof of
possession, KES signature valid at an evolution within one period of the evolutions RECORDED for it (the
value every node rebuilds the key registration with) — each (round, party) holds one registration, and no
key is held for two parties of a round. -/
theorem C07_aggregator_store (ops : List Op) :
    let s := (run prod {} ops).1
    (∀ r ∈ s.rows, Justified r) ∧
    (∀ r1 ∈ s.rows, ∀ r2 ∈ s.rows, r1.epoch = r2.epoch → r1.pid = r2.pid → r1 = r2) ∧
    (∀ r1 ∈ s.rows, ∀ r2 ∈ s.rows, r1.epoch = r2.epoch → r1.vk = r2.vk → r1.pid = r2.pid) := by
  have h := run_inv ops {} inv_init
  exact ⟨h.just, h.slot, h.key⟩

/-- FIXED FINDING (verifier): the announced evolutions were recorded although the check ran with the chain's -/
theorem C07_announced_evolutions_counterexample_before_repair :
    let c : RegLeader.Cfg := { skip := false, storeVerifiedEvolutions := false, rejectForeignDuplicate := true }
    let s := (RegLeader.run c {} [.openRound 5 RegLeader.sd0, .reg RegLeader.aLiar]).1
    ∃ r ∈ s.rows, ¬ RegLeader.Justified r := RegLeader.announced_stored_counterexample

/-- FIXED FINDING (leader): another pool registering a pool's public key was stored as well -/
theorem C07_foreign_duplicate_counterexample_before_repair :
    let c : RegLeader.Cfg := { skip := false, storeVerifiedEvolutions := true, rejectForeignDuplicate := false }
    let s := (RegLeader.run c {} [.openRound 5 RegLeader.sd0, .reg RegLeader.aGood, .reg RegLeader.aCopy]).1
    ∃ r1 ∈ s.rows, ∃ r2 ∈ s.rows, r1.epoch = r2.epoch ∧ r1.vk = r2.vk ∧ r1.pid ≠ r2.pid :=
  RegLeader.foreign_duplicate_counterexample

theorem C07_aggregator_repaired :
    (RegLeader.run RegLeader.prod {} [.openRound 5 RegLeader.sd0, .reg RegLeader.aGood, .reg RegLeader.aCopy]).2
      = [.ok 7 10, .duplicateKey] ∧
    ((RegLeader.run RegLeader.prod {} [.openRound 5 RegLeader.sd0, .reg RegLeader.aLiar]).1.rows.map (·.evol)) = [some 0] :=
  RegLeader.repaired_examples

/-- non-vacuity: a valid registration is stored -/
example : ((RegLeader.run RegLeader.prod {} [.openRound 5 RegLeader.sd0, .reg RegLeader.aGood]).1.rows.map (·.pid)) = [7] := by
  decide +kernel

/-- FIXED FINDING (the cap was 64): the KES library accepts a signature made at the last evolution 63 for any
greater value, so with the old cap a signature made at 63 was accepted for an announced value of 65 — two
evolutions away. With the cap at 63 the window of 65 is empty, and every tried evolution is one of the key. -/
theorem C07_evolution_cap (P : Prim) (oc vk sig : Nat) : kesWindow P oc vk sig 65 = false :=
  C07_window_empty P oc vk sig 65 (by decide)

end C07
