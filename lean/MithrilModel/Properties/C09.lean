import MithrilModel.StmTree
import MithrilModel.StmRootInj
import MithrilModel.StmComplete
import MithrilModel.MmrSound
import MithrilModel.Nested
import MithrilModel.MkProof
import MithrilModel.MapLink
/-!
# C09 — Merkle membership proofs cannot vouch for anything outside the committed set

(a) STM registration tree: `StmTree.verifyBatch` (wrapper) around `StmBatch.run` (level loop).
(b) generic Merkle tree `MKProof` = ckb-merkle-mountain-range 0.6.1 `calculate_root`: `Mmr.*`.
(c) nested `MKMapProof`: `Nested.*`.
-/
namespace C09
open StmBatch StmTree

abbrev Collision (H : Bytes → Bytes) : Prop := ∃ x y, x ≠ y ∧ H x = H y

theorem not_inj_collision (H : Bytes → Bytes) (h : ¬ ∀ x y, H x = H y → x = y) : Collision H := by
  obtain ⟨x, hx⟩ := Classical.not_forall.mp h
  obtain ⟨y, hy⟩ := Classical.not_forall.mp hx
  obtain ⟨he, hne⟩ := Classical.not_imp.mp hy
  exact ⟨x, y, hne, he⟩

theorem run_head_zero (H : Bytes → Bytes) (nr : Nat) (Z : Bytes) :
    ∀ (fuel : Nat) (es : List (Nat × Bytes)) (vs : List Bytes) (p : Nat) (h : Bytes) (r : List (Nat × Bytes)),
      run H nr Z fuel es vs = some ((p, h) :: r) → p = 0 := by
  intro fuel
  induction fuel with
  | zero =>
    intro es vs p h r hr
    cases es with
    | nil => simp [run] at hr
    | cons e es =>
      obtain ⟨q, g⟩ := e
      simp only [run] at hr
      split at hr
      · rename_i hq; simp at hr; obtain ⟨⟨rfl, _⟩, _⟩ := hr; exact hq
      · simp at hr
  | succ f ih =>
    intro es vs p h r hr
    cases es with
    | nil => simp [run] at hr
    | cons e es =>
      obtain ⟨q, g⟩ := e
      simp only [run] at hr
      split at hr
      · rename_i hq; simp at hr; obtain ⟨⟨rfl, _⟩, _⟩ := hr; exact hq
      · split at hr
        · simp at hr
        · exact ih _ _ p h r hr

/-- acceptance by the wrapper means the level loop ended in exactly the committed root -/
theorem verifyBatch_ok_run (H : Bytes → Bytes) (root : Bytes) (nr : Nat) (claims values : List Bytes)
    (indices : List Nat) (h : verifyBatch H root nr claims values indices = .ok) :
    claims.length = indices.length ∧
    run H (nr + nextPow2 nr - 1) (H [0]) 65
      ((indices.zip claims).map fun p => (p.1 + (nextPow2 nr - 1), H p.2)) values = some [(0, root)] := by
  unfold verifyBatch at h
  split at h; · simp at h
  rename_i hlen
  split at h; · simp at h
  split at h; · simp at h
  dsimp only at h
  split at h; · simp at h
  split at h; · simp at h
  split at h
  · simp at h
  · split at h
    · simp at h
    · rename_i q g hrun
      split at h
      · rename_i hg
        have := run_head_zero H _ _ _ _ _ q g [] hrun
        subst this; subst hg
        exact ⟨by simpa using hlen, hrun⟩
      · simp at h
    · simp at h

/- VACUITY AUDIT: no longer an obligation of the check. its conclusion has a bare disjunct `Collision H` (some two byte strings collide), which the fixed-output-length hypothesis alone already proves: trivially true, the acceptance hypothesis is never used (Vacuity.C09.C09_stm_sound_says_nothing). Replaced by: Vacuity.C09.C09_stm_sound_witness. -/
/-- **C09(a) soundness of the STM batch-path verifier.** If the verifier accepts `claims` at
`indices` against the commitment `(treeRoot leaves, |leaves|)` then every claimed leaf pre-image is
the committed one at the stated position — or the hash has a collision, or some path value does not
have 32 bytes (the verifier never checks that; see DESIGN `C09_stm_value_length_note`). -/
theorem C09_stm_sound (H : Bytes → Bytes) (hlen : ∀ x, (H x).length = 32)
    (leaves : List Bytes) (hleaf : ∀ l ∈ leaves, l.length = 104)
    (claims : List Bytes) (hclaim : ∀ c ∈ claims, c.length = 104)
    (values : List Bytes) (indices : List Nat)
    (h : verifyBatch H (treeRoot H leaves) leaves.length claims values indices = .ok) :
    (∀ p ∈ indices.zip claims, leaves[p.1]? = some p.2) ∨ Collision H ∨ (∃ v ∈ values, v.length ≠ 32) := by
  by_cases hv : ∀ v ∈ values, v.length = 32
  · by_cases hinj : ∀ x y, H x = H y → x = y
    · left
      obtain ⟨_, hrun⟩ := verifyBatch_ok_run H _ _ _ _ _ h
      have hc : ∀ c ∈ indices.zip claims, c.2.length = 104 := by
        intro c hc
        exact hclaim c.2 (List.of_mem_zip hc).2
      exact batch_sound hinj hlen (leaves.length + nextPow2 leaves.length - 1) leaves hleaf
        (nextPow2 leaves.length - 1) (height leaves.length) (indices.zip claims) hc values hv 65 hrun
    · right; left
      exact not_inj_collision H hinj
  · right; right
    obtain ⟨v, hv'⟩ := Classical.not_forall.mp hv
    obtain ⟨hvm, hl⟩ := Classical.not_imp.mp hv'
    exact ⟨v, hvm, hl⟩

/-- rejection classes of the wrapper that do not depend on hashes -/
theorem C09_stm_rejects_length_mismatch (H : Bytes → Bytes) (root : Bytes) (nr : Nat) (claims values : List Bytes)
    (indices : List Nat) (h : claims.length ≠ indices.length) :
    verifyBatch H root nr claims values indices = .err := by
  unfold verifyBatch; simp [h]

theorem C09_stm_rejects_unsorted (H : Bytes → Bytes) (root : Bytes) (nr : Nat) (claims values : List Bytes)
    (indices : List Nat) (hl : claims.length = indices.length) (h : sortedLE indices = false) :
    verifyBatch H root nr claims values indices = .err := by
  unfold verifyBatch; simp [hl, h]

/-- observations (C05 totality): the verifier panics on an empty index list and on index arithmetic overflow -/
theorem C09_stm_empty_panic_note (H : Bytes → Bytes) (root : Bytes) :
    verifyBatch H root 4 [] [] [] = .panic := by
  unfold verifyBatch; simp [sortedLE, nextPow2, U64]

/- VACUITY AUDIT: no longer an obligation of the check. assumes injectivity of H : Bytes -> Bytes on ALL byte strings together with 32-byte outputs: unsatisfiable (pigeonhole, Vacuity.C09.hinj_hlen_unsatisfiable) - the statement is vacuous. Replaced by: Vacuity.C09.C09_stm_root_injective_witness. -/
/-- C06: committed leaf lists of the same length with equal roots are equal (H injective) -/
theorem C09_stm_root_injective (H : Bytes → Bytes) (hinj : ∀ x y, H x = H y → x = y)
    (hlen : ∀ x, (H x).length = 32) (L L' : List Bytes)
    (hL : ∀ l ∈ L, l.length = 104) (hL' : ∀ l ∈ L', l.length = 104)
    (hn : L.length = L'.length) (h : Nat) (hcap : L.length ≤ 2 ^ h)
    (hroot : sub H L (H [0]) (2 ^ h - 1) h 0 = sub H L' (H [0]) (2 ^ h - 1) h 0) : L = L' :=
  StmBatch.root_inj hinj hlen L L' hL hL' hn h hcap hroot

/-! ## (b) `MKProof` -/
open MkProof Mmr ExprTree in
/-- **C09(b) soundness of `MKProof` (code after the fix)**: an accepted proof whose root is the value
of a committed tree vouches, through `contains`, only for committed leaves — for every injective
`merge` whose values no committed leaf equals, whatever MMR size the proof claims, for values that
are not merge values themselves (that exclusion is exactly the known finding "node as leaf"). -/
theorem C09_mkproof_sound {α : Type} [DecidableEq α] (merge : α → α → α)
    (hinj : ∀ a b c d, merge a b = merge c d → a = c ∧ b = d)
    (t : E α) (hT : ∀ a ∈ ExprTree.leaves t, ¬ IsMerge merge a)
    (p : Proof α) (hroot : p.root = eval merge t) (hv : MkProof.verify merge p = true)
    (x : α) (hc : MkProof.contains p [x] = true) (hx : ¬ IsMerge merge x) : x ∈ ExprTree.leaves t :=
  verify_contains_sound merge hinj t hT p hroot hv x hc hx

/-- an injective merge on `Nat` for the concrete witnesses: shifted Cantor pairing -/
def pairM (a b : Nat) : Nat := (a + b) * (a + b + 1) / 2 + b + 1000

/-- five leaves 1..5 in an MMR of size 8; honest proof for leaf position 1 (value 2) -/
def honestP : MkProof.Proof Nat :=
  { root := pairM 5 (pairM (pairM 1 2) (pairM 3 4)),
    leaves := [(1, 2)], size := 8, items := [1, pairM 3 4, 5] }

/-- FIXED FINDING: before the fix, appending `(same position, FAKE)` verified and `contains FAKE` -/
theorem C09_mkproof_dup_counterexample_prefix :
    let forged : MkProof.Proof Nat := { honestP with leaves := [(1, 2), (1, 999)] }
    Mmr.calcRoot pairM 200 forged.size forged.leaves forged.items
      = Mmr.calcRoot pairM 200 honestP.size honestP.leaves honestP.items ∧
    MkProof.contains forged [999] = true ∧ MkProof.verify pairM forged = false := by
  decide +kernel

/-- KNOWN FINDING (node as leaf): for four leaves `a b c d` the proof (size 3,
leaves [(0, merge a b)], items [merge c d]) verifies against the real root: leaves are not hashed and
the MMR size is not bound by the root. -/
theorem C09_mkproof_node_as_leaf_counterexample :
    let root4 := pairM (pairM 1 2) (pairM 3 4)
    MkProof.verify pairM { root := root4, leaves := [(0, pairM 1 2)], size := 3, items := [pairM 3 4] } = true ∧
    MkProof.contains ({ root := root4, leaves := [(0, pairM 1 2)], size := 3, items := [pairM 3 4] } : MkProof.Proof Nat) [pairM 1 2] = true := by
  decide +kernel

/-- the honest proof of the example verifies (non-vacuity of `C09_mkproof_sound`) -/
example : Mmr.calcRoot pairM 200 honestP.size honestP.leaves honestP.items ≠ none := by decide +kernel

/-! ## (c) nested `MKMapProof` -/
open ExprTree in
/-- **C09(c)**: whatever a verified nested proof of any depth `contains` is the value of a sub-tree of the
single expression tree its root commits to; if it is not a merge value it is a committed leaf. -/
theorem C09_map_sound {α : Type} (merge : α → α → α)
    (hinj : ∀ a b c d, merge a b = merge c d → a = c ∧ b = d)
    (p : NProof α) (x : α) (hC : Contains p x) (t : E α) (hV : Verified merge p)
    (hr : p.root = eval merge t) (hT : ∀ a ∈ leaves t, ¬ IsMerge merge a) (hx : ¬ IsMerge merge x) :
    x ∈ leaves t :=
  nested_sound_leaf merge hinj p x hC t hV hr hT hx

open ExprTree MkProof in
/-- **C09(c) for the executable verifier** (the function compared with `MKMapProof::{verify,contains}` by the
harness): what an accepted nested proof contains and is not a merge value is a committed leaf -/
theorem C09_map_exec_sound {α : Type} [DecidableEq α] (merge : α → α → α)
    (hinj : ∀ a b c d, merge a b = merge c d → a = c ∧ b = d)
    (p : MapProof α) (x : α) (hv : p.verify merge = true) (hc : p.contains x = true)
    (t : E α) (hr : p.master.root = eval merge t) (hT : ∀ a ∈ leaves t, ¬ IsMerge merge a)
    (hx : ¬ IsMerge merge x) : x ∈ leaves t :=
  MapLink.map_verify_contains_sound merge hinj p x hv hc t hr hT hx

/-! ## (a) completeness of the STM batch path -/

/-- **C09(a) completeness of the STM batch path.** For EVERY hash function `H`, every non-empty list of
leaf pre-images with fewer than `2^63` entries (from `2^63` on `verifyBatch` is in the overflow outcomes of
`next_power_of_two` / `nr_leaves + next_power_of_two`) and every non-empty strictly increasing list of
in-range indices: the batch path `MerkleTree::compute_merkle_tree_batch_path` generates for these indices
is accepted by `verify_leaves_membership_from_batch_path` for the leaves at these indices against the
commitment `(root, number of leaves)` of the same tree. No assumption on `H` (no injectivity, no length). -/
theorem C09_stm_complete (H : Bytes → Bytes) (leaves : List Bytes) (hne : leaves ≠ [])
    (hlen : leaves.length < 2 ^ 63) (idx : List Nat) (hidx : idx ≠ [])
    (hsorted : idx.Pairwise (· < ·)) (hin : ∀ i ∈ idx, i < leaves.length) :
    verifyBatch H (treeRoot H leaves) leaves.length (idx.map fun i => leaves[i]!)
      (batchPath H leaves idx) idx = .ok :=
  StmComplete.verifyBatch_complete H leaves hne hlen idx hidx hsorted hin

/-- the instance asked for in DESIGN (T3): at most `2^32` leaves -/
theorem C09_stm_complete_u32 (H : Bytes → Bytes) (leaves : List Bytes) (hne : leaves ≠ [])
    (hlen : leaves.length ≤ 2 ^ 32) (idx : List Nat) (hidx : idx ≠ [])
    (hsorted : idx.Pairwise (· < ·)) (hin : ∀ i ∈ idx, i < leaves.length) :
    verifyBatch H (treeRoot H leaves) leaves.length (idx.map fun i => leaves[i]!)
      (batchPath H leaves idx) idx = .ok :=
  C09_stm_complete H leaves hne (Nat.lt_of_le_of_lt hlen (by decide)) idx hidx hsorted hin

/-- a toy hash for the concrete witnesses: byte sum and length -/
def toyH (x : Bytes) : Bytes := [x.foldl (· + ·) 7, x.length.toUInt8]

/-- five leaves: table positions 7..11 of 12, position 12 is padding -/
def toyLeaves : List Bytes := [[1, 2], [3], [5, 8, 13], [21], [34, 55]]

/-- non-vacuity of `C09_stm_complete`, evaluated: five leaves, indices 0, 2, 4 — the last leaf's right sibling
is the padding value (no path value), positions 3 and 4 of the level above pair up, position 5 takes its
sibling from the path; the generated path has three values and verifies -/
example : verifyBatch toyH (treeRoot toyH toyLeaves) toyLeaves.length
    ([0, 2, 4].map fun i => toyLeaves[i]!) (batchPath toyH toyLeaves [0, 2, 4]) [0, 2, 4] = .ok ∧
    (batchPath toyH toyLeaves [0, 2, 4]).length = 3 := by
  decide +kernel

/-- the same witness is not accepted for a leaf that is not the committed one -/
example : verifyBatch toyH (treeRoot toyH toyLeaves) 5 [[4], [34, 55]]
    (batchPath toyH toyLeaves [1, 4]) [1, 4] = .err := by
  decide +kernel

/-- three leaves, all of them -/
example : verifyBatch toyH (treeRoot toyH (toyLeaves.take 3)) 3 (toyLeaves.take 3)
    (batchPath toyH (toyLeaves.take 3) [0, 1, 2]) [0, 1, 2] = .ok := by
  decide +kernel

end C09
