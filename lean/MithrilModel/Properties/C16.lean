import MithrilModel.Attribution
import MithrilModel.AggAttr
/-!
# C16 — A stored signature is attributed to the party whose registered key produced it

Model: `Agg.sigClass` / `Agg.storeSig` / `Agg.handOver` / `Agg.metadataSigners` (transliteration of
`MithrilCertifierService::register_single_signature`, `MultiSigner::verify_single_signature` after
the `fix:` commit that binds the party id to the key at the signature's signer index, the
insert-or-replace of `single_signature`, `BufferedCertifierService`, and the signer list of
`create_certificate`) and the decision-level model `Attribution` (keys as separate values).
A signature event carries the verdicts of the primitives: `signer` = the party whose registered key
sits at the signature's slot (distinct parties register distinct keys), `ok` = the epochs whose
signer set verifies it, `msg` = the message it signs, `sigma` = the identity of the signature value.
Only property theorems live here; the lemmas are in `MithrilModel/AggAttr.lean`.
-/
namespace C16
open Agg

/-- Bound: a submission is recorded iff there is an open message for the entity that is neither
certified nor expired, the signature signs that message, verifies under the signer set in force,
**the key at its slot is the key the label registered**, and the label is registered for the epoch. -/
theorem C16_bound (s : St) (e : Nat) (g : Sig) :
    sigClass s e g = .registered ↔
      ∃ o, findOm e s.oms = some o ∧ o.certified = false ∧ o.expired = false ∧
        (∃ ep, s.es = some ep ∧ g.msg = o.msg ∧ ep ∈ g.ok ∧ g.party = g.signer) ∧
        g.party ∈ signersOf s.regs (o.epoch - 1) :=
  sigClass_registered_iff s e g

/-- the same at the level of keys (the label's registered key is the key at the slot, and verifies) -/
theorem C16_bound_keys (E : Attribution.Env) (g : Attribution.Sig) (h : Attribution.acceptFixed E g = true) :
    ∃ vk, Attribution.vkOf E g.label = some vk ∧ Attribution.vkAt E g.slot = some vk ∧ E.verifies vk g.sigma = true :=
  Attribution.fixed_bound E g h

/-- Table invariant over every run (ticks, direct and buffered submissions in any order,
registrations, expiries, restarts, ticks cut at any crash point), from the state after genesis:
every stored row sits under the party whose registered key produced it, one row per party. -/
theorem C16_table_inv (E : Env) (n g : Nat) (evs : List Event) :
    (∀ r ∈ (evs.foldl (step E) (init n g)).sigs, r.party = r.signer) ∧
    RowsUnique (evs.foldl (step E) (init n g)) :=
  run_tbl E evs (init n g) (tbl_init n g)

/-- No signature value is stored under two labels: the label is a function of the key that produced
the value (`hσ`: a signature value is produced by one key). -/
theorem C16_no_two_labels (E : Env) (n g : Nat) (evs : List Event)
    (hσ : ∀ a ∈ (evs.foldl (step E) (init n g)).sigs, ∀ b ∈ (evs.foldl (step E) (init n g)).sigs,
      a.sigma = b.sigma → a.signer = b.signer) :
    ∀ a ∈ (evs.foldl (step E) (init n g)).sigs, ∀ b ∈ (evs.foldl (step E) (init n g)).sigs,
      a.sigma = b.sigma → a.party = b.party := by
  intro a ha b hb hab
  have h := (C16_table_inv E n g evs).1
  rw [h a ha, h b hb]
  exact hσ a ha b hb hab

/-- Nothing disappears: recording a signature under one label changes no row of another label and
no row of another open message (both for the direct entrance and for every hand-over step). -/
theorem C16_no_disappear (s : St) (e : Nat) (g : Sig) (r : SigRow) (h : r.entity ≠ e ∨ r.party ≠ g.party) :
    r ∈ (storeSig s e g).sigs ↔ r ∈ s.sigs := storeSig_other s e g r h

theorem C16_no_disappear_keys (tbl : List (Nat × Nat)) (g : Attribution.Sig) (row : Nat × Nat) (h : row.1 ≠ g.label) :
    row ∈ Attribution.store tbl g ↔ row ∈ tbl := Attribution.store_other tbl g row h

/-- a recorded signature never lowers the number of distinct lottery indices on the table of the
open message it does not belong to, and only replaces the own row in its own one -/
theorem C16_other_rows_kept (s : St) (e : Nat) (g : Sig) :
    ∀ r ∈ s.sigs, (r.entity ≠ e ∨ r.party ≠ g.party) → r ∈ (storeSig s e g).sigs :=
  fun r hr h => (storeSig_other s e g r h).mpr hr

/-- The signer list of a certificate names only parties with a stored row produced by their own key. -/
theorem C16_metadata_sound (s : St) (e : Nat) (h : AttrInv s) :
    ∀ p ∈ metadataSigners s e, ∃ r ∈ s.sigs, r.entity = e ∧ r.party = p ∧ r.signer = p := by
  intro p hp
  unfold metadataSigners at hp
  obtain ⟨_, hany⟩ := List.mem_filter.mp hp
  obtain ⟨r, hr, hrp⟩ := List.any_eq_true.mp hany
  obtain ⟨hr1, hr2⟩ := List.mem_filter.mp hr
  have hrp' : r.party = p := by simpa using hrp
  exact ⟨r, hr1, by simpa using hr2, hrp', by rw [← h r hr1]; exact hrp'⟩

/-- All entrances end in the same decision and the same store operation: a hand-over step of a
buffered signature that is registered is exactly the direct registration. -/
theorem C16_all_entrances (E : Env) (s : St) (e : Nat) (b : BufSig) (h : sigClass s e b.sig = .registered) :
    (handOverGo s e [b] []).1 = registerSig E s e b.sig := by
  simp [handOverGo, registerSig, h]

/-- The defect that was repaired (kept as documentation and as the regression witness the harness
replays): with the label never consulted, a copy of party 1's signature submitted under label 0 is
recorded, and the same value then sits under two labels; the repaired decision rejects it. -/
theorem C16_relabel_counterexample :
    sigClassUnbound wS 7 wCopy = .registered ∧ sigClass wS 7 wCopy = .invalid ∧
    ((storeSig wS 7 wCopy).sigs.map (fun r => (r.party, r.sigma))) = [(1, 11), (0, 11)] :=
  relabel_witness

theorem C16_relabel_counterexample_keys :
    Attribution.acceptCurrent Attribution.E0 { label := 10, slot := 1, sigma := 200 } = true ∧
    Attribution.acceptFixed Attribution.E0 { label := 10, slot := 1, sigma := 200 } = false ∧
    Attribution.store [(10, 100), (20, 200)] { label := 10, slot := 1, sigma := 200 } = [(20, 200), (10, 200)] :=
  Attribution.relabel_counterexample

/-- non-vacuity: an own signature is recorded in the witness state -/
example : sigClass wS 7 { wCopy with party := 1 } = .registered := by decide

end C16
