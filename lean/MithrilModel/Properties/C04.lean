import MithrilModel.CertModel
import MithrilModel.PhiModel
import MithrilModel.PmInj
/-!
# C04 — Certificates are tamper-evident and survive the wire unchanged

Model: `CertModel.certHash` etc. (hash pre-images byte for byte), parametric in the hash `H`.
Every statement has the form "equal hashes ⇒ equal field ∨ Collision H".
-/
namespace C04
open CertModel
open CertHash (Bytes Collision u64be u64be_inj u64be_length mid_cancel toUInt8_inj)

variable (H : Bytes → Bytes)

/- VACUITY AUDIT: no longer an obligation of the check. its conclusion has a bare disjunct `Collision H` (some two byte strings collide), which the fixed-output-length hypothesis alone already proves: trivially true, the acceptance hypothesis is never used at the intended instance SHA-256 (Vacuity.C04.C04_collision_disjunct_trivial). Replaced by: Vacuity.C04.C04_cert_single_segment_at. -/
/-- master statement: two certificates whose ten hashed segments agree outside position `i` and whose
hashes are equal agree at position `i` too, or the hash collides -/
theorem C04_cert_single_segment (c c' : Cert) (i : Nat)
    (hagree : ∀ j, j ≠ i → (certSegs H c)[j]? = (certSegs H c')[j]?)
    (hh : certHash H c = certHash H c') :
    (certSegs H c)[i]? = (certSegs H c')[i]? ∨ Collision H := by
  rcases hexH_eq H _ _ hh with hp | hc
  · exact Or.inl (segs_single _ _ i rfl hagree hp)
  · exact Or.inr hc

macro "agree_outside" : tactic =>
  `(tactic| (intro j hj; rcases j with _|_|_|_|_|_|_|_|_|_|j <;> first | rfl | exact absurd rfl hj | simp [certSegs]))

/- VACUITY AUDIT: no longer an obligation of the check. its conclusion has a bare disjunct `Collision H` (some two byte strings collide), which the fixed-output-length hypothesis alone already proves: trivially true, the acceptance hypothesis is never used at the intended instance SHA-256 (Vacuity.C04.C04_collision_disjunct_trivial). Replaced by: Vacuity.C04.C04_field_previous_hash_at. -/
theorem C04_field_previous_hash (c : Cert) (p' : Bytes)
    (hh : certHash H c = certHash H { c with previousHash := p' }) : c.previousHash = p' ∨ Collision H := by
  rcases C04_cert_single_segment H c { c with previousHash := p' } 0 (by agree_outside) hh with h | h
  · left; simpa [certSegs] using h
  · exact Or.inr h

/- VACUITY AUDIT: no longer an obligation of the check. its conclusion has a bare disjunct `Collision H` (some two byte strings collide), which the fixed-output-length hypothesis alone already proves: trivially true, the acceptance hypothesis is never used at the intended instance SHA-256 (Vacuity.C04.C04_collision_disjunct_trivial). Replaced by: Vacuity.C04.C04_field_epoch_at. -/
theorem C04_field_epoch (c : Cert) (e' : Nat) (he : c.epoch < 2^64) (he' : e' < 2^64)
    (hh : certHash H c = certHash H { c with epoch := e' }) : c.epoch = e' ∨ Collision H := by
  rcases C04_cert_single_segment H c { c with epoch := e' } 1 (by agree_outside) hh with h | h
  · left; exact u64be_inj he he' (by simpa [certSegs] using h)
  · exact Or.inr h

/- VACUITY AUDIT: no longer an obligation of the check. its conclusion has a bare disjunct `Collision H` (some two byte strings collide), which the fixed-output-length hypothesis alone already proves: trivially true, the acceptance hypothesis is never used at the intended instance SHA-256 (Vacuity.C04.C04_collision_disjunct_trivial). Replaced by: Vacuity.C04.C04_field_signed_message_at. -/
theorem C04_field_signed_message (c : Cert) (m' : Bytes)
    (hh : certHash H c = certHash H { c with signedMessage := m' }) : c.signedMessage = m' ∨ Collision H := by
  rcases C04_cert_single_segment H c { c with signedMessage := m' } 4 (by agree_outside) hh with h | h
  · left; simpa [certSegs] using h
  · exact Or.inr h

/- VACUITY AUDIT: no longer an obligation of the check. its conclusion has a bare disjunct `Collision H` (some two byte strings collide), which the fixed-output-length hypothesis alone already proves: trivially true, the acceptance hypothesis is never used at the intended instance SHA-256 (Vacuity.C04.C04_collision_disjunct_trivial). Replaced by: Vacuity.C04.C04_field_avk_at. -/
theorem C04_field_avk (c : Cert) (a' : Bytes)
    (hh : certHash H c = certHash H { c with avkHex := a' }) : c.avkHex = a' ∨ Collision H := by
  rcases C04_cert_single_segment H c { c with avkHex := a' } 5 (by agree_outside) hh with h | h
  · left; simpa [certSegs] using h
  · exact Or.inr h

/- VACUITY AUDIT: no longer an obligation of the check. its conclusion has a bare disjunct `Collision H` (some two byte strings collide), which the fixed-output-length hypothesis alone already proves: trivially true, the acceptance hypothesis is never used at the intended instance SHA-256 (Vacuity.C04.C04_collision_disjunct_trivial). Replaced by: Vacuity.C04.C04_field_signature_at. -/
theorem C04_field_signature (c : Cert) (s' : Bytes)
    (hh : certHash H c = certHash H { c with sigHex := s' }) : c.sigHex = s' ∨ Collision H := by
  rcases C04_cert_single_segment H c { c with sigHex := s' } 7 (by agree_outside) hh with h | h
  · left; simpa [certSegs] using h
  · exact Or.inr h

/-- ancillary data: changing the bytes (present on both sides) changes the hash; `none` and
`some []` feed the same bytes (observation) -/
theorem C04_field_ancillary_prover (c : Cert) (a a' : Bytes) (hc : c.ancProver = some a)
    (hh : certHash H c = certHash H { c with ancProver := some a' }) : a = a' ∨ Collision H := by
  rcases C04_cert_single_segment H c { c with ancProver := some a' } 8 (by agree_outside) hh with h | h
  · left; simpa [certSegs, hc, optB] using h
  · exact Or.inr h

theorem C04_field_ancillary_verifier (c : Cert) (a a' : Bytes) (hc : c.ancVerifier = some a)
    (hh : certHash H c = certHash H { c with ancVerifier := some a' }) : a = a' ∨ Collision H := by
  rcases C04_cert_single_segment H c { c with ancVerifier := some a' } 9 (by agree_outside) hh with h | h
  · left; simpa [certSegs, hc, optB] using h
  · exact Or.inr h

/- VACUITY AUDIT: no longer an obligation of the check. its conclusion has a bare disjunct `Collision H` (some two byte strings collide), which the fixed-output-length hypothesis alone already proves: trivially true, the acceptance hypothesis is never used at the intended instance SHA-256 (Vacuity.C04.C04_collision_disjunct_trivial). Replaced by: Vacuity.C04.C04_field_metadata_at. -/
/-- metadata as a whole: equal certificate hashes force equal metadata pre-images -/
theorem C04_field_metadata (c : Cert) (m' : Meta)
    (hh : certHash H c = certHash H { c with metadata := m' }) :
    (metaSegs H c.metadata).flatten = (metaSegs H m').flatten ∨ Collision H := by
  rcases C04_cert_single_segment H c { c with metadata := m' } 2 (by agree_outside) hh with h | h
  · have : metaHash H c.metadata = metaHash H m' := by simpa [certSegs] using h
    exact hexH_eq H _ _ this
  · exact Or.inr h

/-- inside the metadata: one changed segment (same number of signers) is detected -/
theorem C04_meta_single_segment (m m' : Meta) (i : Nat) (hlen : m.signers.length = m'.signers.length)
    (hagree : ∀ j, j ≠ i → (metaSegs H m)[j]? = (metaSegs H m')[j]?)
    (hflat : (metaSegs H m).flatten = (metaSegs H m').flatten) :
    (metaSegs H m)[i]? = (metaSegs H m')[i]? :=
  segs_single _ _ i (by simp [metaSegs, hlen]) hagree hflat

macro "agree_meta" : tactic =>
  `(tactic| (intro j hj; rcases j with _|_|_|_|_|j <;> first | rfl | exact absurd rfl hj | simp [metaSegs]))

theorem C04_meta_network (m : Meta) (n' : Bytes)
    (hflat : (metaSegs H m).flatten = (metaSegs H { m with network := n' }).flatten) : m.network = n' := by
  have := C04_meta_single_segment H m { m with network := n' } 0 rfl (by agree_meta) hflat
  simpa [metaSegs] using this

theorem C04_meta_version (m : Meta) (v' : Bytes)
    (hflat : (metaSegs H m).flatten = (metaSegs H { m with version := v' }).flatten) : m.version = v' := by
  have := C04_meta_single_segment H m { m with version := v' } 1 rfl (by agree_meta) hflat
  simpa [metaSegs] using this

theorem C04_meta_initiated_at (m : Meta) (t' : Int)
    (h1 : -(2^63) ≤ m.initiatedNs ∧ m.initiatedNs < 2^63) (h2 : -(2^63) ≤ t' ∧ t' < 2^63)
    (hflat : (metaSegs H m).flatten = (metaSegs H { m with initiatedNs := t' }).flatten) : m.initiatedNs = t' := by
  have := C04_meta_single_segment H m { m with initiatedNs := t' } 3 rfl (by agree_meta) hflat
  exact i64be_inj h1 h2 (by simpa [metaSegs] using this)

theorem C04_meta_sealed_at (m : Meta) (t' : Int)
    (h1 : -(2^63) ≤ m.sealedNs ∧ m.sealedNs < 2^63) (h2 : -(2^63) ≤ t' ∧ t' < 2^63)
    (hflat : (metaSegs H m).flatten = (metaSegs H { m with sealedNs := t' }).flatten) : m.sealedNs = t' := by
  have := C04_meta_single_segment H m { m with sealedNs := t' } 4 rfl (by agree_meta) hflat
  exact i64be_inj h1 h2 (by simpa [metaSegs] using this)

/- VACUITY AUDIT: no longer an obligation of the check. its conclusion has a bare disjunct `Collision H` (some two byte strings collide), which the fixed-output-length hypothesis alone already proves: trivially true, the acceptance hypothesis is never used at the intended instance SHA-256 (Vacuity.C04.C04_collision_disjunct_trivial). Replaced by: Vacuity.C04.C04_params_at. -/
/-- protocol parameters, compared at the protocol's fixed-point precision (U8F24 pattern) -/
theorem C04_params (p p' : Params) (hk : p.k < 2^64) (hk' : p'.k < 2^64) (hm : p.m < 2^64) (hm' : p'.m < 2^64)
    (hf : PhiOk p.phi) (hf' : PhiOk p'.phi)
    (hh : paramsHash H p = paramsHash H p') : p = p' ∨ Collision H := by
  rcases hexH_eq H _ _ hh with hp | hc
  · left
    simp only [paramsSegs, List.flatten_cons, List.flatten_nil, List.append_nil] at hp
    have h1 := List.append_inj hp (by rfl)
    have h2 := List.append_inj h1.2 (by rfl)
    have ek := u64be_inj hk hk' h1.1
    have em := u64be_inj hm hm' h2.1
    have ef := phiSeg_inj hf hf' h2.2
    cases p; cases p'; simp_all
  · exact Or.inr hc

theorem C04_meta_params (m : Meta) (p' : Params)
    (hb : m.params.k < 2^64 ∧ m.params.m < 2^64 ∧ PhiOk m.params.phi)
    (hb' : p'.k < 2^64 ∧ p'.m < 2^64 ∧ PhiOk p'.phi)
    (hflat : (metaSegs H m).flatten = (metaSegs H { m with params := p' }).flatten) :
    m.params = p' ∨ Collision H := by
  have := C04_meta_single_segment H m { m with params := p' } 2 rfl (by agree_meta) hflat
  exact C04_params H _ _ hb.1 hb'.1 hb.2.1 hb'.2.1 hb.2.2 hb'.2.2 (by simpa [metaSegs] using this)

/- VACUITY AUDIT: no longer an obligation of the check. its conclusion has a bare disjunct `Collision H` (some two byte strings collide), which the fixed-output-length hypothesis alone already proves: trivially true, the acceptance hypothesis is never used at the intended instance SHA-256 (Vacuity.C04.C04_collision_disjunct_trivial). Replaced by: Vacuity.C04.C04_party_at. -/
/-- one signer of the list (id or stake) changed -/
theorem C04_party (p p' : Party) (hs : p.stake < 2^64) (hs' : p'.stake < 2^64)
    (hh : partyHash H p = partyHash H p') : p = p' ∨ Collision H := by
  rcases hexH_eq H _ _ hh with hp | hc
  · left
    simp only [partySegs, List.flatten_cons, List.flatten_nil, List.append_nil] at hp
    -- id ++ stake8 = id' ++ stake8' : split from the right (the stake has 8 bytes)
    have hl : p.id.length = p'.id.length := by
      have := congrArg List.length hp
      simp [u64be_length] at this; omega
    have h1 := List.append_inj hp hl
    have es := u64be_inj hs hs' h1.2
    cases p; cases p'; simp_all
  · exact Or.inr hc

/-- KNOWN FINDING: signed-entity variants with the same numbers feed the same bytes, so two
certificates differing only in the signed-entity VARIANT have the same hash. -/
theorem C04_entity_collision (e n : Nat) :
    feedEntity (.msd e) = feedEntity (.csd e) ∧ feedEntity (.cdb e n) = feedEntity (.ctx e n) := ⟨rfl, rfl⟩

theorem C04_entity_collision_cert (c : Cert) (e n : Nat) (hc : c.entity = some (.cdb e n)) :
    certHash H c = certHash H { c with entity := some (.ctx e n) } := by
  simp [certHash, certSegs, hc, feedEntity]

/-- within one variant the fed bytes determine the beacon -/
theorem C04_entity_partial_msd (e e' : Nat) (h : e < 2^64) (h' : e' < 2^64)
    (hf : feedEntity (.msd e) = feedEntity (.msd e')) : e = e' := u64be_inj h h' hf

theorem C04_entity_partial_cdb (e i e' i' : Nat) (h : e < 2^64) (h' : e' < 2^64) (hi : i < 2^64) (hi' : i' < 2^64)
    (hf : feedEntity (.cdb e i) = feedEntity (.cdb e' i')) : e = e' ∧ i = i' := by
  simp only [feedEntity] at hf
  have := List.append_inj hf (by rfl)
  exact ⟨u64be_inj h h' this.1, u64be_inj hi hi' this.2⟩

theorem pmSegs_length (pm : List (Bytes × Bytes)) : (pmSegs pm).length = 2 * pm.length := by
  induction pm with
  | nil => rfl
  | cons a r ih => simp [pmSegs] at ih ⊢; omega

/- VACUITY AUDIT: no longer an obligation of the check. its conclusion has a bare disjunct `Collision H` (some two byte strings collide), which the fixed-output-length hypothesis alone already proves: trivially true, the acceptance hypothesis is never used at the intended instance SHA-256 (Vacuity.C04.C04_collision_disjunct_trivial). Replaced by: Vacuity.C04.C04_pm_single_value_at. -/
/-- protocol message: with the same keys, one changed value is detected -/
theorem C04_pm_single_value (pm pm' : List (Bytes × Bytes)) (i : Nat) (hl : pm.length = pm'.length)
    (hagree : ∀ j, j ≠ i → (pmSegs pm)[j]? = (pmSegs pm')[j]?)
    (hh : pmHash H pm = pmHash H pm') : (pmSegs pm)[i]? = (pmSegs pm')[i]? ∨ Collision H := by
  rcases hexH_eq H _ _ hh with hp | hc
  · exact Or.inl (segs_single _ _ i (by rw [pmSegs_length, pmSegs_length, hl]) hagree hp)
  · exact Or.inr hc

/- VACUITY AUDIT: no longer an obligation of the check. its conclusion has a bare disjunct `Collision H` (some two byte strings collide), which the fixed-output-length hypothesis alone already proves: trivially true, the acceptance hypothesis is never used at the intended instance SHA-256 (Vacuity.C04.C04_collision_disjunct_trivial). Replaced by: Vacuity.C04.C04_pm_digest_injective_at. -/
/-- **two protocol messages built from well-formed part values have the same digest only if they are
equal** (second sentence of the property): the digest pre-image `k₁v₁…kₙvₙ` (no separators) parses uniquely
when the keys come from the table of twelve part names and the values are over `[0-9a-f]*` (hex digests,
decimal numbers, hex-encoded keys) — `PmInj.preimage_injective`, by a lexer that is proved to invert the
encoder. Holds for any order and multiplicity of the parts; `Hc` is the digest function on the text. -/
theorem C04_pm_digest_injective {β : Type} (Hc : List Char → β)
    (m m' : List (List Char × List Char)) (h : PmInj.WF m) (h' : PmInj.WF m')
    (he : Hc (PmInj.pre m) = Hc (PmInj.pre m')) :
    m = m' ∨ ∃ x y : List Char, x ≠ y ∧ Hc x = Hc y := by
  by_cases hp : PmInj.pre m = PmInj.pre m'
  · exact Or.inl (PmInj.preimage_injective m m' h h' hp)
  · exact Or.inr ⟨_, _, hp, he⟩

/-- non-vacuity of the grammar: a message with a digest, a number and the prefix-pair keys is well formed -/
example : PmInj.WF [("snapshot_digest".toList, "00ab".toList), ("next_aggregate_verification_key".toList, "7b22".toList),
    ("next_aggregate_verification_key_snark".toList, "".toList), ("current_epoch".toList, "42".toList)] := by
  intro kv hkv
  simp only [List.mem_cons, List.mem_nil_iff, or_false] at hkv
  rcases hkv with rfl | rfl | rfl | rfl <;> exact ⟨by decide, by decide⟩

/-- non-vacuity: the hypotheses of the epoch statement are met by a concrete certificate -/
example : (7 : Nat) < 2^64 ∧ (8 : Nat) < 2^64 := by decide

/-! ### `phi_f : f64` → what is hashed and compared (`PhiModel`) -/

/-- every double enters the hash through a well-formed `Phi` (so `C04_params` applies to it) -/
theorem C04_phi_ok (bits : Nat) (h : bits < 2 ^ 64) : PhiOk (PhiModel.phiOfF64 bits) := PhiModel.phiOfF64_ok bits h

/-- FIXED FINDING: before the repair the conversion wrapped (outside debug builds): 256.2 and 0.2 gave one pattern -/
theorem C04_phi_wrap_counterexample_before_repair :
    PhiModel.u8f24Wrapped 0x4070033333333333 = PhiModel.u8f24Wrapped 0x3FC999999999999A := PhiModel.wrap_counterexample

/-- … now 256.2, a NaN and a negative value are hashed on their own bits, 0.2 on its pattern -/
theorem C04_phi_repaired :
    PhiModel.phiOfF64 0x4070033333333333 = .raw 0x4070033333333333 ∧ PhiModel.phiOfF64 0x3FC999999999999A = .fixed 3355443 ∧
    PhiModel.phiOfF64 0x7FF8000000000000 = .raw 0x7FF8000000000000 ∧ PhiModel.phiOfF64 0xBFD3333333333333 = .raw 0xBFD3333333333333 :=
  PhiModel.wrap_repaired

end C04
