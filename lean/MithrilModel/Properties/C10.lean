import MithrilModel.DbVerify
/-!
# C10 — A restored Cardano database is accepted only if every file is the certified one

Model: `Db.verify` (`verify_cardano_database` after the two `fix:` commits), `Db.verifyDigests`
(`download_and_verify_digests`), both in `MithrilModel/DbVerify.lean`, for arbitrary name and digest
types (the hash function never appears: the harness sends the SHA-256 values it computed).
Only property theorems live here.
-/
namespace C10
open Db

variable {ν δ : Type} [DecidableEq ν] [DecidableEq δ]

/-- the specification, written from the property text: the directory `d` satisfies the certified
list on the range `lo..hi` when every name of the range is present (unless gaps are allowed), whatever
is under a name of the range is a regular file, and every regular immutable file whose number lies in
the range — under whatever name — has the digest the certified list gives to that very name -/
def Satisfies (N : Names ν) (certified : List (ν × δ)) (d : List (ν × Kind δ)) (lo hi : Nat)
    (allowMissing : Bool) : Prop :=
  (allowMissing = false → ∀ k, lo ≤ k → k ≤ hi → ∀ n ∈ N.trio k, present d n = true) ∧
  (∀ k, lo ≤ k → k ≤ hi → ∀ n ∈ N.trio k, ∀ kd, lookup n d = some kd → ∃ dg, kd = Kind.file dg) ∧
  (∀ n dg k, (n, Kind.file dg) ∈ d → N.immExt n = true → N.number n = some k → lo ≤ k → k ≤ hi →
      lookup n certified = some dg)

/-- **Soundness** — acceptance implies the specification (for every directory content: modified,
truncated, swapped, duplicated or foreign files, symbolic links, directories) -/
theorem C10_sound (N : Names ν) (certified : List (ν × δ)) (dir : Option (List (ν × Kind δ)))
    (range : Range) (last : Nat) (allowMissing : Bool)
    (h : verify N certified dir range last allowMissing = .accepted) :
    ∃ d lo hi, dir = some d ∧ range.bounds last = some (lo, hi) ∧
      Satisfies N certified d lo hi allowMissing := by
  obtain ⟨d, lo, hi, h1, h2, h3, h4, _, h6⟩ := verify_sound N certified dir range last allowMissing h
  exact ⟨d, lo, hi, h1, h2, h3, h6, h4⟩

/-- an accepted database contains at least one verified file of the range (an empty range of files
is never "verified") -/
theorem C10_accepted_nonempty (N : Names ν) (certified : List (ν × δ)) (dir : Option (List (ν × Kind δ)))
    (range : Range) (last : Nat) (allowMissing : Bool)
    (h : verify N certified dir range last allowMissing = .accepted) :
    ∃ d lo hi n dg k, dir = some d ∧ range.bounds last = some (lo, hi) ∧ (n, Kind.file dg) ∈ d ∧
      N.number n = some k ∧ lo ≤ k ∧ k ≤ hi ∧ lookup n certified = some dg := by
  obtain ⟨d, lo, hi, h1, h2, _, h4, ⟨n, dg, k, a, b, c, e, f⟩, _⟩ :=
    verify_sound N certified dir range last allowMissing h
  exact ⟨d, lo, hi, n, dg, k, h1, h2, a, c, e, f, h4 n dg k a b c e f⟩

/-- **The report is complete** — on a rejection every offending name is listed: missing names under
`missing`, files with another digest than the certified one under `tampered`, files the list does not
know and names that are not regular files under `non_verifiable` -/
theorem C10_report_complete (N : Names ν) (certified : List (ν × δ)) (dir : Option (List (ν × Kind δ)))
    (range : Range) (last : Nat) (allowMissing : Bool) (m t nv : List ν)
    (h : verify N certified dir range last allowMissing = .rejected m t nv) :
    ∃ d lo hi, dir = some d ∧ range.bounds last = some (lo, hi) ∧
      (allowMissing = false → ∀ k, lo ≤ k → k ≤ hi → ∀ n ∈ N.trio k, present d n = false → n ∈ m) ∧
      (∀ n dg k, (n, Kind.file dg) ∈ d → N.immExt n = true → N.number n = some k → lo ≤ k → k ≤ hi →
          (∀ d', lookup n certified = some d' → d' ≠ dg → n ∈ t) ∧
          (lookup n certified = none → n ∈ nv)) ∧
      (∀ k, lo ≤ k → k ≤ hi → ∀ n ∈ N.trio k, ∀ kd, lookup n d = some kd → (∀ dg, kd ≠ Kind.file dg) → n ∈ nv) :=
  verify_report_complete N certified dir range last allowMissing m t nv h

/-- … and exact: nothing is listed without being an offender -/
theorem C10_report_exact (N : Names ν) (certified : List (ν × δ)) (dir : Option (List (ν × Kind δ)))
    (range : Range) (last : Nat) (allowMissing : Bool) (m t nv : List ν)
    (h : verify N certified dir range last allowMissing = .rejected m t nv) :
    ∃ d lo hi, dir = some d ∧ range.bounds last = some (lo, hi) ∧
      (∀ n ∈ m, allowMissing = false ∧ present d n = false ∧ ∃ k, lo ≤ k ∧ k ≤ hi ∧ n ∈ N.trio k) ∧
      (∀ n ∈ t, ∃ dg d', (n, Kind.file dg) ∈ d ∧ lookup n certified = some d' ∧ d' ≠ dg) ∧
      (∀ n ∈ nv, ((∃ dg, (n, Kind.file dg) ∈ d) ∧ lookup n certified = none) ∨
          ∃ kd, lookup n d = some kd ∧ ∀ dg, kd ≠ Kind.file dg) :=
  verify_report_exact N certified dir range last allowMissing m t nv h

/-- a verdict other than acceptance or a report is an error raised before any comparison
(no such range, no `immutable` directory, a file name without a number) -/
theorem C10_verdicts (N : Names ν) (certified : List (ν × δ)) (dir : Option (List (ν × Kind δ)))
    (range : Range) (last : Nat) (allowMissing : Bool) :
    (range.bounds last = none → verify N certified dir range last allowMissing = .rangeError) ∧
    (∀ b, range.bounds last = some b → dir = none →
        verify N certified dir range last allowMissing = .digesterError) := by
  constructor
  · intro h; simp [verify, h]
  · intro b h hd; subst hd; obtain ⟨lo, hi⟩ := b; simp [verify, h]

/-- `to_range_inclusive`: the ranges are exactly the ones the property names, clipped by the beacon -/
theorem C10_range_bounds (r : Range) (last lo hi : Nat) (h : r.bounds last = some (lo, hi)) :
    lo ≤ hi ∧ hi ≤ last ∧
    (match r with
     | .full => lo = 0 ∧ hi = last
     | .from_ a => lo = a ∧ hi = last
     | .range a b => lo = a ∧ hi = b
     | .upTo b => lo = 0 ∧ hi = b) := by
  cases r with
  | full => simp [Range.bounds] at h; omega
  | from_ a =>
    simp only [Range.bounds] at h
    split at h
    · simp at h; omega
    · cases h
  | range a b =>
    simp only [Range.bounds] at h
    split at h
    · simp at h; omega
    · cases h
  | upTo b =>
    simp only [Range.bounds] at h
    split at h
    · simp at h; omega
    · cases h

/-- **The digest list is accepted only if it reproduces the signed leaves** (list form used by the driver) -/
theorem C10_digests_binding (N : Names ν) (l : List (ν × δ)) (last : Nat) (signedLeaves : List δ)
    (certOk : Bool) (f : List (ν × δ)) (h : verifyDigests N l last signedLeaves certOk = some f) :
    f = served N l last ∧ f.map (·.2) = signedLeaves ∧ certOk = true ∧ f ≠ [] :=
  verifyDigests_binding N l last signedLeaves certOk f h

/-- **Root binding** — the same on Merkle roots: for every injective merge whose values no leaf equals,
a served list whose root is the signed root carries exactly the certified digests, in order
(root injectivity of the MMR builder, `MmrBuild.root_injective`, any number of leaves) -/
theorem C10_root_binding (m : δ → δ → δ) (hinj : ∀ a b c d, m a b = m c d → a = c ∧ b = d)
    (N : Names ν) (l : List (ν × δ)) (last : Nat) (signedRoot : δ) (certifiedLeaves : List δ)
    (hc : MmrBuild.root m certifiedLeaves = some signedRoot)
    (hl : ∀ a ∈ certifiedLeaves, ¬ ExprTree.IsMerge m a)
    (f : List (ν × δ)) (hl' : ∀ a ∈ (served N l last).map (·.2), ¬ ExprTree.IsMerge m a)
    (h : verifyDigestsRoot m N l last signedRoot = some f) :
    f = served N l last ∧ f.map (·.2) = certifiedLeaves :=
  root_binding m hinj N l last signedRoot certifiedLeaves hc hl f hl' h

/-! ## concrete witnesses; names are numbers here: `10·(3·number + extension)`, so that other names fit in between -/

def natNames : Names Nat where
  number := fun x => some (x / 30)
  immExt := fun _ => true
  trio := fun n => [30 * n, 30 * n + 10, 30 * n + 20]
  lt := fun a b => decide (a < b)

/-- FIXED (commit 820790af0), witness kept: contents of two certified names exchanged. The function
as it was accepted it (`DbVerify.verifyCurrent`), the code as it is reports both names as tampered. -/
theorem C10_swap_counterexample_prefix :
    DbVerify.verifyCurrent [(1, 11), (2, 22)] [(1, 22), (2, 11)] [1, 2] false = .ok () :=
  DbVerify.swap_counterexample.1

theorem C10_swap_rejected :
    verify natNames [(30, 11), (40, 12), (50, 13), (60, 21), (70, 22), (80, 23)]
      (some [(30, .file 21), (40, .file 12), (50, .file 13), (60, .file 11), (70, .file 22), (80, .file 23)])
      (.from_ 1) 2 false = .rejected [] [30, 60] [] := by decide

/-- one certified content copied over another name -/
theorem C10_copy_rejected :
    verify natNames [(30, 11), (40, 12), (50, 13)]
      (some [(30, .file 11), (40, .file 11), (50, .file 13)]) (.range 1 1) 1 false
      = .rejected [] [40] [] := by decide

/-- a certified content under a foreign name (another zero padding parses to the same number) -/
theorem C10_foreign_name_rejected :
    verify natNames [(30, 11), (40, 12), (50, 13)]
      (some [(30, .file 11), (40, .file 12), (50, .file 13), (31, .file 12)]) (.range 1 1) 1 false
      = .rejected [] [] [31] := by decide

/-- FIXED (commit c35b8910c), witness kept: a symbolic link (or a directory) under a certified name is
not digested; it is now reported, also when gaps are allowed -/
theorem C10_symlink_rejected :
    verify natNames [(30, 11), (40, 12), (50, 13)]
      (some [(30, .link true), (40, .file 12), (50, .file 13)]) (.range 1 1) 1 true
      = .rejected [] [] [30] ∧
    verify natNames [(30, 11), (40, 12), (50, 13)]
      (some [(30, .file 11), (40, .dir), (50, .file 13)]) (.range 1 1) 1 false
      = .rejected [] [] [40] := by decide

/-- KNOWN FINDING (digest-names-unbound): the full statement — an accepted digest list gives every
name the digest the signed database has under that name — is false. The signed root binds the ORDER of
the digests, not the names: a served list with one name inserted (`55`, read as a file of number 1)
and the last one dropped (`80`) has the signed digests in the signed order, is accepted, and assigns
to `60` and `70` the digests of their successors; a directory arranged accordingly is accepted for the
range 1..1 … -/
def C10_names_bound_goal : Prop :=
  ∀ (honest served f : List (Nat × Nat)) (last : Nat),
    verifyDigests natNames served last (honest.map (·.2)) true = some f →
    ∀ n d, lookup n f = some d → lookup n honest = some d

def honestList : List (Nat × Nat) :=
  [(0, 100), (10, 101), (20, 102), (30, 103), (40, 104), (50, 105), (60, 106), (70, 107), (80, 108)]
def shiftedList : List (Nat × Nat) :=
  [(0, 100), (10, 101), (20, 102), (25, 103), (30, 104), (40, 105), (50, 106), (60, 107), (70, 108)]

theorem C10_names_unbound_counterexample : ¬ C10_names_bound_goal := by
  intro h
  have := h honestList shiftedList shiftedList 2 (by decide) 30 104 (by decide)
  revert this; decide

/-- … and the verification of the range 1..1 against that accepted list accepts files that hold the
content of their successors (`30` holds the content certified for `40`, and so on) -/
theorem C10_names_unbound_accepts :
    verifyDigests natNames shiftedList 2 (honestList.map (·.2)) true = some shiftedList ∧
    verify natNames shiftedList
      (some [(30, .file 104), (40, .file 105), (50, .file 106)]) (.range 1 1) 2 false = .accepted := by
  decide

/-- what does hold (partial): the accepted list has the signed digests in the signed order, so a name
can only be given a digest that the signed database has somewhere -/
theorem C10_names_bound_partial (N : Names ν) (l : List (ν × δ)) (last : Nat) (signedLeaves : List δ)
    (f : List (ν × δ)) (h : verifyDigests N l last signedLeaves true = some f) :
    ∀ e ∈ f, e.2 ∈ signedLeaves := by
  intro e he
  rw [← (verifyDigests_binding N l last signedLeaves true f h).2.1]
  exact List.mem_map.2 ⟨e, he, rfl⟩

/-- non-vacuity: an honest directory is accepted -/
example :
    verify natNames [(30, 11), (40, 12), (50, 13)]
      (some [(0, .file 1), (30, .file 11), (40, .file 12), (50, .file 13), (99, .dir)]) (.range 1 1) 1 false
      = .accepted := by decide

end C10
