import MithrilModel.DbVerify
import MithrilModel.NameOrder
/-!
# C10 — A restored Cardano database is accepted only if every file is the certified one

Model: `Db.verify` (`verify_cardano_database` after the two `fix:` commits), `Db.verifyDigests`
(`download_and_verify_digests`), both in `MithrilModel/DbVerify.lean`, for arbitrary name and digest
types (the hash function never appears: the harness sends the SHA-256 values it computed).
Only property theorems live here.
-/
namespace C10
open Db

variable {ν δ : Type} [DecidableEq ν] [DecidableEq δ]

/-- the specification, written from the property text: the directory `d` satisfies the certified
list on the range `lo..hi` when every name of the range is present (unless gaps are allowed), whatever
is under a name of the range is a regular file, and every regular immutable file whose number lies in
the range — under whatever name — has the digest the certified list gives to that very name -/
def Satisfies (N : Names ν) (certified : List (ν × δ)) (d : List (ν × Kind δ)) (lo hi : Nat)
    (allowMissing : Bool) : Prop :=
  (allowMissing = false → ∀ k, lo ≤ k → k ≤ hi → ∀ n ∈ N.trio k, present d n = true) ∧
  (∀ k, lo ≤ k → k ≤ hi → ∀ n ∈ N.trio k, ∀ kd, lookup n d = some kd → ∃ dg, kd = Kind.file dg) ∧
  (∀ n dg k, (n, Kind.file dg) ∈ d → N.immExt n = true → N.number n = some k → lo ≤ k → k ≤ hi →
      lookup n certified = some dg)

/-- **Soundness** — acceptance implies the specification (for every directory content: modified,
truncated, swapped, duplicated or foreign files, symbolic links, directories) -/
theorem C10_sound (N : Names ν) (certified : List (ν × δ)) (dir : Option (List (ν × Kind δ)))
    (range : Range) (last : Nat) (allowMissing : Bool)
    (h : verify N certified dir range last allowMissing = .accepted) :
    ∃ d lo hi, dir = some d ∧ range.bounds last = some (lo, hi) ∧
      Satisfies N certified d lo hi allowMissing := by
  obtain ⟨d, lo, hi, h1, h2, h3, h4, _, h6⟩ := verify_sound N certified dir range last allowMissing h
  exact ⟨d, lo, hi, h1, h2, h3, h6, h4⟩

/-- an accepted database contains at least one verified file of the range (an empty range of files
is never "verified") -/
theorem C10_accepted_nonempty (N : Names ν) (certified : List (ν × δ)) (dir : Option (List (ν × Kind δ)))
    (range : Range) (last : Nat) (allowMissing : Bool)
    (h : verify N certified dir range last allowMissing = .accepted) :
    ∃ d lo hi n dg k, dir = some d ∧ range.bounds last = some (lo, hi) ∧ (n, Kind.file dg) ∈ d ∧
      N.number n = some k ∧ lo ≤ k ∧ k ≤ hi ∧ lookup n certified = some dg := by
  obtain ⟨d, lo, hi, h1, h2, _, h4, ⟨n, dg, k, a, b, c, e, f⟩, _⟩ :=
    verify_sound N certified dir range last allowMissing h
  exact ⟨d, lo, hi, n, dg, k, h1, h2, a, c, e, f, h4 n dg k a b c e f⟩

/-- **The report is complete** — on a rejection every offending name is listed: missing names under
`missing`, files with another digest than the certified one under `tampered`, files the list does not
know and names that are not regular files under `non_verifiable` -/
theorem C10_report_complete (N : Names ν) (certified : List (ν × δ)) (dir : Option (List (ν × Kind δ)))
    (range : Range) (last : Nat) (allowMissing : Bool) (m t nv : List ν)
    (h : verify N certified dir range last allowMissing = .rejected m t nv) :
    ∃ d lo hi, dir = some d ∧ range.bounds last = some (lo, hi) ∧
      (allowMissing = false → ∀ k, lo ≤ k → k ≤ hi → ∀ n ∈ N.trio k, present d n = false → n ∈ m) ∧
      (∀ n dg k, (n, Kind.file dg) ∈ d → N.immExt n = true → N.number n = some k → lo ≤ k → k ≤ hi →
          (∀ d', lookup n certified = some d' → d' ≠ dg → n ∈ t) ∧
          (lookup n certified = none → n ∈ nv)) ∧
      (∀ k, lo ≤ k → k ≤ hi → ∀ n ∈ N.trio k, ∀ kd, lookup n d = some kd → (∀ dg, kd ≠ Kind.file dg) → n ∈ nv) :=
  verify_report_complete N certified dir range last allowMissing m t nv h

/-- … and exact: nothing is listed without being an offender -/
theorem C10_report_exact (N : Names ν) (certified : List (ν × δ)) (dir : Option (List (ν × Kind δ)))
    (range : Range) (last : Nat) (allowMissing : Bool) (m t nv : List ν)
    (h : verify N certified dir range last allowMissing = .rejected m t nv) :
    ∃ d lo hi, dir = some d ∧ range.bounds last = some (lo, hi) ∧
      (∀ n ∈ m, allowMissing = false ∧ present d n = false ∧ ∃ k, lo ≤ k ∧ k ≤ hi ∧ n ∈ N.trio k) ∧
      (∀ n ∈ t, ∃ dg d', (n, Kind.file dg) ∈ d ∧ lookup n certified = some d' ∧ d' ≠ dg) ∧
      (∀ n ∈ nv, ((∃ dg, (n, Kind.file dg) ∈ d) ∧ lookup n certified = none) ∨
          ∃ kd, lookup n d = some kd ∧ ∀ dg, kd ≠ Kind.file dg) :=
  verify_report_exact N certified dir range last allowMissing m t nv h

/-- a verdict other than acceptance or a report is an error raised before any comparison
(no such range, no `immutable` directory, a file name without a number) -/
theorem C10_verdicts (N : Names ν) (certified : List (ν × δ)) (dir : Option (List (ν × Kind δ)))
    (range : Range) (last : Nat) (allowMissing : Bool) :
    (range.bounds last = none → verify N certified dir range last allowMissing = .rangeError) ∧
    (∀ b, range.bounds last = some b → dir = none →
        verify N certified dir range last allowMissing = .digesterError) := by
  constructor
  · intro h; simp [verify, h]
  · intro b h hd; subst hd; obtain ⟨lo, hi⟩ := b; simp [verify, h]

/-- `to_range_inclusive`: the ranges are exactly the ones the property names, clipped by the beacon -/
theorem C10_range_bounds (r : Range) (last lo hi : Nat) (h : r.bounds last = some (lo, hi)) :
    lo ≤ hi ∧ hi ≤ last ∧
    (match r with
     | .full => lo = 0 ∧ hi = last
     | .from_ a => lo = a ∧ hi = last
     | .range a b => lo = a ∧ hi = b
     | .upTo b => lo = 0 ∧ hi = b) := by
  cases r with
  | full => simp [Range.bounds] at h; omega
  | from_ a =>
    simp only [Range.bounds] at h
    split at h
    · simp at h; omega
    · cases h
  | range a b =>
    simp only [Range.bounds] at h
    split at h
    · simp at h; omega
    · cases h
  | upTo b =>
    simp only [Range.bounds] at h
    split at h
    · simp at h; omega
    · cases h

/- VACUITY AUDIT: no longer an obligation of the check. an unfolding of Db.verifyDigests, which compares leaf LISTS where the code compares roots; its content is C10_root_binding. Replaced by: Vacuity.C10.C10_root_binding_witness. -/
/-- **The digest list is accepted only if it reproduces the signed leaves** (list form used by the driver) -/
theorem C10_digests_binding (N : Names ν) (l : List (ν × δ)) (last : Nat) (signedLeaves : List δ)
    (certOk : Bool) (f : List (ν × δ)) (h : verifyDigests N l last signedLeaves certOk = some f) :
    f = served N l last ∧ f.map (·.2) = signedLeaves ∧ certOk = true ∧ f ≠ [] :=
  verifyDigests_binding N l last signedLeaves certOk f h

/-- **Root binding** — the same on Merkle roots: for every injective merge whose values no leaf equals,
a served list whose root is the signed root carries exactly the certified digests, in order
(root injectivity of the MMR builder, `MmrBuild.root_injective`, any number of leaves) -/
theorem C10_root_binding (m : δ → δ → δ) (hinj : ∀ a b c d, m a b = m c d → a = c ∧ b = d)
    (N : Names ν) (l : List (ν × δ)) (last : Nat) (signedRoot : δ) (certifiedLeaves : List δ)
    (hc : MmrBuild.root m certifiedLeaves = some signedRoot)
    (hl : ∀ a ∈ certifiedLeaves, ¬ ExprTree.IsMerge m a)
    (f : List (ν × δ)) (hl' : ∀ a ∈ (served N l last).map (·.2), ¬ ExprTree.IsMerge m a)
    (h : verifyDigestsRoot m N l last signedRoot = some f) :
    f = served N l last ∧ f.map (·.2) = certifiedLeaves :=
  root_binding m hinj N l last signedRoot certifiedLeaves hc hl f hl' h

/-! ## concrete witnesses; names are numbers here: `10·(3·number + extension)`, so that other names fit in between -/

def natNames : Names Nat where
  number := fun x => some (x / 30)
  immExt := fun _ => true
  trio := fun n => [30 * n, 30 * n + 10, 30 * n + 20]
  lt := fun a b => decide (a < b)

/-- FIXED (commit 820790af0), witness kept: contents of two certified names exchanged. The function
as it was accepted it (`DbVerify.verifyCurrent`), the code as it is reports both names as tampered. -/
theorem C10_swap_counterexample_prefix :
    DbVerify.verifyCurrent [(1, 11), (2, 22)] [(1, 22), (2, 11)] [1, 2] false = .ok () :=
  DbVerify.swap_counterexample.1

theorem C10_swap_rejected :
    verify natNames [(30, 11), (40, 12), (50, 13), (60, 21), (70, 22), (80, 23)]
      (some [(30, .file 21), (40, .file 12), (50, .file 13), (60, .file 11), (70, .file 22), (80, .file 23)])
      (.from_ 1) 2 false = .rejected [] [30, 60] [] := by decide

/-- one certified content copied over another name -/
theorem C10_copy_rejected :
    verify natNames [(30, 11), (40, 12), (50, 13)]
      (some [(30, .file 11), (40, .file 11), (50, .file 13)]) (.range 1 1) 1 false
      = .rejected [] [40] [] := by decide

/-- a certified content under a foreign name (another zero padding parses to the same number) -/
theorem C10_foreign_name_rejected :
    verify natNames [(30, 11), (40, 12), (50, 13)]
      (some [(30, .file 11), (40, .file 12), (50, .file 13), (31, .file 12)]) (.range 1 1) 1 false
      = .rejected [] [] [31] := by decide

/-- FIXED (commit c35b8910c), witness kept: a symbolic link (or a directory) under a certified name is
not digested; it is now reported, also when gaps are allowed -/
theorem C10_symlink_rejected :
    verify natNames [(30, 11), (40, 12), (50, 13)]
      (some [(30, .link true), (40, .file 12), (50, .file 13)]) (.range 1 1) 1 true
      = .rejected [] [] [30] ∧
    verify natNames [(30, 11), (40, 12), (50, 13)]
      (some [(30, .file 11), (40, .dir), (50, .file 13)]) (.range 1 1) 1 false
      = .rejected [] [] [40] := by decide

/-- KNOWN FINDING (digest-names-unbound): the full statement — an accepted digest list gives every
name the digest the signed database has under that name — is false. The signed root binds the ORDER of
the digests, not the names: a served list with one name inserted (`55`, read as a file of number 1)
and the last one dropped (`80`) has the signed digests in the signed order, is accepted, and assigns
to `60` and `70` the digests of their successors; a directory arranged accordingly is accepted for the
range 1..1 … -/
def C10_names_bound_goal : Prop :=
  ∀ (honest served f : List (Nat × Nat)) (last : Nat),
    verifyDigests natNames served last (honest.map (·.2)) true = some f →
    ∀ n d, lookup n f = some d → lookup n honest = some d

def honestList : List (Nat × Nat) :=
  [(0, 100), (10, 101), (20, 102), (30, 103), (40, 104), (50, 105), (60, 106), (70, 107), (80, 108)]
def shiftedList : List (Nat × Nat) :=
  [(0, 100), (10, 101), (20, 102), (25, 103), (30, 104), (40, 105), (50, 106), (60, 107), (70, 108)]

theorem C10_names_unbound_counterexample : ¬ C10_names_bound_goal := by
  intro h
  have := h honestList shiftedList shiftedList 2 (by decide) 30 104 (by decide)
  revert this; decide

/-- … and the verification of the range 1..1 against that accepted list accepts files that hold the
content of their successors (`30` holds the content certified for `40`, and so on) -/
theorem C10_names_unbound_accepts :
    verifyDigests natNames shiftedList 2 (honestList.map (·.2)) true = some shiftedList ∧
    verify natNames shiftedList
      (some [(30, .file 104), (40, .file 105), (50, .file 106)]) (.range 1 1) 2 false = .accepted := by
  decide

/-- what does hold (partial): the accepted list has the signed digests in the signed order, so a name
can only be given a digest that the signed database has somewhere -/
theorem C10_names_bound_partial (N : Names ν) (l : List (ν × δ)) (last : Nat) (signedLeaves : List δ)
    (f : List (ν × δ)) (h : verifyDigests N l last signedLeaves true = some f) :
    ∀ e ∈ f, e.2 ∈ signedLeaves := by
  intro e he
  rw [← (verifyDigests_binding N l last signedLeaves true f h).2.1]
  exact List.mem_map.2 ⟨e, he, rfl⟩

/-- non-vacuity: an honest directory is accepted -/
example :
    verify natNames [(30, 11), (40, 12), (50, 13)]
      (some [(0, .file 1), (30, .file 11), (40, .file 12), (50, .file 13), (99, .dir)]) (.range 1 1) 1 false
      = .accepted := by decide

end C10

/-! ## the order of the names (`MithrilModel/NameOrder.lean`)

`download_and_verify_digests` builds the tree over the values of a `BTreeMap<String, _>`
(`proving.rs:244-256`): the leaves are in the STRING order of the file names (`Db.toMap`, `Names.lt`;
the driver's instance uses `decide (a < b)` on `String`). The signed root was computed with the leaves
in the order of `ImmutableFile: Ord` — number first, then path (`immutable_file.rs:192-196`). `<` on
`String` / `List Char` is the lexicographic order by code point, which for these ASCII names is Rust's
bytewise `String: Ord`. -/
namespace C10

/-- **Name order.** For immutable file numbers below 100000 the string order of the names
`format!("{n:05}.{ext}")` (any extensions) is the order by (number, then name): the client's map order
is the signer's order. -/
theorem C10_name_order (a b : Nat) (ha : a < 100000) (hb : b < 100000) (e₁ e₂ : String) :
    (NameOrder.fileNameS a e₁ < NameOrder.fileNameS b e₂ ↔
      a < b ∨ (a = b ∧ NameOrder.fileNameS a e₁ < NameOrder.fileNameS b e₂)) :=
  NameOrder.name_order_string a b ha hb e₁ e₂

/-- the same on character lists, with the comparison of the extensions spelled out -/
theorem C10_name_order_chars (a b : Nat) (ha : a < 100000) (hb : b < 100000) (e₁ e₂ : List Char) :
    (NameOrder.fileName a e₁ < NameOrder.fileName b e₂ ↔ a < b ∨ (a = b ∧ e₁ < e₂)) :=
  NameOrder.name_lt_iff a b ha hb e₁ e₂

/-- `fileNameS` is the `format!`: examples, and the names the driver's instance derives from a number -/
theorem C10_name_format :
    NameOrder.fileNameS 7 "chunk" = "00007.chunk" ∧ NameOrder.fileNameS 99999 "primary" = "99999.primary" ∧
    NameOrder.fileNameS 100000 "secondary" = "100000.secondary" ∧
    (∀ n, Handlers.C10.names.trio n =
      [NameOrder.fileNameS n "chunk", NameOrder.fileNameS n "primary", NameOrder.fileNameS n "secondary"]) :=
  ⟨NameOrder.fileName_examples.1, NameOrder.fileName_examples.2.1, NameOrder.fileName_examples.2.2.1,
    NameOrder.handler_trio⟩

/-- **Boundary.** `"100000.chunk" < "99999.chunk"`: from 100000 on the string order is no longer the
numeric order. -/
theorem C10_name_order_boundary :
    "100000.chunk" < "99999.chunk" ∧ ¬ ("99999.chunk" < "100000.chunk") ∧
    NameOrder.fileNameS 100000 "chunk" = "100000.chunk" ∧ NameOrder.fileNameS 99999 "chunk" = "99999.chunk" ∧
    (99999 : Nat) < 100000 :=
  ⟨NameOrder.name_order_boundary.1, NameOrder.name_order_boundary.2.1, NameOrder.name_order_boundary.2.2.2.2.1,
    NameOrder.name_order_boundary.2.2.2.2.2.1, by decide⟩

/-- **Below the boundary the client keeps the signer's order**: a digest list with `%05d.ext` names of
numbers below 100000, listed in the order of `ImmutableFile: Ord`, is its own map for the driver's
instance — the rebuilt tree has the signed leaves in the signed order. -/
theorem C10_client_order_below_boundary {δ : Type} (fs : List ((Nat × String) × δ)) (hb : ∀ f ∈ fs, f.1.1 < 100000)
    (hs : fs.Pairwise (fun f g => f.1.1 < g.1.1 ∨
      (f.1.1 = g.1.1 ∧ NameOrder.fileNameS f.1.1 f.1.2 < NameOrder.fileNameS g.1.1 g.1.2))) :
    Db.toMap Handlers.C10.names (fs.map fun f => (NameOrder.fileNameS f.1.1 f.1.2, f.2)) =
      fs.map fun f => (NameOrder.fileNameS f.1.1 f.1.2, f.2) :=
  NameOrder.client_order_below_boundary_driver fs hb hs

/-- **Beyond the boundary an honest digest list is rejected** (completeness only; soundness —
`C10_digests_binding` — holds for every order): the digests `1 … 6` of 99999.* and 100000.*, signed in
the order `[1,2,3,4,5,6]`, are read by the client in the order `[4,5,6,1,2,3]`. -/
theorem C10_client_order_beyond_boundary :
    (Db.served NameOrder.charNames NameOrder.honestBeyond 100000).map (·.2) = [4, 5, 6, 1, 2, 3] ∧
    Db.verifyDigests NameOrder.charNames NameOrder.honestBeyond 100000 [1, 2, 3, 4, 5, 6] true = none ∧
    Db.verifyDigests NameOrder.charNames NameOrder.honestBelow 99999 [1, 2, 3, 4, 5, 6] true
      = some NameOrder.honestBelow :=
  NameOrder.client_order_beyond_boundary

/-- the listing `verify_cardano_database` relies on (`Db.fileLe`, `ImmutableFile: Ord`) compares the
numbers first, for all numbers: there the string order plays no role -/
theorem C10_listing_number_first {ν δ : Type} (N : Db.Names ν) (a b : Nat × ν × δ) :
    (Db.fileLe N a b = true ↔ a.1 < b.1 ∨ (a.1 = b.1 ∧ N.lt b.2.1 a.2.1 = false)) :=
  NameOrder.fileLe_iff N a b

/-- non-vacuity of `C10_name_order` and `C10_client_order_below_boundary` -/
example : (7 : Nat) < 100000 ∧ (12 : Nat) < 100000 ∧ NameOrder.fileNameS 7 "secondary" < NameOrder.fileNameS 12 "chunk" ∧
    (let fs : List ((Nat × String) × Nat) := [((99998, "secondary"), 3), ((99999, "chunk"), 4)]
     (∀ f ∈ fs, f.1.1 < 100000) ∧
     fs.Pairwise (fun f g => f.1.1 < g.1.1 ∨
       (f.1.1 = g.1.1 ∧ NameOrder.fileNameS f.1.1 f.1.2 < NameOrder.fileNameS g.1.1 g.1.2))) := by
  refine ⟨by decide, by decide, ?_, by decide, by simp⟩
  exact (C10_name_order 7 12 (by decide) (by decide) _ _).mpr (Or.inl (by decide))

end C10
