import MithrilModel.ClerkFixed
import MithrilModel.ClerkVerify
/-!
# C02 — Aggregation completeness and monotonicity under extra or repeated signatures

Model: `Clerk.selectMerged` = `ConcatenationClerk::select_valid_signatures_for_k_indices`
(`mithril-stm/src/proof_system/concatenation/clerk.rs`) as it is after the two `fix:` commits: valid
copies of one signature are merged (`normalize`), then indices are arbitrated (`select`, the code before
the repair). `valid` is the verdict of the real `SingleSignature::verify` (supplied by the harness; a
signature with an unregistered signer index is invalid); `key = (sigma, registered party)` is what the
code's `Eq`/`Hash` compare; `sigma` is the rank of the BLS signature bytes.
-/
namespace C02
open Clerk

/-- Soundness of the selection w.r.t. what was handed in: pairwise different keys, every selected
index was offered by a VALID signature of that key, no index selected twice, at least `k` indices. -/
theorem C02_select_sound (k : Nat) (sigs out : List Sig) (h : selectMerged k sigs = .ok out) :
    out.Pairwise (fun a b => a.key ≠ b.key) ∧
    (∀ o ∈ out, ∀ i ∈ o.idxs, ∃ s ∈ sigs, s.valid = true ∧ s.key = o.key ∧ i ∈ s.idxs) ∧
    (∀ o1 ∈ out, ∀ o2 ∈ out, o1.key ≠ o2.key → ∀ i ∈ o1.idxs, i ∉ o2.idxs) ∧
    k ≤ (out.map (·.idxs.length)).sum := selectMerged_sound k sigs out h

/-- **Completeness, for every input**: whenever the valid signatures handed to the aggregator cover at
least `k ≥ 1` distinct lottery indices, aggregation succeeds — whatever else is in the list (repeated
copies, index-subset copies, invalid signatures, other messages), in whatever order. -/
theorem C02_complete (k : Nat) (sigs : List Sig) (hk0 : 0 < k) (I : List Nat) (hI : I.Nodup)
    (hvalid : ∀ i ∈ I, ∃ s ∈ sigs, s.valid = true ∧ i ∈ s.idxs) (hk : k ≤ I.length) :
    ∃ r, selectMerged k sigs = .ok r := selectMerged_complete k sigs hk0 I hI hvalid hk

/-- **Monotonicity, for every input** (the FULL statement; it was false before the repair, see below):
any interleaving of extra material never turns a successful aggregation into a failure. -/
theorem C02_monotone (k : Nat) (hk0 : 0 < k) (l l' : List Sig) (hs : l.Sublist l')
    (out : List Sig) (h : selectMerged k l = .ok out) : ∃ out', selectMerged k l' = .ok out' :=
  selectMerged_monotone k hk0 l l' (offers_of_sublist hs) out h

/-- … more generally whenever `l'` offers every valid (key, index) pair `l` offers, and success depends
only on WHICH valid pairs are offered: not on order, multiplicity or how indices are split over copies -/
theorem C02_monotone_offers (k : Nat) (hk0 : 0 < k) (l l' : List Sig) (hs : Offers l l')
    (out : List Sig) (h : selectMerged k l = .ok out) : ∃ out', selectMerged k l' = .ok out' :=
  selectMerged_monotone k hk0 l l' hs out h

theorem C02_order_independent (k : Nat) (hk0 : 0 < k) (l l' : List Sig) (hp : l.Perm l') :
    (∃ o, selectMerged k l = .ok o) ↔ (∃ o, selectMerged k l' = .ok o) :=
  selectMerged_success_iff k hk0 l l' (offers_of_perm hp) (offers_of_perm hp.symm)

/-- invalid signatures (wrong message, corrupted, wrong or unregistered slot) do not change the state -/
theorem C02_invalid_ignored (acc : List Sig) (s : Sig) (h : s.valid = false) : normStep acc s = acc := by
  simp [normStep, h]

/-- the monotonicity statement for the arbitration ALONE (the code before `fix:` …) -/
def C02_monotone_goal_before_repair : Prop :=
  ∀ (k : Nat) (l l' : List Sig), l.Sublist l' → (∃ o, select k l = .ok o) → ∃ o', select k l' = .ok o'

/-- … was FALSE (FIXED FINDING C02-duplicate): handing the same signature twice stripped all its
indices, `select 2 [s] = ok`, `select 2 [s, s] = error 0`; the repaired selection accepts both. -/
theorem C02_duplicate_counterexample_before_repair : ¬ C02_monotone_goal_before_repair := by
  intro h
  obtain ⟨o, ho⟩ := h 2 [s1] [s1, s1] (List.Sublist.cons _ (List.Sublist.refl _)) dup_counterexample.1
  rw [dup_counterexample.2] at ho
  cases ho

theorem C02_duplicate_repaired :
    (∃ r, selectMerged 2 [s1] = .ok r) ∧ (∃ r, selectMerged 2 [s1, s1] = .ok r) := dup_repaired

/-- **… and its result verifies**: what the clerk selects passes every check of the C01 verifier model
(`StmVerify.verify` = `AggregateSignature::verify`), given completeness of the primitives: a valid single
signature won every index it claims (all `< m`), the batch path of registered leaves verifies, the
aggregate of individually valid BLS signatures verifies. -/
theorem C02_aggregate_verifies (E : StmVerify.Env) (stakeOf : Nat → Nat) (sigs out : List Sig)
    (h : selectMerged E.k sigs = .ok out)
    (hvalid : ∀ s ∈ sigs, s.valid = true → ∀ i ∈ s.idxs, i < E.m ∧ E.won s.sigma i (stakeOf s.party) = true)
    (hbatch : E.batchOk ((out.map (ClerkVerify.conv stakeOf)).map fun s => (s.vk, s.stake)) = true)
    (hagg : E.aggOk ((out.map (ClerkVerify.conv stakeOf)).map fun s => (s.vk, s.sigma)) = true) :
    StmVerify.verify E (out.map (ClerkVerify.conv stakeOf)) = .ok () :=
  ClerkVerify.aggregate_verifies E stakeOf sigs out h hvalid hbatch hagg

/-- non-vacuity of the hypotheses of `C02_aggregate_verifies` -/
example : StmVerify.verify { m := 10, k := 3, won := fun _ _ _ => true, batchOk := fun _ => true, aggOk := fun _ => true }
    ((match selectMerged 3 [s1, s2, s1] with | .ok o => o | .error _ => []).map (ClerkVerify.conv fun _ => 1)) = .ok () := by
  rfl

/-- non-vacuity: a list with a shared index AND a repeated signature is aggregated -/
example : ∃ r, selectMerged 3 [s1, s2, s1] = .ok r := ⟨_, rfl⟩

end C02
