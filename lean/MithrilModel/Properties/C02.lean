import MithrilModel.ClerkMono
/-!
# C02 — Aggregation completeness and monotonicity under extra or repeated signatures

Model: `Clerk.select` = `ConcatenationClerk::select_valid_signatures_for_k_indices`
(`mithril-stm/src/proof_system/concatenation/clerk.rs`). `valid` is the verdict of the real
`SingleSignature::verify` (supplied by the harness); `key = (sigma, registered party)` is what the
code's `Eq`/`Hash` compare; `sigma` is the rank of the BLS signature bytes.
-/
namespace C02
open Clerk

/-- Soundness of the selection: pairwise different keys, each from a valid input signature with a
subset of its indices, no index shared by two selected signatures, at least `k` indices in total. -/
theorem C02_select_sound (k : Nat) (sigs out : List Sig) (h : select k sigs = .ok out) :
    out.Pairwise (fun a b => a.key ≠ b.key) ∧
    (∀ o ∈ out, ∃ t ∈ sigs, t.valid = true ∧ o.key = t.key ∧ ∀ i ∈ o.idxs, i ∈ t.idxs) ∧
    (∀ o1 ∈ out, ∀ o2 ∈ out, o1.key ≠ o2.key → ∀ i ∈ o1.idxs, i ∉ o2.idxs) ∧
    k ≤ (out.map (·.idxs.length)).sum := select_sound k sigs out h

/-- Completeness, any order: if no (key, index) pair is offered twice and the valid signatures
carry at least `k ≥ 1` distinct indices, aggregation succeeds. -/
theorem C02_complete_nodup (k : Nat) (sigs : List Sig) (hk0 : 0 < k) (hNR : NoRepeat sigs)
    (I : List Nat) (hI : I.Nodup)
    (hvalid : ∀ i ∈ I, ∃ s ∈ sigs, s.valid = true ∧ i ∈ s.idxs) (hk : k ≤ I.length) :
    ∃ r, select k sigs = .ok r := select_complete k sigs hk0 hNR I hI hvalid hk

/-- Monotonicity outside the duplicate class: any interleaving of extra material (invalid
signatures, signatures on other messages, more valid ones) that does not offer a (key, index) pair
twice never turns a successful aggregation into a failure. -/
theorem C02_monotone_partial (k : Nat) (hk0 : 0 < k) (l l' : List Sig) (hs : l.Sublist l')
    (hNR : NoRepeat l') (out : List Sig) (h : select k l = .ok out) :
    ∃ out', select k l' = .ok out' := select_monotone_partial k hk0 l l' hs hNR out h

/-- invalid signatures (wrong message, corrupted, wrong slot) are skipped: they do not change the state -/
theorem C02_invalid_ignored (st : St) (s : Sig) (h : s.valid = false) : stepSig st s = st := by
  unfold stepSig; simp [h]

/-- the FULL monotonicity statement of the property … -/
def C02_monotone_goal : Prop :=
  ∀ (k : Nat) (l l' : List Sig), l.Sublist l' → (∃ o, select k l = .ok o) → ∃ o', select k l' = .ok o'

/-- … is FALSE for the code as it is (KNOWN FINDING): handing the same signature twice strips all its
indices, `select 2 [s] = ok`, `select 2 [s, s] = error 0`. -/
theorem C02_duplicate_counterexample : ¬ C02_monotone_goal := by
  intro h
  obtain ⟨o, ho⟩ := h 2 [s1] [s1, s1] (List.Sublist.cons _ (List.Sublist.refl _)) dup_counterexample.1
  rw [dup_counterexample.2] at ho
  cases ho

/-- non-vacuity: a two-signature list with a shared index meets `NoRepeat` and is aggregated -/
example : NoRepeat [s1, s2] ∧ ∃ r, select 3 [s1, s2] = .ok r := by
  refine ⟨⟨by decide, by decide⟩, ⟨_, rfl⟩⟩

end C02
