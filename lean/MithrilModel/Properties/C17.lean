import MithrilModel.Beacon
/-!
# C17 — Beacons to sign respect the security margin, are monotone and agreed by all

Model: `Beacon.blocks`, `Beacon.txs`, `Beacon.txsM`, `Beacon.entity`
(transliteration of `mithril-common/src/entities/signed_entity_config.rs`).
Only property theorems live here; helper lemmas are in `MithrilModel/Beacon.lean`.
-/
namespace C17
open Beacon

/-- margin: the selected block number is at most tip − security parameter (floored at 0) -/
theorem C17_margin_blocks (tip sec step : Nat) : blocks tip sec step ≤ tip - sec :=
  blocks_margin tip sec step

theorem C17_margin_txs (tip sec step : Nat) : txs tip sec step ≤ tip - sec :=
  txs_margin tip sec step

/-- never decreases as the tip advances -/
theorem C17_monotone_blocks (t1 t2 sec step : Nat) (h : t1 ≤ t2) :
    blocks t1 sec step ≤ blocks t2 sec step := blocks_mono t1 t2 sec step h

theorem C17_monotone_txs (t1 t2 sec step : Nat) (h : t1 ≤ t2) :
    txs t1 sec step ≤ txs t2 sec step := txs_mono t1 t2 sec step h

/-- moves only in whole signing steps (blocks entity: always) -/
theorem C17_step_blocks (tip sec step : Nat) : max step 1 ∣ blocks tip sec step :=
  blocks_dvd tip sec step

theorem C17_whole_steps_blocks (t1 t2 sec step : Nat) :
    (max step 1 : Nat) ∣ blocks t2 sec step - blocks t1 sec step :=
  Nat.dvd_sub (blocks_dvd t2 sec step) (blocks_dvd t1 sec step)

/-- transactions entity: `b + 1` is a multiple of the adjusted step once the first
step lies behind the margin; the adjusted step is a multiple of the range length -/
theorem C17_step_txs (tip sec step : Nat) (h : adjStep step ≤ tip - sec) :
    adjStep step ∣ txs tip sec step + 1 := by
  unfold txs; dsimp only
  have hp := adjStep_pos step
  have hmax : max (adjStep step) 1 = adjStep step := by omega
  rw [hmax]
  have hq : 1 ≤ (tip - sec) / adjStep step := (Nat.one_le_div_iff hp).mpr h
  have hpos : 1 ≤ (tip - sec) / adjStep step * adjStep step := by
    calc 1 ≤ 1 * 1 := by omega
      _ ≤ (tip - sec) / adjStep step * adjStep step := Nat.mul_le_mul hq hp
  have : (tip - sec) / adjStep step * adjStep step - 1 + 1
       = (tip - sec) / adjStep step * adjStep step := by omega
  rw [this]
  exact Nat.dvd_mul_left _ _

theorem C17_whole_steps_txs (t1 t2 sec step : Nat)
    (h1 : adjStep step ≤ t1 - sec) (h2 : adjStep step ≤ t2 - sec) (h : t1 ≤ t2) :
    adjStep step ∣ txs t2 sec step - txs t1 sec step := by
  have a := C17_step_txs t1 sec step h1
  have b := C17_step_txs t2 sec step h2
  have m := txs_mono t1 t2 sec step h
  have : txs t2 sec step - txs t1 sec step = (txs t2 sec step + 1) - (txs t1 sec step + 1) := by omega
  rw [this]
  exact Nat.dvd_sub b a

/-- ends exactly on a complete block-range boundary: `b + 1` is a range start -/
theorem C17_range_boundary (tip sec step : Nat) (h : adjStep step ≤ tip - sec) :
    LEN ∣ txs tip sec step + 1 := txs_boundary tip sec step h

theorem C17_adjusted_step_multiple (step : Nat) : LEN ∣ adjStep step := adjStep_dvd step

/-- across the first step the value is the saturated 0 (observation kept visible) -/
theorem C17_first_step_note (tip sec step : Nat) (h : tip - sec < adjStep step) :
    txs tip sec step = 0 := by
  unfold txs; dsimp only
  have hp := adjStep_pos step
  have hmax : max (adjStep step) 1 = adjStep step := by omega
  rw [hmax, Nat.div_eq_of_lt h]; simp

/-- no panic below the absurd-configuration bound; the machine model equals the Nat model -/
theorem C17_no_overflow (tip sec step : Nat) (h : step + 2 * LEN ≤ U64) :
    txsM tip sec step = .ok (txs tip sec step) := by
  apply txsM_eq
  have := Nat.div_mul_le_self step LEN
  unfold LEN at *; omega

theorem C17_overflow_note : txsM 100 0 (U64 - 1) = .panic := by decide

/- VACUITY AUDIT: no longer an obligation of the check. congruence of a `def` (subst; rfl). Replaced by: - (K: the function is compared with the code on every case). -/
/-- purity: the derived entity is a function of (config, discriminant, time point) only —
signer and aggregator evaluate the same `def`; stated as congruence. -/
theorem C17_pure (c1 c2 : Config) (d : Nat) (tp1 tp2 : TimePoint)
    (hc : c1 = c2) (ht : tp1 = tp2) : entity c1 d tp1 = entity c2 d tp2 := by
  subst hc; subst ht; rfl

theorem C17_epoch0 (cfg : Config) (tp : TimePoint) (h : tp.epoch = 0) :
    entity cfg 1 tp = .err := by
  unfold entity offsetBy; simp [h]

/-- for every realistic epoch the Cardano-stake-distribution entity is the previous epoch -/
theorem C17_csd_previous (cfg : Config) (tp : TimePoint) (h0 : 0 < tp.epoch) (h : tp.epoch < 2 ^ 63) :
    entity cfg 1 tp = .ok (.csd (tp.epoch - 1)) := by
  unfold entity; rw [offsetBy_prev tp.epoch h0 h]; rfl

/-- observation: `Epoch::offset_by` casts to `i64`; epoch `2^63` overflows (panic), larger ones are errors -/
theorem C17_epoch_cast_note : offsetBy (2 ^ 63) (-1) = .panic ∧ offsetBy (2 ^ 63 + 5) (-1) = .err := by
  constructor <;> decide

/-- the entity's block number is exactly the arithmetic above -/
theorem C17_entity_txs (cfg : Config) (tp : TimePoint) (sec step : Nat)
    (hc : cfg.tx = some (sec, step)) (h : step + 2 * LEN ≤ U64) :
    entity cfg 2 tp = .ok (.ctx tp.epoch (txs tp.block sec step)) := by
  unfold entity; simp [hc, C17_no_overflow tp.block sec step h]

theorem C17_entity_blocks (cfg : Config) (tp : TimePoint) (sec step : Nat)
    (hc : cfg.btx = some (sec, step)) :
    entity cfg 3 tp = .ok (.cbtx tp.epoch (blocks tp.block sec step) sec) := by
  unfold entity; simp [hc]

/-- non-vacuity: the boundary hypothesis is met by a concrete triple -/
example : adjStep 30 ≤ 100 - 10 ∧ txs 100 10 30 = 89 ∧ blocks 100 10 30 = 90 := by decide

end C17
