import MithrilModel.Store
import MithrilModel.Importer
import MithrilModel.ImportMany
/-!
# C13 — Imported chain data converges to the canonical chain under any roll-backs

Models (what the code DOES, after the repair of the class-1 defect, commit f844fb01c):
* `Store.*` — the repository's deletion semantics (`remove_rolled_back_*`, `insert or ignore`);
* `Import.poll` — `ChainReaderBlockStreamer::poll_next` + `get_next_chain_block_action` over a script
  of reader replies; `Import.run` / `runF` — the `while let Some(..)` loop of
  `BlocksTransactionsImporter` on blocks and block-range roots; `Import.rangesRun` —
  `BlockRangeImporter::run`; `Import.rollbackRoots` — `start >= start(range(anchor))`;
* `Import.insertTx` / `cascade` / `applyOutT` / `runT` — the `cardano_tx` table: rows keyed by the
  transaction hash alone and inserted with `insert or ignore`, deleted with their block (`on delete
  cascade`); `Import.txsIn` — the join every read query and both range importers go through;
* `Importer.importStep` — early exit, resume point, last polled point, panic of the foreign key,
  pruning (driver only); `Importer.signable` — what the signable builders read.

Layer 1 (proved here): the repository's code refines the naive semantics of chain-sync events for
every reply script that is `Good`; `Good` is decidable and evaluated by the driver on every recorded
history. Layer 2 (assumed, checked by S on the simulator): the events a Cardano node delivers fold to
its canonical chain.
-/
namespace C13
open Import Importer

/-! ## repository lemmas -/

/-- a roll-back deletes exactly the blocks above the anchor and exactly the roots from the anchor's range on -/
theorem C13_rollback_exact (s : Store.St) (slot n : Nat) (h : Store.anchor s slot = some n) :
    (∀ b, b ∈ (Store.rollback s slot).blocks ↔ b ∈ s.blocks ∧ b.number ≤ n) ∧
    (∀ r, r ∈ (Store.rollback s slot).roots ↔ r ∈ s.roots ∧ r.start < Store.rangeStart n) :=
  Store.rollback_exact s slot n h

/-- the roots a roll-back keeps cover only kept blocks -/
theorem C13_kept_roots_cover_kept_blocks (s : Store.St) (slot n : Nat) (h : Store.anchor s slot = some n)
    (hw : ∀ r ∈ s.roots, r.stop = r.start + Store.LEN ∧ r.start % Store.LEN = 0) :
    ∀ r ∈ (Store.rollback s slot).roots, r.stop ≤ n + 1 :=
  Store.roots_after_rollback_cover_only_kept s slot n h hw

variable {ρ : Type} (R : List Block → Option ρ)

/-- every stored root is a function of the stored blocks of its range (under the roots invariant) -/
theorem C13_roots_function_of_blocks (S : List Block) (roots : List (Nat × ρ)) (h : RInv R S roots) :
    ∀ r ∈ roots, R (blocksOf S r.1) = some r.2 := by
  obtain ⟨K, hK, _⟩ := h
  intro r hr
  rw [hK] at hr
  have := ((mem_cached R).mp hr).2
  unfold rootAt at this
  cases hR : R (blocksOf S r.1) with
  | none => rw [hR] at this; simp at this
  | some x => rw [hR] at this; simp at this; rw [← this]

/-- running the range importer again changes nothing -/
theorem C13_ranges_idempotent (S : List Block) (K upTo : Nat) :
    rangesRun R S (rangesRun R S (cached R S K) upTo) upTo = rangesRun R S (cached R S K) upTo := by
  rw [rangesRun_cached, rangesRun_cached]; congr 1; omega

/-! ## the refinement theorem -/

/-- **Layer 1, blocks and roots.** For every store that is a chain below the target with roots that
are a cache of it, every batch size, target and GOOD reply script: the stored blocks after the import
are the naive application of the consumed events cut at the target; the store is again a chain; and —
when the last complete range below the target is covered by a stored block — the stored roots are
exactly the roots of ALL complete ranges below the target computed from those blocks. Nothing depends
on the batches, buffer truncations, earlier imports or roll-backs. -/
theorem C13_import_refines (c : Cfg) (fuel : Nat) (S0 : List Block) (roots0 : List (Nat × ρ)) (rs : List (Option Ev))
    (hS : Sorted S0) (hU : ∀ x ∈ S0, x.number ≤ c.untilN) (hG : Good c none S0 rs) (hR : RInv R S0 roots0) :
    ∃ pre, rs = pre ++ (importF R c fuel S0 roots0 rs).2.2 ∧
      (importF R c fuel S0 roots0 rs).1 = (applyAll S0 pre).filter (fun x => x.number ≤ c.untilN) ∧
      Sorted (importF R c fuel S0 roots0 rs).1 ∧
      (Below (importF R c fuel S0 roots0 rs).1 ((c.untilN + 1) / LEN) →
        (importF R c fuel S0 roots0 rs).2.1 = cached R (importF R c fuel S0 roots0 rs).1 ((c.untilN + 1) / LEN) ∧
        RInv R (importF R c fuel S0 roots0 rs).1 (importF R c fuel S0 roots0 rs).2.1) :=
  importF_refines R c fuel S0 roots0 rs hS hU hG hR

/-- **Convergence.** Two nodes with different pasts (stores, cached roots, reply scripts, batch sizes,
resume points) whose consumed events fold to the same chain below the target end with the same blocks
and — when the last complete range is covered — the same roots. The fresh import is the instance
`S0' = []`, `roots0' = []`. -/
theorem C13_convergence (c c' : Cfg) (hu : c.untilN = c'.untilN) (fuel fuel' : Nat)
    (S0 S0' : List Block) (roots0 roots0' : List (Nat × ρ)) (rs rs' : List (Option Ev))
    (hS : Sorted S0) (hU : ∀ x ∈ S0, x.number ≤ c.untilN) (hG : Good c none S0 rs) (hR : RInv R S0 roots0)
    (hS' : Sorted S0') (hU' : ∀ x ∈ S0', x.number ≤ c'.untilN) (hG' : Good c' none S0' rs') (hR' : RInv R S0' roots0')
    (hsame : ∀ pre pre', rs = pre ++ (importF R c fuel S0 roots0 rs).2.2 →
      rs' = pre' ++ (importF R c' fuel' S0' roots0' rs').2.2 →
      (applyAll S0 pre).filter (fun x => x.number ≤ c.untilN) = (applyAll S0' pre').filter (fun x => x.number ≤ c.untilN)) :
    (importF R c fuel S0 roots0 rs).1 = (importF R c' fuel' S0' roots0' rs').1 ∧
    (Below (importF R c fuel S0 roots0 rs).1 ((c.untilN + 1) / LEN) →
      (importF R c fuel S0 roots0 rs).2.1 = (importF R c' fuel' S0' roots0' rs').2.1) := by
  obtain ⟨pre, h1, h2, _, h4⟩ := importF_refines R c fuel S0 roots0 rs hS hU hG hR
  obtain ⟨pre', h1', h2', _, h4'⟩ := importF_refines R c' fuel' S0' roots0' rs' hS' hU' hG' hR'
  have hb : (importF R c fuel S0 roots0 rs).1 = (importF R c' fuel' S0' roots0' rs').1 := by
    rw [h2, h2', ← hu]; exact hsame pre pre' h1 h1'
  refine ⟨hb, fun hBelow => ?_⟩
  have hBelow' : Below (importF R c' fuel' S0' roots0' rs').1 ((c'.untilN + 1) / LEN) := by
    rw [← hb, ← hu]; exact hBelow
  rw [(h4 hBelow).1, (h4' hBelow').1, hb, hu]

/-- an import that exits early (target at or below the highest stored block) keeps the roots invariant -/
theorem C13_early_exit_keeps_invariant (S : List Block) (roots : List (Nat × ρ)) (target : Nat) (b : Block)
    (hb : highest S = some b) (hge : b.number ≥ target) (h : RInv R S roots) :
    RInv R S (rangesRun R S roots target) :=
  early_exit_rinv R S roots target b hb hge h

/-- **`Good` is decidable** — the driver evaluates it (as the class letter) on every recorded import,
so the refinement theorem applies to each concrete history it accepts; `classB` names the first
violated clause (`x` protocol violation, `1` initial echo not a no-op, `2` roll-back outside the known
chain). -/
theorem C13_good_decidable (c : Cfg) (rs : List (Option Ev)) (lp : Option Nat) (V : List Block) :
    (goodB c lp V rs = true ↔ Good c lp V rs) ∧ (classB c lp V rs = none ↔ Good c lp V rs) ∧
    (sortedB V = true ↔ Sorted V) :=
  ⟨goodB_iff c rs lp V, classB_none_iff c rs lp V, sortedB_iff V⟩

/-- the loop the driver executes (with the store-call log and the panic outcome) is the proven loop
whenever it does not panic -/
theorem C13_driver_loop_is_proven_loop (txsOf : Nat → List Nat) (c : Cfg) (fuel : Nat) (lp : Option Nat) (S : List Block)
    (T : List TxRow) (roots legacy : List (Nat × ρ)) (rs : List (Option Ev)) (ops : List String)
    (h : (runX txsOf c fuel lp S T roots legacy rs ops).panicked = false) :
    (runX txsOf c fuel lp S T roots legacy rs ops).S = (runF c fuel lp S roots rs).1 ∧
    (runX txsOf c fuel lp S T roots legacy rs ops).roots = (runF c fuel lp S roots rs).2.1 ∧
    (runX txsOf c fuel lp S T roots legacy rs ops).legacy = (runF c fuel lp S legacy rs).2.1 ∧
    (runX txsOf c fuel lp S T roots legacy rs ops).T = (runT txsOf c fuel lp S T rs).2.1 :=
  let r := runX_eq_runF txsOf c fuel lp S T roots legacy rs ops h
  ⟨r.1, r.2.1, r.2.2.1, r.2.2.2.2.2⟩

/-! ## the transaction table (`cardano_tx`: primary key = transaction hash, `insert or ignore`, cascade) -/

/-- **the cascade.** After a roll-back every remaining transaction row names a block that is still
stored, and no row of a block the roll-back removed remains -/
theorem C13_rollback_removes_transactions (txsOf : Nat → List Nat) (S : List Block) (T : List TxRow) (s : Nat) (hS : Sorted S) :
    (∀ r ∈ applyOutT txsOf S T (some (.backward s)), ∃ b ∈ rollback S s, b.hash = r.2) ∧
    (∀ b ∈ S, b ∉ rollback S s → ∀ r ∈ applyOutT txsOf S T (some (.backward s)), r.2 ≠ b.hash) :=
  ⟨cascade_no_orphan (rollback S s) T, fun b hb hgone => rollback_removes_transactions S T s hS b hb hgone⟩

/-- **a re-included transaction is stored under its new block.** After a roll-back, a batch that
extends the remaining chain — and MAY carry transactions of the blocks the roll-back removed, in any
block of the new fork — is stored row for row: each of its transactions is stored under the block that
now carries it and under no other, and the join gives that block exactly its transactions -/
theorem C13_reincluded_transaction_under_new_block (txsOf : Nat → List Nat) (S : List Block) (T : List TxRow) (s : Nat)
    (bs : List Block) (hS : Sorted S) (hT : TInv txsOf S T)
    (hs : Sorted (rollback S s ++ bs)) (hF : TxFresh txsOf (rollback S s ++ bs))
    (b' : Block) (hb' : b' ∈ bs) (t : Nat) (ht : t ∈ txsOf b'.hash) :
    (t, b'.hash) ∈ applyOutT txsOf (rollback S s) (applyOutT txsOf S T (some (.backward s))) (some (.forwards bs)) ∧
    (∀ r ∈ applyOutT txsOf (rollback S s) (applyOutT txsOf S T (some (.backward s))) (some (.forwards bs)),
      r.1 = t → r.2 = b'.hash) ∧
    txsIn (applyOutT txsOf (rollback S s) (applyOutT txsOf S T (some (.backward s))) (some (.forwards bs))) b'.hash
      = txsOf b'.hash :=
  reincluded_under_new_block txsOf S T s bs hS hT hs hF b' hb' t ht

/-- **Layer 1, transactions.** For every store that is a chain below the target whose table holds the
rows of its blocks, and every GOOD reply script in which no chain the node presents carries a
transaction twice (`GoodTx`: a transaction of a rolled-back block may come back in any later block):
after the scan the table holds exactly the rows of the stored blocks — which are those of
`C13_import_refines` — whatever the batches, buffer truncations, roll-backs and re-inclusions. With
`C13_convergence` (same blocks) two nodes end with the same table. -/
theorem C13_transactions_refine (txsOf : Nat → List Nat) (c : Cfg) (fuel : Nat) (S0 : List Block) (T0 : List TxRow)
    (rs : List (Option Ev)) (hS : Sorted S0) (hU : ∀ x ∈ S0, x.number ≤ c.untilN) (hG : Good c none S0 rs)
    (hGT : GoodTx txsOf S0 rs) (hT : TInv txsOf S0 T0) :
    (runT txsOf c fuel none S0 T0 rs).1 = (run c fuel none S0 rs).1 ∧
    (runT txsOf c fuel none S0 T0 rs).2.1 = rowsOf txsOf (runT txsOf c fuel none S0 T0 rs).1 := by
  have hI : Inv c S0 [] S0 := by
    refine ⟨hS, ?_, Or.inl rfl⟩
    rw [List.append_nil]; symm; rw [List.filter_eq_self]; intro x hx; simpa using hU x hx
  obtain ⟨h1, _, h3⟩ := runT_refines txsOf c fuel none S0 S0 T0 rs hI hG hGT hT
  exact ⟨h1, h3⟩

/-- the join `cardano_block ⋈ cardano_tx` gives every stored block the transactions it was delivered
with, so the range importers — which read the join — compute the roots the theorems above are about -/
theorem C13_roots_read_through_join (txsOf : Nat → List Nat) (R : (Nat → List Nat) → List Block → Option ρ)
    (hR : LocalRoot R) (S : List Block) (hS : Sorted S) (roots : List (Nat × ρ)) (upTo : Nat) :
    (∀ b ∈ S, txsIn (rowsOf txsOf S) b.hash = txsOf b.hash) ∧
    rangesRun (R (txsIn (rowsOf txsOf S))) S roots upTo = rangesRun (R txsOf) S roots upTo :=
  ⟨fun b hb => txsIn_rowsOf txsOf S hS b hb, rangesRun_join txsOf R hR S hS roots upTo⟩

/-- `GoodTx` is decidable: the driver evaluates it on every recorded import (class letter `x`) -/
theorem C13_goodTx_decidable (txsOf : Nat → List Nat) (rs : List (Option Ev)) (V : List Block) :
    goodTxB txsOf V rs = true ↔ GoodTx txsOf V rs :=
  goodTxB_iff txsOf rs V

/-- the cascade is necessary: block 2 carries transaction 7, the node rolls back to block 1 and the new
block 2' carries transaction 7 again. With the cascade the join gives 2' the transaction; a table that
keeps the row of the removed block (foreign keys not enforced) ignores the new row on the primary key
and the transaction disappears from the join, hence from the roots and the signed message -/
theorem C13_reinclusion_needs_cascade :
    let txsOf : Nat → List Nat := fun h => if h = 102 ∨ h = 202 then [7] else []
    let S : List Block := [⟨101, 1, 10⟩, ⟨102, 2, 20⟩]
    let T := rowsOf txsOf S
    let S' := rollback S 10
    let bs : List Block := [⟨202, 2, 21⟩]
    let S'' := insertAll S' bs
    txsIn (applyOutT txsOf S' (applyOutT txsOf S T (some (.backward 10))) (some (.forwards bs))) 202 = [7] ∧
    txsIn (applyOutTNoCascade txsOf (applyOutTNoCascade txsOf T (some (.backward 10))) (some (.forwards bs))) 202 = [] ∧
    S'' = [⟨101, 1, 10⟩, ⟨202, 2, 21⟩] :=
  reinclusion_needs_cascade

/-! ## the excluded classes are real (counter-examples) -/

/-- class 1 — REPAIRED (f844fb01c): before the repair the history `from = P; Fwd B1; Fwd B2; Back P;
Fwd C1` left `B1, B2` stored; the repaired streamer ends with `[P, C1]` -/
theorem C13_skip_counterexample :
    let c : Cfg := ⟨10, 100, 100⟩
    let rs := [some (.back 10), some (.fwd B1), some (.fwd B2), some (.back 10), some (.fwd C1), none]
    (runOld c 10 [P] rs).1 = [P, B1, B2] ∧
      (applyAll [P] rs).filter (fun x => x.number ≤ c.untilN) = [P, C1] ∧
      (run c 10 none [P] rs).1 = [P, C1] :=
  skip_counterexample

/-- the full statement — `store = abstract chain` for EVERY script in which forwards extend the chain —
is false for the code as it is: -/
def C13_refines_all_scripts_goal : Prop :=
  ∀ (c : Cfg) (S0 : List Block) (rs : List (Option Ev)), Sorted S0 → (∀ x ∈ S0, x.number ≤ c.untilN) →
    (run c (rs.length + 1) none S0 rs).1 = (applyAll S0 rs).filter (fun x => x.number ≤ c.untilN)

/-- class 2 (KNOWN FINDING): a roll-back below the lowest stored block removes nothing; the canonical
block that collides with a stale one on the block number is then ignored -/
theorem C13_rollback_below_store_counterexample : ¬ C13_refines_all_scripts_goal := by
  intro h
  have := h ⟨60, 100, 100⟩ [Q5, Q6] [some (.back 60), some (.back 30), some (.fwd R5), none]
    ((sortedB_iff _).mp (by decide)) (by decide)
  revert this
  decide

theorem C13_rollback_below_store (s : Store.St) (slot : Nat) (h : ∀ b ∈ s.blocks, slot < b.slot) :
    Store.rollback s slot = s := Store.rollback_below_store s slot h

/-- class 3 (KNOWN FINDING): the hypothesis "the last complete range below the target is covered" is
necessary — an import whose target exceeds the delivered tip caches the root of a partially imported
range; the next import resumes above it; a fresh import of the same chain has another root -/
theorem C13_partial_range_counterexample :
    let R : List Block → Option (List Nat) := fun bs => if bs.isEmpty then none else some (bs.map (·.hash))
    let b : Nat → Block := fun n => ⟨n, n, n * 10⟩
    let chain20 := (List.range' 1 20).map b
    let rest := (List.range' 21 30).map b
    let c1 : Cfg := ⟨0, 40, 100⟩
    let r1 := importF R c1 50 [] [] (chain20.map (fun x => some (.fwd x)))
    let c2 : Cfg := ⟨200, 50, 100⟩
    let r2 := importF R c2 50 r1.1 r1.2.1 (some (.back 200) :: rest.map (fun x => some (.fwd x)))
    let fresh := importF R ⟨0, 50, 100⟩ 50 [] [] ((chain20 ++ rest).map (fun x => some (.fwd x)))
    r2.1 = fresh.1 ∧ r2.2.1 ≠ fresh.2.1 :=
  partial_range_counterexample

/-! ## what is offered for signing -/

/-- **aligned beacons** (`beacon + 1` a multiple of 15: every `CardanoTransactions` beacon): both
builders read exactly the cache of the ranges below the beacon — independent of how far beyond the
beacon the node has imported -/
theorem C13_signing_root_ignores_beyond_aligned (S : List Block) (K j : Nat) (hj : 0 < j) (hK : j ≤ K) :
    signable R S (cached R S K) (j * LEN - 1) = cached R S j ∧
    signableLegacy (cached R S K) (j * LEN - 1) = cached R S j :=
  signable_aligned R S K j hj hK

/-- the same statement for EVERY beacon is false for the blocks-and-transactions builder: -/
def C13_signing_root_ignores_beyond_goal : Prop :=
  ∀ (R : List Block → Option (List Nat)) (S : List Block) (K K' beacon : Nat), beacon / LEN < K → beacon / LEN < K' →
    signable R S (cached R S K) beacon = signable R S (cached R S K') beacon ∧
    signable R S (cached R S K) beacon = signable R S (cached R S (beacon / LEN)) beacon

/-- (KNOWN FINDING) a beacon strictly inside a range whose root is already stored is offered that
stored root — computed from blocks ABOVE the beacon — whereas a node that imported exactly to the
beacon computes the partial range: 45 blocks, beacon 40, roots cached to 3 ranges vs 2 -/
theorem C13_beacon_inside_stored_range_counterexample : ¬ C13_signing_root_ignores_beyond_goal := by
  intro h
  have := (h (fun bs => if bs.isEmpty then none else some (bs.map (·.hash)))
    ((List.range' 0 45).map fun n => ⟨n, n, n * 10⟩) 3 3 40 (by decide) (by decide)).2
  revert this
  decide +kernel

/-- non-vacuity: the good scripts are not empty — a fresh node reading a chain with a roll-back inside
the streamer's buffer is good, and the theorem's conclusion can be evaluated on it -/
example : Good ⟨0, 100, 100⟩ none [] [some (.back 0), some (.fwd B1), some (.fwd B2), some (.back 20), some (.fwd ⟨103, 3, 31⟩), none] ∧
    (run ⟨0, 100, 100⟩ 10 none [] [some (.back 0), some (.fwd B1), some (.fwd B2), some (.back 20), some (.fwd ⟨103, 3, 31⟩), none]).1
      = [B1, ⟨103, 3, 31⟩] := by
  constructor
  · rw [← goodB_iff]; decide
  · decide

/-- non-vacuity of the transaction theorem: a store holding block 2 with transaction 7; the node rolls
back to block 1 and delivers 2' and 3' where 3' carries transaction 7 again — the script is `Good` and
`GoodTx`, and transaction 7 ends under 3' -/
example :
    let txsOf : Nat → List Nat := fun h => if h = 102 ∨ h = 203 then [7] else []
    let S0 : List Block := [⟨101, 1, 10⟩, ⟨102, 2, 20⟩]
    let rs : List (Option Ev) := [some (.back 20), some (.back 10), some (.fwd ⟨202, 2, 21⟩), some (.fwd ⟨203, 3, 31⟩), none]
    let c : Cfg := ⟨20, 100, 100⟩
    Good c none S0 rs ∧ GoodTx txsOf S0 rs ∧
    (runT txsOf c 10 none S0 (rowsOf txsOf S0) rs).2.1 = [(7, 203)] := by
  refine ⟨?_, ?_, ?_⟩
  · rw [← goodB_iff]; decide
  · rw [← goodTxB_iff]; decide
  · decide

/-! ## a whole history of imports (multi-import induction, `MithrilModel/ImportMany.lean`)

`ImportMany.step` is one `CardanoChainDataImporter::import` (early exit or scan + range importer),
`ImportMany.runMany` a list of them, `ImportMany.trace` the (target, consumed replies) of the imports that
scanned, `ImportMany.naive` the naive fold of a trace cut at the respective targets. -/

/-- **Multi-import refinement.** From any chain (the empty store is one), after ANY list of imports —
each with its own target, resume point, batch size, fuel and reply script — each of which exits early
or scans a script that is `Good` relative to the store it starts from: (1) the stored blocks are the
naive application of the consumed reply prefixes cut at the respective targets; (2) the store is a
chain — which, with "no early exit ⇒ every stored block is below the target"
(`ImportMany.not_early_below`), is all the next import needs: no hypothesis on roots, no monotone
targets (`C13_multi_import_targets_not_monotone`); (3) from `RInv`, `RInv` holds after import `j` as
soon as every scanning import up to `j` ended covered (all covered: after EVERY import), and the roots
are then the cache of all complete ranges below the last scanned target; (4) without coverage, once an import has scanned, every prefix of `k` ranges that
the store covers after every import is settled. -/
theorem C13_multi_import_refines (S0 : List Block) (roots0 : List (Nat × ρ)) (is : List ImportMany.Imp)
    (hS : Sorted S0) (hOk : ImportMany.Ok S0 is) :
    (ImportMany.runMany R ⟨S0, roots0⟩ is).blocks = ImportMany.naive S0 (ImportMany.trace S0 is) ∧
    Sorted (ImportMany.runMany R ⟨S0, roots0⟩ is).blocks ∧
    (RInv R S0 roots0 → ∀ j, ImportMany.Covered S0 (is.take j) →
      RInv R (ImportMany.runMany R ⟨S0, roots0⟩ (is.take j)).blocks (ImportMany.runMany R ⟨S0, roots0⟩ (is.take j)).roots ∧
      (∀ T, ImportMany.lastT none (ImportMany.trace S0 (is.take j)) = some T →
        (ImportMany.runMany R ⟨S0, roots0⟩ (is.take j)).roots
          = cached R (ImportMany.runMany R ⟨S0, roots0⟩ (is.take j)).blocks ((T + 1) / LEN))) ∧
    (∀ k T, (RInv R S0 roots0 ∨ ImportMany.PInv R S0 roots0 k) → ImportMany.CoversAll k S0 is →
      ImportMany.lastT none (ImportMany.trace S0 is) = some T →
      ImportMany.PInv R (ImportMany.runMany R ⟨S0, roots0⟩ is).blocks (ImportMany.runMany R ⟨S0, roots0⟩ is).roots k) :=
  ImportMany.many_refines R S0 roots0 is hS hOk

/-- the same with ONE cut at the end, when every block consumed above a target is rolled back by the
next scan's replies (`ImportMany.Relost`, decidable; e.g. by the echo of the resume point) -/
theorem C13_multi_import_single_cut (S0 : List Block) (t0 : Nat) (is : List ImportMany.Imp) (hS : Sorted S0)
    (hOk : ImportMany.Ok S0 is) (h0 : ∀ x ∈ S0, x.number ≤ t0) (hL : ImportMany.Relost S0 t0 (ImportMany.trace S0 is)) :
    ImportMany.runManyB S0 is
      = (applyAll S0 ((ImportMany.trace S0 is).flatMap (·.2))).filter
          (fun x => x.number ≤ ImportMany.lastTarget t0 (ImportMany.trace S0 is)) :=
  ImportMany.many_refines_single_cut S0 t0 is hS hOk h0 hL

/-- **Multi-import convergence.** Two nodes — different start stores, different NUMBERS of imports,
intermediate targets, batch sizes, resume points, fuels, scripts — whose traces fold to the same chain
end with the same blocks; with `RInv` at both starts, every scan covered and the same last scanned
target, with the same roots; without coverage, with the same roots on every prefix of `k` ranges both
stores cover after every import. -/
theorem C13_multi_import_convergence (is is' : List ImportMany.Imp) (n n' : ImportMany.Node ρ)
    (hS : Sorted n.blocks) (hS' : Sorted n'.blocks) (hOk : ImportMany.Ok n.blocks is) (hOk' : ImportMany.Ok n'.blocks is')
    (hsame : ImportMany.naive n.blocks (ImportMany.trace n.blocks is) = ImportMany.naive n'.blocks (ImportMany.trace n'.blocks is')) :
    (ImportMany.runMany R n is).blocks = (ImportMany.runMany R n' is').blocks ∧
    (∀ T, RInv R n.blocks n.roots → RInv R n'.blocks n'.roots → ImportMany.Covered n.blocks is → ImportMany.Covered n'.blocks is' →
      ImportMany.lastT none (ImportMany.trace n.blocks is) = some T → ImportMany.lastT none (ImportMany.trace n'.blocks is') = some T →
      (ImportMany.runMany R n is).roots = (ImportMany.runMany R n' is').roots) ∧
    (∀ k T T', (RInv R n.blocks n.roots ∨ ImportMany.PInv R n.blocks n.roots k) →
      (RInv R n'.blocks n'.roots ∨ ImportMany.PInv R n'.blocks n'.roots k) →
      ImportMany.CoversAll k n.blocks is → ImportMany.CoversAll k n'.blocks is' →
      ImportMany.lastT none (ImportMany.trace n.blocks is) = some T → ImportMany.lastT none (ImportMany.trace n'.blocks is') = some T' →
      (ImportMany.runMany R n is).roots.filter (fun r => r.1 < k) = (ImportMany.runMany R n' is').roots.filter (fun r => r.1 < k)) :=
  ImportMany.many_convergence R is is' n n' hS hS' hOk hOk' hsame

/-- the fresh single import is one instance of the convergence theorem -/
theorem C13_multi_import_vs_fresh (is : List ImportMany.Imp) (n : ImportMany.Node ρ) (f : ImportMany.Imp)
    (hS : Sorted n.blocks) (hOk : ImportMany.Ok n.blocks is) (hG : Good f.c none [] f.rs)
    (hsame : ImportMany.naive n.blocks (ImportMany.trace n.blocks is)
      = (applyAll [] (ImportMany.consumed [] f)).filter (fun x => x.number ≤ f.c.untilN)) :
    (ImportMany.runMany R n is).blocks = (importF R f.c f.fuel [] [] f.rs).1 ∧
    (RInv R n.blocks n.roots → ImportMany.Covered n.blocks is →
      ImportMany.lastT none (ImportMany.trace n.blocks is) = some f.c.untilN →
      Below (importF R f.c f.fuel [] [] f.rs).1 ((f.c.untilN + 1) / LEN) →
      (ImportMany.runMany R n is).roots = (importF R f.c f.fuel [] [] f.rs).2.1) :=
  ImportMany.many_vs_fresh R is n f hS hOk hG hsame

/-- **Multi-import, transactions.** From a chain with its table, after ANY list of imports each of which
exits early or scans a `Good`, `GoodTx` script: the blocks are those of `C13_multi_import_refines` and
the table holds exactly the rows of the stored blocks -/
theorem C13_multi_import_transactions (txsOf : Nat → List Nat) (is : List ImportMany.Imp) (p : List Block × List TxRow)
    (hS : Sorted p.1) (hT : TInv txsOf p.1 p.2) (hOk : ImportMany.OkT txsOf p.1 is) :
    (ImportMany.runManyT txsOf p is).1 = ImportMany.runManyB p.1 is ∧
    (ImportMany.runManyT txsOf p is).1 = ImportMany.naive p.1 (ImportMany.trace p.1 is) ∧
    (ImportMany.runManyT txsOf p is).2 = rowsOf txsOf (ImportMany.runManyT txsOf p is).1 :=
  ImportMany.many_transactions txsOf is p hS hT hOk

/-- two nodes whose traces fold to the same chain end with the same blocks and the same `cardano_tx` table -/
theorem C13_multi_import_transactions_convergence (txsOf : Nat → List Nat) (is is' : List ImportMany.Imp)
    (p p' : List Block × List TxRow) (hS : Sorted p.1) (hS' : Sorted p'.1) (hT : TInv txsOf p.1 p.2) (hT' : TInv txsOf p'.1 p'.2)
    (hOk : ImportMany.OkT txsOf p.1 is) (hOk' : ImportMany.OkT txsOf p'.1 is')
    (hsame : ImportMany.naive p.1 (ImportMany.trace p.1 is) = ImportMany.naive p'.1 (ImportMany.trace p'.1 is')) :
    ImportMany.runManyT txsOf p is = ImportMany.runManyT txsOf p' is' :=
  ImportMany.many_transactions_convergence txsOf is is' p p' hS hS' hT hT' hOk hOk' hsame

/-! ### what the next import needs, and what an uncovered import does to it -/

/-- `hU` of the next import is derived from "no early exit", whatever the earlier targets -/
theorem C13_multi_import_target_bound {S : List Block} {target : Nat} (h : ImportMany.early S target = false) :
    ∀ x ∈ S, x.number < target :=
  ImportMany.not_early_below h

/-- the targets of the imports that scan need not be monotone (a roll-back or a short delivery leaves
the store below an earlier target): a good history with scanned targets 10, 12, 6 -/
theorem C13_multi_import_targets_not_monotone :
    let a : ImportMany.Imp := ⟨⟨0, 10, 100⟩, 5, ImportMany.fwds ImportMany.blk 1 10⟩
    let b : ImportMany.Imp := ⟨⟨100, 12, 100⟩, 5, [some (.back 100), some (.back 30), some (.fwd (ImportMany.blk' 4)), none]⟩
    let c : ImportMany.Imp := ⟨⟨41, 6, 100⟩, 5, [some (.back 41), some (.fwd (ImportMany.blk' 5)), some (.fwd (ImportMany.blk' 6)), some (.fwd (ImportMany.blk' 7))]⟩
    ImportMany.okB [] [a, b, c] = true ∧ (ImportMany.trace [] [a, b, c]).map (·.1) = [10, 12, 6] ∧
    ImportMany.runManyB [] [a, b, c]
      = [ImportMany.blk 1, ImportMany.blk 2, ImportMany.blk 3, ImportMany.blk' 4, ImportMany.blk' 5, ImportMany.blk' 6] :=
  ImportMany.targets_not_monotone

/-- an UNCOVERED import still leaves the roots an exact cache of the stored blocks; only `Below` is lost -/
theorem C13_uncovered_import_keeps_cache (c : Cfg) (fuel : Nat) (S0 : List Block) (roots0 : List (Nat × ρ)) (rs : List (Option Ev))
    (hS : Sorted S0) (hU : ∀ x ∈ S0, x.number ≤ c.untilN) (hG : Good c none S0 rs) (hR : RInv R S0 roots0) :
    (importF R c fuel S0 roots0 rs).2.1 = cached R (importF R c fuel S0 roots0 rs).1 ((c.untilN + 1) / LEN) :=
  ImportMany.uncovered_keeps_cache R c fuel S0 roots0 rs hS hU hG hR

/-- … it is REGAINED by a next import whose first store call is a roll-back that finds an anchor -/
theorem C13_rollback_regains_roots_invariant (c : Cfg) (fuel : Nat) (S0 : List Block) (K : Nat) (rs : List (Option Ev)) (s n : Nat)
    (hS : Sorted S0) (hU : ∀ x ∈ S0, x.number ≤ c.untilN) (hG : Good c none S0 rs)
    (hfirst : (poll c none [] rs).1 = some (.backward s)) (ha : anchor S0 s = some n) :
    (importF R c (fuel + 1) S0 (cached R S0 K) rs).2.1
      = cached R (importF R c (fuel + 1) S0 (cached R S0 K) rs).1 ((c.untilN + 1) / LEN) ∧
    (Below (importF R c (fuel + 1) S0 (cached R S0 K) rs).1 ((c.untilN + 1) / LEN) →
      RInv R (importF R c (fuel + 1) S0 (cached R S0 K) rs).1 (importF R c (fuel + 1) S0 (cached R S0 K) rs).2.1) :=
  ImportMany.import_regains R c fuel S0 K rs s n hS hU hG hfirst ha

/-- … and otherwise LOST FOR GOOD: uncovered import 1 (20 of 40 blocks), covered imports 2 and 3 — all
good; `RInv` fails after import 2 and after import 3, the blocks are those of a fresh import, the roots
are not (known finding `C13-partial-range-root`, shown to persist through later covered imports) -/
theorem C13_roots_invariant_lost_for_good :
    ImportMany.Ok [] [ImportMany.i1, ImportMany.i2, ImportMany.i3] ∧ ¬ ImportMany.Covered [] [ImportMany.i1] ∧
    ImportMany.Covered (ImportMany.stepB [] ImportMany.i1) [ImportMany.i2, ImportMany.i3] ∧
    ¬ RInv ImportMany.Rex (ImportMany.runMany ImportMany.Rex ⟨[], []⟩ [ImportMany.i1, ImportMany.i2]).blocks
        (ImportMany.runMany ImportMany.Rex ⟨[], []⟩ [ImportMany.i1, ImportMany.i2]).roots ∧
    ¬ RInv ImportMany.Rex (ImportMany.runMany ImportMany.Rex ⟨[], []⟩ [ImportMany.i1, ImportMany.i2, ImportMany.i3]).blocks
        (ImportMany.runMany ImportMany.Rex ⟨[], []⟩ [ImportMany.i1, ImportMany.i2, ImportMany.i3]).roots ∧
    (ImportMany.runMany ImportMany.Rex ⟨[], []⟩ [ImportMany.i1, ImportMany.i2, ImportMany.i3]).blocks
      = (ImportMany.runMany ImportMany.Rex ⟨[], []⟩ [ImportMany.iFresh]).blocks ∧
    (ImportMany.runMany ImportMany.Rex ⟨[], []⟩ [ImportMany.i1, ImportMany.i2, ImportMany.i3]).roots
      ≠ (ImportMany.runMany ImportMany.Rex ⟨[], []⟩ [ImportMany.iFresh]).roots :=
  ImportMany.lost_for_good

/-- what ALWAYS survives, covered or not: one scanning import keeps every settled prefix the store still
covers (roll-backs below it are recomputed, partial ranges above it do not matter) -/
theorem C13_settled_prefix_survives (c : Cfg) (fuel : Nat) (S0 : List Block) (roots0 : List (Nat × ρ)) (rs : List (Option Ev)) (k : Nat)
    (hS : Sorted S0) (hU : ∀ x ∈ S0, x.number ≤ c.untilN) (hG : Good c none S0 rs) (hP : ImportMany.PInv R S0 roots0 k)
    (hB : Below (importF R c fuel S0 roots0 rs).1 k) :
    ImportMany.PInv R (importF R c fuel S0 roots0 rs).1 (importF R c fuel S0 roots0 rs).2.1 k :=
  ImportMany.import_settled R c fuel S0 roots0 rs k hS hU hG hP hB

/-! ### the driver's history -/

/-- good scripts never hit the foreign-key panic of the batch insert -/
theorem C13_no_panic_on_good_scripts (txsOf : Nat → List Nat) (c : Cfg) (fuel : Nat) (lp : Option Nat) (S V : List Block)
    (T : List TxRow) (roots legacy : List (Nat × ρ)) (rs : List (Option Ev)) (ops : List String)
    (hI : Inv c S [] V) (hG : Good c lp V rs) (hGT : GoodTx txsOf V rs) (hT : TInv txsOf S T) :
    (runX txsOf c fuel lp S T roots legacy rs ops).panicked = false :=
  ImportMany.runX_no_panic txsOf c fuel lp S V T roots legacy rs ops hI hG hGT hT

/-- **the driver's whole history (`Importer.importStep` over imports and restarts) is a `runMany`**:
with root functions that read the join, from a chain with its table, when every import exits early or
reads a `Good`, `GoodTx` script: no import panics, and blocks, both root tables and the transaction
table are those of `runMany` / `runManyT` on the import requests `ImportMany.impsOf` — so the three
multi-import theorems apply to what the driver executes -/
theorem C13_driver_history_is_multi_import (txsOf : Nat → List Nat) (R0 RL0 : (Nat → List Nat) → List Block → Option ρ)
    (hR : LocalRoot R0) (hRL : LocalRoot RL0) (maxPer : Nat) (ops : List ImportMany.Op) (st : Importer.St ρ)
    (hS : Sorted st.blocks) (hT : TInv txsOf st.blocks st.txs)
    (hOk : ImportMany.OkT txsOf st.blocks
      (ImportMany.impsOf txsOf (fun T => R0 (txsIn T)) (fun T => RL0 (txsIn T)) maxPer st ops)) :
    (ImportMany.drive txsOf (fun T => R0 (txsIn T)) (fun T => RL0 (txsIn T)) maxPer st ops).2 = false ∧
    (ImportMany.drive txsOf (fun T => R0 (txsIn T)) (fun T => RL0 (txsIn T)) maxPer st ops).1.blocks
      = ImportMany.runManyB st.blocks (ImportMany.impsOf txsOf (fun T => R0 (txsIn T)) (fun T => RL0 (txsIn T)) maxPer st ops) ∧
    (ImportMany.drive txsOf (fun T => R0 (txsIn T)) (fun T => RL0 (txsIn T)) maxPer st ops).1.roots
      = (ImportMany.runMany (R0 txsOf) ⟨st.blocks, st.roots⟩
          (ImportMany.impsOf txsOf (fun T => R0 (txsIn T)) (fun T => RL0 (txsIn T)) maxPer st ops)).roots ∧
    (ImportMany.drive txsOf (fun T => R0 (txsIn T)) (fun T => RL0 (txsIn T)) maxPer st ops).1.legacy
      = (ImportMany.runMany (RL0 txsOf) ⟨st.blocks, st.legacy⟩
          (ImportMany.impsOf txsOf (fun T => R0 (txsIn T)) (fun T => RL0 (txsIn T)) maxPer st ops)).roots ∧
    (ImportMany.drive txsOf (fun T => R0 (txsIn T)) (fun T => RL0 (txsIn T)) maxPer st ops).1.txs
      = (ImportMany.runManyT txsOf (st.blocks, st.txs)
          (ImportMany.impsOf txsOf (fun T => R0 (txsIn T)) (fun T => RL0 (txsIn T)) maxPer st ops)).2 :=
  ImportMany.drive_is_runMany txsOf R0 RL0 hR hRL maxPer ops st hS hT hOk

/-- non-vacuity of the multi-import theorems: a history with a consumed forward above the target, an
early exit and a chain switch with re-included transactions satisfies `Ok`, `OkT`, `Covered`, `Relost`;
two other nodes (1 import; 3 imports with other targets and batch sizes) fold to the same chain -/
example :
    ImportMany.okB [] [ImportMany.c1, ImportMany.cE, ImportMany.c2] = true ∧
    ImportMany.okTB ImportMany.txEx [] [ImportMany.c1, ImportMany.cE, ImportMany.c2] = true ∧
    ImportMany.coveredB [] [ImportMany.c1, ImportMany.cE, ImportMany.c2] = true ∧
    ImportMany.relostB [] 0 (ImportMany.trace [] [ImportMany.c1, ImportMany.cE, ImportMany.c2]) = true ∧
    ImportMany.okB [] [ImportMany.d1, ImportMany.d2, ImportMany.d3] = true ∧
    ImportMany.naive [] (ImportMany.trace [] [ImportMany.c1, ImportMany.cE, ImportMany.c2])
      = ImportMany.naive [] (ImportMany.trace [] [ImportMany.d1, ImportMany.d2, ImportMany.d3]) ∧
    ImportMany.naive [] (ImportMany.trace [] [ImportMany.c1, ImportMany.cE, ImportMany.c2])
      = ImportMany.naive [] (ImportMany.trace [] [ImportMany.cFresh]) := by
  decide +kernel

end C13
