import MithrilModel.Store
import MithrilModel.Importer
/-!
# C13 — Imported chain data converges to the canonical chain under any roll-backs

Models (what the code DOES, after the repair of the class-1 defect, commit f844fb01c):
* `Store.*` — the repository's deletion semantics (`remove_rolled_back_*`, `insert or ignore`);
* `Import.poll` — `ChainReaderBlockStreamer::poll_next` + `get_next_chain_block_action` over a script
  of reader replies; `Import.run` / `runF` — the `while let Some(..)` loop of
  `BlocksTransactionsImporter` on blocks and block-range roots; `Import.rangesRun` —
  `BlockRangeImporter::run`; `Import.rollbackRoots` — `start >= start(range(anchor))`;
* `Import.insertTx` / `cascade` / `applyOutT` / `runT` — the `cardano_tx` table: rows keyed by the
  transaction hash alone and inserted with `insert or ignore`, deleted with their block (`on delete
  cascade`); `Import.txsIn` — the join every read query and both range importers go through;
* `Importer.importStep` — early exit, resume point, last polled point, panic of the foreign key,
  pruning (driver only); `Importer.signable` — what the signable builders read.

Layer 1 (proved here): the repository's code refines the naive semantics of chain-sync events for
every reply script that is `Good`; `Good` is decidable and evaluated by the driver on every recorded
history. Layer 2 (assumed, checked by S on the simulator): the events a Cardano node delivers fold to
its canonical chain.
-/
namespace C13
open Import Importer

/-! ## repository lemmas -/

/-- a roll-back deletes exactly the blocks above the anchor and exactly the roots from the anchor's range on -/
theorem C13_rollback_exact (s : Store.St) (slot n : Nat) (h : Store.anchor s slot = some n) :
    (∀ b, b ∈ (Store.rollback s slot).blocks ↔ b ∈ s.blocks ∧ b.number ≤ n) ∧
    (∀ r, r ∈ (Store.rollback s slot).roots ↔ r ∈ s.roots ∧ r.start < Store.rangeStart n) :=
  Store.rollback_exact s slot n h

/-- the roots a roll-back keeps cover only kept blocks -/
theorem C13_kept_roots_cover_kept_blocks (s : Store.St) (slot n : Nat) (h : Store.anchor s slot = some n)
    (hw : ∀ r ∈ s.roots, r.stop = r.start + Store.LEN ∧ r.start % Store.LEN = 0) :
    ∀ r ∈ (Store.rollback s slot).roots, r.stop ≤ n + 1 :=
  Store.roots_after_rollback_cover_only_kept s slot n h hw

variable {ρ : Type} (R : List Block → Option ρ)

/-- every stored root is a function of the stored blocks of its range (under the roots invariant) -/
theorem C13_roots_function_of_blocks (S : List Block) (roots : List (Nat × ρ)) (h : RInv R S roots) :
    ∀ r ∈ roots, R (blocksOf S r.1) = some r.2 := by
  obtain ⟨K, hK, _⟩ := h
  intro r hr
  rw [hK] at hr
  have := ((mem_cached R).mp hr).2
  unfold rootAt at this
  cases hR : R (blocksOf S r.1) with
  | none => rw [hR] at this; simp at this
  | some x => rw [hR] at this; simp at this; rw [← this]

/-- running the range importer again changes nothing -/
theorem C13_ranges_idempotent (S : List Block) (K upTo : Nat) :
    rangesRun R S (rangesRun R S (cached R S K) upTo) upTo = rangesRun R S (cached R S K) upTo := by
  rw [rangesRun_cached, rangesRun_cached]; congr 1; omega

/-! ## the refinement theorem -/

/-- **Layer 1, blocks and roots.** For every store that is a chain below the target with roots that
are a cache of it, every batch size, target and GOOD reply script: the stored blocks after the import
are the naive application of the consumed events cut at the target; the store is again a chain; and —
when the last complete range below the target is covered by a stored block — the stored roots are
exactly the roots of ALL complete ranges below the target computed from those blocks. Nothing depends
on the batches, buffer truncations, earlier imports or roll-backs. -/
theorem C13_import_refines (c : Cfg) (fuel : Nat) (S0 : List Block) (roots0 : List (Nat × ρ)) (rs : List (Option Ev))
    (hS : Sorted S0) (hU : ∀ x ∈ S0, x.number ≤ c.untilN) (hG : Good c none S0 rs) (hR : RInv R S0 roots0) :
    ∃ pre, rs = pre ++ (importF R c fuel S0 roots0 rs).2.2 ∧
      (importF R c fuel S0 roots0 rs).1 = (applyAll S0 pre).filter (fun x => x.number ≤ c.untilN) ∧
      Sorted (importF R c fuel S0 roots0 rs).1 ∧
      (Below (importF R c fuel S0 roots0 rs).1 ((c.untilN + 1) / LEN) →
        (importF R c fuel S0 roots0 rs).2.1 = cached R (importF R c fuel S0 roots0 rs).1 ((c.untilN + 1) / LEN) ∧
        RInv R (importF R c fuel S0 roots0 rs).1 (importF R c fuel S0 roots0 rs).2.1) :=
  importF_refines R c fuel S0 roots0 rs hS hU hG hR

/-- **Convergence.** Two nodes with different pasts (stores, cached roots, reply scripts, batch sizes,
resume points) whose consumed events fold to the same chain below the target end with the same blocks
and — when the last complete range is covered — the same roots. The fresh import is the instance
`S0' = []`, `roots0' = []`. -/
theorem C13_convergence (c c' : Cfg) (hu : c.untilN = c'.untilN) (fuel fuel' : Nat)
    (S0 S0' : List Block) (roots0 roots0' : List (Nat × ρ)) (rs rs' : List (Option Ev))
    (hS : Sorted S0) (hU : ∀ x ∈ S0, x.number ≤ c.untilN) (hG : Good c none S0 rs) (hR : RInv R S0 roots0)
    (hS' : Sorted S0') (hU' : ∀ x ∈ S0', x.number ≤ c'.untilN) (hG' : Good c' none S0' rs') (hR' : RInv R S0' roots0')
    (hsame : ∀ pre pre', rs = pre ++ (importF R c fuel S0 roots0 rs).2.2 →
      rs' = pre' ++ (importF R c' fuel' S0' roots0' rs').2.2 →
      (applyAll S0 pre).filter (fun x => x.number ≤ c.untilN) = (applyAll S0' pre').filter (fun x => x.number ≤ c.untilN)) :
    (importF R c fuel S0 roots0 rs).1 = (importF R c' fuel' S0' roots0' rs').1 ∧
    (Below (importF R c fuel S0 roots0 rs).1 ((c.untilN + 1) / LEN) →
      (importF R c fuel S0 roots0 rs).2.1 = (importF R c' fuel' S0' roots0' rs').2.1) := by
  obtain ⟨pre, h1, h2, _, h4⟩ := importF_refines R c fuel S0 roots0 rs hS hU hG hR
  obtain ⟨pre', h1', h2', _, h4'⟩ := importF_refines R c' fuel' S0' roots0' rs' hS' hU' hG' hR'
  have hb : (importF R c fuel S0 roots0 rs).1 = (importF R c' fuel' S0' roots0' rs').1 := by
    rw [h2, h2', ← hu]; exact hsame pre pre' h1 h1'
  refine ⟨hb, fun hBelow => ?_⟩
  have hBelow' : Below (importF R c' fuel' S0' roots0' rs').1 ((c'.untilN + 1) / LEN) := by
    rw [← hb, ← hu]; exact hBelow
  rw [(h4 hBelow).1, (h4' hBelow').1, hb, hu]

/-- an import that exits early (target at or below the highest stored block) keeps the roots invariant -/
theorem C13_early_exit_keeps_invariant (S : List Block) (roots : List (Nat × ρ)) (target : Nat) (b : Block)
    (hb : highest S = some b) (hge : b.number ≥ target) (h : RInv R S roots) :
    RInv R S (rangesRun R S roots target) :=
  early_exit_rinv R S roots target b hb hge h

/-- **`Good` is decidable** — the driver evaluates it (as the class letter) on every recorded import,
so the refinement theorem applies to each concrete history it accepts; `classB` names the first
violated clause (`x` protocol violation, `1` initial echo not a no-op, `2` roll-back outside the known
chain). -/
theorem C13_good_decidable (c : Cfg) (rs : List (Option Ev)) (lp : Option Nat) (V : List Block) :
    (goodB c lp V rs = true ↔ Good c lp V rs) ∧ (classB c lp V rs = none ↔ Good c lp V rs) ∧
    (sortedB V = true ↔ Sorted V) :=
  ⟨goodB_iff c rs lp V, classB_none_iff c rs lp V, sortedB_iff V⟩

/-- the loop the driver executes (with the store-call log and the panic outcome) is the proven loop
whenever it does not panic -/
theorem C13_driver_loop_is_proven_loop (txsOf : Nat → List Nat) (c : Cfg) (fuel : Nat) (lp : Option Nat) (S : List Block)
    (T : List TxRow) (roots legacy : List (Nat × ρ)) (rs : List (Option Ev)) (ops : List String)
    (h : (runX txsOf c fuel lp S T roots legacy rs ops).panicked = false) :
    (runX txsOf c fuel lp S T roots legacy rs ops).S = (runF c fuel lp S roots rs).1 ∧
    (runX txsOf c fuel lp S T roots legacy rs ops).roots = (runF c fuel lp S roots rs).2.1 ∧
    (runX txsOf c fuel lp S T roots legacy rs ops).legacy = (runF c fuel lp S legacy rs).2.1 ∧
    (runX txsOf c fuel lp S T roots legacy rs ops).T = (runT txsOf c fuel lp S T rs).2.1 :=
  let r := runX_eq_runF txsOf c fuel lp S T roots legacy rs ops h
  ⟨r.1, r.2.1, r.2.2.1, r.2.2.2.2.2⟩

/-! ## the transaction table (`cardano_tx`: primary key = transaction hash, `insert or ignore`, cascade) -/

/-- **the cascade.** After a roll-back every remaining transaction row names a block that is still
stored, and no row of a block the roll-back removed remains -/
theorem C13_rollback_removes_transactions (txsOf : Nat → List Nat) (S : List Block) (T : List TxRow) (s : Nat) (hS : Sorted S) :
    (∀ r ∈ applyOutT txsOf S T (some (.backward s)), ∃ b ∈ rollback S s, b.hash = r.2) ∧
    (∀ b ∈ S, b ∉ rollback S s → ∀ r ∈ applyOutT txsOf S T (some (.backward s)), r.2 ≠ b.hash) :=
  ⟨cascade_no_orphan (rollback S s) T, fun b hb hgone => rollback_removes_transactions S T s hS b hb hgone⟩

/-- **a re-included transaction is stored under its new block.** After a roll-back, a batch that
extends the remaining chain — and MAY carry transactions of the blocks the roll-back removed, in any
block of the new fork — is stored row for row: each of its transactions is stored under the block that
now carries it and under no other, and the join gives that block exactly its transactions -/
theorem C13_reincluded_transaction_under_new_block (txsOf : Nat → List Nat) (S : List Block) (T : List TxRow) (s : Nat)
    (bs : List Block) (hS : Sorted S) (hT : TInv txsOf S T)
    (hs : Sorted (rollback S s ++ bs)) (hF : TxFresh txsOf (rollback S s ++ bs))
    (b' : Block) (hb' : b' ∈ bs) (t : Nat) (ht : t ∈ txsOf b'.hash) :
    (t, b'.hash) ∈ applyOutT txsOf (rollback S s) (applyOutT txsOf S T (some (.backward s))) (some (.forwards bs)) ∧
    (∀ r ∈ applyOutT txsOf (rollback S s) (applyOutT txsOf S T (some (.backward s))) (some (.forwards bs)),
      r.1 = t → r.2 = b'.hash) ∧
    txsIn (applyOutT txsOf (rollback S s) (applyOutT txsOf S T (some (.backward s))) (some (.forwards bs))) b'.hash
      = txsOf b'.hash :=
  reincluded_under_new_block txsOf S T s bs hS hT hs hF b' hb' t ht

/-- **Layer 1, transactions.** For every store that is a chain below the target whose table holds the
rows of its blocks, and every GOOD reply script in which no chain the node presents carries a
transaction twice (`GoodTx`: a transaction of a rolled-back block may come back in any later block):
after the scan the table holds exactly the rows of the stored blocks — which are those of
`C13_import_refines` — whatever the batches, buffer truncations, roll-backs and re-inclusions. With
`C13_convergence` (same blocks) two nodes end with the same table. -/
theorem C13_transactions_refine (txsOf : Nat → List Nat) (c : Cfg) (fuel : Nat) (S0 : List Block) (T0 : List TxRow)
    (rs : List (Option Ev)) (hS : Sorted S0) (hU : ∀ x ∈ S0, x.number ≤ c.untilN) (hG : Good c none S0 rs)
    (hGT : GoodTx txsOf S0 rs) (hT : TInv txsOf S0 T0) :
    (runT txsOf c fuel none S0 T0 rs).1 = (run c fuel none S0 rs).1 ∧
    (runT txsOf c fuel none S0 T0 rs).2.1 = rowsOf txsOf (runT txsOf c fuel none S0 T0 rs).1 := by
  have hI : Inv c S0 [] S0 := by
    refine ⟨hS, ?_, Or.inl rfl⟩
    rw [List.append_nil]; symm; rw [List.filter_eq_self]; intro x hx; simpa using hU x hx
  obtain ⟨h1, _, h3⟩ := runT_refines txsOf c fuel none S0 S0 T0 rs hI hG hGT hT
  exact ⟨h1, h3⟩

/-- the join `cardano_block ⋈ cardano_tx` gives every stored block the transactions it was delivered
with, so the range importers — which read the join — compute the roots the theorems above are about -/
theorem C13_roots_read_through_join (txsOf : Nat → List Nat) (R : (Nat → List Nat) → List Block → Option ρ)
    (hR : LocalRoot R) (S : List Block) (hS : Sorted S) (roots : List (Nat × ρ)) (upTo : Nat) :
    (∀ b ∈ S, txsIn (rowsOf txsOf S) b.hash = txsOf b.hash) ∧
    rangesRun (R (txsIn (rowsOf txsOf S))) S roots upTo = rangesRun (R txsOf) S roots upTo :=
  ⟨fun b hb => txsIn_rowsOf txsOf S hS b hb, rangesRun_join txsOf R hR S hS roots upTo⟩

/-- `GoodTx` is decidable: the driver evaluates it on every recorded import (class letter `x`) -/
theorem C13_goodTx_decidable (txsOf : Nat → List Nat) (rs : List (Option Ev)) (V : List Block) :
    goodTxB txsOf V rs = true ↔ GoodTx txsOf V rs :=
  goodTxB_iff txsOf rs V

/-- the cascade is necessary: block 2 carries transaction 7, the node rolls back to block 1 and the new
block 2' carries transaction 7 again. With the cascade the join gives 2' the transaction; a table that
keeps the row of the removed block (foreign keys not enforced) ignores the new row on the primary key
and the transaction disappears from the join, hence from the roots and the signed message -/
theorem C13_reinclusion_needs_cascade :
    let txsOf : Nat → List Nat := fun h => if h = 102 ∨ h = 202 then [7] else []
    let S : List Block := [⟨101, 1, 10⟩, ⟨102, 2, 20⟩]
    let T := rowsOf txsOf S
    let S' := rollback S 10
    let bs : List Block := [⟨202, 2, 21⟩]
    let S'' := insertAll S' bs
    txsIn (applyOutT txsOf S' (applyOutT txsOf S T (some (.backward 10))) (some (.forwards bs))) 202 = [7] ∧
    txsIn (applyOutTNoCascade txsOf (applyOutTNoCascade txsOf T (some (.backward 10))) (some (.forwards bs))) 202 = [] ∧
    S'' = [⟨101, 1, 10⟩, ⟨202, 2, 21⟩] :=
  reinclusion_needs_cascade

/-! ## the excluded classes are real (counter-examples) -/

/-- class 1 — REPAIRED (f844fb01c): before the repair the history `from = P; Fwd B1; Fwd B2; Back P;
Fwd C1` left `B1, B2` stored; the repaired streamer ends with `[P, C1]` -/
theorem C13_skip_counterexample :
    let c : Cfg := ⟨10, 100, 100⟩
    let rs := [some (.back 10), some (.fwd B1), some (.fwd B2), some (.back 10), some (.fwd C1), none]
    (runOld c 10 [P] rs).1 = [P, B1, B2] ∧
      (applyAll [P] rs).filter (fun x => x.number ≤ c.untilN) = [P, C1] ∧
      (run c 10 none [P] rs).1 = [P, C1] :=
  skip_counterexample

/-- the full statement — `store = abstract chain` for EVERY script in which forwards extend the chain —
is false for the code as it is: -/
def C13_refines_all_scripts_goal : Prop :=
  ∀ (c : Cfg) (S0 : List Block) (rs : List (Option Ev)), Sorted S0 → (∀ x ∈ S0, x.number ≤ c.untilN) →
    (run c (rs.length + 1) none S0 rs).1 = (applyAll S0 rs).filter (fun x => x.number ≤ c.untilN)

/-- class 2 (KNOWN FINDING): a roll-back below the lowest stored block removes nothing; the canonical
block that collides with a stale one on the block number is then ignored -/
theorem C13_rollback_below_store_counterexample : ¬ C13_refines_all_scripts_goal := by
  intro h
  have := h ⟨60, 100, 100⟩ [Q5, Q6] [some (.back 60), some (.back 30), some (.fwd R5), none]
    ((sortedB_iff _).mp (by decide)) (by decide)
  revert this
  decide

theorem C13_rollback_below_store (s : Store.St) (slot : Nat) (h : ∀ b ∈ s.blocks, slot < b.slot) :
    Store.rollback s slot = s := Store.rollback_below_store s slot h

/-- class 3 (KNOWN FINDING): the hypothesis "the last complete range below the target is covered" is
necessary — an import whose target exceeds the delivered tip caches the root of a partially imported
range; the next import resumes above it; a fresh import of the same chain has another root -/
theorem C13_partial_range_counterexample :
    let R : List Block → Option (List Nat) := fun bs => if bs.isEmpty then none else some (bs.map (·.hash))
    let b : Nat → Block := fun n => ⟨n, n, n * 10⟩
    let chain20 := (List.range' 1 20).map b
    let rest := (List.range' 21 30).map b
    let c1 : Cfg := ⟨0, 40, 100⟩
    let r1 := importF R c1 50 [] [] (chain20.map (fun x => some (.fwd x)))
    let c2 : Cfg := ⟨200, 50, 100⟩
    let r2 := importF R c2 50 r1.1 r1.2.1 (some (.back 200) :: rest.map (fun x => some (.fwd x)))
    let fresh := importF R ⟨0, 50, 100⟩ 50 [] [] ((chain20 ++ rest).map (fun x => some (.fwd x)))
    r2.1 = fresh.1 ∧ r2.2.1 ≠ fresh.2.1 :=
  partial_range_counterexample

/-! ## what is offered for signing -/

/-- **aligned beacons** (`beacon + 1` a multiple of 15: every `CardanoTransactions` beacon): both
builders read exactly the cache of the ranges below the beacon — independent of how far beyond the
beacon the node has imported -/
theorem C13_signing_root_ignores_beyond_aligned (S : List Block) (K j : Nat) (hj : 0 < j) (hK : j ≤ K) :
    signable R S (cached R S K) (j * LEN - 1) = cached R S j ∧
    signableLegacy (cached R S K) (j * LEN - 1) = cached R S j :=
  signable_aligned R S K j hj hK

/-- the same statement for EVERY beacon is false for the blocks-and-transactions builder: -/
def C13_signing_root_ignores_beyond_goal : Prop :=
  ∀ (R : List Block → Option (List Nat)) (S : List Block) (K K' beacon : Nat), beacon / LEN < K → beacon / LEN < K' →
    signable R S (cached R S K) beacon = signable R S (cached R S K') beacon ∧
    signable R S (cached R S K) beacon = signable R S (cached R S (beacon / LEN)) beacon

/-- (KNOWN FINDING) a beacon strictly inside a range whose root is already stored is offered that
stored root — computed from blocks ABOVE the beacon — whereas a node that imported exactly to the
beacon computes the partial range: 45 blocks, beacon 40, roots cached to 3 ranges vs 2 -/
theorem C13_beacon_inside_stored_range_counterexample : ¬ C13_signing_root_ignores_beyond_goal := by
  intro h
  have := (h (fun bs => if bs.isEmpty then none else some (bs.map (·.hash)))
    ((List.range' 0 45).map fun n => ⟨n, n, n * 10⟩) 3 3 40 (by decide) (by decide)).2
  revert this
  decide +kernel

/-- non-vacuity: the good scripts are not empty — a fresh node reading a chain with a roll-back inside
the streamer's buffer is good, and the theorem's conclusion can be evaluated on it -/
example : Good ⟨0, 100, 100⟩ none [] [some (.back 0), some (.fwd B1), some (.fwd B2), some (.back 20), some (.fwd ⟨103, 3, 31⟩), none] ∧
    (run ⟨0, 100, 100⟩ 10 none [] [some (.back 0), some (.fwd B1), some (.fwd B2), some (.back 20), some (.fwd ⟨103, 3, 31⟩), none]).1
      = [B1, ⟨103, 3, 31⟩] := by
  constructor
  · rw [← goodB_iff]; decide
  · decide

/-- non-vacuity of the transaction theorem: a store holding block 2 with transaction 7; the node rolls
back to block 1 and delivers 2' and 3' where 3' carries transaction 7 again — the script is `Good` and
`GoodTx`, and transaction 7 ends under 3' -/
example :
    let txsOf : Nat → List Nat := fun h => if h = 102 ∨ h = 203 then [7] else []
    let S0 : List Block := [⟨101, 1, 10⟩, ⟨102, 2, 20⟩]
    let rs : List (Option Ev) := [some (.back 20), some (.back 10), some (.fwd ⟨202, 2, 21⟩), some (.fwd ⟨203, 3, 31⟩), none]
    let c : Cfg := ⟨20, 100, 100⟩
    Good c none S0 rs ∧ GoodTx txsOf S0 rs ∧
    (runT txsOf c 10 none S0 (rowsOf txsOf S0) rs).2.1 = [(7, 203)] := by
  refine ⟨?_, ?_, ?_⟩
  · rw [← goodB_iff]; decide
  · rw [← goodTxB_iff]; decide
  · decide

end C13
