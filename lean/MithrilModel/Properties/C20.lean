import MithrilModel.SignerOnce
import MithrilModel.SignerInv
import MithrilModel.SignerAgg
/-!
# C20 — A signer signs each beacon once with its epoch key, acceptably to aggregators

Model: `Signer.step` (`MithrilModel/Signer.lean`) — the four-state machine of
`mithril-signer/src/runtime/state_machine.rs` with the runner steps, the certifier
(select first allowed, not yet signed entity; sign; publish, THEN mark), the epoch service, the three
sqlite tables with their retention pruning, and an environment made of the signer's chain, a fake
aggregator with its own view of the epoch, and a fault schedule (aggregator down, registration round
not open, failing / dropped registration, failing publications with the retry policy, failing
`mark_beacon_as_signed`, restarts).

Every theorem quantifies over ALL event lists (histories and fault sequences) from any initial
environment; `Signer.run s evs` is the state after the events.
-/
namespace C20
open Signer

/- VACUITY AUDIT: no longer an obligation of the check. an arithmetic tautology. Replaced by: C20.C20_offsets_run / Vacuity.C20.offsets_both_models_decisions. -/
/-- Offsets, arithmetic form: a key recorded while registering in epoch `reg` (under `reg + RECORDING(1)`)
is the one retrieved in epoch `E` (under `E + RETRIEVAL(-1)`) exactly when `E = reg + SIGNING(2)`. -/
theorem C20_offsets (E reg : Nat)
    (h : ((reg + SignerOnce.RECORDING : Nat) : Int) = (E : Int) + SignerOnce.RETRIEVAL) : E = reg + SignerOnce.SIGNING :=
  SignerOnce.offsets_agree E reg h

/-- Offsets along runs: whatever the history, every signature the aggregator received was made with a key
that the signer had written to its store while registering, the registration was sent when the
aggregator announced epoch `A − 2` (`A` = epoch of the signature's epoch data), under recording epoch
`A − 1`, which is the retrieval epoch of `A`. In particular nothing is ever signed for an epoch `< 2`. -/
theorem C20_offsets_run (env : Env) (evs : List Event) :
    ∀ p ∈ (run (initState env) evs).pubs, ∃ q ∈ (run (initState env) evs).saved,
      q.key = p.key ∧ q.recEpoch = recording q.aggEpoch ∧ q.recEpoch = retrieval p.aggEpoch ∧
      p.aggEpoch = q.aggEpoch + SIGNING ∧ 2 ≤ p.aggEpoch := by
  intro p hp
  have inv := run_reg evs (initState env) (initState_reg env)
  obtain ⟨q, hq, r1, r2, r3⟩ := inv.pubsKey p hp
  have r4 := inv.savedRec q hq
  refine ⟨q, hq, r1, r4, ?_, r3.symm, ?_⟩
  · unfold retrieval; omega
  · unfold SIGNING at r3; omega

/-- Offsets, both sides, along runs (the aggregator starts without registrations): every signature the
aggregator received was made in chain epoch `E` = the epoch of the epoch data in force, `E` is not ahead of
the aggregator, the signing key is in the aggregator's OWN signer list for `E` — the registrations it recorded
under `E − 1` (RETRIEVAL), a list that is closed since the aggregator left epoch `E − 2` — and that key is the
one the signer stored when it registered while the aggregator announced `E − 2` (`E − 2 + RECORDING = E +
RETRIEVAL`, `SIGNER_SIGNING_OFFSET = 2` on both sides). -/
theorem C20_offsets_both_sides (env : Env) (evs : List Event) (h : env.aggReg = []) :
    ∀ p ∈ (run (initState env) evs).pubs,
      p.aggEpoch = p.chainEpoch ∧ p.chainEpoch ≤ (run (initState env) evs).env.aggEpoch ∧
      (⟨0, p.key⟩ : Reg) ∈ regsFor (run (initState env) evs).env.aggReg (retrieval p.chainEpoch) ∧
      ∃ q ∈ (run (initState env) evs).saved,
        q.key = p.key ∧ q.recEpoch = recording q.aggEpoch ∧ q.recEpoch = retrieval p.chainEpoch ∧
        p.chainEpoch = q.aggEpoch + SIGNING := by
  intro p hp
  obtain ⟨r, a⟩ := run_reg_agg evs (initState env) (initState_reg env) (initState_agg env h)
  obtain ⟨a1, a2, a3⟩ := a.pubsAgg p hp
  obtain ⟨q, hq, r1, r2, r3⟩ := r.pubsKey p hp
  have r4 := r.savedRec q hq
  refine ⟨a1, by omega, by rw [← a1]; exact a3, q, hq, r1, r4, ?_, by omega⟩
  unfold retrieval; omega

/-- Never before registered: in any reachable state, an event that makes the aggregator receive a signature
is a tick in `ReadyToSign`, with epoch data whose protocol initializer exists, was stored under the
retrieval epoch (epoch − 1) by a registration recorded under aggregator epoch + 1, and whose key is in
the current signer list the aggregator served. -/
theorem C20_never_before_registered (env : Env) (evs : List Event) (ev : Event)
    (hp : (step (run (initState env) evs) ev).pubs ≠ (run (initState env) evs).pubs) :
    ∃ e d k, (run (initState env) evs).mach = .ready e ∧ (run (initState env) evs).data = some d ∧
      d.ini = some k ∧ (⟨0, k⟩ : Reg) ∈ d.cur ∧
      ∃ q ∈ (run (initState env) evs).saved, q.key = k ∧ q.recEpoch = retrieval d.epoch ∧
        q.recEpoch = recording q.aggEpoch :=
  publish_only_when_ready _ ev (run_reg evs (initState env) (initState_reg env)) hp

/-- The full statement of once-ness (every history, every fault sequence). FALSE for the code as it is:
see `C20_republish_counterexample`. -/
def C20_once_goal : Prop :=
  ∀ (env : Env) (evs : List Event), env.markFail = 0 → ((run (initState env) evs).pubs.map (·.entity)).Nodup

/-- witness: two other parties register, the signer registers in epochs 1 and 2, becomes `ReadyToSign` in
epoch 3, the first `mark_beacon_as_signed` after a successful publication fails, the next tick publishes the
same signature again -/
def witnessEnv : Env := initEnv 1 1 0 [(0, [Disc.msd, Disc.csd, Disc.cdb])] 2 none

def witnessEvents : List Event :=
  [.regOthers [⟨1, 1001⟩, ⟨2, 1002⟩], .tick false, .tick false,
   .epochUp 0, .aggEpochUp, .regOthers [⟨1, 1001⟩, ⟨2, 1002⟩], .tick false, .tick false,
   .epochUp 0, .aggEpochUp, .tick false, .tick false,
   .setMarkFail 1, .tick false, .tick false, .tick false]

set_option maxRecDepth 100000 in
/-- KNOWN FINDING (publish-then-mark): a failure of `mark_beacon_as_signed` right after a successful
publication makes the next tick publish the same entity again. -/
theorem C20_republish_counterexample : ¬ C20_once_goal := by
  intro h
  have := h witnessEnv witnessEvents rfl
  revert this
  decide

set_option maxRecDepth 100000 in
/-- the re-published signature is the same one: same entity, same key, same epoch data, same stake
distribution (signing is deterministic given those — `Prim` assumption), so an insert-or-replace keyed by
party and entity on the aggregator's side stores one row -/
theorem C20_republish_same :
    (run (initState witnessEnv) witnessEvents).pubs =
      [⟨⟨.msd, 3, 0⟩, 0, 3, 3, 0⟩, ⟨⟨.msd, 3, 0⟩, 0, 3, 3, 0⟩, ⟨⟨.csd, 2, 0⟩, 0, 3, 3, 0⟩] := by
  decide

/-- Once-ness, the part that holds: along EVERY history (ticks, restarts, epoch changes on either side,
chain progress, aggregator down, round not open, failing or dropped registrations, failing publications
and retries, pruning) in which no failure of `mark_beacon_as_signed` is injected — i.e. mark succeeds
whenever publish does — each (signed entity, beacon) is received by the aggregator at most once. -/
theorem C20_once_partial (env : Env) (evs : List Event) (h0 : env.markFail = 0)
    (hev : ∀ ev ∈ evs, NoMarkFault ev) : ((run (initState env) evs).pubs.map (·.entity)).Nodup :=
  (run_once evs (initState env) (initState_once env h0) hev).nodup

/-- the probe's core statement, kept: publish/mark cycles with `mark` succeeding whenever `publish` does -/
theorem C20_once_core (runs : List (List Nat × Bool × Bool)) (hm : ∀ r ∈ runs, r.2.1 = true → r.2.2 = true) :
    (runs.foldl (fun s r => SignerOnce.cycle s r.1 r.2.1 r.2.2) { signed := [], log := [] }).log.Nodup :=
  SignerOnce.once runs hm

/-- Restart: a restart at any point maps any state to `Init` with the same tables, the same environment and the
same history, loses only the in-memory epoch data, and preserves both invariants (so everything above
keeps holding after any number of restarts at any ticks). -/
theorem C20_restart (s : State) :
    (step s .restart).mach = .init ∧ (step s .restart).data = none ∧ (step s .restart).st = s.st ∧
    (step s .restart).env = s.env ∧ (step s .restart).pubs = s.pubs ∧
    (InvOnce s → InvOnce (step s .restart)) ∧ (InvReg s → InvReg (step s .restart)) :=
  ⟨rfl, rfl, rfl, rfl, rfl, fun h => step_once s .restart h trivial, fun h => step_reg s .restart h⟩

/-- after a restart the signer does not sign before it has fetched epoch settings again and found its key in
the current signer list: the first two ticks cannot publish -/
theorem C20_restart_no_blind_signature (s : State) (l1 l2 : Bool) :
    (step (step s .restart) (.tick l1)).pubs = s.pubs ∧
    (step (step (step s .restart) (.tick l1)) (.tick l2)).pubs = s.pubs := by
  have h1 : (step (step s .restart) (.tick l1)) = { s with mach := .unreg s.env.epoch, data := none, res := .ok } := rfl
  refine ⟨by rw [h1], ?_⟩
  rw [h1]
  exact (tickUnreg_onceFrame _ _).pubs

/-- Observation (not a violation of the statement): a signer that holds a key for epoch `E` but did not
register during `E − 1` cannot sign in `E` — computing the message needs the initializer of the next
epoch. Witness: the registration of epoch 2 is refused, epoch 3 is `ReadyToSign` and every tick fails. -/
theorem C20_missed_registration_note :
    let s := run (initState witnessEnv)
      [.regOthers [⟨1, 1001⟩], .tick false, .tick false, .epochUp 0, .aggEpochUp, .regOthers [⟨1, 1001⟩], .setRegFail true,
       .tick false, .tick false, .epochUp 0, .aggEpochUp, .setRegFail false, .tick false, .tick false, .tick false, .tick false]
    s.mach = .ready 3 ∧ s.res = .keep ∧ s.pubs = [] := by
  decide

def signingEvents : List Event :=
  [.regOthers [⟨1, 1001⟩], .tick false, .tick false, .epochUp 0, .aggEpochUp, .regOthers [⟨1, 1001⟩], .tick false, .tick false,
   .epochUp 1, .aggEpochUp, .regOthers [⟨2, 1002⟩], .tick false, .tick false, .tick false, .restart, .tick false, .tick false,
   .tick false, .tick false, .epochUp 1, .aggEpochUp, .tick false, .tick false, .tick false, .tick false, .tick false]

set_option maxRecDepth 100000 in
/-- Non-vacuity: the hypotheses of the theorems are satisfiable by a run that signs — a fault-free history
over four epochs with a restart publishes six distinct signatures with two different keys. -/
example :
    (∀ ev ∈ signingEvents, NoMarkFault ev) ∧
    ((run (initState witnessEnv) signingEvents).pubs.map (fun p => (p.entity, p.key))) =
      [(⟨.msd, 3, 0⟩, 0), (⟨.csd, 2, 0⟩, 0), (⟨.cdb, 3, 1⟩, 0), (⟨.msd, 4, 0⟩, 1), (⟨.csd, 3, 0⟩, 1), (⟨.cdb, 4, 1⟩, 1)] := by
  decide

/-! ## Layer `compose` (`MithrilModel/SignerAgg.lean`): marked ⇒ published, composition with the aggregator
model `Agg`, stake distribution in force. `SignerAgg.runG false` is `Signer.run` next to a chronological log of
observations (`published p w`, `noLottery t x`, `marked t x`) and the history of the chain's stake distributions;
`SignerAgg.runG true` is the deliberately broken certifier that marks before it publishes. -/

/-- **marked ⇒ published**, every history: the logged run is the model's run; the log's publications are the
model's publication log; every row `(t, x)` of the signed-beacon table was written by a mark that comes in the
history after a publication of `x` made at chain epoch `t` reached the aggregator, or after "no lottery won" for
`x`; likewise every `marked` observation (pruned since or not). -/
theorem C20_marked_implies_published (env : Env) (evs : List Event) :
    (SignerAgg.runG false (SignerAgg.initG env) evs).s = run (initState env) evs ∧
    (SignerAgg.runG false (SignerAgg.initG env) evs).log.filterMap SignerAgg.pubOf = (run (initState env) evs).pubs ∧
    (∀ t x, (t, x) ∈ (run (initState env) evs).st.signed →
      ∃ pre post, (SignerAgg.runG false (SignerAgg.initG env) evs).log = pre ++ SignerAgg.Obs.marked t x :: post ∧
        SignerAgg.Justified pre t x) ∧
    SignerAgg.MIP (SignerAgg.runG false (SignerAgg.initG env) evs).log :=
  SignerAgg.marked_implies_published env evs

/-- when no tick reports "all lotteries lost", every marked beacon has its publication in the model's log -/
theorem C20_marked_published_when_won (env : Env) (evs : List Event) (hw : ∀ ev ∈ evs, ev ≠ .tick true)
    (t : Nat) (x : Entity) (hx : (t, x) ∈ (run (initState env) evs).st.signed) :
    ∃ p ∈ (run (initState env) evs).pubs, p.entity = x ∧ p.chainEpoch = t :=
  SignerAgg.marked_published_when_won env evs hw t x hx

/-- the broken variant (mark before publish) violates the property: `readyPrefix ++ [setPubFail 2, tick]` -/
theorem C20_mark_before_publish_counterexample :
    ¬ ∀ (env : Env) (evs : List Event), SignerAgg.MarkedImpliesPublished (SignerAgg.runG true (SignerAgg.initG env) evs) :=
  SignerAgg.mark_before_publish_counterexample

/-- … while the code's order satisfies the same predicate for every history -/
theorem C20_publish_before_mark_holds (env : Env) (evs : List Event) :
    SignerAgg.MarkedImpliesPublished (SignerAgg.runG false (SignerAgg.initG env) evs) :=
  SignerAgg.publish_before_mark_holds env evs

/-- **accepted** (composition with `Agg.registerSig`): see `SignerAgg.accepted`. -/
theorem C20_accepted (env : Env) (evs : List Event) (h0 : env.aggReg = []) (hev : ∀ ev ∈ evs, SignerAgg.OthersOnly ev)
    (p : Pub) (hp : p ∈ (run (initState env) evs).pubs)
    (stake : List (Nat × Nat)) (m sigma : Nat) (idx : List Nat) (auth : Bool)
    (E : Agg.Env) (A : Agg.St) (enc : Entity → Nat) (o : Agg.OM)
    (hstake : ∃ v, lookup stake (retrieval p.chainEpoch) = some v ∧
      (retrieval p.chainEpoch - 1, v) ∈ SignerAgg.chainVers env evs)
    (hregs : Agg.signersOf A.regs (retrieval p.chainEpoch) =
      (regsFor (run (initState env) evs).env.aggReg (retrieval p.chainEpoch)).map (·.party))
    (hom : Agg.findOm (enc p.entity) A.oms = some o) (hoe : o.epoch = p.entity.signEpoch) (hmsg : o.msg = m)
    (hc : o.certified = false) (hx : o.expired = false) (hes : A.es = some o.epoch) :
    (∃ w, SignerAgg.Obs.published p w ∈ (SignerAgg.runG false (SignerAgg.initG env) evs).log ∧
      w.cur = regsFor (run (initState env) evs).env.aggReg (retrieval p.chainEpoch)) ∧
    Agg.sigClass A (enc p.entity)
      (SignerAgg.sigOf ⟨(run (initState env) evs).env.aggReg, stake⟩
        (regsFor (run (initState env) evs).env.aggReg (retrieval p.chainEpoch)) p m sigma idx auth) = .registered ∧
    (Agg.registerSig E A (enc p.entity)
      (SignerAgg.sigOf ⟨(run (initState env) evs).env.aggReg, stake⟩
        (regsFor (run (initState env) evs).env.aggReg (retrieval p.chainEpoch)) p m sigma idx auth)).sigs.filter
        (fun r => r.entity = enc p.entity && r.party = 0) =
      [{ entity := enc p.entity, party := 0, sigma := sigma, idx := idx, signer := 0, msg := m, vEpoch := p.chainEpoch }] :=
  SignerAgg.accepted env evs h0 hev p hp stake m sigma idx auth E A enc o hstake hregs hom hoe hmsg hc hx hes

/-- accepted, with the agreement of the two messages derived from the next signer list and its stake distribution -/
theorem C20_accepted_msg (env : Env) (evs : List Event) (h0 : env.aggReg = []) (hev : ∀ ev ∈ evs, SignerAgg.OthersOnly ev)
    (p : Pub) (hp : p ∈ (run (initState env) evs).pubs)
    (stake : List (Nat × Nat)) (M : Entity → List Reg → Nat → Nat) (sigma : Nat) (idx : List Nat) (auth : Bool)
    (E : Agg.Env) (A : Agg.St) (enc : Entity → Nat) (o : Agg.OM)
    (hstake : ∃ v, lookup stake (retrieval p.chainEpoch) = some v ∧
      (retrieval p.chainEpoch - 1, v) ∈ SignerAgg.chainVers env evs)
    (hregs : Agg.signersOf A.regs (retrieval p.chainEpoch) =
      (regsFor (run (initState env) evs).env.aggReg (retrieval p.chainEpoch)).map (·.party))
    (hom : Agg.findOm (enc p.entity) A.oms = some o) (hoe : o.epoch = p.entity.signEpoch)
    (hmsg : ∃ v', lookup stake (nextRetrieval p.chainEpoch) = some v' ∧
      (nextRetrieval p.chainEpoch - 1, v') ∈ SignerAgg.chainVers env evs ∧
      o.msg = M p.entity (regsFor (run (initState env) evs).env.aggReg (nextRetrieval p.chainEpoch)) v')
    (hc : o.certified = false) (hx : o.expired = false) (hes : A.es = some o.epoch) :
    ∃ w, SignerAgg.Obs.published p w ∈ (SignerAgg.runG false (SignerAgg.initG env) evs).log ∧
      M p.entity w.next w.nextStake = o.msg ∧
      Agg.sigClass A (enc p.entity)
        (SignerAgg.sigOf ⟨(run (initState env) evs).env.aggReg, stake⟩ w.cur p (M p.entity w.next w.nextStake)
          sigma idx auth) = .registered :=
  SignerAgg.accepted_msg env evs h0 hev p hp stake M sigma idx auth E A enc o hstake hregs hom hoe hmsg hc hx hes

/-- accepted, the aggregator model being in a state of its invariant and SIGNING the entity -/
theorem C20_accepted_signing (env : Env) (evs : List Event) (h0 : env.aggReg = []) (hev : ∀ ev ∈ evs, SignerAgg.OthersOnly ev)
    (p : Pub) (hp : p ∈ (run (initState env) evs).pubs)
    (stake : List (Nat × Nat)) (sigma : Nat) (idx : List Nat) (auth : Bool)
    (E : Agg.Env) (A : Agg.St) (enc : Entity → Nat) (o : Agg.OM) (ep : Nat)
    (hinv : Agg.SInv E A) (hrt : A.rt = .signing ep (enc p.entity)) (henc : E.entityEpoch (enc p.entity) = p.entity.signEpoch)
    (hstake : ∃ v, lookup stake (retrieval p.chainEpoch) = some v ∧
      (retrieval p.chainEpoch - 1, v) ∈ SignerAgg.chainVers env evs)
    (hregs : Agg.signersOf A.regs (retrieval p.chainEpoch) =
      (regsFor (run (initState env) evs).env.aggReg (retrieval p.chainEpoch)).map (·.party))
    (hom : Agg.findOm (enc p.entity) A.oms = some o) (hc : o.certified = false) (hx : o.expired = false) :
    Agg.sigClass A (enc p.entity)
      (SignerAgg.sigOf ⟨(run (initState env) evs).env.aggReg, stake⟩
        (regsFor (run (initState env) evs).env.aggReg (retrieval p.chainEpoch)) p o.msg sigma idx auth) = .registered :=
  SignerAgg.accepted_signing env evs h0 hev p hp stake sigma idx auth E A enc o ep hinv hrt henc hstake hregs hom hc hx

/-- the converse of acceptance: with the verdicts computed from the keys, `Agg` registers the signer's signature only
if key, signer list and stake distribution are those the aggregator holds for the epoch service's epoch -/
theorem C20_registered_only_if (V : SignerAgg.KeyView) (R : List Reg) (p : Pub) (m sigma : Nat) (idx : List Nat) (auth : Bool)
    (A : Agg.St) (e : Nat) (h : Agg.sigClass A e (SignerAgg.sigOf V R p m sigma idx auth) = .registered) :
    ∃ ep o, A.es = some ep ∧ Agg.findOm e A.oms = some o ∧ o.msg = m ∧
      regsFor V.reg (retrieval ep) = R ∧ SignerAgg.keyOf V.reg (retrieval ep) 0 = some p.key ∧
      lookup V.stake (retrieval ep) = some p.stakeVer ∧ 0 ∈ Agg.signersOf A.regs (o.epoch - 1) :=
  SignerAgg.registered_only_if V R p m sigma idx auth A e h

/-- the offset relation stated on both models (signer: registered when the aggregator announced `a`, recorded under
`a + 1`, signs in `a + 2` from the list kept under `(a + 2) − 1`; aggregator: the round of epoch `a` is `a + 1`, the
signer set demanded for an open message of epoch `a + 2` is the one of key `(a + 2) − 1`) -/
theorem C20_offsets_both_models (env : Env) (evs : List Event) (h0 : env.aggReg = []) (p : Pub)
    (hp : p ∈ (run (initState env) evs).pubs) :
    ∃ q ∈ (run (initState env) evs).saved, q.key = p.key ∧
      q.recEpoch = recording q.aggEpoch ∧ p.chainEpoch = q.aggEpoch + SIGNING ∧ retrieval p.chainEpoch = q.recEpoch ∧
      (⟨0, p.key⟩ : Reg) ∈ regsFor (run (initState env) evs).env.aggReg q.recEpoch ∧
      (∀ (s : Agg.St) (tp : Agg.Tp), tp.epoch = q.aggEpoch → (Agg.epochInit s tp).round = some q.recEpoch) ∧
      (∀ (o : Agg.OM), o.epoch = p.chainEpoch → o.epoch - 1 = q.recEpoch) :=
  SignerAgg.offsets_both_models env evs h0 p hp

/-- the signer never gets two different keys recorded for one round (other parties not registering under its id) -/
theorem C20_one_key_per_round (env : Env) (evs : List Event) (h0 : env.aggReg = [])
    (hev : ∀ ev ∈ evs, SignerAgg.OthersOnly ev) (r k k' : Nat)
    (h : (r, (⟨0, k⟩ : Reg)) ∈ (run (initState env) evs).env.aggReg)
    (h' : (r, (⟨0, k'⟩ : Reg)) ∈ (run (initState env) evs).env.aggReg) : k = k' :=
  SignerAgg.one_key_per_round env evs h0 hev r k k' h h'

/-- **stake distribution in force**: `stakes[e]` = what the chain reported in `e − 1`; a signature of chain epoch `E`
was made with what the chain reported in `E − 2` -/
theorem C20_stake_in_force (env : Env) (evs : List Event) (h0 : env.aggReg = []) :
    (∀ r ∈ (run (initState env) evs).st.stakes, 1 ≤ r.1 ∧ (r.1 - 1, r.2) ∈ SignerAgg.chainVers env evs) ∧
    ∀ p ∈ (run (initState env) evs).pubs,
      2 ≤ p.chainEpoch ∧ (p.chainEpoch - 2, p.stakeVer) ∈ SignerAgg.chainVers env evs :=
  SignerAgg.stake_in_force env evs h0

end C20
