import MithrilModel.SignerOnce
import MithrilModel.SignerInv
/-!
# C20 — A signer signs each beacon once with its epoch key, acceptably to aggregators

Model: `Signer.step` (`MithrilModel/Signer.lean`) — the four-state machine of
`mithril-signer/src/runtime/state_machine.rs` with the runner steps, the certifier
(select first allowed, not yet signed entity; sign; publish, THEN mark), the epoch service, the three
sqlite tables with their retention pruning, and an environment made of the signer's chain, a fake
aggregator with its own view of the epoch, and a fault schedule (aggregator down, registration round
not open, failing / dropped registration, failing publications with the retry policy, failing
`mark_beacon_as_signed`, restarts).

Every theorem quantifies over ALL event lists (histories and fault sequences) from any initial
environment; `Signer.run s evs` is the state after the events.
-/
namespace C20
open Signer

/-- Offsets, arithmetic form: a key recorded while registering in epoch `reg` (under `reg + RECORDING(1)`)
is the one retrieved in epoch `E` (under `E + RETRIEVAL(-1)`) exactly when `E = reg + SIGNING(2)`. -/
theorem C20_offsets (E reg : Nat)
    (h : ((reg + SignerOnce.RECORDING : Nat) : Int) = (E : Int) + SignerOnce.RETRIEVAL) : E = reg + SignerOnce.SIGNING :=
  SignerOnce.offsets_agree E reg h

/-- Offsets along runs: whatever the history, every signature the aggregator received was made with a key
that the signer had written to its store while registering, the registration was sent when the
aggregator announced epoch `A − 2` (`A` = epoch of the signature's epoch data), under recording epoch
`A − 1`, which is the retrieval epoch of `A`. In particular nothing is ever signed for an epoch `< 2`. -/
theorem C20_offsets_run (env : Env) (evs : List Event) :
    ∀ p ∈ (run (initState env) evs).pubs, ∃ q ∈ (run (initState env) evs).saved,
      q.key = p.key ∧ q.recEpoch = recording q.aggEpoch ∧ q.recEpoch = retrieval p.aggEpoch ∧
      p.aggEpoch = q.aggEpoch + SIGNING ∧ 2 ≤ p.aggEpoch := by
  intro p hp
  have inv := run_reg evs (initState env) (initState_reg env)
  obtain ⟨q, hq, r1, r2, r3⟩ := inv.pubsKey p hp
  have r4 := inv.savedRec q hq
  refine ⟨q, hq, r1, r4, ?_, r3.symm, ?_⟩
  · unfold retrieval; omega
  · unfold SIGNING at r3; omega

/-- Offsets, both sides, along runs (the aggregator starts without registrations): every signature the
aggregator received was made in chain epoch `E` = the epoch of the epoch data in force, `E` is not ahead of
the aggregator, the signing key is in the aggregator's OWN signer list for `E` — the registrations it recorded
under `E − 1` (RETRIEVAL), a list that is closed since the aggregator left epoch `E − 2` — and that key is the
one the signer stored when it registered while the aggregator announced `E − 2` (`E − 2 + RECORDING = E +
RETRIEVAL`, `SIGNER_SIGNING_OFFSET = 2` on both sides). -/
theorem C20_offsets_both_sides (env : Env) (evs : List Event) (h : env.aggReg = []) :
    ∀ p ∈ (run (initState env) evs).pubs,
      p.aggEpoch = p.chainEpoch ∧ p.chainEpoch ≤ (run (initState env) evs).env.aggEpoch ∧
      (⟨0, p.key⟩ : Reg) ∈ regsFor (run (initState env) evs).env.aggReg (retrieval p.chainEpoch) ∧
      ∃ q ∈ (run (initState env) evs).saved,
        q.key = p.key ∧ q.recEpoch = recording q.aggEpoch ∧ q.recEpoch = retrieval p.chainEpoch ∧
        p.chainEpoch = q.aggEpoch + SIGNING := by
  intro p hp
  obtain ⟨r, a⟩ := run_reg_agg evs (initState env) (initState_reg env) (initState_agg env h)
  obtain ⟨a1, a2, a3⟩ := a.pubsAgg p hp
  obtain ⟨q, hq, r1, r2, r3⟩ := r.pubsKey p hp
  have r4 := r.savedRec q hq
  refine ⟨a1, by omega, by rw [← a1]; exact a3, q, hq, r1, r4, ?_, by omega⟩
  unfold retrieval; omega

/-- Never before registered: in any reachable state, an event that makes the aggregator receive a signature
is a tick in `ReadyToSign`, with epoch data whose protocol initializer exists, was stored under the
retrieval epoch (epoch − 1) by a registration recorded under aggregator epoch + 1, and whose key is in
the current signer list the aggregator served. -/
theorem C20_never_before_registered (env : Env) (evs : List Event) (ev : Event)
    (hp : (step (run (initState env) evs) ev).pubs ≠ (run (initState env) evs).pubs) :
    ∃ e d k, (run (initState env) evs).mach = .ready e ∧ (run (initState env) evs).data = some d ∧
      d.ini = some k ∧ (⟨0, k⟩ : Reg) ∈ d.cur ∧
      ∃ q ∈ (run (initState env) evs).saved, q.key = k ∧ q.recEpoch = retrieval d.epoch ∧
        q.recEpoch = recording q.aggEpoch :=
  publish_only_when_ready _ ev (run_reg evs (initState env) (initState_reg env)) hp

/-- The full statement of once-ness (every history, every fault sequence). FALSE for the code as it is:
see `C20_republish_counterexample`. -/
def C20_once_goal : Prop :=
  ∀ (env : Env) (evs : List Event), env.markFail = 0 → ((run (initState env) evs).pubs.map (·.entity)).Nodup

/-- witness: two other parties register, the signer registers in epochs 1 and 2, becomes `ReadyToSign` in
epoch 3, the first `mark_beacon_as_signed` after a successful publication fails, the next tick publishes the
same signature again -/
def witnessEnv : Env := initEnv 1 1 0 [(0, [Disc.msd, Disc.csd, Disc.cdb])] 2 none

def witnessEvents : List Event :=
  [.regOthers [⟨1, 1001⟩, ⟨2, 1002⟩], .tick false, .tick false,
   .epochUp 0, .aggEpochUp, .regOthers [⟨1, 1001⟩, ⟨2, 1002⟩], .tick false, .tick false,
   .epochUp 0, .aggEpochUp, .tick false, .tick false,
   .setMarkFail 1, .tick false, .tick false, .tick false]

set_option maxRecDepth 100000 in
/-- KNOWN FINDING (publish-then-mark): a failure of `mark_beacon_as_signed` right after a successful
publication makes the next tick publish the same entity again. -/
theorem C20_republish_counterexample : ¬ C20_once_goal := by
  intro h
  have := h witnessEnv witnessEvents rfl
  revert this
  decide

set_option maxRecDepth 100000 in
/-- the re-published signature is the same one: same entity, same key, same epoch data, same stake
distribution (signing is deterministic given those — `Prim` assumption), so an insert-or-replace keyed by
party and entity on the aggregator's side stores one row -/
theorem C20_republish_same :
    (run (initState witnessEnv) witnessEvents).pubs =
      [⟨⟨.msd, 3, 0⟩, 0, 3, 3, 0⟩, ⟨⟨.msd, 3, 0⟩, 0, 3, 3, 0⟩, ⟨⟨.csd, 2, 0⟩, 0, 3, 3, 0⟩] := by
  decide

/-- Once-ness, the part that holds: along EVERY history (ticks, restarts, epoch changes on either side,
chain progress, aggregator down, round not open, failing or dropped registrations, failing publications
and retries, pruning) in which no failure of `mark_beacon_as_signed` is injected — i.e. mark succeeds
whenever publish does — each (signed entity, beacon) is received by the aggregator at most once. -/
theorem C20_once_partial (env : Env) (evs : List Event) (h0 : env.markFail = 0)
    (hev : ∀ ev ∈ evs, NoMarkFault ev) : ((run (initState env) evs).pubs.map (·.entity)).Nodup :=
  (run_once evs (initState env) (initState_once env h0) hev).nodup

/-- the probe's core statement, kept: publish/mark cycles with `mark` succeeding whenever `publish` does -/
theorem C20_once_core (runs : List (List Nat × Bool × Bool)) (hm : ∀ r ∈ runs, r.2.1 = true → r.2.2 = true) :
    (runs.foldl (fun s r => SignerOnce.cycle s r.1 r.2.1 r.2.2) { signed := [], log := [] }).log.Nodup :=
  SignerOnce.once runs hm

/-- Restart: a restart at any point maps any state to `Init` with the same tables, the same environment and the
same history, loses only the in-memory epoch data, and preserves both invariants (so everything above
keeps holding after any number of restarts at any ticks). -/
theorem C20_restart (s : State) :
    (step s .restart).mach = .init ∧ (step s .restart).data = none ∧ (step s .restart).st = s.st ∧
    (step s .restart).env = s.env ∧ (step s .restart).pubs = s.pubs ∧
    (InvOnce s → InvOnce (step s .restart)) ∧ (InvReg s → InvReg (step s .restart)) :=
  ⟨rfl, rfl, rfl, rfl, rfl, fun h => step_once s .restart h trivial, fun h => step_reg s .restart h⟩

/-- after a restart the signer does not sign before it has fetched epoch settings again and found its key in
the current signer list: the first two ticks cannot publish -/
theorem C20_restart_no_blind_signature (s : State) (l1 l2 : Bool) :
    (step (step s .restart) (.tick l1)).pubs = s.pubs ∧
    (step (step (step s .restart) (.tick l1)) (.tick l2)).pubs = s.pubs := by
  have h1 : (step (step s .restart) (.tick l1)) = { s with mach := .unreg s.env.epoch, data := none, res := .ok } := rfl
  refine ⟨by rw [h1], ?_⟩
  rw [h1]
  exact (tickUnreg_onceFrame _ _).pubs

/-- Observation (not a violation of the statement): a signer that holds a key for epoch `E` but did not
register during `E − 1` cannot sign in `E` — computing the message needs the initializer of the next
epoch. Witness: the registration of epoch 2 is refused, epoch 3 is `ReadyToSign` and every tick fails. -/
theorem C20_missed_registration_note :
    let s := run (initState witnessEnv)
      [.regOthers [⟨1, 1001⟩], .tick false, .tick false, .epochUp 0, .aggEpochUp, .regOthers [⟨1, 1001⟩], .setRegFail true,
       .tick false, .tick false, .epochUp 0, .aggEpochUp, .setRegFail false, .tick false, .tick false, .tick false, .tick false]
    s.mach = .ready 3 ∧ s.res = .keep ∧ s.pubs = [] := by
  decide

def signingEvents : List Event :=
  [.regOthers [⟨1, 1001⟩], .tick false, .tick false, .epochUp 0, .aggEpochUp, .regOthers [⟨1, 1001⟩], .tick false, .tick false,
   .epochUp 1, .aggEpochUp, .regOthers [⟨2, 1002⟩], .tick false, .tick false, .tick false, .restart, .tick false, .tick false,
   .tick false, .tick false, .epochUp 1, .aggEpochUp, .tick false, .tick false, .tick false, .tick false, .tick false]

set_option maxRecDepth 100000 in
/-- Non-vacuity: the hypotheses of the theorems are satisfiable by a run that signs — a fault-free history
over four epochs with a restart publishes six distinct signatures with two different keys. -/
example :
    (∀ ev ∈ signingEvents, NoMarkFault ev) ∧
    ((run (initState witnessEnv) signingEvents).pubs.map (fun p => (p.entity, p.key))) =
      [(⟨.msd, 3, 0⟩, 0), (⟨.csd, 2, 0⟩, 0), (⟨.cdb, 3, 1⟩, 0), (⟨.msd, 4, 0⟩, 1), (⟨.csd, 3, 0⟩, 1), (⟨.cdb, 4, 1⟩, 1)] := by
  decide

end C20
