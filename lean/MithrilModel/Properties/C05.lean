import MithrilModel.LegacyDec
import MithrilModel.LegacyEnc
/-!
# C05 — Decoding untrusted bytes never crashes the process and round-trips honest values

Modelled: the legacy (fixed-layout) byte decoders of mithril-stm (`LegacyDec`), i.e. the hand-written
length/offset arithmetic. The third-party codecs (ciborium, serde_json, bincode, hex) are NOT modelled:
for them this property is partial and only exercised by the harness (see DESIGN C05).
-/
namespace C05
open LegacyDec Decoder

/-- no input (shorter than 2^63 bytes, as every Rust slice is) makes a legacy decoder panic -/
theorem C05_total_single_signature (O : Oracle) (bytes : Bytes) (h : bytes.length < 2 ^ 63) :
    isPanic (singleSig O bytes) = false := singleSig_total O bytes h

theorem C05_total_registration_entry (O : Oracle) (bytes : Bytes) : isPanic (regEntry O bytes) = false :=
  regEntry_total O bytes

theorem C05_total_signature_with_party (O : Oracle) (bytes : Bytes) (h : bytes.length < 2 ^ 63) :
    isPanic (sigReg O bytes) = false := sigReg_total O bytes h

theorem C05_total_batch_path (bytes : Bytes) : isPanic (batchPath bytes) = false := batchPath_total bytes

theorem C05_total_concatenation_proof (O : Oracle) (bytes : Bytes) (h : bytes.length < 2 ^ 63) :
    isPanic (proof O bytes) = false := proof_total O bytes h

theorem C05_total_aggregate_signature (O : Oracle) (bytes : Bytes) (h : bytes.length < 2 ^ 63) :
    isPanic (aggregate O bytes) = false := aggregate_total O bytes h

/-- FIXED FINDING: before the fix a 24-byte input with a length prefix of 2^64-1 made
`SingleSignatureWithRegisteredParty::from_bytes_legacy` panic -/
theorem C05_signature_with_party_panic_prefix (I : Inner) : isPanic (decodeCurrent I evil) = true :=
  decodeCurrent_panics I

/-- … and the same input is a plain error now -/
theorem C05_signature_with_party_fixed (O : Oracle) : sigReg O evil = .err := by
  simp [sigReg, evil, slice?, beU64, addChecked, U64MAX, ofOption, Outcome.bind]

/-- the loops only ever run as many iterations as the input has 8-byte words: a successful index loop of
`k` iterations needs `k*8 + 8 ≤ |bytes|` (bounded work / bounded allocation: every decoded vector is
grown by pushes that each consumed input bytes) -/
theorem C05_bounded_loop (bytes : Bytes) (h : bytes.length < 2 ^ 63) (k : Nat) (r : List Nat)
    (hok : idxLoop bytes k 0 = .ok r) (h8 : 8 ≤ bytes.length) : k * 8 + 8 ≤ bytes.length := by
  have := idxLoop_ok_bound bytes h k 0 r hok (by omega)
  simpa using this

def isOk {α} : Outcome α → Bool
  | .ok _ => true
  | _ => false

/-- non-vacuity: an honest single signature encoding decodes -/
example : isOk (singleSig { sigValid := fun _ => true, vkValid := fun _ => true }
    ([0,0,0,0,0,0,0,1, 0,0,0,0,0,0,0,7] ++ List.replicate 48 9 ++ [0,0,0,0,0,0,0,3])) = true := by
  decide +kernel

/-! ## C05_legacy_roundtrip — decoding the legacy encoding of an honest value returns that value

Encoders: `LegacyEnc` (the transliteration of the hand assembly `legacy_single` … `legacy_aggregate` of the
harness, i.e. of the byte strings the real decoders are fed with). `WF.x O v` (decidable): sigma 48 bytes and
accepted by the point oracle, key 96 bytes and accepted, every Merkle value 32 bytes, every number < 2^64.
The three decoders that are entered directly round-trip under `WF` and the 2^63 length bound alone. The three
envelopes dispatch their nested payloads on the first byte (`1` = CBOR), so they additionally need
`Routed.x v` (decidable): no nested legacy payload starts with byte `1`, i.e. every count < 2^56 and no key
starting with byte `1` — hence `_partial`. `Routed` is no restriction for the real code: a count ≥ 2^56 needs
≥ 2^59 bytes, and blst accepts a 96-byte key only with bit 7 of its first byte set (`CompressedKeys`). -/
section roundtrip
open LegacyEnc

theorem C05_legacy_roundtrip_single_signature (O : Oracle) (s : SingleSig) (hwf : WF.single O s)
    (hlen : (encSingle s).length < 2 ^ 63) : singleSig O (encSingle s) = .ok s := singleSig_enc O s hwf hlen

theorem C05_legacy_roundtrip_registration_entry (O : Oracle) (r : RegEntry) (hwf : WF.reg O r) :
    regEntry O (encReg r) = .ok r := regEntry_enc O r hwf

theorem C05_legacy_roundtrip_batch_path (p : BatchPath) (hwf : WF.path p) (hlen : (encPath p).length < 2 ^ 63) :
    batchPath (encPath p) = .ok p := batchPath_enc p hwf hlen

theorem C05_legacy_roundtrip_signature_with_party_partial (O : Oracle) (sr : SingleSig × RegEntry)
    (hwf : WF.sigReg O sr) (hrt : Routed.sigReg sr) (hlen : (encSigReg sr).length < 2 ^ 63) :
    sigReg O (encSigReg sr) = .ok (.val sr) := sigReg_enc O sr.1 sr.2 hwf.1 hwf.2 hrt hlen

theorem C05_legacy_roundtrip_concatenation_proof_partial (O : Oracle) (p : Proof) (hwf : WF.proof O p)
    (hrt : Routed.proof p) (hlen : (encProof p).length < 2 ^ 63) :
    proof O (encProof p) = .ok (.val p) ∧ proofVersioned O (encProof p) = .ok (.val p) :=
  ⟨proof_enc O p hwf hrt hlen, proofVersioned_enc O p hwf hrt hlen⟩

theorem C05_legacy_roundtrip_aggregate_signature_partial (O : Oracle) (p : Proof) (hwf : WF.proof O p)
    (hrt : Routed.proof p) (hlen : (encAggregate p).length < 2 ^ 63) :
    aggregate O (encAggregate p) = .ok (.val p) := aggregate_enc O p hwf hrt hlen

/-- the same with the routing condition on keys discharged by what the real point validation guarantees -/
theorem C05_legacy_roundtrip_aggregate_signature_compressed_partial (O : Oracle) (hO : CompressedKeys O) (p : Proof)
    (hwf : WF.proof O p) (hidx : ∀ sr ∈ p.sigs, sr.1.indexes.length < 2 ^ 56) (hval : p.path.values.length < 2 ^ 56)
    (hlen : (encAggregate p).length < 2 ^ 63) : aggregate O (encAggregate p) = .ok (.val p) :=
  aggregate_enc O p hwf (Routed.proof_of_compressed O hO p hwf hidx hval) hlen

/-- why `Routed` cannot be dropped in the model: the nested registration entry of an honest legacy layout whose
key starts with byte `1` goes to the CBOR branch (an oracle accepting such a key is not the real one) … -/
theorem C05_legacy_roundtrip_misrouted_key (O : Oracle) (r : RegEntry) (hlen : r.vk.length = 96)
    (h1 : r.vk.head? = some 1) : nestedReg O (encReg r) = .ok .cbor := nestedReg_enc_misrouted O r hlen h1

/-- … and so does a nested single signature with 2^56 ≤ count < 2^57 indexes (more than 2^59 bytes) -/
theorem C05_legacy_roundtrip_misrouted_count (O : Oracle) (s : SingleSig) (h1 : 2 ^ 56 ≤ s.indexes.length)
    (h2 : s.indexes.length < 2 ^ 57) : nestedSingle O (encSingle s) = .ok .cbor :=
  nestedSingle_enc_misrouted O s h1 h2

/-! non-vacuity: a concrete oracle and small honest values satisfy every hypothesis, and the decoders evaluate to
the values (checked by the kernel independently of the theorems) -/
def exO : Oracle := { sigValid := fun b => b.head? == some 0x91, vkValid := fun b => b.head? == some 0xa3 }
def exS : SingleSig := { indexes := [3, 70000, 2 ^ 64 - 1], sigma := 0x91 :: List.replicate 47 5, signerIndex := 2 ^ 40 + 7 }
def exS0 : SingleSig := { indexes := [], sigma := 0x91 :: List.replicate 47 6, signerIndex := 0 }
def exR : RegEntry := { vk := 0xa3 :: List.replicate 95 9, stake := 2 ^ 64 - 1 }
def exPath : BatchPath := { values := [List.replicate 32 1, List.replicate 32 255], indices := [0, 5, 2 ^ 33] }
def exP : Proof := { sigs := [(exS, exR), (exS0, exR)], path := exPath }

example : WF.single exO exS ∧ (encSingle exS).length < 2 ^ 63 := by decide +kernel
example : singleSig exO (encSingle exS) = .ok exS :=
  C05_legacy_roundtrip_single_signature _ _ (by decide +kernel) (by decide +kernel)
example : singleSig exO (encSingle exS) = .ok exS := by decide +kernel
example : WF.reg exO exR := by decide +kernel
example : regEntry exO (encReg exR) = .ok exR := by decide +kernel
example : WF.path exPath ∧ (encPath exPath).length < 2 ^ 63 := by decide +kernel
example : batchPath (encPath exPath) = .ok exPath := by decide +kernel
example : WF.sigReg exO (exS, exR) ∧ Routed.sigReg (exS, exR) ∧ (encSigReg (exS, exR)).length < 2 ^ 63 := by decide +kernel
example : sigReg exO (encSigReg (exS, exR)) = .ok (.val (exS, exR)) := by decide +kernel
example : WF.proof exO exP ∧ Routed.proof exP ∧ (encAggregate exP).length < 2 ^ 63 := by decide +kernel
example : proof exO (encProof exP) = .ok (.val exP) := by decide +kernel
example : aggregate exO (encAggregate exP) = .ok (.val exP) :=
  C05_legacy_roundtrip_aggregate_signature_partial _ _ (by decide +kernel) (by decide +kernel) (by decide +kernel)
example : aggregate exO (encAggregate exP) = .ok (.val exP) := by decide +kernel
/-- `CompressedKeys` is satisfiable: `exO` only accepts keys starting with `0xa3` -/
example : CompressedKeys exO := by
  intro b x h hx
  simp only [exO, hx] at h
  have : x = 0xa3 := by simpa using h
  subst this; decide
/-- the mis-routed key, concretely -/
example : nestedReg { sigValid := fun _ => true, vkValid := fun _ => true } (encReg { vk := 1 :: List.replicate 95 0, stake := 1 })
    = .ok .cbor := by decide +kernel

end roundtrip

end C05
