import MithrilModel.LegacyDec
/-!
# C05 — Decoding untrusted bytes never crashes the process and round-trips honest values

Modelled: the legacy (fixed-layout) byte decoders of mithril-stm (`LegacyDec`), i.e. the hand-written
length/offset arithmetic. The third-party codecs (ciborium, serde_json, bincode, hex) are NOT modelled:
for them this property is partial and only exercised by the harness (see DESIGN C05).
-/
namespace C05
open LegacyDec Decoder

/-- no input (shorter than 2^63 bytes, as every Rust slice is) makes a legacy decoder panic -/
theorem C05_total_single_signature (O : Oracle) (bytes : Bytes) (h : bytes.length < 2 ^ 63) :
    isPanic (singleSig O bytes) = false := singleSig_total O bytes h

theorem C05_total_registration_entry (O : Oracle) (bytes : Bytes) : isPanic (regEntry O bytes) = false :=
  regEntry_total O bytes

theorem C05_total_signature_with_party (O : Oracle) (bytes : Bytes) (h : bytes.length < 2 ^ 63) :
    isPanic (sigReg O bytes) = false := sigReg_total O bytes h

theorem C05_total_batch_path (bytes : Bytes) : isPanic (batchPath bytes) = false := batchPath_total bytes

theorem C05_total_concatenation_proof (O : Oracle) (bytes : Bytes) (h : bytes.length < 2 ^ 63) :
    isPanic (proof O bytes) = false := proof_total O bytes h

theorem C05_total_aggregate_signature (O : Oracle) (bytes : Bytes) (h : bytes.length < 2 ^ 63) :
    isPanic (aggregate O bytes) = false := aggregate_total O bytes h

/-- FIXED FINDING: before the fix a 24-byte input with a length prefix of 2^64-1 made
`SingleSignatureWithRegisteredParty::from_bytes_legacy` panic -/
theorem C05_signature_with_party_panic_prefix (I : Inner) : isPanic (decodeCurrent I evil) = true :=
  decodeCurrent_panics I

/-- … and the same input is a plain error now -/
theorem C05_signature_with_party_fixed (O : Oracle) : sigReg O evil = .err := by
  simp [sigReg, evil, slice?, beU64, addChecked, U64MAX, ofOption, Outcome.bind]

/-- the loops only ever run as many iterations as the input has 8-byte words: a successful index loop of
`k` iterations needs `k*8 + 8 ≤ |bytes|` (bounded work / bounded allocation: every decoded vector is
grown by pushes that each consumed input bytes) -/
theorem C05_bounded_loop (bytes : Bytes) (h : bytes.length < 2 ^ 63) (k : Nat) (r : List Nat)
    (hok : idxLoop bytes k 0 = .ok r) (h8 : 8 ≤ bytes.length) : k * 8 + 8 ≤ bytes.length := by
  have := idxLoop_ok_bound bytes h k 0 r hok (by omega)
  simpa using this

def isOk {α} : Outcome α → Bool
  | .ok _ => true
  | _ => false

/-- non-vacuity: an honest single signature encoding decodes -/
example : isOk (singleSig { sigValid := fun _ => true, vkValid := fun _ => true }
    ([0,0,0,0,0,0,0,1, 0,0,0,0,0,0,0,7] ++ List.replicate 48 9 ++ [0,0,0,0,0,0,0,3])) = true := by
  decide +kernel

end C05
