import MithrilModel.AggInv
import MithrilModel.AggAttr
import MithrilModel.AggChain
import MithrilModel.AggVerify
import MithrilModel.AggSe
/-!
# C14 — The aggregator only publishes certificates clients can verify to genesis

Model: `Agg.step` (`MithrilModel/Agg.lean`): the five runtime states, epoch initialisation
(clean-up of open messages, registration round, epoch service), open messages with expiry,
single signatures (direct and buffered with hand-over), `create_certificate` with the master
certificate query, signed entities, signer registration, restart. The model is compared with the
real aggregator after every event of generated histories (K); it covers the certification core,
not every service the binary wires together (artifact contents, HTTP, metrics, eras, follower).
Results of cryptographic primitives (which signature verifies under which signer set, which lottery
indices it carries) and the protocol message of a new open message are inputs of the model;
`create_certificate`'s self-verification is outside it.
Only property theorems live here; the lemmas are in `AggInv`, `AggChain`, `AggVerify`, `AggSe`, `AggAttr`.

`RunWf` / `RunWfC`: the epochs seen by successive ticks never decrease and the entities a tick is
offered belong to the tick's epoch (`RunWfC` also admits ticks cut at a crash point).
-/
namespace C14
open Agg

/-- **No signed entity (type and beacon) is certified twice**, along any run of ticks, signatures
(early = buffered, on time, late, repeated, invalid, for expired or certified messages),
registrations, expiries and restarts between ticks, from the state after genesis. -/
theorem C14_no_double (E : Env) (n g : Nat) (evs : List Event) (hw : RunWf E (init n g) evs) :
    ∀ c1 ∈ (evs.foldl (step E) (init n g)).certs, ∀ c2 ∈ (evs.foldl (step E) (init n g)).certs,
      ∀ e, c1.entity = some e → c2.entity = some e → c1 = c2 :=
  no_double_certification E (init n g) evs (inv_init E n g) hw

/-- **Parent rule**: every stored certificate links to a stored, earlier certificate that is the first
of its epoch; that parent belongs to the same epoch, or to the preceding epoch and then the
certificate itself is the first of its own epoch. In particular no link crosses an epoch gap. -/
theorem C14_parent_rule (E : Env) (n g : Nat) (evs : List Event) (hw : RunWfC E (init n g) evs) :
    let certs := (evs.foldl (step E) (init n g)).certs
    ∀ c ∈ certs, c.entity.isSome = true →
      ∃ p ∈ certs, c.parent = some p.id ∧ p.id < c.id ∧ FirstOf certs p ∧
        (p.epoch = c.epoch ∨ (p.epoch + 1 = c.epoch ∧ FirstOf certs c)) :=
  (run_sinv E evs (init n g) (sinv_init E n g) hw).ct.par

/-- certificates are stored in epoch order (no certificate of an older epoch after a newer one) -/
theorem C14_epoch_order (E : Env) (n g : Nat) (evs : List Event) (hw : RunWfC E (init n g) evs) :
    ((evs.foldl (step E) (init n g)).certs).Pairwise (fun a b => a.epoch ≤ b.epoch) :=
  (run_sinv E evs (init n g) (sinv_init E n g) hw).ct.sorted

/-- **Aggregate key of the epoch**: every certificate carries the key of the signer set the epoch
service computed for the certificate's own epoch (registrations of key `epoch - 1`; next = key `epoch`) -/
theorem C14_avk_of_epoch (E : Env) (n g : Nat) (evs : List Event) (hw : RunWfC E (init n g) evs) :
    ∀ c ∈ (evs.foldl (step E) (init n g)).certs, c.avk = c.epoch :=
  (run_sinv E evs (init n g) (sinv_init E n g) hw).avk

/-- … and those signer sets cannot change any more: once a certificate of epoch `e` is stored, a
registration is accepted only for a key above `e` (so the `next` key a certificate of epoch `e`
announces is the `current` key of epoch `e + 1`) -/
theorem C14_regs_frozen (E : Env) (n g : Nat) (evs : List Event) (hw : RunWfC E (init n g) evs) (key party : Nat)
    (hr : regClass (evs.foldl (step E) (init n g)) key party = .ok) :
    ∀ c ∈ (evs.foldl (step E) (init n g)).certs, c.epoch < key :=
  regs_frozen (run_sinv E evs (init n g) (sinv_init E n g) hw) hr

/-- **Every stored certificate verifies with its whole chain** under the model of the client's
`verify_certificate_chain` run against the aggregator's own table (integrity and signature verdicts
taken from the self-verification at insertion). -/
theorem C14_stored_verified (E : Env) (n g : Nat) (evs : List Event) (hw : RunWfC E (init n g) evs) :
    let certs := (evs.foldl (step E) (init n g)).certs
    ∀ c ∈ certs, Chain.verifyChain (retr certs) (c.id + 2) (toChain c) = .ok () := by
  intro certs c hc
  have h := run_sinv E evs (init n g) (sinv_init E n g) hw
  exact stored_verify ⟨h.ct, h.avk⟩ hc

/-- **Quorum**: `create_certificate` inserts exactly the certificate `newCert` builds, and only for an
open message that is neither certified nor expired, whose stored signatures reach the quorum, under
a parent found by the master query -/
theorem C14_quorum (E : Env) (s : St) (e : Nat) (c : CertRec) (h : newCert E s e = some c) :
    ∃ o m, findOm e s.oms = some o ∧ o.certified = false ∧ o.expired = false ∧
      master s.certs o.epoch = some m ∧ E.quorum e (s.sigs.filter (·.entity = e)) = true ∧
      c.epoch = o.epoch ∧ c.parent = some m.id ∧ c.entity = some e := by
  obtain ⟨o, m, h1, h2, h3, h4, h5, h6⟩ := newCert_spec h
  exact ⟨o, m, h1, h2, h3, h4, h5, by rw [h6], by rw [h6], by rw [h6]⟩

/- VACUITY AUDIT: no longer an obligation of the check. definitional. Replaced by: -. -/
theorem C14_inserts_newCert (E : Env) (s : St) (e : Nat) :
    (createCertificate E s e).certs = match newCert E s e with | some c => s.certs ++ [c] | none => s.certs := by
  rw [createCertificate_eq]
  cases newCert E s e <;> rfl

/- VACUITY AUDIT: no longer an obligation of the check. restates the definition of quorumIdx. Replaced by: Vacuity.C14.quorum_indices. -/
/-- the quorum the harness instantiates: at least `k` distinct lottery indices on the table -/
theorem C14_quorum_idx (k : Nat) (rows : List SigRow) :
    quorumIdx k rows = true ↔ k ≤ ((rows.flatMap (·.idx)).eraseDups).length := by
  simp [quorumIdx]

/-- … and every signature on the table was verified, for that open message, under the signer set
registered for its epoch, with the key of the party it is stored under (decision as an `↔`) -/
theorem C14_signature_verified (s : St) (e : Nat) (g : Sig) :
    sigClass s e g = .registered ↔
      ∃ o, findOm e s.oms = some o ∧ o.certified = false ∧ o.expired = false ∧
        (∃ ep, s.es = some ep ∧ g.msg = o.msg ∧ ep ∈ g.ok ∧ g.party = g.signer) ∧
        g.party ∈ signersOf s.regs (o.epoch - 1) :=
  sigClass_registered_iff s e g

/- VACUITY AUDIT: no longer an obligation of the check. no reachable state of the model meets its hypotheses (Vacuity.C14.gap_hypothesis_unreachable): a defensive clause about tables the model never produces. Replaced by: Vacuity.C14.run_gap (GapInv) + C14.C14_gap_blocks_idle. -/
/-- **Epoch gap**: with no certificate of the open message's epoch or of the one before, nothing is
inserted (no parent), and the idle tick that meets a gap between the chain and the last certificate
goes to `Blocked` (or keeps its state on an error) instead of `Ready` -/
theorem C14_gap_blocks (E : Env) (s : St) (e : Nat) (o : OM) (ho : findOm e s.oms = some o)
    (h : ∀ c ∈ s.certs, c.epoch ≠ o.epoch ∧ c.epoch + 1 ≠ o.epoch) :
    newCert E s e = none ∧ createCertificate E s e = s := by
  have hn := newCert_none_of_gap E s e ho h
  exact ⟨hn, by rw [createCertificate_eq, hn]⟩

theorem C14_gap_blocks_idle (s : St) (tp : Tp) (last : Option Nat) (latest : CertRec)
    (hl : s.certs.getLast? = some latest) (hgap : absDiff tp.epoch latest.epoch > 1) :
    (idleStep s tp last).rt = s.rt ∨ (idleStep s tp last).rt = .blocked tp.epoch 2 :=
  idle_blocks_on_gap s tp last hl hgap

/-- non-vacuity: from the example state a tick does insert a certificate -/
example : ((step E1 s1 (.tick tp2)).certs.length = 2) := by decide

end C14
