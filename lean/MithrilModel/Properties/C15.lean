import MithrilModel.AggAttr
import MithrilModel.AggChain
import MithrilModel.AggVerify
import MithrilModel.AggSe
import MithrilModel.AggProgress
/-!
# C15 — An aggregator crash at any point leaves a verifiable store and resumable rounds

Model: `Agg.step` with the event `crash tp p` (`Agg.crashTick`): a tick cut at one of the nine
named points of hook H3 — before / after the certificate insert, after the open-message update,
before / after the artifact computation, after the signed-entity insert, before the buffered
hand-over, before / after the removal of handed-over signatures from the buffer — followed by
`restart`. `RunWfC` admits such events anywhere, any number of times.
Only property theorems live here; the lemmas are in `AggChain`, `AggVerify`, `AggSe`, `AggAttr`.
-/
namespace C15
open Agg

/-- **Every stored certificate still verifies with its chain**, whatever ticks were cut, wherever:
the insert is the only write to the certificate table and happens after the parent was chosen. -/
theorem C15_store_verifies (E : Env) (n g : Nat) (evs : List Event) (hw : RunWfC E (init n g) evs) :
    let certs := (evs.foldl (step E) (init n g)).certs
    ∀ c ∈ certs, Chain.verifyChain (retr certs) (c.id + 2) (toChain c) = .ok () := by
  intro certs c hc
  have h := run_sinv E evs (init n g) (sinv_init E n g) hw
  exact stored_verify ⟨h.ct, h.avk⟩ hc

/-- the structure behind it: parent rule and epoch order survive every cut -/
theorem C15_parent_rule (E : Env) (n g : Nat) (evs : List Event) (hw : RunWfC E (init n g) evs) :
    let certs := (evs.foldl (step E) (init n g)).certs
    ∀ c ∈ certs, c.entity.isSome = true →
      ∃ p ∈ certs, c.parent = some p.id ∧ p.id < c.id ∧ FirstOf certs p ∧
        (p.epoch = c.epoch ∨ (p.epoch + 1 = c.epoch ∧ FirstOf certs c)) :=
  (run_sinv E evs (init n g) (sinv_init E n g) hw).ct.par

/-- **No signed entity ends up with two artifacts, and every artifact references a stored
certificate that certifies exactly that entity** — for every run, with cuts anywhere. -/
theorem C15_one_artifact (E : Env) (n g : Nat) (evs : List Event) :
    let s := evs.foldl (step E) (init n g)
    s.ses.Pairwise (fun a b => a.1 ≠ b.1) ∧ ∀ x ∈ s.ses, ∃ c ∈ s.certs, c.id = x.2 ∧ c.entity = some x.1 :=
  run_se E evs (init n g) (se_init n g)

/-- the signature table keeps its invariants as well (rows under the right party, one per party) -/
theorem C15_signature_table (E : Env) (n g : Nat) (evs : List Event) :
    (∀ r ∈ (evs.foldl (step E) (init n g)).sigs, r.party = r.signer) ∧ RowsUnique (evs.foldl (step E) (init n g)) :=
  run_tbl E evs (init n g) (tbl_init n g)

/-- a cut tick is a complete tick when the armed point lies after the last write -/
theorem C15_cut_after_last_write (E : Env) (s : St) (tp : Tp) : tick E s tp = crashTick E s tp .artAfterInsert :=
  tick_eq_crashTick E s tp

/-- OBSERVATION (not a clause of C15; C14's "never certified twice" quantifies over runs without
mid-tick stops): a stop between the certificate insert and the open-message update, a restart and
three ticks certify the same entity a second time; the first certificate stays stored, valid, and
the artifact references the second. -/
theorem C15_double_certificate_note :
    let s3 := [Event.crash tp2 .certAfterInsert, .restart, .tick tp2, .tick tp2, .tick tp2].foldl (step E1) s1
    (s3.certs.filter (fun c => c.entity = some 7)).length = 2 ∧ s3.ses = [(7, 2)] :=
  crash_double_certificate

theorem C15_nocrash_single_certificate :
    let s3 := [Event.tick tp2, .restart, .tick tp2, .tick tp2, .tick tp2].foldl (step E1) s1
    (s3.certs.filter (fun c => c.entity = some 7)).length = 1 ∧ s3.ses = [(7, 1)] :=
  nocrash_single_certificate

/-- T2, not proved (covered by S: after every crash, restart and productive continuation the harness
requires a new certificate): from every reachable post-crash state a continuation with enough valid
signatures certifies the interrupted or a superseding round -/
def C15_progress_goal : Prop :=
  ∀ (E : Env) (n g : Nat) (evs : List Event) (tp : Tp) (p : CrashPoint), RunWfC E (init n g) evs →
    let s := step E (step E (evs.foldl (step E) (init n g)) (.crash tp p)) .restart
    ∃ cont : List Event, (∀ ev ∈ cont, ∃ tp', ev = .tick tp' ∨ ∃ e g', ev = .signature e g') ∧
      (cont.foldl (step E) s).certs.length > s.certs.length

/-- non-vacuity: the cut does change the state -/
example : (step E1 s1 (.crash tp2 .certAfterInsert)).certs.length = 2 ∧
    (step E1 s1 (.crash tp2 .certAfterInsert)).oms.all (fun o => !o.certified) = true := by decide

/-! ## Progress (T2)

`C15_progress_goal` as written above cannot be proved: it quantifies over every environment `E` (also one
whose quorum test never passes), over histories in which no signer is registered for the next epoch or
an epoch went by without a certificate, and its continuation may not register anybody. What holds is
stated below; the definitions (`Agg.cont`, `Agg.Productive`, `Agg.target`, `Agg.NextOk`) and the proofs
are in `AggProgress`. -/

/-- the goal is false as stated: with a quorum test that never passes no tick and no signature ever
inserts a certificate (nothing here depends on the crash) -/
theorem C15_progress_goal_overquantified : ¬ C15_progress_goal := by
  intro h
  let E0 : Env := { entityEpoch := fun _ => 0, entityDisc := fun _ => 0, quorum := fun _ _ => false, timeout := fun _ => none }
  obtain ⟨cont, h1, h2⟩ := h E0 0 0 [] { epoch := 0, now := 0, avail := [], newmsg := 0 } .certBeforeInsert trivial
  rw [no_quorum_run E0 (fun _ _ => rfl) cont _ h1] at h2
  exact Nat.lt_irrefl _ h2

/-- **Progress after a crash.** For every history with cut ticks (`RunWfC`), every crash point `p` and
every (well-formed) tick `tp` it cuts: let `s` be the state after `crash tp p; restart`. For every input
`r` of a round (time point, submitting parties, their lottery indices) that is `Productive` for `s`
— decidable hypotheses: the time point does not go back and offers entities of its epoch, one of which
is not flagged certified or expired; the genesis certificate is older than the epoch; the latest
certificate is of the epoch or the one before (no gap); signers are registered under the keys
`epoch - 1` and `epoch`; the submitting parties are among them and their indices cover `k` distinct
ones — and every environment whose quorum test accepts `k` distinct indices, the computable
continuation `Agg.cont E s r` (ticks until SIGNING, the parties' valid signatures, one tick) consists
of ticks and signature submissions only, and running it appends exactly one certificate, for the
entity `target s r.tp`: the interrupted entity if the time point still offers it first and it is still
open (`C15_progress_resumes`), else the next offered entity that can be signed. The runtime ends READY
and is never BLOCKED on the way. -/
theorem C15_progress_partial (E : Env) (k n g : Nat) (evs : List Event) (tp : Tp) (p : CrashPoint) (r : Round)
    (hw : RunWfC E (init n g) evs) (hwc : Wf E (evs.foldl (step E) (init n g)) tp) (hq : QuorumByIndices E k) :
    let s := step E (step E (evs.foldl (step E) (init n g)) (.crash tp p)) .restart
    Productive E k s r →
    (∀ ev ∈ Agg.cont E s r, ∃ tp', ev = .tick tp' ∨ ∃ e g', ev = .signature e g') ∧
    ((Agg.cont E s r).foldl (step E) s).certs.length > s.certs.length ∧
    ∃ e c, target s r.tp = some e ∧ e ∈ r.tp.avail ∧
      ((Agg.cont E s r).foldl (step E) s).certs = s.certs ++ [c] ∧ c.entity = some e ∧ c.epoch = r.tp.epoch ∧
      ((Agg.cont E s r).foldl (step E) s).rt = .ready r.tp.epoch ∧ NB E s (Agg.cont E s r) ∧
      RunWfC E (init n g) (evs ++ [.crash tp p, .restart] ++ Agg.cont E s r) := by
  intro s hp
  have hi0 := run_sinv E evs (init n g) (sinv_init E n g) hw
  obtain ⟨hi, hrt, _⟩ := post_crash (p := p) hi0 hwc
  have hres : s.rt.resumable = true := by
    show (step E (step E (evs.foldl (step E) (init n g)) (.crash tp p)) .restart).rt.resumable = true
    rw [hrt]; rfl
  obtain ⟨e, c, ht, g1, g2, g3, _, g5, _, _, _, g9, g10, g11, _⟩ := productive_round hq hi hres hp
  refine ⟨?_, ?_, e, c, ht, List.mem_of_find?_eq_some ht, g1, g2, g3, g5, g9, ?_⟩
  · intro ev hev
    rcases g11 ev hev with rfl | ⟨g', rfl⟩
    · exact ⟨r.tp, Or.inl rfl⟩
    · exact ⟨r.tp, Or.inr ⟨e, g', rfl⟩⟩
  · rw [g1, List.length_append]; exact Nat.lt_succ_self _
  · rw [RunWfC_append, RunWfC_append]
    refine ⟨⟨hw, hwc, trivial, trivial⟩, ?_⟩
    simp only [List.foldl_append, List.foldl_cons, List.foldl_nil]
    exact g10

/-- for histories from `init n g` the genesis hypothesis of `Productive` is `g < epoch` -/
theorem C15_genesis_of_run (E : Env) (n g : Nat) (evs : List Event) (tp' : Tp) (hg : g < tp'.epoch) :
    preNeeded (evs.foldl (step E) (init n g)) tp' = true := by
  unfold preNeeded
  rw [run_genesis E g evs _ (genesis_init n g)]
  simpa using hg

/-- the interrupted round is the one that is resumed when the time point offers its entity first and its
open message is still open; an entity flagged certified is never chosen again -/
theorem C15_progress_resumes (s : St) (tp : Tp) (e0 : Nat) (rest : List Nat) (hav : tp.avail = e0 :: rest) :
    (openable tp.now s.oms e0 = true → target s tp = some e0) ∧
    (∀ e o, target s tp = some e → findOm e s.oms = some o → o.certified = false) :=
  ⟨target_head hav, fun _ _ h ho => (target_not_certified h ho).1⟩

/-- **Progress for ever, never blocked.** After `crash tp p; restart`: a first productive round, then any
number of rounds each of which has its inputs in the state it meets (`PlanOk` / `NextOk`: the epoch of a
round is the epoch of the round before or the next one — the model's gap rule: no epoch without a
certificate —, signers registered under the keys `epoch - 1` and `epoch`, a signable entity offered, the
parties' indices reaching `k`). Every round appends one certificate, the stored ones stay, the runtime
is never `blocked` in any state on the way, and the whole history is again a well-formed run (so every
theorem above applies to it). -/
theorem C15_progress_forever (E : Env) (k n g : Nat) (evs : List Event) (tp : Tp) (p : CrashPoint)
    (r : Round) (rest : List Round)
    (hw : RunWfC E (init n g) evs) (hwc : Wf E (evs.foldl (step E) (init n g)) tp) (hq : QuorumByIndices E k) :
    let s := step E (step E (evs.foldl (step E) (init n g)) (.crash tp p)) .restart
    Productive E k s r → PlanOk E k ((Agg.cont E s r).foldl (step E) s) r.tp.epoch rest →
    ((runPlan E s (r :: rest)).foldl (step E) s).certs.length = s.certs.length + (rest.length + 1) ∧
    s.certs <+: ((runPlan E s (r :: rest)).foldl (step E) s).certs ∧
    NB E s (runPlan E s (r :: rest)) ∧
    RunWfC E (init n g) (evs ++ [.crash tp p, .restart] ++ runPlan E s (r :: rest)) := by
  intro s hp hrest
  have hi0 := run_sinv E evs (init n g) (sinv_init E n g) hw
  obtain ⟨hi, hrt, _⟩ := post_crash (p := p) hi0 hwc
  have hres : s.rt.resumable = true := by
    show (step E (step E (evs.foldl (step E) (init n g)) (.crash tp p)) .restart).rt.resumable = true
    rw [hrt]; rfl
  obtain ⟨a1, a2, a3, a4, _, _⟩ := progress_forever hq hi hres r rest hp hrest
  refine ⟨a1, a2, a3, ?_⟩
  rw [RunWfC_append, RunWfC_append]
  refine ⟨⟨hw, hwc, trivial, trivial⟩, ?_⟩
  simp only [List.foldl_append, List.foldl_cons, List.foldl_nil]
  exact a4

/-- the same with every hypothesis of the later rounds on the post-crash state and the inputs only:
rounds over entities that have no open message yet (`FreshPlan`) -/
theorem C15_progress_forever_fresh (E : Env) (k n g : Nat) (evs : List Event) (tp : Tp) (p : CrashPoint)
    (r : Round) (rest : List Round) (e0 : Nat)
    (hw : RunWfC E (init n g) evs) (hwc : Wf E (evs.foldl (step E) (init n g)) tp) (hq : QuorumByIndices E k) :
    let s := step E (step E (evs.foldl (step E) (init n g)) (.crash tp p)) .restart
    Productive E k s r → target s r.tp = some e0 → FreshPlan E k s r.tp.epoch [e0] rest →
    ((runPlan E s (r :: rest)).foldl (step E) s).certs.length = s.certs.length + (rest.length + 1) ∧
    NB E s (runPlan E s (r :: rest)) := by
  intro s hp ht hplan
  have hi0 := run_sinv E evs (init n g) (sinv_init E n g) hw
  obtain ⟨hi, hrt, _⟩ := post_crash (p := p) hi0 hwc
  have hres : s.rt.resumable = true := by
    show (step E (step E (evs.foldl (step E) (init n g)) (.crash tp p)) .restart).rt.resumable = true
    rw [hrt]; rfl
  obtain ⟨a1, _, a3, _, _, _⟩ := progress_forever_fresh hq hi hres r rest hp e0 ht hplan
  exact ⟨a1, a3⟩

/-- non-vacuity: the history `Agg.hist` (genesis, epoch 2 initialised, registrations for epoch 3, a
signature reaching the quorum for entity 20), a tick cut at each of the nine crash points, the restart;
the hypotheses hold, and the continuation inserts one certificate — for the interrupted entity 20
when the stop came before the open-message update, for the next entity 21 otherwise -/
example : allPoints.all (fun p =>
    let s := postCrash p
    let s' := (Agg.cont Ex s (rdx 2 [20, 21])).foldl (step Ex) s
    decide (Productive Ex 2 s (rdx 2 [20, 21])) && decide (s'.certs.length = s.certs.length + 1) &&
    decide ((s'.certs.getLast?.map (·.entity)) = some (target s (tpx 2 [20, 21]))) &&
    decide ((Agg.cont Ex s (rdx 2 [20, 21])).length = 5)) = true ∧
    allPoints.map (fun p => target (postCrash p) (tpx 2 [20, 21])) =
      [some 20, some 20, some 21, some 21, some 21, some 21, some 21, some 21, some 21] := by
  decide +kernel

/-- non-vacuity of the iteration: after each of the nine cuts, four rounds over two epochs (entities 20/21,
22, 30, 31) are a valid plan and insert four certificates -/
example : allPoints.all (fun p =>
    let s := postCrash p
    let s1 := (Agg.cont Ex s (rdx 2 [20, 21])).foldl (step Ex) s
    let rest := [rdx 2 [20, 21, 22], rdx 3 [30], rdx 3 [31]]
    decide (PlanOk Ex 2 s1 2 rest) &&
    decide (((runPlan Ex s (rdx 2 [20, 21] :: rest)).foldl (step Ex) s).certs.length = s.certs.length + 4)) = true := by
  decide +kernel

/-- the other way a stop could lose a round for good — the open message flagged certified, the certificate
missing, so that the scan skips the entity for ever — is produced by no cut, anywhere, in any history (no
well-formedness needed): the insert comes before the update at every crash point. Together with
`C15_progress_partial`: the interrupted entity is either certified already (certificate stored) or still
open, and then it is the one the continuation certifies when the time point offers it first. -/
theorem C15_flag_has_certificate (E : Env) (n g : Nat) (evs : List Event) :
    let s := evs.foldl (step E) (init n g)
    ∀ o ∈ s.oms, o.certified = true → ∃ c ∈ s.certs, c.entity = some o.entity :=
  run_flagged E evs (init n g) (flagged_init n g)

/-- NOTE (why the continuation has to contain submissions; not a clause of C15): both parties' signatures
for the coming open message of entity 20 sit in the buffer, the tick that creates the open message is cut
before the hand-over (`hoBefore`), the process restarts. Ticks alone then never certify the round — the
state machine sits in SIGNING for ever, the two signatures stay in the buffer unused — whereas the same
ticks without the cut certify it, and so does the productive continuation, in which the parties submit
again. -/
theorem C15_buffered_unused_note :
    (∀ n, ((List.replicate n (Event.tick (tpx 2 [20]))).foldl (step Ex) stuck) = stuck) ∧
    (stuck.rt = .signing 2 20 ∧ stuck.certs.length = 1 ∧ stuck.sigs = [] ∧ stuck.buf.length = 2) ∧
    (([Event.tick (tpx 2 [20]), .restart, .tick (tpx 2 [20]), .tick (tpx 2 [20]), .tick (tpx 2 [20])].foldl (step Ex)
      (histBuf.foldl (step Ex) (init 2 1))).certs.map (·.entity)) = [none, some 20] ∧
    (Productive Ex 2 stuck0 (rdx 2 [20]) ∧
      (((Agg.cont Ex stuck0 (rdx 2 [20])).foldl (step Ex) stuck0).certs.map (·.entity)) = [none, some 20]) :=
  ⟨stuck_for_ever, stuck_facts, not_stuck_without_crash, stuck_resolved_by_resubmission⟩

end C15
