import MithrilModel.AggAttr
import MithrilModel.AggChain
import MithrilModel.AggVerify
import MithrilModel.AggSe
/-!
# C15 — An aggregator crash at any point leaves a verifiable store and resumable rounds

Model: `Agg.step` with the event `crash tp p` (`Agg.crashTick`): a tick cut at one of the nine
named points of hook H3 — before / after the certificate insert, after the open-message update,
before / after the artifact computation, after the signed-entity insert, before the buffered
hand-over, before / after the removal of handed-over signatures from the buffer — followed by
`restart`. `RunWfC` admits such events anywhere, any number of times.
Only property theorems live here; the lemmas are in `AggChain`, `AggVerify`, `AggSe`, `AggAttr`.
-/
namespace C15
open Agg

/-- **Every stored certificate still verifies with its chain**, whatever ticks were cut, wherever:
the insert is the only write to the certificate table and happens after the parent was chosen. -/
theorem C15_store_verifies (E : Env) (n g : Nat) (evs : List Event) (hw : RunWfC E (init n g) evs) :
    let certs := (evs.foldl (step E) (init n g)).certs
    ∀ c ∈ certs, Chain.verifyChain (retr certs) (c.id + 2) (toChain c) = .ok () := by
  intro certs c hc
  have h := run_sinv E evs (init n g) (sinv_init E n g) hw
  exact stored_verify ⟨h.ct, h.avk⟩ hc

/-- the structure behind it: parent rule and epoch order survive every cut -/
theorem C15_parent_rule (E : Env) (n g : Nat) (evs : List Event) (hw : RunWfC E (init n g) evs) :
    let certs := (evs.foldl (step E) (init n g)).certs
    ∀ c ∈ certs, c.entity.isSome = true →
      ∃ p ∈ certs, c.parent = some p.id ∧ p.id < c.id ∧ FirstOf certs p ∧
        (p.epoch = c.epoch ∨ (p.epoch + 1 = c.epoch ∧ FirstOf certs c)) :=
  (run_sinv E evs (init n g) (sinv_init E n g) hw).ct.par

/-- **No signed entity ends up with two artifacts, and every artifact references a stored
certificate that certifies exactly that entity** — for every run, with cuts anywhere. -/
theorem C15_one_artifact (E : Env) (n g : Nat) (evs : List Event) :
    let s := evs.foldl (step E) (init n g)
    s.ses.Pairwise (fun a b => a.1 ≠ b.1) ∧ ∀ x ∈ s.ses, ∃ c ∈ s.certs, c.id = x.2 ∧ c.entity = some x.1 :=
  run_se E evs (init n g) (se_init n g)

/-- the signature table keeps its invariants as well (rows under the right party, one per party) -/
theorem C15_signature_table (E : Env) (n g : Nat) (evs : List Event) :
    (∀ r ∈ (evs.foldl (step E) (init n g)).sigs, r.party = r.signer) ∧ RowsUnique (evs.foldl (step E) (init n g)) :=
  run_tbl E evs (init n g) (tbl_init n g)

/-- a cut tick is a complete tick when the armed point lies after the last write -/
theorem C15_cut_after_last_write (E : Env) (s : St) (tp : Tp) : tick E s tp = crashTick E s tp .artAfterInsert :=
  tick_eq_crashTick E s tp

/-- OBSERVATION (not a clause of C15; C14's "never certified twice" quantifies over runs without
mid-tick stops): a stop between the certificate insert and the open-message update, a restart and
three ticks certify the same entity a second time; the first certificate stays stored, valid, and
the artifact references the second. -/
theorem C15_double_certificate_note :
    let s3 := [Event.crash tp2 .certAfterInsert, .restart, .tick tp2, .tick tp2, .tick tp2].foldl (step E1) s1
    (s3.certs.filter (fun c => c.entity = some 7)).length = 2 ∧ s3.ses = [(7, 2)] :=
  crash_double_certificate

theorem C15_nocrash_single_certificate :
    let s3 := [Event.tick tp2, .restart, .tick tp2, .tick tp2, .tick tp2].foldl (step E1) s1
    (s3.certs.filter (fun c => c.entity = some 7)).length = 1 ∧ s3.ses = [(7, 1)] :=
  nocrash_single_certificate

/-- T2, not proved (covered by S: after every crash, restart and productive continuation the harness
requires a new certificate): from every reachable post-crash state a continuation with enough valid
signatures certifies the interrupted or a superseding round -/
def C15_progress_goal : Prop :=
  ∀ (E : Env) (n g : Nat) (evs : List Event) (tp : Tp) (p : CrashPoint), RunWfC E (init n g) evs →
    let s := step E (step E (evs.foldl (step E) (init n g)) (.crash tp p)) .restart
    ∃ cont : List Event, (∀ ev ∈ cont, ∃ tp', ev = .tick tp' ∨ ∃ e g', ev = .signature e g') ∧
      (cont.foldl (step E) s).certs.length > s.certs.length

/-- non-vacuity: the cut does change the state -/
example : (step E1 s1 (.crash tp2 .certAfterInsert)).certs.length = 2 ∧
    (step E1 s1 (.crash tp2 .certAfterInsert)).oms.all (fun o => !o.certified) = true := by decide

end C15
