import MithrilModel.DigesterProofs
/-!
# C12 — The database digest depends only on the immutable files up to the beacon

Model: `Digester.root` (`MithrilModel/Digester.lean`), a transliteration of
`ImmutableFile::list_all_in_dir`, `list_immutable_files_to_process`,
`CardanoImmutableDigester::{process_immutables, update_cache, compute_merkle_tree}` and the ckb MMR
builder (`MmrBuild.root`). Parameters: the file hash `sha` (hex SHA-256 in the code) and the node
hash `H` (Blake2s-256). The directory listing order is an arbitrary permutation; the digest cache is
an association list keyed by file name.

Every statement is for all databases, beacons, caches and hashes; hash-dependent clauses have the
form `conclusion ∨ collision`.
-/
namespace C12
open Digester

variable {γ : Type} (sha : γ → Bytes) (H : Bytes → Bytes)

/-- **Listing order.** The outcome (root, leaves, updated cache, or the error) does not depend on the
order in which the immutable directory yields its entries — any creation order, any file system. -/
theorem C12_listing_order (c : Cache) {es es' : List (Entry γ)} (hp : es.Perm es') (hd : DistinctNames es)
    (beacon : Nat) : rootIn sha H c es beacon = rootIn sha H c es' beacon :=
  rootIn_perm sha H c hp hd beacon

/-- … and neither on where the other directories of the database sit in the walk, as long as exactly
one directory is named `immutable`. -/
theorem C12_other_directories (c : Cache) {dirs dirs' : List (Name × List (Entry γ))} (hp : dirs.Perm dirs')
    (d : Name × List (Entry γ)) (h1 : dirs.filter (·.1 = IMMUTABLE) = [d]) (beacon : Nat) :
    root sha H c dirs beacon = root sha H c dirs' beacon := by
  have hf : (dirs'.filter (·.1 = IMMUTABLE)) = [d] := by
    have := (hp.filter (·.1 = IMMUTABLE)).symm
    rw [h1] at this
    exact List.perm_singleton.mp this
  have e1 : findImm dirs = some d.2 := by
    unfold findImm; rw [← List.head?_filter, h1]; rfl
  have e2 : findImm dirs' = some d.2 := by
    unfold findImm; rw [← List.head?_filter, hf]; rfl
  unfold root; rw [e1, e2]

/-- with two directories named `immutable` the walk order decides which one is read: the claim's
precondition (exactly one) is necessary. Recorded as a note, not as a finding (the property speaks of
other *files*). -/
theorem C12_two_immutable_dirs_note :
    let a : Name × List (Entry Unit) := (IMMUTABLE, [⟨[48], true, ()⟩])
    let b : Name × List (Entry Unit) := (IMMUTABLE, [])
    ([a, b].Perm [b, a]) ∧ (findImm [a, b]).map List.length = some 1 ∧ (findImm [b, a]).map List.length = some 0 := by
  refine ⟨List.Perm.swap _ _ _, by decide, by decide⟩

/-- **Irrelevant files.** Adding (or removing) entries that are not immutable files — other
extensions, no extension, directories, temporary files — or immutable files numbered above the beacon
leaves the whole outcome unchanged. (Files outside the immutable directory are not even read:
`root` only passes the entries of that directory on.) -/
theorem C12_irrelevant_files (c : Cache) (es extra : List (Entry γ)) (beacon : Nat)
    (hd : DistinctNames (es ++ extra)) (h : ∀ e ∈ extra, Irrelevant beacon e) :
    rootIn sha H c (es ++ extra) beacon = rootIn sha H c es beacon :=
  rootIn_irrelevant sha H c es extra beacon hd h

/-- **Cache soundness.** If every cached value for a covered file is the digest of its content, the
root is the cache-less root; and the cache written back is again sound for every listing whose files
agree with the processed ones on shared names — the unchanged database at a larger or smaller beacon.
Hence cold, warm, warm-from-longer, warm-from-shorter and partially evicted caches all agree. -/
theorem C12_cache_sound (c : Cache) (es : List (Entry γ)) (beacon : Nat)
    (h : ∀ fs, toProcess es beacon = .ok fs → CacheOk sha c fs) :
    (rootIn sha H c es beacon).map (fun r => (r.root, r.leaves)) =
      (rootIn sha H [] es beacon).map (fun r => (r.root, r.leaves)) ∧
    (∀ fs fs', toProcess es beacon = .ok fs → CacheOk sha c fs' →
      (∀ f ∈ fs, ∀ f' ∈ fs', f.name = f'.name → f.content = f'.content) →
      CacheOk sha (updateCache sha c fs) fs') :=
  ⟨rootIn_cache sha H c es beacon h, fun fs fs' _ hc hs => updateCache_ok sha c fs fs' hc hs⟩

/-- the empty cache is sound, and a run over a database makes a cache that is sound for it -/
theorem C12_cold_cache_ok (fs : List (IFile γ)) : CacheOk sha [] fs := by
  intro f _ d h; simp [lookup] at h

/-- **Root injectivity (value level, any two lengths).** For an injective merge whose values no leaf
equals, the root determines the whole ordered digest list — a changed, added or missing covered file
(also an inner one) changes the root. -/
theorem C12_root_injective (m : Bytes → Bytes → Bytes)
    (hinj : ∀ a b c d, m a b = m c d → a = c ∧ b = d)
    (ls ls' : List Bytes) (hl : ∀ a ∈ ls, ¬ ExprTree.IsMerge m a) (hl' : ∀ a ∈ ls', ¬ ExprTree.IsMerge m a)
    (r : Bytes) (h : MmrBuild.root m ls = some r) (h' : MmrBuild.root m ls' = some r) : ls = ls' :=
  root_injective_value m hinj ls ls' hl hl' r h h'

/-- **Sensitivity, byte level, same number of files.** Without a cache, two databases with equally
many covered files and the same root have the same ordered list of file digests, or Blake2s collides.
Leaves are the `L`-byte hex digests (`L = 64`), nodes the `N`-byte hash values (`N = 32`). -/
theorem C12_sensitive_same_shape (L N : Nat) (hsha : ∀ x, (sha x).length = L) (hH : ∀ x, (H x).length = N)
    (es es' : List (Entry γ)) (beacon beacon' : Nat) (r r' : Result)
    (h : rootIn sha H [] es beacon = .ok r) (h' : rootIn sha H [] es' beacon' = .ok r')
    (hlen : r.leaves.length = r'.leaves.length) (hroot : r.root = r'.root) :
    r.leaves = r'.leaves ∨ Collision H := by
  obtain ⟨fs, _, hl, hr⟩ := rootIn_leaves sha H es beacon r h
  obtain ⟨fs', _, hl', hr'⟩ := rootIn_leaves sha H es' beacon' r' h'
  refine root_injective_bytes' H N L hH r.leaves r'.leaves hlen ?_ ?_ r.root hr (by rw [hroot]; exact hr')
  · intro a ha; rw [hl] at ha; obtain ⟨f, _, rfl⟩ := List.mem_map.mp ha; exact hsha _
  · intro a ha; rw [hl'] at ha; obtain ⟨f, _, rfl⟩ := List.mem_map.mp ha; exact hsha _

/-- … hence every covered file has the same content in both, position by position, or one of the two
hashes collides: any changed byte of any covered file changes the root. -/
theorem C12_content_change_detected (L N : Nat) (hsha : ∀ x, (sha x).length = L) (hH : ∀ x, (H x).length = N)
    (es es' : List (Entry γ)) (beacon beacon' : Nat) (r r' : Result) (fs fs' : List (IFile γ))
    (h : rootIn sha H [] es beacon = .ok r) (h' : rootIn sha H [] es' beacon' = .ok r')
    (hf : toProcess es beacon = .ok fs) (hf' : toProcess es' beacon' = .ok fs')
    (hlen : fs.length = fs'.length) (hroot : r.root = r'.root) :
    (∀ i (hi : i < fs.length), fs[i].content = (fs'[i]'(hlen ▸ hi)).content) ∨
      (∃ x y : γ, x ≠ y ∧ sha x = sha y) ∨ Collision H := by
  obtain ⟨gs, hg, hl, _⟩ := rootIn_leaves sha H es beacon r h
  obtain ⟨gs', hg', hl', _⟩ := rootIn_leaves sha H es' beacon' r' h'
  rw [hf] at hg; rw [hf'] at hg'
  cases hg; cases hg'
  have hlen' : r.leaves.length = r'.leaves.length := by rw [hl, hl']; simpa using hlen
  rcases C12_sensitive_same_shape sha H L N hsha hH es es' beacon beacon' r r' h h' hlen' hroot with heq | hc
  · by_cases hcol : ∃ x y : γ, x ≠ y ∧ sha x = sha y
    · exact Or.inr (Or.inl hcol)
    · left
      intro i hi
      rw [hl, hl'] at heq
      have := congrArg (fun l => l[i]?) heq
      simp only [List.getElem?_map, List.getElem?_eq_getElem hi, List.getElem?_eq_getElem (hlen ▸ hi),
        Option.map_some, Option.some.injEq] at this
      apply Classical.byContradiction
      intro hne
      exact hcol ⟨_, _, hne, this⟩
  · exact Or.inr (Or.inr hc)

/-- **Missing last file.** If no immutable file carries the beacon's number, there is no root: the
outcome is an error (`NotEnoughImmutable`, or the listing error). -/
theorem C12_missing_last (c : Cache) (es : List (Entry γ)) (beacon : Nat)
    (h : ∀ e ∈ es, isImm e = true → numberOf e.name ≠ some beacon) :
    ∃ e, rootIn sha H c es beacon = .error e := by
  obtain ⟨e, he⟩ := toProcess_missing_last es beacon h
  exact ⟨e, by unfold rootIn; rw [he]⟩

/-- note: an immutable-looking file whose stem is not a number (`tmp.chunk`) aborts the listing — such
a file is not an "irrelevant file" in the sense of `C12_irrelevant_files` -/
theorem C12_unparsable_name_note :
    isImm (⟨str "tmp.chunk", true, ()⟩ : Entry Unit) = true ∧ numberOf (str "tmp.chunk") = none ∧
    numberOf (str "+7.chunk") = some 7 := by decide

/-- non-vacuity: the hypotheses are satisfiable on concrete entries — a temporary file and a file
beyond the beacon are irrelevant, a trio has distinct names -/
example : Irrelevant 3 (⟨str "00001.chunk.tmp", true, ()⟩ : Entry Unit) ∧
    Irrelevant 3 (⟨str "00004.chunk", true, ()⟩ : Entry Unit) ∧
    Irrelevant 3 (⟨str "00002.chunk", false, ()⟩ : Entry Unit) ∧
    ¬ Irrelevant 3 (⟨str "00003.primary", true, ()⟩ : Entry Unit) ∧
    DistinctNames ([⟨str "00001.chunk", true, ()⟩, ⟨str "00001.primary", true, ()⟩] : List (Entry Unit)) := by
  refine ⟨Or.inl (by decide), Or.inr ⟨4, by decide, by decide⟩, Or.inl (by decide), ?_, by unfold DistinctNames; decide⟩
  rintro (h | ⟨n, hn, hb⟩)
  · revert h; decide
  · have : numberOf (str "00003.primary") = some 3 := by decide
    rw [this] at hn; cases hn; omega

end C12
