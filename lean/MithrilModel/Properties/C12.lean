import MithrilModel.DigesterProofs
import MithrilModel.MmrBytes
import MithrilModel.NameOrder
/-!
# C12 — The database digest depends only on the immutable files up to the beacon

Model: `Digester.root` (`MithrilModel/Digester.lean`), a transliteration of
`ImmutableFile::list_all_in_dir`, `list_immutable_files_to_process`,
`CardanoImmutableDigester::{process_immutables, update_cache, compute_merkle_tree}` and the ckb MMR
builder (`MmrBuild.root`). Parameters: the file hash `sha` (hex SHA-256 in the code) and the node
hash `H` (Blake2s-256). The directory listing order is an arbitrary permutation; the digest cache is
an association list keyed by file name.

Every statement is for all databases, beacons, caches and hashes; hash-dependent clauses have the
form `conclusion ∨ collision`.
-/
namespace C12
open Digester

variable {γ : Type} (sha : γ → Bytes) (H : Bytes → Bytes)

/-- **Listing order.** The outcome (root, leaves, updated cache, or the error) does not depend on the
order in which the immutable directory yields its entries — any creation order, any file system. -/
theorem C12_listing_order (c : Cache) {es es' : List (Entry γ)} (hp : es.Perm es') (hd : DistinctNames es)
    (beacon : Nat) : rootIn sha H c es beacon = rootIn sha H c es' beacon :=
  rootIn_perm sha H c hp hd beacon

/-- … and neither on where the other directories of the database sit in the walk, as long as exactly
one directory is named `immutable`. -/
theorem C12_other_directories (c : Cache) {dirs dirs' : List (Name × List (Entry γ))} (hp : dirs.Perm dirs')
    (d : Name × List (Entry γ)) (h1 : dirs.filter (·.1 = IMMUTABLE) = [d]) (beacon : Nat) :
    root sha H c dirs beacon = root sha H c dirs' beacon := by
  have hf : (dirs'.filter (·.1 = IMMUTABLE)) = [d] := by
    have := (hp.filter (·.1 = IMMUTABLE)).symm
    rw [h1] at this
    exact List.perm_singleton.mp this
  have e1 : findImm dirs = some d.2 := by
    unfold findImm; rw [← List.head?_filter, h1]; rfl
  have e2 : findImm dirs' = some d.2 := by
    unfold findImm; rw [← List.head?_filter, hf]; rfl
  unfold root; rw [e1, e2]

/-- with two directories named `immutable` the walk order decides which one is read: the claim's
precondition (exactly one) is necessary. Recorded as a note, not as a finding (the property speaks of
other *files*). -/
theorem C12_two_immutable_dirs_note :
    let a : Name × List (Entry Unit) := (IMMUTABLE, [⟨[48], true, ()⟩])
    let b : Name × List (Entry Unit) := (IMMUTABLE, [])
    ([a, b].Perm [b, a]) ∧ (findImm [a, b]).map List.length = some 1 ∧ (findImm [b, a]).map List.length = some 0 := by
  refine ⟨List.Perm.swap _ _ _, by decide, by decide⟩

/-- **Irrelevant files.** Adding (or removing) entries that are not immutable files — other
extensions, no extension, directories, temporary files — or immutable files numbered above the beacon
leaves the whole outcome unchanged. (Files outside the immutable directory are not even read:
`root` only passes the entries of that directory on.) -/
theorem C12_irrelevant_files (c : Cache) (es extra : List (Entry γ)) (beacon : Nat)
    (hd : DistinctNames (es ++ extra)) (h : ∀ e ∈ extra, Irrelevant beacon e) :
    rootIn sha H c (es ++ extra) beacon = rootIn sha H c es beacon :=
  rootIn_irrelevant sha H c es extra beacon hd h

/-- **Cache soundness.** If every cached value for a covered file is the digest of its content, the
root is the cache-less root; and the cache written back is again sound for every listing whose files
agree with the processed ones on shared names — the unchanged database at a larger or smaller beacon.
Hence cold, warm, warm-from-longer, warm-from-shorter and partially evicted caches all agree. -/
theorem C12_cache_sound (c : Cache) (es : List (Entry γ)) (beacon : Nat)
    (h : ∀ fs, toProcess es beacon = .ok fs → CacheOk sha c fs) :
    (rootIn sha H c es beacon).map (fun r => (r.root, r.leaves)) =
      (rootIn sha H [] es beacon).map (fun r => (r.root, r.leaves)) ∧
    (∀ fs fs', toProcess es beacon = .ok fs → CacheOk sha c fs' →
      (∀ f ∈ fs, ∀ f' ∈ fs', f.name = f'.name → f.content = f'.content) →
      CacheOk sha (updateCache sha c fs) fs') :=
  ⟨rootIn_cache sha H c es beacon h, fun fs fs' _ hc hs => updateCache_ok sha c fs fs' hc hs⟩

/-- the empty cache is sound, and a run over a database makes a cache that is sound for it -/
theorem C12_cold_cache_ok (fs : List (IFile γ)) : CacheOk sha [] fs := by
  intro f _ d h; simp [lookup] at h

/-- **Root injectivity (value level, any two lengths).** For an injective merge whose values no leaf
equals, the root determines the whole ordered digest list — a changed, added or missing covered file
(also an inner one) changes the root. -/
theorem C12_root_injective (m : Bytes → Bytes → Bytes)
    (hinj : ∀ a b c d, m a b = m c d → a = c ∧ b = d)
    (ls ls' : List Bytes) (hl : ∀ a ∈ ls, ¬ ExprTree.IsMerge m a) (hl' : ∀ a ∈ ls', ¬ ExprTree.IsMerge m a)
    (r : Bytes) (h : MmrBuild.root m ls = some r) (h' : MmrBuild.root m ls' = some r) : ls = ls' :=
  root_injective_value m hinj ls ls' hl hl' r h h'

/- VACUITY AUDIT: no longer an obligation of the check. its conclusion has a bare disjunct `Collision H` (some two byte strings collide), which the fixed-output-length hypothesis alone already proves: trivially true, the acceptance hypothesis is never used. Replaced by: Vacuity.C12.C12_sensitive_any_shape_witness. -/
/-- **Sensitivity, byte level, same number of files.** Without a cache, two databases with equally
many covered files and the same root have the same ordered list of file digests, or Blake2s collides.
Leaves are the `L`-byte hex digests (`L = 64`), nodes the `N`-byte hash values (`N = 32`). -/
theorem C12_sensitive_same_shape (L N : Nat) (hsha : ∀ x, (sha x).length = L) (hH : ∀ x, (H x).length = N)
    (es es' : List (Entry γ)) (beacon beacon' : Nat) (r r' : Result)
    (h : rootIn sha H [] es beacon = .ok r) (h' : rootIn sha H [] es' beacon' = .ok r')
    (hlen : r.leaves.length = r'.leaves.length) (hroot : r.root = r'.root) :
    r.leaves = r'.leaves ∨ Collision H := by
  obtain ⟨fs, _, hl, hr⟩ := rootIn_leaves sha H es beacon r h
  obtain ⟨fs', _, hl', hr'⟩ := rootIn_leaves sha H es' beacon' r' h'
  refine root_injective_bytes' H N L hH r.leaves r'.leaves hlen ?_ ?_ r.root hr (by rw [hroot]; exact hr')
  · intro a ha; rw [hl] at ha; obtain ⟨f, _, rfl⟩ := List.mem_map.mp ha; exact hsha _
  · intro a ha; rw [hl'] at ha; obtain ⟨f, _, rfl⟩ := List.mem_map.mp ha; exact hsha _

/- VACUITY AUDIT: no longer an obligation of the check. its conclusion has a bare disjunct `Collision H` (some two byte strings collide), which the fixed-output-length hypothesis alone already proves: trivially true, the acceptance hypothesis is never used. Replaced by: Vacuity.C12.C12_change_detected_any_shape_witness. -/
/-- … hence every covered file has the same content in both, position by position, or one of the two
hashes collides: any changed byte of any covered file changes the root. -/
theorem C12_content_change_detected (L N : Nat) (hsha : ∀ x, (sha x).length = L) (hH : ∀ x, (H x).length = N)
    (es es' : List (Entry γ)) (beacon beacon' : Nat) (r r' : Result) (fs fs' : List (IFile γ))
    (h : rootIn sha H [] es beacon = .ok r) (h' : rootIn sha H [] es' beacon' = .ok r')
    (hf : toProcess es beacon = .ok fs) (hf' : toProcess es' beacon' = .ok fs')
    (hlen : fs.length = fs'.length) (hroot : r.root = r'.root) :
    (∀ i (hi : i < fs.length), fs[i].content = (fs'[i]'(hlen ▸ hi)).content) ∨
      (∃ x y : γ, x ≠ y ∧ sha x = sha y) ∨ Collision H := by
  obtain ⟨gs, hg, hl, _⟩ := rootIn_leaves sha H es beacon r h
  obtain ⟨gs', hg', hl', _⟩ := rootIn_leaves sha H es' beacon' r' h'
  rw [hf] at hg; rw [hf'] at hg'
  cases hg; cases hg'
  have hlen' : r.leaves.length = r'.leaves.length := by rw [hl, hl']; simpa using hlen
  rcases C12_sensitive_same_shape sha H L N hsha hH es es' beacon beacon' r r' h h' hlen' hroot with heq | hc
  · by_cases hcol : ∃ x y : γ, x ≠ y ∧ sha x = sha y
    · exact Or.inr (Or.inl hcol)
    · left
      intro i hi
      rw [hl, hl'] at heq
      have := congrArg (fun l => l[i]?) heq
      simp only [List.getElem?_map, List.getElem?_eq_getElem hi, List.getElem?_eq_getElem (hlen ▸ hi),
        Option.map_some, Option.some.injEq] at this
      apply Classical.byContradiction
      intro hne
      exact hcol ⟨_, _, hne, this⟩
  · exact Or.inr (Or.inr hc)

/-- **Missing last file.** If no immutable file carries the beacon's number, there is no root: the
outcome is an error (`NotEnoughImmutable`, or the listing error). -/
theorem C12_missing_last (c : Cache) (es : List (Entry γ)) (beacon : Nat)
    (h : ∀ e ∈ es, isImm e = true → numberOf e.name ≠ some beacon) :
    ∃ e, rootIn sha H c es beacon = .error e := by
  obtain ⟨e, he⟩ := toProcess_missing_last es beacon h
  exact ⟨e, by unfold rootIn; rw [he]⟩

/-- note: an immutable-looking file whose stem is not a number (`tmp.chunk`) aborts the listing — such
a file is not an "irrelevant file" in the sense of `C12_irrelevant_files` -/
theorem C12_unparsable_name_note :
    isImm (⟨str "tmp.chunk", true, ()⟩ : Entry Unit) = true ∧ numberOf (str "tmp.chunk") = none ∧
    numberOf (str "+7.chunk") = some 7 := by decide

/-- non-vacuity: the hypotheses are satisfiable on concrete entries — a temporary file and a file
beyond the beacon are irrelevant, a trio has distinct names -/
example : Irrelevant 3 (⟨str "00001.chunk.tmp", true, ()⟩ : Entry Unit) ∧
    Irrelevant 3 (⟨str "00004.chunk", true, ()⟩ : Entry Unit) ∧
    Irrelevant 3 (⟨str "00002.chunk", false, ()⟩ : Entry Unit) ∧
    ¬ Irrelevant 3 (⟨str "00003.primary", true, ()⟩ : Entry Unit) ∧
    DistinctNames ([⟨str "00001.chunk", true, ()⟩, ⟨str "00001.primary", true, ()⟩] : List (Entry Unit)) := by
  refine ⟨Or.inl (by decide), Or.inr ⟨4, by decide, by decide⟩, Or.inl (by decide), ?_, by unfold DistinctNames; decide⟩
  rintro (h | ⟨n, hn, hb⟩)
  · revert h; decide
  · have : numberOf (str "00003.primary") = some 3 := by decide
    rw [this] at hn; cases hn; omega

end C12

/-! ## byte level, any two numbers of files (`MithrilModel/MmrBytes.lean`) and the order of the leaves
(`MithrilModel/NameOrder.lean`)

Leaves are the RAW 64 bytes of the hex digests (`MKTreeNode::from(&String)`: not hashed), nodes are
`Blake2s256(left ‖ right)` (32 bytes). The collision disjunct is explicit: two different byte strings
out of the ones hashed during the two root computations (`MmrBytes.hashInputs`, the log of an
instrumented builder run: `MmrBytes.rootLog_eq`). The extra disjunct "a Blake2s output is half a hex
digest" is needed for arbitrary tree shapes (`C12_tree_injective_bytes`) and is NOT needed for the MMR
builder, whose trees never have a (node, leaf) pair of children (`MmrBytes.mmr_good`). -/
namespace C12
open Digester

/-- **Root injectivity, byte level, any two numbers of leaves.** Two lists of 64-byte leaves with the
same MMR root under `merge a b = H (a ++ b)`, `H` with 32 output bytes, are equal, or the proof hands out
two different hashed byte strings with the same hash. -/
theorem C12_root_injective_bytes (H : Bytes → Bytes) (hH : ∀ x, (H x).length = 32)
    (ls ls' : List Bytes) (hl : ∀ a ∈ ls, a.length = 64) (hl' : ∀ a ∈ ls', a.length = 64)
    (r : Bytes) (h : MmrBuild.root (merge H) ls = some r) (h' : MmrBuild.root (merge H) ls' = some r) :
    ls = ls' ∨ ∃ x ∈ MmrBytes.hashInputs H ls, ∃ y ∈ MmrBytes.hashInputs H ls', x ≠ y ∧ H x = H y :=
  MmrBytes.root_injective_bytes_any H 64 32 (by decide) hH ls ls' hl hl' r h h'

/-- … for the Lean Blake2s-256 the driver runs: no hypothesis about the hash -/
theorem C12_root_injective_blake2s (ls ls' : List Bytes) (hl : ∀ a ∈ ls, a.length = 64) (hl' : ∀ a ∈ ls', a.length = 64)
    (r : Bytes) (h : MmrBuild.root (merge Blake2.blake2s256L) ls = some r)
    (h' : MmrBuild.root (merge Blake2.blake2s256L) ls' = some r) :
    ls = ls' ∨ ∃ x ∈ MmrBytes.hashInputs Blake2.blake2s256L ls, ∃ y ∈ MmrBytes.hashInputs Blake2.blake2s256L ls',
      x ≠ y ∧ Blake2.blake2s256L x = Blake2.blake2s256L y :=
  MmrBytes.root_injective_blake2s ls ls' hl hl' r h h'

/-- `hashInputs` is what an instrumented run of the builder hashes (and the root is its value) -/
theorem C12_hash_inputs_are_the_log (H : Bytes → Bytes) (ls : List Bytes) :
    MmrBuild.root (MmrBytes.mergeLog H) (ls.map fun a => (a, [])) =
      (MmrBuild.root (merge H) ls).map fun r => (r, MmrBytes.hashInputs H ls) :=
  MmrBytes.rootLog_eq H ls

/-- **Arbitrary tree shapes** over raw 64-byte hex digests: equal values mean equal trees, or an explicit
collision among the hashed strings, or an explicit straddle `a ++ H x = H y ++ b` between a leaf `a` of one
tree and a leaf `b` of the other — in which the Blake2s output `H y` is the first half of the hex digest
`a` (32 ASCII hex characters) and `H x` the second half of `b`. -/
theorem C12_tree_injective_bytes (H : Bytes → Bytes) (hH : ∀ x, (H x).length = 32) (t t' : ExprTree.E Bytes)
    (hl : ∀ a ∈ ExprTree.leaves t, MmrBytes.IsHexDigest a) (hl' : ∀ a ∈ ExprTree.leaves t', MmrBytes.IsHexDigest a)
    (h : MmrBytes.value H t = MmrBytes.value H t') :
    t = t' ∨
    (∃ x ∈ MmrBytes.inputs H t, ∃ y ∈ MmrBytes.inputs H t', x ≠ y ∧ H x = H y) ∨
    (∃ a b x y, ((a ∈ ExprTree.leaves t ∧ x ∈ MmrBytes.inputs H t ∧ b ∈ ExprTree.leaves t' ∧ y ∈ MmrBytes.inputs H t') ∨
                 (a ∈ ExprTree.leaves t' ∧ x ∈ MmrBytes.inputs H t' ∧ b ∈ ExprTree.leaves t ∧ y ∈ MmrBytes.inputs H t)) ∧
      a ++ H x = H y ++ b ∧ H y = a.take 32 ∧ H x = b.drop 32 ∧
      (∀ c ∈ H y, MmrBytes.isHexByte c = true) ∧ (∀ c ∈ H x, MmrBytes.isHexByte c = true)) := by
  rcases MmrBytes.tree_injective_bytes H 64 32 hH (by decide) t t' (fun a ha => (hl a ha).1)
    (fun a ha => (hl' a ha).1) h with e | k | ⟨a, ma, x, mx, b, mb, y, my, he⟩ | ⟨a, ma, x, mx, b, mb, y, my, he⟩
  · exact Or.inl e
  · exact Or.inr (Or.inl k)
  · obtain ⟨h1, h2, h3, h4⟩ := MmrBytes.straddle_hex_half H hH a b x y (hl a ma) (hl' b mb) he
    exact Or.inr (Or.inr ⟨a, b, x, y, Or.inl ⟨ma, mx, mb, my⟩, he, h1, h2, h3, h4⟩)
  · obtain ⟨h1, h2, h3, h4⟩ := MmrBytes.straddle_hex_half H hH a b x y (hl' a ma) (hl b mb) he
    exact Or.inr (Or.inr ⟨a, b, x, y, Or.inr ⟨ma, mx, mb, my⟩, he, h1, h2, h3, h4⟩)

/-- the length hypotheses are necessary, for every hash: raw leaves of other lengths give equal roots for
different lists (root cause of the known findings C09-concat-split / C09-node-as-leaf; not reachable
here, the leaves of the database digest are 64 bytes) -/
theorem C12_raw_leaves_note (H : Bytes → Bytes) (a b : Bytes) :
    (MmrBuild.root (merge H) [[1, 2], [3]] = MmrBuild.root (merge H) [[1], [2, 3]] ∧
      ([[1, 2], [3]] : List Bytes) ≠ [[1], [2, 3]]) ∧
    (MmrBuild.root (merge H) [H (a ++ b)] = MmrBuild.root (merge H) [a, b] ∧ [H (a ++ b)] ≠ [a, b]) :=
  ⟨MmrBytes.variable_length_counterexample H, MmrBytes.node_length_leaf_counterexample H a b⟩

variable {γ : Type} (sha : γ → Bytes) (H : Bytes → Bytes)

/-- **Sensitivity, byte level, any two databases.** Without a cache, two databases (any numbers of
covered files) with the same root have the same ordered list of file digests, or two different hashed
strings collide under the node hash: a changed, added or MISSING covered file — also an inner one —
changes the root. -/
theorem C12_sensitive_any_shape (hsha : ∀ x, (sha x).length = 64) (hH : ∀ x, (H x).length = 32)
    (es es' : List (Entry γ)) (beacon beacon' : Nat) (r r' : Result)
    (h : rootIn sha H [] es beacon = .ok r) (h' : rootIn sha H [] es' beacon' = .ok r')
    (hroot : r.root = r'.root) :
    r.leaves = r'.leaves ∨
      ∃ x ∈ MmrBytes.hashInputs H r.leaves, ∃ y ∈ MmrBytes.hashInputs H r'.leaves, x ≠ y ∧ H x = H y := by
  obtain ⟨fs, _, hl, hr⟩ := rootIn_leaves sha H es beacon r h
  obtain ⟨fs', _, hl', hr'⟩ := rootIn_leaves sha H es' beacon' r' h'
  refine C12_root_injective_bytes H hH r.leaves r'.leaves ?_ ?_ r.root hr (by rw [hroot]; exact hr')
  · intro a ha; rw [hl] at ha; obtain ⟨f, _, rfl⟩ := List.mem_map.mp ha; exact hsha _
  · intro a ha; rw [hl'] at ha; obtain ⟨f, _, rfl⟩ := List.mem_map.mp ha; exact hsha _

/- VACUITY AUDIT: no longer an obligation of the check. its middle disjunct `∃ x y, sha x = sha y` is trivial for every infinite content type. Replaced by: Vacuity.C12.C12_change_detected_any_shape_witness. -/
/-- … hence the two databases have equally many covered files with the same content position by
position, or one of the two hashes collides -/
theorem C12_change_detected_any_shape (hsha : ∀ x, (sha x).length = 64) (hH : ∀ x, (H x).length = 32)
    (es es' : List (Entry γ)) (beacon beacon' : Nat) (r r' : Result) (fs fs' : List (IFile γ))
    (h : rootIn sha H [] es beacon = .ok r) (h' : rootIn sha H [] es' beacon' = .ok r')
    (hf : toProcess es beacon = .ok fs) (hf' : toProcess es' beacon' = .ok fs') (hroot : r.root = r'.root) :
    (∃ hlen : fs.length = fs'.length, ∀ i (hi : i < fs.length), fs[i].content = (fs'[i]'(hlen ▸ hi)).content) ∨
      (∃ x y : γ, x ≠ y ∧ sha x = sha y) ∨
      (∃ x ∈ MmrBytes.hashInputs H r.leaves, ∃ y ∈ MmrBytes.hashInputs H r'.leaves, x ≠ y ∧ H x = H y) := by
  obtain ⟨gs, hg, hl, _⟩ := rootIn_leaves sha H es beacon r h
  obtain ⟨gs', hg', hl', _⟩ := rootIn_leaves sha H es' beacon' r' h'
  rw [hf] at hg; rw [hf'] at hg'
  cases hg; cases hg'
  rcases C12_sensitive_any_shape sha H hsha hH es es' beacon beacon' r r' h h' hroot with heq | hc
  · by_cases hcol : ∃ x y : γ, x ≠ y ∧ sha x = sha y
    · exact Or.inr (Or.inl hcol)
    · left
      rw [hl, hl'] at heq
      have hlen : fs.length = fs'.length := by simpa using congrArg List.length heq
      refine ⟨hlen, ?_⟩
      intro i hi
      have := congrArg (fun l => l[i]?) heq
      simp only [List.getElem?_map, List.getElem?_eq_getElem hi, List.getElem?_eq_getElem (hlen ▸ hi),
        Option.map_some, Option.some.injEq] at this
      apply Classical.byContradiction
      intro hne
      exact hcol ⟨_, _, hne, this⟩
  · exact Or.inr (Or.inr hc)

/-- **The order of the leaves is the Rust order for ALL file numbers** — `Digester.le`, the order the
listing is sorted with, is `ImmutableFile::cmp(..) != Greater` (`immutable_file.rs:192-196`: the number
first, then the path); between files of different numbers the names are never compared, so the string
order of the zero padded names (which breaks at 100000, `C10.C10_name_order_boundary`) is irrelevant for
the digest. -/
theorem C12_leaf_order_is_rust_order (a b : IFile γ) :
    (le a b = true ↔ NameOrder.rustCmp a b ≠ .gt) ∧
    (a.number < b.number → le a b = true ∧ le b a = false ∧ NameOrder.rustCmp a b = .lt ∧ NameOrder.rustCmp b a = .gt) :=
  ⟨NameOrder.digester_le_iff_rust a b, NameOrder.digester_number_first a b⟩

/-- … and the listing is in the order of the numbers, also across 99999 / 100000 -/
theorem C12_listing_sorted_by_number (es : List (Entry γ)) (fs : List (IFile γ)) (h : listAll es = some fs) :
    fs.Pairwise (fun a b => a.number ≤ b.number) :=
  NameOrder.listAll_sorted_by_number es fs h

theorem C12_listing_boundary :
    (listAll [NameOrder.e100000, NameOrder.e99999]).map (fun fs => fs.map (fun f => (f.number, f.name)))
      = some [(99999, str "99999.chunk"), (100000, str "100000.chunk")] ∧
    lexLe (str "99999.chunk") (str "100000.chunk") = false :=
  ⟨NameOrder.listAll_boundary, by decide⟩

/-- non-vacuity of the byte level theorems: a constant 32-byte "hash" and two different lists of
64-byte leaves of different lengths with the same root — the hypotheses hold (and the conclusion is the
collision between the hashed strings) -/
example :
    let H : Bytes → Bytes := fun _ => List.replicate 32 0
    let a : Bytes := List.replicate 64 48
    let b : Bytes := List.replicate 64 49
    (∀ x, (H x).length = 32) ∧ (∀ x ∈ [a, b], x.length = 64) ∧ (∀ x ∈ [b, a, a], x.length = 64) ∧
    MmrBuild.root (merge H) [a, b] = some (List.replicate 32 0) ∧
    MmrBuild.root (merge H) [b, a, a] = some (List.replicate 32 0) ∧ [a, b] ≠ [b, a, a] := by
  refine ⟨fun _ => by simp, by simp, by simp, ?_, ?_, by simp⟩ <;>
    simp [MmrBuild.root, MmrBuild.peaksOf, MmrBuild.push, MmrBuild.mergeTail, MmrBuild.bag, merge]

end C12
