import MithrilModel.LotteryProofs
import MithrilModel.LotteryMono
/-!
# C08 — The signing lottery is exact, deterministic and monotone in stake

Model: `Lottery.won` / `Lottery.taylor` (`mithril-stm/src/proof_system/concatenation/eligibility.rs`,
num-integer backend) in exact rational arithmetic; `ln(1 - phi_f)` enters as the bit pattern of
the double the Rust side computed.
-/
namespace C08
open Lottery Finset

/-- the compared value `q = 2^512 / (2^512 - ev)` of a draw -/
def qOf (ev : Nat) : Rat := (evMax : Rat) / ((evMax - ev : Nat) : Rat)

theorem qgen_mono (M e1 e2 : Nat) (h : e1 ≤ e2) (h2 : e2 < M) :
    (M : Rat) / ((M - e1 : Nat) : Rat) ≤ (M : Rat) / ((M - e2 : Nat) : Rat) := by
  have hp : (0 : Rat) < ((M - e2 : Nat) : Rat) := by
    have : 0 < M - e2 := by omega
    exact_mod_cast this
  have hle : ((M - e2 : Nat) : Rat) ≤ ((M - e1 : Nat) : Rat) := by
    have : M - e2 ≤ M - e1 := by omega
    exact_mod_cast this
  have hM : (0 : Rat) ≤ (M : Rat) := Nat.cast_nonneg M
  exact div_le_div_of_nonneg_left hM hp hle

theorem qOf_mono (e1 e2 : Nat) (h : e1 ≤ e2) (h2 : e2 < evMax) : qOf e1 ≤ qOf e2 :=
  qgen_mono evMax e1 e2 h h2

theorem won_eq (phiBits lnBits ev stake total : Nat) (phi c : Rat)
    (h : f64ToRat phiBits = some phi) (h1 : phiIsOne phi = false) (hc : f64ToRat lnBits = some c)
    (ht : total ≠ 0) :
    won phiBits lnBits ev stake total =
      if taylor 1000 (qOf ev) (-((stake : Rat) / (total : Rat) * c)) then .won else .lost := by
  unfold won qOf
  simp only [h, h1, hc, ht]
  rfl

/-- Monotone in the draw: a smaller draw value never turns won into lost — unconditional. -/
theorem C08_mono_draw (phiBits lnBits e1 e2 stake total : Nat) (h : e1 ≤ e2) (h2 : e2 < evMax)
    (hw : won phiBits lnBits e2 stake total = .won) : won phiBits lnBits e1 stake total = .won := by
  cases hphi : f64ToRat phiBits with
  | none => unfold won at hw; simp [hphi] at hw
  | some phi =>
    by_cases h1 : phiIsOne phi = true
    · unfold won; simp [hphi, h1]
    · have h1' : phiIsOne phi = false := by simpa using h1
      cases hc : f64ToRat lnBits with
      | none => unfold won at hw; simp [hphi, h1', hc] at hw
      | some c =>
        by_cases ht : total = 0
        · unfold won at hw; simp [hphi, h1', hc, ht] at hw
        · rw [won_eq _ _ _ _ _ phi c hphi h1' hc ht] at hw ⊢
          by_cases htay : taylor 1000 (qOf e2) (-((stake : Rat) / (total : Rat) * c)) = true
          · have := taylorAux_mono_cmp 1000 _ _ _ _ _ _ (qOf_mono e1 e2 h h2) htay
            unfold taylor
            rw [this]; rfl
          · simp [htay] at hw

/-- always won when phi_f is 1 (within the code's epsilon) -/
theorem C08_phi_one (phiBits lnBits ev stake total : Nat) (phi : Rat)
    (h : f64ToRat phiBits = some phi) (h1 : phiIsOne phi = true) :
    won phiBits lnBits ev stake total = .won := by
  unfold won; simp [h, h1]

theorem phi_one_bits : f64ToRat 0x3ff0000000000000 = some 1 := by decide +kernel

theorem taylorAux_zero (b : Nat) : ∀ (cmp d : Rat), 1 ≤ cmp → taylorAux b cmp 0 0 1 d = false := by
  induction b with
  | zero => intro cmp d _; simp [taylorAux]
  | succ b ih =>
    intro cmp d h
    have e0 : ratAbs (0 : Rat) = 0 := by simp [ratAbs]
    simp only [taylorAux, zero_mul, zero_div, e0, add_zero, sub_zero]
    split
    · rfl
    · split
      · rename_i h2; exact absurd h2 (not_lt.mpr h)
      · exact ih cmp (d + 1) h

theorem one_le_qgen (M ev : Nat) (h : ev < M) : (1 : Rat) ≤ (M : Rat) / ((M - ev : Nat) : Rat) := by
  have hp : (0 : Rat) < ((M - ev : Nat) : Rat) := by
    have : 0 < M - ev := by omega
    exact_mod_cast this
  rw [le_div_iff₀ hp]
  have : M - ev ≤ M := by omega
  have : ((M - ev : Nat) : Rat) ≤ (M : Rat) := by exact_mod_cast this
  linarith

theorem one_le_qOf (ev : Nat) (h : ev < evMax) : 1 ≤ qOf ev := one_le_qgen evMax ev h

/-- always lost for zero stake (when phi_f is not 1) -/
theorem C08_zero_stake (phiBits lnBits ev total : Nat) (phi c : Rat) (hev : ev < evMax)
    (h : f64ToRat phiBits = some phi) (h1 : phiIsOne phi = false) (hc : f64ToRat lnBits = some c)
    (ht : total ≠ 0) : won phiBits lnBits ev 0 total = .lost := by
  rw [won_eq _ _ _ _ _ phi c h h1 hc ht]
  have hx : -(((0 : Nat) : Rat) / (total : Rat) * c) = 0 := by simp
  rw [hx]
  have := taylorAux_zero 1000 (qOf ev) 1 (one_le_qOf ev hev)
  unfold taylor
  rw [this]; rfl

/-- a win is never wrong, for any parameters: won ⇒ q < exp x (x ≥ 0), i.e. draw/2^512 < 1 - e^{-x} -/
theorem C08_true_correct (bound : Nat) (q x : Rat) (hx : 0 ≤ x) (h : taylor bound q x = true) :
    (q : ℝ) < Real.exp (x : ℝ) := taylor_true_correct bound q x hx h

/-- a loss is correct up to the band `5·x^(N+1)/(N+1)!` on the regime 0 ≤ x ≤ 3/2 -/
theorem C08_false_correct (N : Nat) (q x : Rat) (hx : 0 ≤ x) (hx2 : x ≤ 3 / 2)
    (h : taylor (N + 1) q x = false) :
    Real.exp (x : ℝ) ≤ (q : ℝ) + 5 * ((x ^ (N + 2) / ((N + 2).factorial : Rat) : Rat) : ℝ) := by
  have := taylorAux_false_correct N 1 q x hx hx2 (le_refl 1)
  unfold taylor at h
  have hT : T x 1 = x := by simp [T]
  have hS : S x 1 = 1 := by simp [S]
  rw [hT, hS] at this
  have h' := this (by simpa using h)
  have he : 1 + N + 1 = N + 2 := by omega
  rw [he] at h'
  simpa [T] using h'

/-- hence exactness on the regime: outside the band the decision IS the comparison with exp x -/
theorem C08_exact (N : Nat) (q x : Rat) (hx : 0 ≤ x) (hx2 : x ≤ 3 / 2)
    (hband : (q : ℝ) + 5 * ((x ^ (N + 2) / ((N + 2).factorial : Rat) : Rat) : ℝ) < Real.exp (x : ℝ) ∨
             Real.exp (x : ℝ) ≤ (q : ℝ)) :
    taylor (N + 1) q x = true ↔ (q : ℝ) < Real.exp (x : ℝ) := by
  constructor
  · exact C08_true_correct _ q x hx
  · intro hlt
    rcases hband with hb | hb
    · by_contra hne
      have hf : taylor (N + 1) q x = false := by simpa using hne
      have := C08_false_correct N q x hx hx2 hf
      linarith
    · exact absurd hlt (not_lt.mpr hb)

/-- the exponent grows with the stake (`c = ln(1 - phi_f) ≤ 0`) -/
theorem exponent_mono_stake (c : Rat) (hc : c ≤ 0) (s s' total : Nat) (h : s ≤ s') (ht : 0 < total) :
    -((s : Rat) / (total : Rat) * c) ≤ -((s' : Rat) / (total : Rat) * c) := by
  have h1 : (s : Rat) / (total : Rat) ≤ (s' : Rat) / (total : Rat) := by
    apply div_le_div_of_nonneg_right (by exact_mod_cast h)
    exact_mod_cast ht.le
  nlinarith

/-- **monotone in stake (early-exit form)**: a draw that wins with exponent `x` is never decided "lost" by
an early exit at a larger exponent `x'` (= larger stake, by `exponent_mono_stake`): every round's early-lost
threshold `S x' k + 3·T x' k` stays above the compared value. A "lost" at `x'` can then only be the
fall-through after all rounds stayed undecided, i.e. inside the band. Unconditional in `x`. -/
theorem C08_mono_stake_early (b : Nat) (q x x' : Rat) (hx : 0 ≤ x) (hxx : x ≤ x')
    (h : taylor b q x = true) : ∀ k, 2 ≤ k → q ≤ S x' k + T x' k * 3 :=
  taylor_true_no_early_false b q x x' hx hxx h

/-- KNOWN FINDING: outside that regime the `3·next term` error bound is invalid. phi_f = 0.95,
stake = total, draw/2^512 = 0.945 < 0.95: the model (and the code) answer `lost`. -/
theorem C08_inexact_counterexample :
    won 0x3fee666666666666 0xc007f7427b73e38f
      12670378493795754259097453623304524590468000700459811741948765564317067008419501893077771211767723739167080105986229318056797419257289508599379798310749470
      1 1 = .lost := by decide +kernel

/-- non-vacuity of `C08_exact`: x = 1/2, q = 3/2 satisfies the hypotheses' regime and is decided won -/
example : taylor 1000 (3 / 2) (1 / 2) = true := by decide +kernel

end C08
