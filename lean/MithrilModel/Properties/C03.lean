import MithrilModel.ChainClient
import MithrilModel.ChainSession
import MithrilModel.ChainComplete
/-!
# C03 — Certificate chain verification accepts only chains anchored in the genesis key

Model: `Chain.verifyCertificate` / `verifyChain` (`mithril-common/src/certificate_chain/
certificate_verifier.rs`, after the `fix:` commit rejecting links to a following epoch) and the
client's two loops with the verifier cache `Chain.clientVerify … true` (`mithril-client/src/
certificate_client/verify.rs`, after the `fix:` commit checking a downloaded certificate against its
hash before a cache hit is trusted). Integrity facts of each served certificate (content hash,
protocol-message digest, epoch part, multi-signature, genesis signature) are oracle bits computed by
the harness with the real primitives; hashes are abstract identifiers.
-/
namespace C03
open Chain

/-- the property's link relation: same epoch with the same key and parameters, or the immediately
preceding epoch whose signed message commits to exactly that key and those parameters -/
abbrev Link := LinkSpec

/-- `Valid` with an explicit number of steps -/
inductive ValidD : Nat → Cert → Prop where
  | genesis (c : Cert) : c.isGenesis = true → Integrity c → c.genesisSigOk = true → ValidD 1 c
  | step (d : Nat) (c p : Cert) : c.isGenesis = false → Integrity c → c.multiSigOk = true →
      p.hash = c.prevHash → LinkSpec c p → ValidD d p → ValidD (d + 1) c

theorem ValidD_valid {d c} (h : ValidD d c) : Valid LinkSpec c := by
  induction h with
  | genesis c a b e => exact Valid.genesis c a b e
  | step d c p a b e f g _ ih => exact Valid.step c p a b e f g ih

/-- **soundness**: acceptance means a valid chain to a genesis certificate signed by the configured key -/
theorem C03_chain_sound (retr : Nat → Option Cert) (fuel : Nat) (c : Cert)
    (h : verifyChain retr fuel c = .ok ()) : Valid LinkSpec c := verifyChain_sound retr fuel c h

/-- **finitely many steps**: acceptance with fuel `n` yields a chain of at most `n` certificates, each
the one the provider served for the previous-hash of its child -/
theorem C03_finite (retr : Nat → Option Cert) : ∀ (fuel : Nat) (c : Cert),
    verifyChain retr fuel c = .ok () → ∃ d, d ≤ fuel ∧ ValidD d c := by
  intro fuel
  induction fuel with
  | zero => intro c h; simp [verifyChain] at h
  | succ fuel ih =>
    intro c h
    simp only [verifyChain] at h
    split at h
    · simp at h
    · rename_i hv
      obtain ⟨a, b, e⟩ := verifyCertificate_ok_none hv
      exact ⟨1, by omega, ValidD.genesis c a b e⟩
    · rename_i p hv
      obtain ⟨a, b, e, f, g⟩ := verifyCertificate_ok_some hv
      obtain ⟨d, hd, hvd⟩ := ih p h
      exact ⟨d + 1, by omega, ValidD.step d c p a b e f g hvd⟩

/-- a certificate whose multi-signature is valid under an aggregate key the parent does not commit to
is rejected -/
theorem C03_rejects_nonchained_signers (retr : Nat → Option Cert) (c p : Cert)
    (hp : retr c.prevHash = some p) (hg : c.isGenesis = false)
    (hbad : ¬ LinkSpec c p) : ∀ q, verifyCertificate retr c ≠ .ok (some q) := by
  intro q hq
  have hs := verifyCertificate_ok_some hq
  -- the returned certificate is the served one
  have : q = p := by
    unfold verifyCertificate at hq
    simp only [hg, Bool.false_eq_true, if_false, hp] at hq
    split at hq
    · simp at hq
    · repeat (split at hq; · simp at hq)
      simpa using hq.symm
  subst this
  exact hbad hs.2.2.2.2

/-- FIXED FINDING: the link to the following epoch, accepted before the fix, rejected now -/
theorem C03_forward_link_counterexample_prefix :
    verifyChainOld retr0 5 earlier = .ok () ∧ ¬ LinkSpec earlier later ∧
    verifyChain retr0 5 earlier = .error .missingEpoch := forward_link_counterexample

/-- **client soundness** (two loops + verifier cache), under the cache invariant (every cached pair
stems from a validated certificate whose content hashes to the key) and hash binding of the abstract
records (standing for collision-freeness of SHA-256) -/
theorem C03_client_sound (retr : Nat → Option Cert) (cache : Nat → Option Nat) (hc : CacheInv cache)
    (hb : HashBinding) (fuel : Nat) (c : Cert) (h : clientVerify retr cache true fuel c = .ok ()) :
    Valid LinkSpec c := client_sound retr cache hc hb fuel c h

/-- FIXED FINDING: before the fix the cache path accepted an adversarial certificate whose fake parent
was served under a cached honest hash; the fixed client rejects it -/
theorem C03_cache_counterexample_prefix :
    clientVerify retrAdv cacheWarm false 10 advC = .ok () ∧
    retrAdv advC.prevHash = some fakeParent ∧ fakeParent.contentHashOk = false ∧
    clientVerify retrAdv cacheWarm true 10 advC = .error .hash := cache_counterexample

/-- **client soundness over whole sessions**: for every sequence of `verify_chain` calls on one client —
the provider free to answer differently in every call, the cache carried from call to call (extended by a
successful call, reset by a failed one) — starting from a cache that satisfies the invariant (e.g. empty),
EVERY accepted certificate of EVERY call is validly chained to a genesis certificate. The cache invariant
is no longer a hypothesis about an arbitrary cache: it is established by the code itself. -/
theorem C03_client_sessions_sound (hb : HashBinding) (calls : List ((Nat → Option Cert) × Nat × Cert))
    (cache : Nat → Option Nat) (hc : CacheInv cache) (i : Nat) (hi : i < calls.length)
    (h : (session true cache calls).1[i]? = some (.ok ())) : Valid LinkSpec (calls[i]).2.2 :=
  session_sound hb calls cache hc i hi h

/-- one call keeps the cache invariant (whatever the provider answers, whether it succeeds or fails) -/
theorem C03_client_run_keeps_cache_invariant (retr : Nat → Option Cert) (cache : Nat → Option Nat)
    (hc : CacheInv cache) (hb : HashBinding) (fuel : Nat) (c : Cert) :
    CacheInv (run true retr cache fuel c).2 := (run_inv retr cache hc hb fuel c).1

/-- FIXED FINDING (cache poisoning): before the repair the records of a FAILED call stayed in the cache; a
first call on an adversary certificate over an altered copy of the genuine boundary certificate is
rejected but leaves its head cached, and a second call on a certificate chained to that head — genuine
answers only — was accepted although that head is chained to nothing the genesis key vouches for -/
theorem C03_cache_poisoning_counterexample_before_repair :
    (session false (fun _ => none) [(retr1, 10, advF), (retr2, 10, advF2)]).1.map code = [some .hash, none] :=
  poisoning_counterexample

theorem C03_cache_poisoning_repaired :
    (session true (fun _ => none) [(retr1, 10, advF), (retr2, 10, advF2)]).1.map code = [some .hash, some .avk] :=
  poisoning_repaired

/-- non-vacuity of the session theorem: the empty cache satisfies the invariant and an honest call is accepted -/
example : CacheInv (fun _ => none) ∧
    (session true (fun _ => none) [(retr0, 5, later)]).1.map code = [none] := ⟨cacheInv_empty, by decide +kernel⟩

/-- completeness direction used by C14: locally good stores verify from every stored certificate -/
def C03_complete_of_locally_good := @verifyChain_of_locally_good

/-- non-vacuity: the two-certificate honest chain of the examples is accepted -/
example : verifyChain retr0 5 later = .ok () := rfl

end C03
