import MithrilModel.ChainClient
import MithrilModel.ChainSession
import MithrilModel.ChainComplete
import MithrilModel.ChainLive
/-!
# C03 — Certificate chain verification accepts only chains anchored in the genesis key

Model: `Chain.verifyCertificate` / `verifyChain` (`mithril-common/src/certificate_chain/
certificate_verifier.rs`, after the `fix:` commit rejecting links to a following epoch) and the
client's two loops with the verifier cache `Chain.clientVerify … true` (`mithril-client/src/
certificate_client/verify.rs`, after the `fix:` commit checking a downloaded certificate against its
hash before a cache hit is trusted). Integrity facts of each served certificate (content hash,
protocol-message digest, epoch part, multi-signature, genesis signature) are oracle bits computed by
the harness with the real primitives; hashes are abstract identifiers.
-/
namespace C03
open Chain

/-- the property's link relation: same epoch with the same key and parameters, or the immediately
preceding epoch whose signed message commits to exactly that key and those parameters -/
abbrev Link := LinkSpec

/-- `Valid` with an explicit number of steps -/
inductive ValidD : Nat → Cert → Prop where
  | genesis (c : Cert) : c.isGenesis = true → Integrity c → c.genesisSigOk = true → ValidD 1 c
  | step (d : Nat) (c p : Cert) : c.isGenesis = false → Integrity c → c.multiSigOk = true →
      p.hash = c.prevHash → LinkSpec c p → ValidD d p → ValidD (d + 1) c

theorem ValidD_valid {d c} (h : ValidD d c) : Valid LinkSpec c := by
  induction h with
  | genesis c a b e => exact Valid.genesis c a b e
  | step d c p a b e f g _ ih => exact Valid.step c p a b e f g ih

/-- **soundness**: acceptance means a valid chain to a genesis certificate signed by the configured key -/
theorem C03_chain_sound (retr : Nat → Option Cert) (fuel : Nat) (c : Cert)
    (h : verifyChain retr fuel c = .ok ()) : Valid LinkSpec c := verifyChain_sound retr fuel c h

/-- **finitely many steps**: acceptance with fuel `n` yields a chain of at most `n` certificates, each
the one the provider served for the previous-hash of its child -/
theorem C03_finite (retr : Nat → Option Cert) : ∀ (fuel : Nat) (c : Cert),
    verifyChain retr fuel c = .ok () → ∃ d, d ≤ fuel ∧ ValidD d c := by
  intro fuel
  induction fuel with
  | zero => intro c h; simp [verifyChain] at h
  | succ fuel ih =>
    intro c h
    simp only [verifyChain] at h
    split at h
    · simp at h
    · rename_i hv
      obtain ⟨a, b, e⟩ := verifyCertificate_ok_none hv
      exact ⟨1, by omega, ValidD.genesis c a b e⟩
    · rename_i p hv
      obtain ⟨a, b, e, f, g⟩ := verifyCertificate_ok_some hv
      obtain ⟨d, hd, hvd⟩ := ih p h
      exact ⟨d + 1, by omega, ValidD.step d c p a b e f g hvd⟩

/-- a certificate whose multi-signature is valid under an aggregate key the parent does not commit to
is rejected -/
theorem C03_rejects_nonchained_signers (retr : Nat → Option Cert) (c p : Cert)
    (hp : retr c.prevHash = some p) (hg : c.isGenesis = false)
    (hbad : ¬ LinkSpec c p) : ∀ q, verifyCertificate retr c ≠ .ok (some q) := by
  intro q hq
  have hs := verifyCertificate_ok_some hq
  -- the returned certificate is the served one
  have : q = p := by
    unfold verifyCertificate at hq
    simp only [hg, Bool.false_eq_true, if_false, hp] at hq
    split at hq
    · simp at hq
    · repeat (split at hq; · simp at hq)
      simpa using hq.symm
  subst this
  exact hbad hs.2.2.2.2

/-- FIXED FINDING: the link to the following epoch, accepted before the fix, rejected now -/
theorem C03_forward_link_counterexample_prefix :
    verifyChainOld retr0 5 earlier = .ok () ∧ ¬ LinkSpec earlier later ∧
    verifyChain retr0 5 earlier = .error .missingEpoch := forward_link_counterexample

/-- **client soundness** (two loops + verifier cache), under the cache invariant (every cached pair
stems from a validated certificate whose content hashes to the key) and hash binding of the abstract
records (standing for collision-freeness of SHA-256)

**SUPERSEDED — vacuous as stated**: `HashBinding` quantifies over ALL abstract records and is refutable
(`C03_hash_binding_unsatisfiable`), so this statement holds for no reason of its own. Its non-vacuous form, with binding
among the certificates of a world `U` (`BindingOn U`), is `C03_client_sound_on` below; this one is kept only so that nothing that referred to it breaks, and is no longer listed as an obligation. -/
theorem C03_client_sound (retr : Nat → Option Cert) (cache : Nat → Option Nat) (hc : CacheInv cache)
    (hb : HashBinding) (fuel : Nat) (c : Cert) (h : clientVerify retr cache true fuel c = .ok ()) :
    Valid LinkSpec c := client_sound retr cache hc hb fuel c h

/-- FIXED FINDING: before the fix the cache path accepted an adversarial certificate whose fake parent
was served under a cached honest hash; the fixed client rejects it -/
theorem C03_cache_counterexample_prefix :
    clientVerify retrAdv cacheWarm false 10 advC = .ok () ∧
    retrAdv advC.prevHash = some fakeParent ∧ fakeParent.contentHashOk = false ∧
    clientVerify retrAdv cacheWarm true 10 advC = .error .hash := cache_counterexample

/-- **client soundness over whole sessions**: for every sequence of `verify_chain` calls on one client —
the provider free to answer differently in every call, the cache carried from call to call (extended by a
successful call, reset by a failed one) — starting from a cache that satisfies the invariant (e.g. empty),
EVERY accepted certificate of EVERY call is validly chained to a genesis certificate. The cache invariant
is no longer a hypothesis about an arbitrary cache: it is established by the code itself.

**SUPERSEDED — vacuous as stated**: `HashBinding` quantifies over ALL abstract records and is refutable
(`C03_hash_binding_unsatisfiable`), so this statement holds for no reason of its own. Its non-vacuous form, with binding
among the certificates of a world `U` (`BindingOn U`), is `C03_client_sessions_sound_on` / `C03_live_client_sessions_sound` below; this one is kept only so that nothing that referred to it breaks, and is no longer listed as an obligation. -/
theorem C03_client_sessions_sound (hb : HashBinding) (calls : List ((Nat → Option Cert) × Nat × Cert))
    (cache : Nat → Option Nat) (hc : CacheInv cache) (i : Nat) (hi : i < calls.length)
    (h : (session true cache calls).1[i]? = some (.ok ())) : Valid LinkSpec (calls[i]).2.2 :=
  session_sound hb calls cache hc i hi h

/-- one call keeps the cache invariant (whatever the provider answers, whether it succeeds or fails)

**SUPERSEDED — vacuous as stated**: `HashBinding` quantifies over ALL abstract records and is refutable
(`C03_hash_binding_unsatisfiable`), so this statement holds for no reason of its own. Its non-vacuous form, with binding
among the certificates of a world `U` (`BindingOn U`), is `Chain.run_inv_on` below; this one is kept only so that nothing that referred to it breaks, and is no longer listed as an obligation. -/
theorem C03_client_run_keeps_cache_invariant (retr : Nat → Option Cert) (cache : Nat → Option Nat)
    (hc : CacheInv cache) (hb : HashBinding) (fuel : Nat) (c : Cert) :
    CacheInv (run true retr cache fuel c).2 := (run_inv retr cache hc hb fuel c).1

/-- FIXED FINDING (cache poisoning): before the repair the records of a FAILED call stayed in the cache; a
first call on an adversary certificate over an altered copy of the genuine boundary certificate is
rejected but leaves its head cached, and a second call on a certificate chained to that head — genuine
answers only — was accepted although that head is chained to nothing the genesis key vouches for -/
theorem C03_cache_poisoning_counterexample_before_repair :
    (session false (fun _ => none) [(retr1, 10, advF), (retr2, 10, advF2)]).1.map code = [some .hash, none] :=
  poisoning_counterexample

theorem C03_cache_poisoning_repaired :
    (session true (fun _ => none) [(retr1, 10, advF), (retr2, 10, advF2)]).1.map code = [some .hash, some .avk] :=
  poisoning_repaired

/-- non-vacuity of the session theorem: the empty cache satisfies the invariant and an honest call is accepted -/
example : CacheInv (fun _ => none) ∧
    (session true (fun _ => none) [(retr0, 5, later)]).1.map code = [none] := ⟨cacheInv_empty, by decide +kernel⟩

/-- completeness direction used by C14: locally good stores verify from every stored certificate -/
def C03_complete_of_locally_good := @verifyChain_of_locally_good

/-- non-vacuity: the two-certificate honest chain of the examples is accepted -/
example : verifyChain retr0 5 later = .ok () := rfl

/-! ## cycles, and the verifier cache as the client threads it through one call (`MithrilModel/ChainLive.lean`) -/

/-- **C03_acyclic (T2).** `walk retr fuel c` lists the certificates `verify_certificate_chain` calls `verify_certificate`
on. If it comes to the same hash twice (certificates `a`, `b` at positions `i < j`), then either the verification is not
accepted, or `a`, `b` are returned as an explicit collision of the content hash (`a ≠ b`, same hash, both contents hash to
it). The binding hypothesis is not assumed: its failure is the witness. -/
theorem C03_acyclic (retr : Nat → Option Cert) (fuel : Nat) (c : Cert) (i j : Nat) (hij : i < j) (a b : Cert)
    (hi : (walk retr fuel c)[i]? = some a) (hj : (walk retr fuel c)[j]? = some b) (hh : a.hash = b.hash) :
    verifyChain retr fuel c ≠ .ok () ∨ Collision a b := acyclic retr fuel c i j hij a b hi hj hh

/-- non-vacuity, first disjunct: the two-certificate cycle `1 → 2 → 1` comes back to `cycA` and is not accepted -/
example : (walk retrCyc 3 cycA)[0]? = some cycA ∧ (walk retrCyc 3 cycA)[2]? = some cycA ∧
    verifyChain retrCyc 3 cycA = .error .fuel := ⟨by decide, by decide, rfl⟩

/-- non-vacuity, second disjunct: a provider that serves, for hash 1, a genesis certificate different from the start
certificate (hash 1 as well): accepted, and the two are the collision -/
example :
    let c1 : Cert := { cycA with hash := 1, prevHash := 2 }
    let c2 : Cert := { cycA with hash := 2, prevHash := 1 }
    let g : Cert := { gen with hash := 1, epoch := 3 }
    let retr : Nat → Option Cert := fun h => if h = 2 then some c2 else if h = 1 then some g else none
    verifyChain retr 3 c1 = .ok () ∧ (walk retr 3 c1)[0]? = some c1 ∧ (walk retr 3 c1)[2]? = some g ∧
      c1.hash = g.hash ∧ c1 ≠ g := ⟨rfl, by decide, by decide, rfl, by decide⟩

/-- if no two certificates of the walk are such a collision, the hashes of an accepted walk are pairwise different -/
theorem C03_acyclic_nodup (retr : Nat → Option Cert) (fuel : Nat) (c : Cert)
    (hb : ∀ a ∈ walk retr fuel c, ∀ b ∈ walk retr fuel c, ¬ Collision a b)
    (hok : verifyChain retr fuel c = .ok ()) : ((walk retr fuel c).map (·.hash)).Nodup :=
  accepted_walk_nodup retr fuel c hb hok

/-- non-vacuity: the honest chain of the examples -/
example : (∀ a ∈ walk retr0 5 later, ∀ b ∈ walk retr0 5 later, ¬ Collision a b) ∧ verifyChain retr0 5 later = .ok () := by
  refine ⟨?_, rfl⟩
  intro a ha b hb hcol
  have hw : walk retr0 5 later = [later, gen] := by decide
  rw [hw] at ha hb
  simp only [List.mem_cons, List.not_mem_nil, or_false] at ha hb
  have hne := hcol.ne
  have hh := hcol.hash
  rcases ha with rfl | rfl <;> rcases hb with rfl | rfl <;> first | exact hne rfl | (revert hh; decide)

/-- the self-loop guard: a standard certificate whose `previous_hash` is its own hash is rejected at once -/
theorem C03_self_loop_guard (retr : Nat → Option Cert) (c : Cert) (hg : c.isGenesis = false) (hl : c.hash = c.prevHash) :
    verifyCertificate retr c = .error .loop ∨ verifyCertificate retr c = .error .notFound :=
  selfLoop_rejected retr c hg hl

/-- a longer cycle of certificates that all pass (a cycle of the content hash, no collision): `fuel` for every fuel — the
real loop, which has no bound and keeps no set of visited hashes, does not terminate -/
theorem C03_cycle_diverges (retr : Nat → Option Cert) (f : Nat) (c : Cert) (i j : Nat) (hij : i < j) (x : Cert)
    (hi : (walk retr f c)[i]? = some x) (hj : (walk retr f c)[j]? = some x) :
    ∀ F, verifyChain retr F c = .error .fuel := cycle_diverges retr f c i j hij x hi hj

example : ∀ F, verifyChain retrCyc F cycA = .error .fuel := cycle_example

/-- **C03_live_cache_agrees.** `clientVerifyLive` threads the cache through the call as `verify.rs` does (record right
after each successful `verify_certificate` of a non-genesis certificate, before the next look-up). On every input whose
walk does not come to the same hash twice it returns the verdict of `clientVerify` (error class included) and leaves the
cache `run` computes. -/
theorem C03_live_cache_agrees (retr : Nat → Option Cert) (cache : Nat → Option Nat) (fuel : Nat) (c : Cert)
    (hn : (visited retr cache fuel c).Nodup) :
    (clientVerifyLive retr cache fuel c).1 = clientVerify retr cache true fuel c ∧
    (∀ k, (clientVerifyLive retr cache fuel c).2 k = extend cache (runWrites retr cache fuel c) k) ∧
    (runLive retr cache fuel c).1 = (run true retr cache fuel c).1 ∧
    ∀ k, (runLive retr cache fuel c).2 k = (run true retr cache fuel c).2 k :=
  ⟨(live_agrees retr cache fuel c hn).1, (live_agrees retr cache fuel c hn).2,
   (runLive_agrees retr cache fuel c hn).1, (runLive_agrees retr cache fuel c hn).2⟩

/-- non-vacuity: an honest three-epoch chain on a cache warmed by an earlier call: no hash twice, accepted through the cache -/
example :
    let third : Cert := { later with hash := 300, prevHash := 200, epoch := 3 }
    let warm := (run true retr0 (fun _ => none) 5 later).2
    (visited retr0 warm 5 third).Nodup ∧ visited retr0 warm 5 third = [300, 200, 100] ∧
      code (clientVerifyLive retr0 warm 5 third).1 = none := ⟨by decide, by decide, by decide⟩

/-- **for every retriever and every initial cache** (cyclic walks included): when the live client accepts, `clientVerify`
accepts, and the cache left is the initial one plus the records of `runWrites`. So everything proved about accepted runs
of `clientVerify` holds for the client as it really threads its cache. -/
theorem C03_live_accept_implies_model_accept (retr : Nat → Option Cert) (cache : Nat → Option Nat) (fuel : Nat) (c : Cert)
    (h : (clientVerifyLive retr cache fuel c).1 = .ok ()) :
    clientVerify retr cache true fuel c = .ok () ∧
    (clientVerifyLive retr cache fuel c).2 = storeAll cache (runWrites retr cache fuel c) :=
  live_accept_static retr cache fuel c h

example : (clientVerifyLive retr0 (fun _ => none) 5 later).1 = .ok () := rfl

/-- **the binding hypothesis of the theorems above (`HashBinding`, over ALL abstract records) is refutable**: the statements
`C03_client_sound`, `C03_client_sessions_sound`, `C03_client_run_keeps_cache_invariant` are vacuously true. The `_on`
theorems below are their non-vacuous form: binding among the certificates of a world `U` (everything the provider serves,
every start certificate, every certificate a cache entry was learnt from). -/
theorem C03_hash_binding_unsatisfiable : ¬ HashBinding := hashBinding_false

/-- client soundness, one call, binding relative to `U` -/
theorem C03_client_sound_on (U : Cert → Prop) (retr : Nat → Option Cert) (cache : Nat → Option Nat)
    (hs : Serves U retr) (hc : CacheInvOn U cache) (hb : BindingOn U) (fuel : Nat) (c : Cert)
    (h : clientVerify retr cache true fuel c = .ok ()) : Valid LinkSpec c :=
  client_sound_on U retr cache hs hc hb fuel c h

/-- client soundness over whole sessions (model `run`/`session`: cache as at the start of each call), binding relative to `U` -/
theorem C03_client_sessions_sound_on (U : Cert → Prop) (hb : BindingOn U)
    (calls : List ((Nat → Option Cert) × Nat × Cert)) (cache : Nat → Option Nat) (hc : CacheInvOn U cache)
    (hall : ∀ call ∈ calls, Serves U call.1 ∧ U call.2.2) (i : Nat) (hi : i < calls.length)
    (h : (session true cache calls).1[i]? = some (.ok ())) : Valid LinkSpec (calls[i]).2.2 :=
  session_sound_on U hb calls cache hc hall i hi h

/-- client soundness over whole (sequential) sessions, for the cache as the Rust threads it, binding relative to `U` -/
theorem C03_live_client_sessions_sound (U : Cert → Prop) (hb : BindingOn U)
    (calls : List ((Nat → Option Cert) × Nat × Cert)) (cache : Nat → Option Nat) (hc : CacheInvOn U cache)
    (hall : ∀ call ∈ calls, Serves U call.1 ∧ U call.2.2) (i : Nat) (hi : i < calls.length)
    (h : (sessionLive cache calls).1[i]? = some (.ok ())) : Valid LinkSpec (calls[i]).2.2 :=
  sessionLive_sound U hb calls cache hc hall i hi h

/-- non-vacuity of the three: the world of the three honest certificates is binding, the provider serves only them, the
empty cache satisfies the invariant, and in a session of two calls the second is accepted through the record the first
one made (both models) -/
example :
    BindingOn U3 ∧ CacheInvOn U3 (fun _ => none) ∧
    (∀ call ∈ [(retr0, 5, later), (retr0, 5, third)], Serves U3 call.1 ∧ U3 call.2.2) ∧
    (session true (fun _ => none) [(retr0, 5, later), (retr0, 5, third)]).1.map code = [none, none] ∧
    (sessionLive (fun _ => none) [(retr0, 5, later), (retr0, 5, third)]).1.map code = [none, none] := by
  refine ⟨U3_binding, cacheInvOn_empty U3, ?_, by decide, by decide⟩
  intro call hc
  simp only [List.mem_cons, List.not_mem_nil, or_false] at hc
  rcases hc with rfl | rfl
  · exact ⟨U3_serves, Or.inr (Or.inl rfl)⟩
  · exact ⟨U3_serves, Or.inr (Or.inr rfl)⟩

/-- **where the two differ**: a walk that comes back to a hash. `clientVerify` accepts (the certificate IS validly chained,
the initial cache satisfies `CacheInv`); the live client answers `fuel` for every fuel: the real client spins between two
cache entries without a request to the aggregator. Needs an initial cache entry that points from a certificate to its
own descendant, and a provider that serves another certificate than the one asked for. -/
theorem C03_live_differs_on_revisiting_walk :
    CacheInv wCache ∧ Valid LinkSpec wC ∧ clientVerify wRetr wCache true 4 wC = .ok () ∧
    (∀ fuel, (clientVerifyLive wRetr wCache fuel wC).1 = .error .fuel) ∧
    visited wRetr wCache 4 wC = [900, 500, 900] := live_differs

/-- OBSERVATION (outside the sequential sessions the theorems above are about; confirmed on the real client by the scratch
replay `/verif/work/L4/replay`, experiment B): the records of a validation are visible in the shared cache while it is still
in progress. A provider that holds back one answer of call 1 (which is going to fail, and resets the cache only then) lets a
call 2 started in the meantime be accepted through the record call 1 has just made — the poisoning of
`C03_cache_poisoning_counterexample_before_repair`, moved from "after a failed call" to "during a call that will fail". -/
theorem C03_concurrent_calls_note :
    (phase1Live retr1 advF.epoch 1 (fun _ => none) advF).2 900 = some 500 ∧
    (clientVerifyLive retr2 (store (fun _ => none) 900 500) 10 advF2).1 = .ok () ∧
    (clientVerifyLive retr1 (fun _ => none) 10 advF).1 = .error .hash ∧
    (sessionLive (fun _ => none) [(retr1, 10, advF), (retr2, 10, advF2)]).1.map code = [some .hash, some .avk] :=
  concurrent_window

end C03
