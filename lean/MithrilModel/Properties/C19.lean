import MithrilModel.Restore
import MithrilModel.RestoreRun
/-!
# C19 — Only verified immutables and manifest-vouched ancillary files get restored

Models: `Restore.Full.run` (`MithrilModel/RestoreRun.lean`: file system with symbolic links, `tar`
unpacking, the client's restoration logic AFTER the `fix:` commit 7ef1e4c11) — this is what the
driver runs and what is compared with the real `download_unpack`; and the abstract move model of
`MithrilModel/Restore.lean` (final-component links only), on which the general "every restored
vouched path reads as the vouched content" theorem is proved.
Only property theorems live here.
-/
namespace C19
open Restore.Full

/-! ## what the fixed code guarantees -/

/-- **Ancillary acceptance** — the ancillary archive is accepted only with a manifest that parses,
whose signature verifies, and every entry of which IS a regular file (the entry itself — not what a
link resolves to) holding the content the manifest lists -/
theorem C19_ancillary_accept {ν : Type} [DecidableEq ν] (C : Cfg ν) (I : Input ν) (fs : FS ν)
    (tmp : LPath ν) (files : List (LPath ν)) (h : verifyAncillary true C I fs tmp = some files) :
    ∃ c m, readFile fs (tmp ++ [.nm C.manifestFile]) = some c ∧ I.manifestOf c = some m ∧
      m.sig = Sig.ok ∧ files = m.entries.map (·.1) ∧
      ∀ e ∈ m.entries, ∃ q, lstat fs (tmp ++ e.1) = some (q, .file e.2) :=
  verifyAncillary_some C I fs tmp files h

/-- **What a move places** — `rename` puts that very regular file at the resolved destination (free
name, or an existing file/link that it replaces) and changes nothing else -/
theorem C19_move_places_verified_file {ν : Type} [DecidableEq ν] (fs fs' : FS ν) (src dst : LPath ν)
    (s : List ν) (c : Nat) (hs : lstat fs src = some (s, .file c)) (h : rename fs src dst = some fs') :
    (∀ par nm, resolve fs false dst = .missing par nm →
        fs' (par ++ [nm]) = some (.file c) ∧ ∀ p, p ≠ par ++ [nm] → p ≠ s → fs' p = fs p) ∧
    (∀ d, resolve fs false dst = .at d → fs d ≠ some .dir → d ≠ s →
        fs' d = some (.file c) ∧ ∀ p, p ≠ d → p ≠ s → fs' p = fs p) :=
  ⟨fun par nm hd => rename_file_missing fs fs' src dst s c par nm hs hd h,
   fun d hd hnd hne => rename_file_replace fs fs' src dst s d c hs hd hnd hne h⟩

/-- **Ancillary soundness** (abstract move model, any number of entries): with the regular-file test,
for duplicate-free manifest paths that do not collide with the temporary directory, after all moves
every vouched path READS as content whose hash is the signed value -/
theorem C19_ancillary_sound (H : Nat → Nat) (tmp : Restore.Path) (manifest : List (Restore.Path × Nat))
    (fs : Restore.FS) (hnd : (manifest.map (·.1)).Nodup)
    (hsep : Restore.Separated tmp (manifest.map (·.1)))
    (hv : Restore.verifyDataFixed H tmp fs manifest = true) :
    ∀ e ∈ manifest, (Restore.read (Restore.moveAll tmp fs (manifest.map (·.1))) e.1).map H = some e.2 :=
  Restore.restored_reads_vouched H tmp manifest fs hnd hsep hv

/-- **Failure leaves nothing of the archive's temporary directory** — when the verification fails,
nothing is moved; the state is the unpacked one with the temporary directory removed -/
theorem C19_ancillary_failure_clean {ν : Type} [DecidableEq ν] (C : Cfg ν) (I : Input ν) (fs fs0 : FS ν)
    (h0 : mkdir fs [.nm C.db, .nm C.tmp] = some fs0)
    (hv : verifyAncillary true C I (unpackFirst [.nm C.db, .nm C.tmp] fs0 I.ancillary).1 [.nm C.db, .nm C.tmp] = none) :
    ancillaryTask true C I fs =
      let fs1 := (unpackFirst [.nm C.db, .nm C.tmp] fs0 I.ancillary).1
      ((removeDirAll fs1 [.nm C.db, .nm C.tmp]).getD fs1, false) :=
  ancillaryTask_failure C I fs fs0 h0 hv

theorem C19_tmp_removed {ν : Type} [DecidableEq ν] (fs fs' : FS ν) (p : LPath ν) (q : List ν)
    (hq : lstat fs p = some (q, .dir)) (h : removeDirAll fs p = some fs') :
    (∀ r, q.isPrefixOf r = true → fs' r = none) ∧ (∀ r, q.isPrefixOf r = false → fs' r = fs r) :=
  removeDirAll_dir fs fs' p q hq h

/-- **The immutable directory is clean** — after the clean-up every entry of `immutable/` has an
expected name (pre-existing, or a trio name of `0..=upper`); nothing outside changes, nothing is added -/
theorem C19_immutable_dir_clean {ν : Type} [DecidableEq ν] (C : Cfg ν) (fs fs' : FS ν) (expected : List ν)
    (q : List ν) (hq : stat fs [.nm C.db, .nm C.immutable] = some (q, .dir))
    (h : cleanup C fs expected = some fs') :
    (∀ n rest, fs' (q ++ n :: rest) ≠ none → n ∈ expected) ∧
    (∀ p, q.isPrefixOf p = false → fs' p = fs p) ∧
    (∀ p x, fs' p = some x → fs p = some x) :=
  cleanup_spec C fs fs' expected q hq h

/-! ## concrete witnesses (names are numbers) -/

def cfg : Cfg Nat where
  db := 0
  immutable := 1
  ledger := 2
  volatile := 3
  clean := 4
  magicFile := 5
  manifestFile := 6
  tmp := 7
  trio := fun n => [100 + 10 * n, 101 + 10 * n, 102 + 10 * n]
  univ := [0, 1, 2, 3, 4, 5, 6, 7, 8, 9, 10, 100, 101, 102, 110, 111, 112, 120, 121, 122]

def emptyDb : FS Nat := fun p => if p = [] ∨ p = [0] then some .dir else none

def ent (p : List Nat) (k : EKind Nat) : Entry Nat := { path := lp p, kind := k }

def trioEntries (n : Nat) : List (Entry Nat) :=
  [ent [1, 100 + 10 * n] (.file (11 + n)), ent [1, 101 + 10 * n] (.file (12 + n)), ent [1, 102 + 10 * n] (.file (13 + n))]

def base : Input Nat where
  range := .range 1 1
  last := 2
  allowOverride := true
  includeAncillary := false
  verifierSet := true
  immutables := fun _ => []
  ancillary := []
  manifestOf := fun _ => none
  emptyContent := 0
  magicContent := some 2

/-- KNOWN FINDING (foreign-entry): the full statement for the immutable part — without the ancillary
option every new file is a bootstrap marker or a trio file of the requested range — is false: the
immutable archives are unpacked straight into the target and the clean-up only looks at the names
directly inside `immutable/` -/
def C19_immutable_only_goal : Prop :=
  ∀ (I : Input Nat) (fs : FS Nat) (lo hi : Nat), I.includeAncillary = false →
    I.range.bounds I.last = some (lo, hi) →
    ∀ p c, (run true cfg I fs).1 p = some (.file c) → fs p ≠ some (.file c) →
      p = [0, 4] ∨ p = [0, 5] ∨ ∃ n, lo ≤ n ∧ n ≤ hi ∧ ∃ x ∈ cfg.trio n, p = [0, 1, x]

def foreignInput : Input Nat :=
  { base with immutables := fun n => if n = 1 then
      [{ present := true, intact := true, entries := trioEntries 1 ++ [ent [2, 9] (.file 66)] }] else [] }

theorem C19_foreign_entry_counterexample : ¬ C19_immutable_only_goal := by
  intro h
  have := h foreignInput emptyDb 1 1 rfl (by decide) [0, 2, 9] 66 (by decide) (by decide)
  rcases this with h | h | ⟨n, _, _, x, _, h⟩
  · simp at h
  · simp at h
  · simp at h

/-- … `ledger/9` from the immutable archive is in the restored database, and the call succeeds -/
theorem C19_foreign_entry_kept :
    (run true cfg foreignInput emptyDb).2 = true ∧
    (run true cfg foreignInput emptyDb).1 [0, 2, 9] = some (.file 66) := by decide

/-- FIXED FINDING (trio-outside-range, commit 3360edee4), witness kept: a trio file of a number outside the requested
range (`00000.chunk` and `00002.chunk` with the range 1..1 of a database ending at 2). Before the repair the expected
set was every trio of `0..=beacon` and both survived the clean-up; after it the expected set is the requested range
and both are removed, the call still succeeding -/
def rangeInput : Input Nat :=
  { base with immutables := fun n => if n = 1 then
      [{ present := true, intact := true, entries := trioEntries 1 ++ [ent [1, 100] (.file 77), ent [1, 122] (.file 78)] }] else [] }

theorem C19_range_bound_counterexample_before_repair :
    (run false cfg rangeInput emptyDb).2 = true ∧
    (run false cfg rangeInput emptyDb).1 [0, 1, 100] = some (.file 77) ∧
    (run false cfg rangeInput emptyDb).1 [0, 1, 122] = some (.file 78) := by decide

theorem C19_range_bound_repaired :
    (run true cfg rangeInput emptyDb).2 = true ∧
    (run true cfg rangeInput emptyDb).1 [0, 1, 100] = none ∧
    (run true cfg rangeInput emptyDb).1 [0, 1, 122] = none ∧
    (run true cfg rangeInput emptyDb).1 [0, 1, 110] = some (.file 12) := by decide

/-- KNOWN FINDING (next-trio-not-from-ancillary; what is left of the range finding): with the ancillary files the
expected set reaches one trio beyond the range, by name: `00003.chunk` (name 130) delivered by an IMMUTABLE archive of a
database ending at 2 stays, whatever becomes of the ancillary archive -/
def nextTrioInput : Input Nat :=
  { base with
    includeAncillary := true, range := .range 1 2,
    immutables := fun n =>
      if n = 1 then [{ present := true, intact := true, entries := trioEntries 1 }]
      else if n = 2 then [{ present := true, intact := true, entries := trioEntries 2 ++ [ent [1, 130] (.file 78)] }]
      else [] }

theorem C19_next_trio_counterexample :
    (run true cfg nextTrioInput emptyDb).1 [0, 1, 130] = some (.file 78) := by decide

/-- … and a name that no trio has is removed -/
def junkInput : Input Nat :=
  { base with immutables := fun n => if n = 1 then
      [{ present := true, intact := true, entries := trioEntries 1 ++ [ent [1, 9] (.file 77), ent [1, 130] (.file 78)] }] else [] }

theorem C19_unexpected_name_removed :
    (run true cfg junkInput emptyDb).2 = true ∧
    (run true cfg junkInput emptyDb).1 [0, 1, 9] = none ∧
    (run true cfg junkInput emptyDb).1 [0, 1, 130] = none ∧
    (run true cfg junkInput emptyDb).1 [0, 1, 110] = some (.file 12) := by decide

/-- KNOWN FINDING (immutable-entry-kept-by-name): entries of `immutable/` are kept by their name only:
a directory called like a trio file keeps what is below it, a symbolic link called like a trio file stays -/
def byNameInput : Input Nat :=
  { base with immutables := fun n => if n = 1 then
      [{ present := true, intact := true, entries :=
          [ent [1, 112] (.file 12), ent [1, 111, 9] (.file 77), ent [1, 110] (.symlink { abs := false, comps := [.up, .up, .nm 8] })] }] else [] }

theorem C19_kept_by_name_counterexample :
    (run true cfg byNameInput emptyDb).2 = true ∧
    (run true cfg byNameInput emptyDb).1 [0, 1, 111, 9] = some (.file 77) ∧
    (run true cfg byNameInput emptyDb).1 [0, 1, 110] = some (.link { abs := false, comps := [.up, .up, .nm 8] }) := by
  decide

/-- FIXED (commit 7ef1e4c11), witness kept. Genuine signed manifest vouching `ledger/9 ↦ 42`; the
ancillary archive parks the genuine content at `payload/state` and carries `ledger/9` as a link to
`../payload/state`; an immutable archive of the same mirror puts hostile content at `payload/state`
of the target. Before the fix: the call succeeds and the restored `ledger/9` reads as the hostile
content. After the fix: the call fails and no `ledger/9` exists. -/
def symlinkInput : Input Nat :=
  { base with
    includeAncillary := true, range := .range 1 2,
    immutables := fun n =>
      if n = 1 then [{ present := true, intact := true, entries := trioEntries 1 }]
      else if n = 2 then [{ present := true, intact := true, entries := trioEntries 2 ++ [ent [8, 10] (.file 666)] }]
      else [],
    ancillary := [{ present := true, intact := true, entries :=
      [ent [6] (.file 500), ent [8, 10] (.file 42),
       ent [2, 9] (.symlink { abs := false, comps := [.up, .nm 8, .nm 10] })] }],
    manifestOf := fun c => if c = 500 then some { entries := [(lp [2, 9], 42)], sig := .ok } else none }

theorem C19_symlink_counterexample_prefix :
    (run false cfg symlinkInput emptyDb).2 = true ∧
    readFile (run false cfg symlinkInput emptyDb).1 (lp [0, 2, 9]) = some 666 := by decide

theorem C19_symlink_fixed :
    (run true cfg symlinkInput emptyDb).2 = false ∧
    (run true cfg symlinkInput emptyDb).1 [0, 2, 9] = none ∧
    (run true cfg symlinkInput emptyDb).1 [0, 7] = none := by decide

/-- the same defect in the abstract model (design-time probe, kept) -/
theorem C19_symlink_counterexample_abstract :
    Restore.verifyData id Restore.tmpDir Restore.hostileFS [(Restore.ledgerX, 42)] = true ∧
    Restore.read (Restore.moveAll Restore.tmpDir Restore.hostileFS [Restore.ledgerX]) Restore.ledgerX = some 666 :=
  Restore.symlink_counterexample

/-- honest archives: everything vouched arrives, the markers are written, nothing else -/
def honestInput : Input Nat :=
  { symlinkInput with
    immutables := fun n => if n = 1 ∨ n = 2 then [{ present := true, intact := true, entries := trioEntries n }] else [],
    ancillary := [{ present := true, intact := true, entries := [ent [6] (.file 500), ent [2, 9] (.file 42)] }] }

theorem C19_honest_restore :
    (run true cfg honestInput emptyDb).2 = true ∧
    (run true cfg honestInput emptyDb).1 [0, 2, 9] = some (.file 42) ∧
    (run true cfg honestInput emptyDb).1 [0, 4] = some (.file 0) ∧
    (run true cfg honestInput emptyDb).1 [0, 5] = some (.file 2) ∧
    (run true cfg honestInput emptyDb).1 [0, 7] = none ∧
    (run true cfg honestInput emptyDb).1 [0, 6] = none := by decide

/-- a manifest whose signature does not verify: nothing of the ancillary archive stays -/
def badSigInput : Input Nat :=
  { honestInput with manifestOf := fun c => if c = 500 then some { entries := [(lp [2, 9], 42)], sig := .bad } else none }

theorem C19_bad_signature_nothing_kept :
    (run true cfg badSigInput emptyDb).2 = false ∧
    (run true cfg badSigInput emptyDb).1 [0, 2, 9] = none ∧
    (run true cfg badSigInput emptyDb).1 [0, 2] = none ∧
    (run true cfg badSigInput emptyDb).1 [0, 7] = none := by decide

/-- **manifest hash, observation**: the signed hash is taken over `path ‖ value` concatenations without
separators, so two different manifests can have the same pre-image (a mirror can rename a signed file —
`k₁‖v₁‖k₂` for `k₂` — but cannot change a content) -/
def manifestPreimage (m : List (List Char × List Char)) : List Char := m.flatMap fun e => e.1 ++ e.2

/- VACUITY AUDIT: no longer an obligation of the check. its local definition is tied to no model function. Replaced by: -. -/
theorem C19_manifest_hash_note (k₁ v₁ k₂ v₂ : List Char) :
    manifestPreimage [(k₁, v₁), (k₂, v₂)] = manifestPreimage [(k₁ ++ v₁ ++ k₂, v₂)] := by
  simp [manifestPreimage]

end C19
