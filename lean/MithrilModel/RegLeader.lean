import MithrilModel.Registration
/-! C07 at the aggregator: `MithrilSignerRegistrationVerifier::verify` (verifier.rs) and
`MithrilSignerRegistrationLeader::register_signer` (leader.rs) over the real stores
(`SignerRegistrationStore::save_verification_key` = insert-or-replace keyed by (epoch, party),
`SignerStore::record_signer_registration`). Every call of the verifier starts from a FRESH key
registration, so "already registered" can only be decided by the leader against the store. -/
namespace RegLeader
open Registration

/-- one registration attempt, with the verdicts of the real primitives on its components -/
structure Attempt where
  epoch : Nat
  claimed : Option Nat      -- `Signer::party_id` (`none` = empty string)
  hasOpcert : Bool
  start : Nat               -- start KES period of the operational certificate
  vk : Nat
  hasSig : Bool
  announced : Option Nat    -- `Signer::kes_evolutions`: what the registrant announces
  opcertOk : Bool
  kesOk : List Nat          -- evolutions at which the KES signature verifies under the certificate's KES key
  popOk : Bool
  pool : Option Nat         -- pool id derived from the cold key
deriving Repr, DecidableEq

def Attempt.prim (a : Attempt) : Prim where
  opcertOk := fun _ => a.opcertOk
  kesVerify := fun t _ _ _ => a.kesOk.contains t
  popVerify := fun _ => a.popOk
  poolIdOf := fun _ => a.pool
  kesVkOf := fun _ => 0
  coldOf := fun _ => 0

def Attempt.params (a : Attempt) (e : Option Nat) : Params where
  partyId := a.claimed
  opcert := if a.hasOpcert then some 0 else none
  vk := a.vk
  kesSig := if a.hasSig then some 0 else none
  kesEvolutions := e
  claimedStake := 0

inductive VErr where
  | reg (e : Registration.Err)
  | partyIdMissing
deriving DecidableEq, Repr

def lookupSd (sd : List (Nat × Nat)) (p : Nat) : Option Nat := (sd.find? (·.1 == p)).map (·.2)

/-- `KeyRegWrapper::register`; `skip` = built with `allow_skip_signer_certification` (a dev-dependency
feature of the aggregator, hence on in its test builds and in the harness build, off in production) -/
def registerCfg (skip : Bool) (P : Prim) (sd : Nat → Option Nat) (registered : List Nat) (p : Params) :
    Except VErr (Nat × Nat) :=
  match p.opcert with
  | some _ =>
    match Registration.register P sd registered p with
    | .ok r => .ok r
    | .error e => .error (.reg e)
  | none =>
    if !skip then .error (.reg .opCertMissing)
    else match p.partyId with
      | none => .error .partyIdMissing
      | some pid =>
        match sd pid with
        | none => .error (.reg .partyNotInDistribution)
        | some st =>
          if !P.popVerify p.vk then .error (.reg .keyInvalid)
          else if registered.contains p.vk then .error (.reg .alreadyRegistered)
          else .ok (pid, st)

/-- `MithrilSignerRegistrationVerifier::verify`: the evolutions are `current period − start period`
(saturating; current period 0 when the chain gives none), NOT the announced ones; a fresh key
registration (`[]`); result: registered party, its stake, the evolutions the check ran with -/
def verifierVerify (skip : Bool) (period : Option Nat) (sd : List (Nat × Nat)) (a : Attempt) :
    Except VErr (Nat × Nat × Option Nat) :=
  let e := if a.hasOpcert then some (period.getD 0 - a.start) else none
  match registerCfg skip a.prim (lookupSd sd) [] (a.params e) with
  | .error x => .error x
  | .ok (pid, st) => .ok (pid, st, e)

structure Row where
  epoch : Nat
  pid : Nat
  vk : Nat
  stake : Nat
  evol : Option Nat                -- stored `kes_evolutions` (what every node later re-verifies with)
  src : Attempt                    -- ghost: the attempt that produced the row
  sd : List (Nat × Nat)            -- ghost: the round's stake distribution
deriving Repr, DecidableEq

structure St where
  round : Option (Nat × List (Nat × Nat)) := none
  period : Option Nat := none
  rows : List Row := []
  recorded : List Nat := []
deriving Repr

/-- which of the two repairs are in the code -/
structure Cfg where
  skip : Bool
  storeVerifiedEvolutions : Bool   -- `fix:` verifier returns the evolutions it verified with
  rejectForeignDuplicate : Bool    -- `fix:` leader rejects a key another party registered for the round

inductive Out where
  | ok (pid stake : Nat)
  | notOpened
  | unexpectedEpoch
  | invalid (e : VErr)
  | existing (pid : Nat)
  | duplicateKey
deriving DecidableEq, Repr

def sameSlot (ep pid : Nat) (r : Row) : Bool := r.epoch == ep && r.pid == pid
def foreignDup (ep pid vk : Nat) (r : Row) : Bool := r.epoch == ep && r.pid != pid && r.vk == vk

def register (c : Cfg) (s : St) (a : Attempt) : St × Out :=
  match s.round with
  | none => (s, .notOpened)
  | some (ep, sd) =>
    if ep ≠ a.epoch then (s, .unexpectedEpoch)
    else match verifierVerify c.skip s.period sd a with
      | .error e => (s, .invalid e)
      | .ok (pid, st, e) =>
        if c.rejectForeignDuplicate && s.rows.any (foreignDup ep pid a.vk) then (s, .duplicateKey)
        else
          let row : Row := { epoch := ep, pid, vk := a.vk, stake := st,
                             evol := if c.storeVerifiedEvolutions then e else a.announced, src := a, sd }
          let existed := s.rows.any (sameSlot ep pid)
          let s' := { s with rows := row :: s.rows.filter (fun r => !sameSlot ep pid r),
                             recorded := if s.recorded.contains pid then s.recorded else pid :: s.recorded }
          (s', if existed then .existing pid else .ok pid st)

inductive Op where
  | openRound (epoch : Nat) (sd : List (Nat × Nat))
  | closeRound
  | chain (period : Option Nat)
  | reg (a : Attempt)
deriving Repr

def step (c : Cfg) (s : St) : Op → St × Option Out
  | .openRound ep sd => ({ s with round := some (ep, sd) }, none)
  | .closeRound => ({ s with round := none }, none)
  | .chain p => ({ s with period := p }, none)
  | .reg a => let (s', o) := register c s a; (s', some o)

def run (c : Cfg) : St → List Op → St × List Out
  | s, [] => (s, [])
  | s, op :: r =>
    let (s1, o) := step c s op
    let (s2, os) := run c s1 r
    (s2, match o with | some x => x :: os | none => os)

/-! ### invariant: every stored registration meets every clause of the property -/

/-- the clauses, for the certified configuration (production: `skip = false`) -/
def Justified (r : Row) : Prop :=
  r.src.hasOpcert = true ∧ r.src.opcertOk = true ∧ r.src.pool = some r.pid ∧
  lookupSd r.sd r.pid = some r.stake ∧ r.src.popOk = true ∧ r.vk = r.src.vk ∧ r.epoch = r.src.epoch ∧
  ∃ e, r.evol = some e ∧ ∃ t, e - 1 ≤ t ∧ t ≤ e + 1 ∧ t ≤ 63 ∧ t ∈ r.src.kesOk

structure Inv (s : St) : Prop where
  just : ∀ r ∈ s.rows, Justified r
  slot : ∀ r1 ∈ s.rows, ∀ r2 ∈ s.rows, r1.epoch = r2.epoch → r1.pid = r2.pid → r1 = r2
  key : ∀ r1 ∈ s.rows, ∀ r2 ∈ s.rows, r1.epoch = r2.epoch → r1.vk = r2.vk → r1.pid = r2.pid

def prod : Cfg := { skip := false, storeVerifiedEvolutions := true, rejectForeignDuplicate := true }

theorem verifier_ok_certified {period sd a pid st e}
    (h : verifierVerify false period sd a = .ok (pid, st, e)) :
    a.hasOpcert = true ∧ a.opcertOk = true ∧ a.pool = some pid ∧ lookupSd sd pid = some st ∧ a.popOk = true ∧
    e = some (period.getD 0 - a.start) ∧
    ∃ t, (period.getD 0 - a.start) - 1 ≤ t ∧ t ≤ (period.getD 0 - a.start) + 1 ∧ t ≤ 63 ∧ t ∈ a.kesOk := by
  unfold verifierVerify at h
  simp only at h
  split at h
  · simp at h
  · rename_i pid' st' hreg
    simp only [Except.ok.injEq, Prod.mk.injEq] at h
    obtain ⟨rfl, rfl, rfl⟩ := h
    unfold registerCfg at hreg
    split at hreg
    · rename_i oc hoc
      split at hreg
      · rename_i r hr
        simp only [Except.ok.injEq] at hreg
        subst hreg
        obtain ⟨oc', e', sig, h1, h2, _, h4, ⟨t, ht1, ht2, ht3, ht4⟩, h5, h6, h7, _⟩ :=
          (register_iff a.prim (lookupSd sd) [] _ pid' st').mp hr
        have hop : a.hasOpcert = true := by
          simp only [Attempt.params] at hoc
          by_cases hh : a.hasOpcert = true
          · exact hh
          · simp [hh] at hoc
        simp only [Attempt.params, hop, if_true, Option.some.injEq] at h2
        subst h2
        refine ⟨hop, h4, h5, h6, h7, by simp [hop], t, ht1, ht2, ht3, ?_⟩
        simpa [Attempt.prim] using ht4
      · simp at hreg
    · simp at hreg

theorem inv_init : Inv ({} : St) :=
  ⟨fun _ h => by simp at h, fun _ h => by simp at h, fun _ h => by simp at h⟩

theorem register_inv (s : St) (a : Attempt) (h : Inv s) : Inv (register prod s a).1 := by
  unfold register
  split
  · exact h
  · rename_i ep sd hround
    split
    · exact h
    · rename_i hep
      split
      · exact h
      · rename_i pid st e hv
        obtain ⟨v1, v2, v3, v4, v5, v6, t, t1, t2, t3, t4⟩ := verifier_ok_certified hv
        split
        · exact h
        · rename_i hdup
          have hnodup : ∀ r ∈ s.rows, foreignDup ep pid a.vk r = false := by
            intro r hr
            simp only [prod, Bool.true_and, List.any_eq_true, not_exists, not_and, Bool.not_eq_true] at hdup
            exact hdup r hr
          have hep' : ep = a.epoch := by simpa using hep
          simp only
          refine ⟨?_, ?_, ?_⟩
          · intro r hr
            rcases List.mem_cons.mp hr with rfl | hr
            · exact ⟨v1, v2, v3, v4, v5, rfl, hep', _, by simp [prod, v6], t, t1, t2, t3, t4⟩
            · exact h.just r (List.mem_filter.mp hr).1
          · intro r1 h1 r2 h2 he hp
            rcases List.mem_cons.mp h1 with rfl | h1 <;> rcases List.mem_cons.mp h2 with rfl | h2
            · rfl
            · have := (List.mem_filter.mp h2).2
              simp only [sameSlot, Bool.not_eq_true', Bool.and_eq_false_iff, beq_eq_false_iff_ne] at this
              simp only at he hp
              rcases this with hh | hh
              · exact absurd he.symm hh
              · exact absurd hp.symm hh
            · have := (List.mem_filter.mp h1).2
              simp only [sameSlot, Bool.not_eq_true', Bool.and_eq_false_iff, beq_eq_false_iff_ne] at this
              simp only at he hp
              rcases this with hh | hh
              · exact absurd he hh
              · exact absurd hp hh
            · exact h.slot r1 (List.mem_filter.mp h1).1 r2 (List.mem_filter.mp h2).1 he hp
          · intro r1 h1 r2 h2 he hk
            rcases List.mem_cons.mp h1 with rfl | h1 <;> rcases List.mem_cons.mp h2 with rfl | h2
            · rfl
            · have hf := hnodup r2 (List.mem_filter.mp h2).1
              simp only at he hk ⊢
              simp only [foreignDup, Bool.and_eq_false_iff, beq_eq_false_iff_ne, bne_eq_false_iff_eq] at hf
              rcases hf with (hh | hh) | hh
              · exact absurd he.symm hh
              · exact hh.symm
              · exact absurd hk.symm hh
            · have hf := hnodup r1 (List.mem_filter.mp h1).1
              simp only at he hk ⊢
              simp only [foreignDup, Bool.and_eq_false_iff, beq_eq_false_iff_ne, bne_eq_false_iff_eq] at hf
              rcases hf with (hh | hh) | hh
              · exact absurd he hh
              · exact hh
              · exact absurd hk hh
            · exact h.key r1 (List.mem_filter.mp h1).1 r2 (List.mem_filter.mp h2).1 he hk

theorem step_inv (s : St) (op : Op) (h : Inv s) : Inv (step prod s op).1 := by
  cases op with
  | openRound ep sd => exact ⟨h.just, h.slot, h.key⟩
  | closeRound => exact ⟨h.just, h.slot, h.key⟩
  | chain p => exact ⟨h.just, h.slot, h.key⟩
  | reg a => exact register_inv s a h

/-- every reachable state of the leader, for every history of rounds, chain periods and attempts -/
theorem run_inv : ∀ (ops : List Op) (s : St), Inv s → Inv (run prod s ops).1 := by
  intro ops
  induction ops with
  | nil => intro s h; exact h
  | cons op r ih =>
    intro s h
    simp only [run]
    exact ih _ (step_inv s op h)

/-! ### the two defects the repairs remove (counter-examples on the model of the code before them) -/

def aGood : Attempt where
  epoch := 5
  claimed := none
  hasOpcert := true
  start := 0
  vk := 1
  hasSig := true
  announced := some 0
  opcertOk := true
  kesOk := [0]
  popOk := true
  pool := some 7
/-- the same valid registration announcing evolutions the signature does not verify under -/
def aLiar : Attempt := { aGood with announced := some 40 }
/-- another pool registering the first pool's key (public material), KES-signed with its own KES key -/
def aCopy : Attempt := { aGood with pool := some 8 }

def sd0 : List (Nat × Nat) := [(7, 10), (8, 3)]

/-- before `fix:` (verifier): the ANNOUNCED evolutions were stored although the check ran with the
chain's; the stored value is what `SignerBuilder::new` re-verifies with two epochs later -/
theorem announced_stored_counterexample :
    let c : Cfg := { skip := false, storeVerifiedEvolutions := false, rejectForeignDuplicate := true }
    let s := (run c {} [.openRound 5 sd0, .reg aLiar]).1
    ∃ r ∈ s.rows, ¬ Justified r := by
  intro c s
  have hs : s.rows.map (fun r => (r.evol, r.src.kesOk)) = [(some 40, [0])] := by decide +kernel
  cases hrows : s.rows with
  | nil => rw [hrows] at hs; simp at hs
  | cons r rest =>
    rw [hrows] at hs
    simp only [List.map_cons, List.cons.injEq, Prod.mk.injEq] at hs
    refine ⟨r, List.mem_cons_self, ?_⟩
    rintro ⟨_, _, _, _, _, _, _, e, he, t, h1, _, _, h4⟩
    rw [hs.1.1] at he
    cases he
    rw [hs.1.2] at h4
    simp at h4
    omega

/-- before `fix:` (leader): one key stored for two parties of the same round -/
theorem foreign_duplicate_counterexample :
    let c : Cfg := { skip := false, storeVerifiedEvolutions := true, rejectForeignDuplicate := false }
    let s := (run c {} [.openRound 5 sd0, .reg aGood, .reg aCopy]).1
    ∃ r1 ∈ s.rows, ∃ r2 ∈ s.rows, r1.epoch = r2.epoch ∧ r1.vk = r2.vk ∧ r1.pid ≠ r2.pid := by
  decide +kernel

/-- … both are refused / harmless now -/
theorem repaired_examples :
    (run prod {} [.openRound 5 sd0, .reg aGood, .reg aCopy]).2 = [.ok 7 10, .duplicateKey] ∧
    ((run prod {} [.openRound 5 sd0, .reg aLiar]).1.rows.map (·.evol)) = [some 0] := by
  decide +kernel

end RegLeader
