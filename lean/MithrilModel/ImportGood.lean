import MithrilModel.ImportRoots
/-! `Good` is decidable: the harness evaluates it on every generated history, so the refinement
theorem applies to each concrete history outside the excluded classes. -/
namespace Import

def ltB (a b : Block) : Bool := a.number < b.number && a.slot < b.slot && a.hash != b.hash

def goodEvB (c : Cfg) (lp : Option Nat) (V : List Block) : Ev → Bool
  | .fwd b => V.all (fun x => ltB x b)
  | .back s => if s = c.fromSlot ∧ lp = none then V.all (fun x => x.slot ≤ s) else (V.any (fun x => x.slot = s) || V.isEmpty)

def goodB (c : Cfg) : Option Nat → List Block → List (Option Ev) → Bool
  | _, _, [] => true
  | lp, V, none :: rs => goodB c lp V rs
  | lp, V, some e :: rs => goodEvB c lp V e && goodB c (lpNext c lp e) (applyEv V e) rs

theorem ltB_iff (a b : Block) : ltB a b = true ↔ Lt a b := by
  simp [ltB, Lt, and_assoc]

theorem goodEvB_iff (c : Cfg) (lp : Option Nat) (V : List Block) (e : Ev) : goodEvB c lp V e = true ↔ GoodEv c lp V e := by
  cases e with
  | fwd b => simp [goodEvB, GoodEv, ltB_iff]
  | back s =>
    by_cases h : s = c.fromSlot ∧ lp = none
    · simp [goodEvB, GoodEv, h]
    · simp only [goodEvB, GoodEv, if_neg h]
      simp [List.isEmpty_iff]

theorem goodB_iff (c : Cfg) : ∀ (rs : List (Option Ev)) (lp : Option Nat) (V : List Block),
    goodB c lp V rs = true ↔ Good c lp V rs := by
  intro rs
  induction rs with
  | nil => intro lp V; simp [goodB, Good]
  | cons r rs ih =>
    intro lp V
    cases r with
    | none => simpa [goodB, Good] using ih lp V
    | some e => simp [goodB, Good, goodEvB_iff, ih]

/-- the checker's entry point: a decided-good history is covered by the refinement theorem -/
theorem import_refines_of_goodB (c : Cfg) (fuel : Nat) (S0 : List Block) (rs : List (Option Ev))
    (hS : Sorted S0) (hU : ∀ x ∈ S0, x.number ≤ c.untilN) (hG : goodB c none S0 rs = true) :
    ∃ pre, rs = pre ++ (run c fuel none S0 rs).2.1 ∧
      (run c fuel none S0 rs).1 = (applyAll S0 pre).filter (fun x => x.number ≤ c.untilN) :=
  import_refines c fuel S0 rs hS hU ((goodB_iff c rs none S0).mp hG)

end Import
