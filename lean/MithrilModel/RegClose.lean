namespace RegClose

/-- an entry: stake and the verification key as a number (the byte string read big-endian) -/
structure Entry where
  stake : Nat
  vk : Nat
deriving DecidableEq, Repr

/-- the `Ord` of `RegistrationEntry` / `ClosedRegistrationEntry`: stake, then key -/
def le (a b : Entry) : Bool := a.stake < b.stake || (a.stake = b.stake && a.vk ≤ b.vk)

def close (l : List Entry) : List Entry := l.mergeSort le

theorem le_trans' (a b c : Entry) : le a b = true → le b c = true → le a c = true := by
  unfold le; simp only [Bool.or_eq_true, Bool.and_eq_true, decide_eq_true_eq]; omega

theorem le_total' (a b : Entry) : (le a b || le b a) = true := by
  unfold le; simp only [Bool.or_eq_true, Bool.and_eq_true, decide_eq_true_eq]; omega

theorem le_antisymm' (a b : Entry) : le a b = true → le b a = true → a = b := by
  unfold le; simp only [Bool.or_eq_true, Bool.and_eq_true, decide_eq_true_eq]
  intro h1 h2
  have hs : a.stake = b.stake := by omega
  have hv : a.vk = b.vk := by omega
  cases a; cases b; simp_all

/-- **Order independence**: the closed registration (hence every signer slot, the Merkle leaves
in order, and the total stake) depends only on the multiset of entries. -/
theorem close_perm {l₁ l₂ : List Entry} (h : l₁.Perm l₂) : close l₁ = close l₂ := by
  unfold close
  have p : (l₁.mergeSort le).Perm (l₂.mergeSort le) :=
    ((List.mergeSort_perm l₁ le).trans h).trans (List.mergeSort_perm l₂ le).symm
  exact List.Perm.eq_of_pairwise (le := fun a b => le a b = true)
    (fun a b _ _ hab hba => le_antisymm' a b hab hba)
    (List.pairwise_mergeSort le_trans' le_total' l₁)
    (List.pairwise_mergeSort le_trans' le_total' l₂) p

theorem total_perm {l₁ l₂ : List Entry} (h : l₁.Perm l₂) :
    (l₁.map (·.stake)).sum = (l₂.map (·.stake)).sum := (h.map _).sum_nat

#print axioms close_perm
end RegClose
