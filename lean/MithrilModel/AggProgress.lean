import MithrilModel.AggChain
import MithrilModel.AggAttr
import MithrilModel.AggSe
/-!
C15, progress (proof file; the model `Agg.lean` is untouched).

From every state of the aggregator model that satisfies the state invariant `SInv` (proved in `AggChain`
for every run with ticks cut at a crash point) and whose runtime is `idle` / `ready` — in particular the
state right after `crash tp p; restart`, which is `idle none` — a *productive continuation* inserts a new
certificate, for the entity the state machine resumes or opens; productive continuations can be iterated
for ever, and the runtime is never `blocked` as long as the rounds' epochs never skip an epoch (the gap
rule of `idleStep` / `master`).

* `cont E s r`: the continuation, a computable function of the state and of the inputs the model takes
  (`Round`: the time point of the ticks, the parties that sign, the lottery indices each of them wins):
  ticks until SIGNING, the parties' valid signatures for the open message, one tick.
* `Productive E k s r`: its hypotheses, all decidable. `QuorumByIndices E k`: the environment's quorum
  test accepts `k` distinct indices.
* `productive_round`: one round appends exactly one certificate, for `target s r.tp`; never blocked; the
  continuation is a well-formed run; the invariant holds again; the runtime ends `ready`.
* `progress_forever`, `progress_forever_fresh` (`PlanOk` / `NextOk` / `FreshPlan`): iteration.
* `run_flagged`: no history, with cuts anywhere, leaves an open message flagged certified without its
  certificate stored (the state that would make the scan skip an uncertified entity for ever).
* `no_quorum_run`: why the goal as first written (`C15.C15_progress_goal`) is false;
  `stuck_for_ever`: why the continuation has to contain submissions (buffered signatures of a round whose
  hand-over was cut are never used).
-/
namespace Agg

/-! ### definitions -/

/-- inputs of one round: the time point the ticks see, the honest parties that submit, the lottery
indices each of them wins for the round's message, the identity of each signature value -/
structure Round where
  tp : Tp
  parties : List Nat
  idx : Nat → List Nat
  sigma : Nat → Nat

/-- can the state machine sign for `e` at time `now`: no open message yet, or one that is neither
certified nor expired (nor due to expire at `now`) -/
def openable (now : Nat) (oms : List OM) (e : Nat) : Bool :=
  match findOm e oms with
  | none => true
  | some o => !o.certified && !(expireFn now o).expired

/-- the entity the round is about: the first one offered by the time point that can be signed -/
def target (s : St) (tp : Tp) : Option Nat := tp.avail.find? (openable tp.now s.oms)

/-- the protocol message of the open message for `e`: the stored one, or the one a new open message gets -/
def omMsg (oms : List OM) (dflt e : Nat) : Nat :=
  match findOm e oms with
  | some o => o.msg
  | none => dflt

/-- the valid signature of party `p` for message `m`: produced by `p`'s registered key, submitted
under `p`'s label, verifying under the signer set of the round's epoch -/
def honestSig (r : Round) (m p : Nat) : Sig :=
  { party := p, signer := p, sigma := r.sigma p, msg := m, ok := [r.tp.epoch], idx := r.idx p, auth := true }

def Rt.isSigning : Rt → Bool
  | .signing _ _ => true
  | _ => false

def Rt.isBlocked : Rt → Bool
  | .blocked _ _ => true
  | _ => false

/-- runtime states a continuation starts from (after a restart: `idle none`; after a certified round: `ready`) -/
def Rt.resumable : Rt → Bool
  | .idle _ => true
  | .ready _ => true
  | _ => false

/-- tick until the state machine is signing (at most `n` ticks) -/
def toSigning (E : Env) (tp : Tp) : Nat → St → List Event
  | 0, _ => []
  | n + 1, s => if s.rt.isSigning then [] else .tick tp :: toSigning E tp n (step E s (.tick tp))

/-- **the productive continuation** of state `s` for the inputs `r`: ticks until SIGNING (idle → ready →
signing: two ticks after a restart; one more when the hand-over of buffered signatures made the tick
die; one more when the epoch changed), the valid signatures of the round's parties for the open
message, one tick (which creates the certificate) -/
def cont (E : Env) (s : St) (r : Round) : List Event :=
  match target s r.tp with
  | none => []
  | some e =>
    toSigning E r.tp 4 s ++
      r.parties.map (fun p => Event.signature e (honestSig r (omMsg s.oms r.tp.newmsg e) p)) ++ [.tick r.tp]

/-- no epoch gap: the latest certificate is of the tick's epoch or of the one before -/
def noGap (s : St) (tp : Tp) : Bool :=
  match s.certs.getLast? with
  | some l => tp.epoch ≤ l.epoch + 1
  | none => false

/-- hypotheses under which the continuation is productive (all decidable):
* the time point is well formed for the state (`Wf`): epochs do not go back, the offered entities belong to the epoch;
* the genesis certificate is of an earlier epoch (else `blocked … 1`), there is no epoch gap (else `blocked … 2`);
* signers are registered under the keys `epoch - 1` and `epoch` (else the epoch initialisation fails);
* the time point offers an entity that can be signed;
* the submitting parties are registered for the epoch and their indices reach the quorum `k` -/
def Productive (E : Env) (k : Nat) (s : St) (r : Round) : Prop :=
  s.seen ≤ r.tp.epoch ∧ (∀ e ∈ r.tp.avail, E.entityEpoch e = r.tp.epoch) ∧
  preNeeded s r.tp = true ∧ noGap s r.tp = true ∧ signersOk s r.tp = true ∧
  (target s r.tp).isSome = true ∧
  (∀ p ∈ r.parties, p ∈ signersOf s.regs (r.tp.epoch - 1)) ∧
  k ≤ (r.parties.flatMap r.idx).eraseDups.length

instance (E : Env) (k : Nat) (s : St) (r : Round) : Decidable (Productive E k s r) := by
  unfold Productive; infer_instance

/-- the environment's quorum test accepts `k` distinct lottery indices (`quorumIdx`, what the clerk
decides when no (key, index) pair is offered twice) -/
def QuorumByIndices (E : Env) (k : Nat) : Prop := ∀ e rows, quorumIdx k rows = true → E.quorum e rows = true

/-- the runtime is not blocked in any state the events go through -/
def NB (E : Env) : St → List Event → Prop
  | s, [] => s.rt.isBlocked = false
  | s, ev :: r => s.rt.isBlocked = false ∧ NB E (step E s ev) r

/-! ### open-message table lemmas -/

theorem findOm_updOm (e x : Nat) (f : OM → OM) (hf : ∀ o, (f o).entity = o.entity) (oms : List OM) :
    findOm x (updOm e f oms) = if x = e then (findOm x oms).map f else findOm x oms := by
  induction oms with
  | nil => simp [updOm, findOm]
  | cons o r ih =>
    simp only [updOm]
    by_cases ho : o.entity = e
    · rw [if_pos ho]
      simp only [findOm, hf o]
      by_cases hx : x = e
      · subst hx; simp [ho]
      · have : ¬ o.entity = x := fun h => hx (h ▸ ho)
        simp [hx, this]
    · rw [if_neg ho]
      simp only [findOm]
      by_cases hox : o.entity = x
      · have : ¬ x = e := fun h => ho (hox.trans h)
        simp [hox, this]
      · simp only [hox, if_false]; exact ih

theorem updOm_id {e : Nat} {f : OM → OM} : ∀ {oms : List OM} {o : OM}, findOm e oms = some o → f o = o →
    updOm e f oms = oms := by
  intro oms
  induction oms with
  | nil => intro o h; simp [findOm] at h
  | cons a r ih =>
    intro o h hf
    simp only [findOm] at h
    simp only [updOm]
    by_cases ha : a.entity = e
    · simp only [ha, if_true, Option.some.injEq] at h
      subst h
      simp [ha, hf]
    · simp only [ha, if_false] at h
      simp only [ha, if_false]
      rw [ih h hf]

theorem updOm_length (e : Nat) (f : OM → OM) (oms : List OM) : (updOm e f oms).length = oms.length := by
  induction oms with
  | nil => rfl
  | cons a r ih =>
    simp only [updOm]
    split
    · rfl
    · simp [ih]

theorem findOm_append (x : Nat) (oms : List OM) (o : OM) :
    findOm x (oms ++ [o]) = match findOm x oms with
      | some a => some a
      | none => if o.entity = x then some o else none := by
  induction oms with
  | nil => simp [findOm]
  | cons a r ih =>
    simp only [List.cons_append, findOm]
    split
    · rfl
    · exact ih

theorem findOm_filter {x : Nat} {p : OM → Bool} {oms : List OM} (h : ∀ o ∈ oms, o.entity = x → p o = true) :
    findOm x (oms.filter p) = findOm x oms := by
  induction oms with
  | nil => rfl
  | cons a r ih =>
    have ih' := ih (fun o ho => h o (List.mem_cons_of_mem _ ho))
    by_cases ha : a.entity = x
    · have hp : p a = true := h a (by simp) ha
      simp [hp, findOm, ha]
    · cases hp : p a
      · simp [hp, findOm, ha, ih']
      · simp [hp, findOm, ha, ih']

theorem expireFn_entity (now : Nat) (o : OM) : (expireFn now o).entity = o.entity := (markExpired_mono now o).1

theorem expireFn_certified (now : Nat) (o : OM) : (expireFn now o).certified = o.certified := by
  unfold expireFn; split
  · split <;> rfl
  · rfl

theorem expireFn_msg (now : Nat) (o : OM) : (expireFn now o).msg = o.msg := by
  unfold expireFn; split
  · split <;> rfl
  · rfl

theorem expireFn_idem (now : Nat) (o : OM) : expireFn now (expireFn now o) = expireFn now o := by
  unfold expireFn
  cases h : o.expiresAt with
  | none => simp [h]
  | some t =>
    by_cases ht : t < now
    · simp [ht]
    · simp [ht, h]

theorem findOm_markExpired (now e x : Nat) (oms : List OM) :
    findOm x (markExpired now e oms) = if x = e then (findOm x oms).map (expireFn now) else findOm x oms :=
  findOm_updOm e x (expireFn now) (expireFn_entity now) oms

theorem openable_markExpired (now e : Nat) (oms : List OM) (x : Nat) :
    openable now (markExpired now e oms) x = openable now oms x := by
  unfold openable
  rw [findOm_markExpired]
  by_cases hx : x = e
  · rw [if_pos hx]
    cases findOm x oms with
    | none => rfl
    | some o => simp [expireFn_idem, expireFn_certified]
  · rw [if_neg hx]

theorem omMsg_markExpired (now e : Nat) (oms : List OM) (d x : Nat) :
    omMsg (markExpired now e oms) d x = omMsg oms d x := by
  unfold omMsg
  rw [findOm_markExpired]
  by_cases hx : x = e
  · rw [if_pos hx]
    cases findOm x oms with
    | none => rfl
    | some o => simp [expireFn_msg]
  · rw [if_neg hx]

/-- the open message for `e` is there, open, and stays so at time `now`; it carries message `m` -/
def OpenAt (now : Nat) (oms : List OM) (e m : Nat) : Prop :=
  ∃ o, findOm e oms = some o ∧ o.certified = false ∧ o.expired = false ∧ expireFn now o = o ∧ o.msg = m

/-- the open message a tick creates -/
def newOm (E : Env) (tp : Tp) (e : Nat) : OM :=
  { entity := e, epoch := E.entityEpoch e, msg := tp.newmsg, certified := false, expired := false,
    expiresAt := (E.timeout e).map (· + tp.now) }

theorem newOm_stable (E : Env) (tp : Tp) (e : Nat) : expireFn tp.now (newOm E tp e) = newOm E tp e := by
  unfold expireFn newOm
  cases E.timeout e with
  | none => rfl
  | some d =>
    have : ¬ d + tp.now < tp.now := by omega
    simp [this]

theorem scan_cons (E : Env) (tp : Tp) (e : Nat) (r : List Nat) (oms : List OM) :
    scan E tp (e :: r) oms =
      match findOm e (markExpired tp.now e oms) with
      | none => (markExpired tp.now e oms ++ [newOm E tp e], some e)
      | some o => if !o.certified && !o.expired then (markExpired tp.now e oms, some e)
                  else scan E tp r (markExpired tp.now e oms) := rfl

theorem find?_congr' {α} {p q : α → Bool} : ∀ {l : List α}, (∀ x ∈ l, p x = q x) → l.find? p = l.find? q := by
  intro l
  induction l with
  | nil => intro _; rfl
  | cons a r ih =>
    intro h
    simp only [List.find?_cons, h a (by simp)]
    rw [ih (fun x hx => h x (List.mem_cons_of_mem _ hx))]

/-- **what the scan of `get_current_non_certified_open_message` does**: it selects the first offered
entity that can be signed, leaves (or creates) an open, unexpired open message for it, and changes
nothing about which entities can be signed -/
theorem scan_spec (E : Env) (tp : Tp) : ∀ (l : List Nat) (oms : List OM) (e : Nat),
    l.find? (openable tp.now oms) = some e →
    (scan E tp l oms).2 = some e ∧ OpenAt tp.now (scan E tp l oms).1 e (omMsg oms tp.newmsg e) ∧
    ((findOm e oms).isSome = true → (scan E tp l oms).1.length = oms.length) ∧
    (∀ x, openable tp.now (scan E tp l oms).1 x = openable tp.now oms x) := by
  intro l
  induction l with
  | nil => intro oms e h; simp at h
  | cons a r ih =>
    intro oms e h
    rw [scan_cons]
    have hf := findOm_markExpired tp.now a a oms
    rw [if_pos rfl] at hf
    rw [List.find?_cons] at h
    cases hfa : findOm a oms with
    | none =>
      have hop : openable tp.now oms a = true := by simp [openable, hfa]
      rw [hop] at h
      simp only [Option.some.injEq] at h; subst h
      rw [hfa] at hf
      simp only [Option.map_none] at hf
      rw [hf]
      refine ⟨rfl, ?_, ?_, ?_⟩
      · refine ⟨newOm E tp a, ?_, rfl, rfl, newOm_stable E tp a, ?_⟩
        · rw [findOm_append, hf]; simp [newOm]
        · simp [omMsg, hfa, newOm]
      · intro hs; simp [hfa] at hs
      · intro x
        unfold openable
        rw [findOm_append, findOm_markExpired]
        by_cases hx : x = a
        · subst hx
          rw [if_pos rfl, hfa]
          have he : (newOm E tp x).entity = x := rfl
          simp only [Option.map_none, he, if_true, newOm_stable]
          rfl
        · rw [if_neg hx]
          cases findOm x oms with
          | some o => rfl
          | none =>
            have : ¬ (newOm E tp a).entity = x := fun h => hx h.symm
            simp [this]
    | some o =>
      rw [hfa] at hf
      simp only [Option.map_some] at hf
      rw [hf]
      dsimp only
      cases hop : openable tp.now oms a with
      | true =>
        rw [hop] at h
        simp only [Option.some.injEq] at h; subst h
        have hop' : (!o.certified && !(expireFn tp.now o).expired) = true := by simpa [openable, hfa] using hop
        have hcond : (!(expireFn tp.now o).certified && !(expireFn tp.now o).expired) = true := by
          rw [expireFn_certified]; exact hop'
        rw [if_pos hcond]
        simp only [Bool.and_eq_true, Bool.not_eq_true'] at hop'
        refine ⟨rfl, ?_, ?_, ?_⟩
        · refine ⟨expireFn tp.now o, hf, ?_, hop'.2, expireFn_idem _ _, ?_⟩
          · rw [expireFn_certified]; exact hop'.1
          · simp [omMsg, hfa, expireFn_msg]
        · intro _; exact updOm_length _ _ _
        · exact openable_markExpired tp.now a oms
      | false =>
        rw [hop] at h
        have hop' : (!o.certified && !(expireFn tp.now o).expired) = false := by simpa [openable, hfa] using hop
        have hcond : ¬ (!(expireFn tp.now o).certified && !(expireFn tp.now o).expired) = true := by
          rw [expireFn_certified, hop']; simp
        rw [if_neg hcond]
        have h' : r.find? (openable tp.now (markExpired tp.now a oms)) = some e := by
          rw [← h]; exact find?_congr' (fun x _ => openable_markExpired tp.now a oms x)
        obtain ⟨i1, i2, i3, i4⟩ := ih (markExpired tp.now a oms) e h'
        refine ⟨i1, ?_, ?_, ?_⟩
        · rw [omMsg_markExpired] at i2; exact i2
        · intro hs
          rw [i3, markExpired, updOm_length]
          rw [findOm_markExpired]
          by_cases hx : e = a
          · rw [if_pos hx]; simpa using hs
          · rw [if_neg hx]; exact hs
        · intro x; rw [i4, openable_markExpired]

/-- the scan creates an open message for the selected entity only -/
theorem scan_fresh (E : Env) (tp : Tp) : ∀ (l : List Nat) (oms : List OM) (x : Nat), findOm x oms = none →
    (scan E tp l oms).2 ≠ some x → findOm x (scan E tp l oms).1 = none := by
  intro l
  induction l with
  | nil => intro oms x h _; exact h
  | cons a r ih =>
    intro oms x h hne
    have h1 : findOm x (markExpired tp.now a oms) = none := by
      rw [findOm_markExpired]; split <;> simp [h]
    rw [scan_cons] at hne ⊢
    split
    · rename_i hnone
      rw [hnone] at hne
      have hxa : ¬ (newOm E tp a).entity = x := by
        intro hh; apply hne; simp only [newOm] at hh; rw [hh]
      rw [findOm_append, h1]; simp [hxa]
    · rename_i o hsome
      rw [hsome] at hne
      dsimp only at hne ⊢
      split
      · exact h1
      · rename_i hcond
        rw [if_neg hcond] at hne
        exact ih _ x h1 hne

/-! ### the single ticks of a round -/

theorem OpenAt.msg_eq {now : Nat} {oms : List OM} {e m : Nat} (h : OpenAt now oms e m) (d : Nat) : omMsg oms d e = m := by
  obtain ⟨o, ho, _, _, _, hm⟩ := h
  simp [omMsg, ho, hm]

theorem OpenAt.isSome {now : Nat} {oms : List OM} {e m : Nat} (h : OpenAt now oms e m) : (findOm e oms).isSome = true := by
  obtain ⟨o, ho, _⟩ := h
  simp [ho]

theorem handOverGo_regs (e : Nat) : ∀ (l : List BufSig) (s : St) (r : List Nat), (handOverGo s e l r).1.regs = s.regs := by
  intro l
  induction l with
  | nil => intro s r; rfl
  | cons b rest ih =>
    intro s r
    simp only [handOverGo]
    split
    · exact ih (storeSig s e b.sig) (b.sig.party :: r)
    · exact ih s r
    · rfl

theorem handOver_frame (E : Env) (s : St) (e : Nat) :
    (handOver E s e).1.oms = s.oms ∧ (handOver E s e).1.certs = s.certs ∧ (handOver E s e).1.seen = s.seen ∧
    (handOver E s e).1.rt = s.rt ∧ (handOver E s e).1.es = s.es ∧ (handOver E s e).1.round = s.round ∧
    (handOver E s e).1.regs = s.regs := by
  have hc := handOver_core E s e
  have h2 := handOverGo_frame e ((s.buf.filter (·.disc = E.entityDisc e)).reverse) s []
  have h3 := handOverGo_regs e ((s.buf.filter (·.disc = E.entityDisc e)).reverse) s []
  refine ⟨hc.1, hc.2.1, hc.2.2.2.1, hc.2.2.2.2, ?_, ?_, ?_⟩
  all_goals
    unfold handOver
    dsimp only
    split <;> (rename_i heq3; rw [heq3] at h2 h3; first | exact h2.1 | exact h2.2 | exact h3)

/-- a READY tick whose scan selects `e`: the state machine is SIGNING for `e`, or — when the hand-over of
buffered signatures dies on a foreign key — still READY with the open message stored -/
theorem readyStep_out {E : Env} {s : St} {tp : Tp} {e : Nat} {oms' : List OM}
    (hsc : scan E tp tp.avail s.oms = (oms', some e)) :
    (readyStep E s tp).oms = oms' ∧ (readyStep E s tp).certs = s.certs ∧ (readyStep E s tp).regs = s.regs ∧
    ((readyStep E s tp).rt = .signing tp.epoch e ∨ (readyStep E s tp).rt = s.rt) ∧
    (oms'.length = s.oms.length → (readyStep E s tp).rt = .signing tp.epoch e) := by
  unfold readyStep
  rw [hsc]
  dsimp only
  split
  · exact ⟨rfl, rfl, rfl, Or.inl rfl, fun _ => rfl⟩
  · rename_i hlen
    have hf := handOver_frame E { s with oms := oms' } e
    split
    · rename_i s2 heq2
      rw [heq2] at hf
      exact ⟨hf.1, hf.2.1, hf.2.2.2.2.2.2, Or.inl rfl, fun _ => rfl⟩
    · rename_i s2 heq2
      rw [heq2] at hf
      exact ⟨hf.1, hf.2.1, hf.2.2.2.2.2.2, Or.inr hf.2.2.2.1, fun h => absurd h hlen⟩

theorem step_tick_ready {E : Env} {s : St} {tp : Tp} (hrt : s.rt = .ready tp.epoch) :
    step E s (.tick tp) = { readyStep E s tp with seen := tp.epoch } := by
  show { tick E s tp with seen := tp.epoch } = _
  unfold tick
  rw [hrt]
  simp

theorem ready_tick {E : Env} {s : St} {tp : Tp} {e : Nat} (hrt : s.rt = .ready tp.epoch) (ht : target s tp = some e) :
    OpenAt tp.now (step E s (.tick tp)).oms e (omMsg s.oms tp.newmsg e) ∧
    (step E s (.tick tp)).certs = s.certs ∧ (step E s (.tick tp)).regs = s.regs ∧
    ((step E s (.tick tp)).rt = .signing tp.epoch e ∨ (step E s (.tick tp)).rt = .ready tp.epoch) ∧
    ((findOm e s.oms).isSome = true → (step E s (.tick tp)).rt = .signing tp.epoch e) ∧
    target (step E s (.tick tp)) tp = some e ∧
    (∀ x, x ≠ e → findOm x s.oms = none → findOm x (step E s (.tick tp)).oms = none) := by
  obtain ⟨i1, i2, i3, i4⟩ := scan_spec E tp tp.avail s.oms e ht
  have i5 := fun x => scan_fresh E tp tp.avail s.oms x
  cases hsc : scan E tp tp.avail s.oms with
  | mk oms' res =>
    rw [hsc] at i1 i2 i3 i4 i5
    dsimp only at i1 i2 i3 i4 i5
    subst i1
    obtain ⟨o1, o2, o3, o4, o5⟩ := readyStep_out hsc
    rw [step_tick_ready hrt]
    refine ⟨?_, o2, o3, ?_, ?_, ?_, ?_⟩
    · show OpenAt tp.now (readyStep E s tp).oms e _
      rw [o1]; exact i2
    · rw [hrt] at o4; exact o4
    · intro hs; exact o5 (i3 hs)
    · show tp.avail.find? (openable tp.now (readyStep E s tp).oms) = some e
      rw [o1, ← ht]
      exact find?_congr' (fun x _ => i4 x)
    · intro x hx hf
      show findOm x (readyStep E s tp).oms = none
      rw [o1]
      exact i5 x hf (by intro hh; simp only [Option.some.injEq] at hh; exact hx hh.symm)

/-- the IDLE tick under the hypotheses of a productive round: the epoch is initialised and the state machine is READY -/
theorem idle_tick {E : Env} {s : St} {tp : Tp} {last : Option Nat} (hi : SInv E s) (hrt : s.rt = .idle last)
    (hseen : s.seen ≤ tp.epoch) (hpre : preNeeded s tp = true) (hok : signersOk s tp = true) (hgap : noGap s tp = true) :
    step E s (.tick tp) = { epochInit s tp with rt := .ready tp.epoch, seen := tp.epoch } := by
  have hrun : (last.isNone || last.any (· < tp.epoch)) = true := by
    cases last with
    | none => rfl
    | some l => have := hi.idleLt l hrt; simp; omega
  obtain ⟨g, hg, hgl⟩ : ∃ g, genesisEpoch s.certs = some g ∧ g < tp.epoch := by
    unfold preNeeded at hpre
    cases hge : genesisEpoch s.certs with
    | none => simp [hge] at hpre
    | some g => exact ⟨g, rfl, by simpa [hge] using hpre⟩
  unfold noGap at hgap
  cases hl : s.certs.getLast? with
  | none => simp [hl] at hgap
  | some l =>
    have hl1 : tp.epoch ≤ l.epoch + 1 := by simpa [hl] using hgap
    have hl2 : l.epoch ≤ tp.epoch := Nat.le_trans (hi.certLe l (getLast?_mem hl)) hseen
    have habs : ¬ absDiff tp.epoch l.epoch > 1 := by unfold absDiff; split <;> omega
    have hne : ¬ g = tp.epoch := by omega
    have hc : (epochInit s tp).certs = s.certs := rfl
    show { tick E s tp with seen := tp.epoch } = _
    unfold tick
    rw [hrt]
    dsimp only
    unfold idleStep
    simp only [hrun, hpre, hok, Bool.true_and, Bool.not_true, Bool.false_eq_true, if_false, if_true, hc, hl, habs, hg, hne]

/-! ### the parent exists when there is no epoch gap -/

theorem master_some {certs : List CertRec} (h : CT certs) {x : Nat} {l : CertRec} (hl : l ∈ certs)
    (hx : l.epoch = x ∨ l.epoch + 1 = x) : ∃ m, master certs x = some m := by
  obtain ⟨f, hf, hfe, hff⟩ := exists_first h.idsorted ⟨l, hl, rfl⟩
  have hfm : isMaster certs f = true := (h.mast f hf).mpr hff
  have hin : f ∈ certs.filter (fun c => (c.epoch = x || c.epoch + 1 = x) && isMaster certs c) := by
    refine List.mem_filter.mpr ⟨hf, ?_⟩
    rcases hx with hx | hx <;> simp [hfe, hx, hfm]
  unfold master
  cases hg : (certs.filter (fun c => (c.epoch = x || c.epoch + 1 = x) && isMaster certs c)).getLast? with
  | some m => exact ⟨m, rfl⟩
  | none =>
    rw [List.getLast?_eq_none_iff] at hg
    rw [hg] at hin
    simp at hin

/-! ### the signatures of a round -/

def SameButSigs (s s' : St) : Prop :=
  s'.oms = s.oms ∧ s'.certs = s.certs ∧ s'.rt = s.rt ∧ s'.es = s.es ∧ s'.regs = s.regs ∧ s'.seen = s.seen ∧
  s'.round = s.round

/-- every honest signature is registered; afterwards the table holds, for each submitting party, a row
of the entity carrying that party's indices -/
theorem sig_phase (E : Env) {now e m ep : Nat} (mk : Nat → Sig)
    (hmk : ∀ p, (mk p).party = p ∧ (mk p).signer = p ∧ (mk p).msg = m ∧ ep ∈ (mk p).ok) :
    ∀ (ps : List Nat) (s : St), OpenAt now s.oms e m → s.es = some ep →
      (∀ o, findOm e s.oms = some o → o.epoch = ep) → (∀ p ∈ ps, p ∈ signersOf s.regs (ep - 1)) →
      SameButSigs s ((ps.map (fun p => Event.signature e (mk p))).foldl (step E) s) ∧
      ∀ p, ((∃ row ∈ s.sigs, row.entity = e ∧ row.party = p ∧ row.idx = (mk p).idx) ∨ p ∈ ps) →
        ∃ row ∈ ((ps.map (fun p => Event.signature e (mk p))).foldl (step E) s).sigs,
          row.entity = e ∧ row.party = p ∧ row.idx = (mk p).idx := by
  intro ps
  induction ps with
  | nil =>
    intro s _ _ _ _
    refine ⟨⟨rfl, rfl, rfl, rfl, rfl, rfl, rfl⟩, ?_⟩
    intro p hp
    rcases hp with hp | hp
    · exact hp
    · simp at hp
  | cons q ps ih =>
    intro s hom hes hoe hreg
    obtain ⟨o, ho, hc, hx, hst, hm⟩ := hom
    obtain ⟨k1, k2, k3, k4⟩ := hmk q
    have hcls : sigClass s e (mk q) = .registered := by
      rw [sigClass_registered_iff]
      refine ⟨o, ho, hc, hx, ⟨ep, hes, by rw [k3, hm], k4, by rw [k1, k2]⟩, ?_⟩
      rw [k1, hoe o ho]; exact hreg q (by simp)
    have hstep : step E s (.signature e (mk q)) = storeSig s e (mk q) := by
      show registerSig E s e (mk q) = _
      unfold registerSig; rw [hcls]
    simp only [List.map_cons, List.foldl_cons]
    rw [hstep]
    obtain ⟨⟨a1, a2, a3, a4, a5, a6, a7⟩, hrows⟩ := ih (storeSig s e (mk q)) ⟨o, ho, hc, hx, hst, hm⟩ hes hoe
      (fun p hp => hreg p (List.mem_cons_of_mem _ hp))
    refine ⟨⟨a1, a2, a3, a4, a5, a6, a7⟩, ?_⟩
    intro p hp
    apply hrows p
    by_cases hpq : p = q
    · left
      subst hpq
      refine ⟨{ entity := e, party := (mk p).party, sigma := (mk p).sigma, idx := (mk p).idx, signer := (mk p).signer,
                msg := (mk p).msg, vEpoch := s.es.getD 0 }, ?_, rfl, k1, rfl⟩
      simp [storeSig]
    · rcases hp with ⟨row, hrow, r1, r2, r3⟩ | hp
      · left
        refine ⟨row, ?_, r1, r2, r3⟩
        simp only [storeSig, List.mem_append, List.mem_filter]
        left
        refine ⟨hrow, ?_⟩
        have : ¬ row.party = (mk q).party := by rw [r2, k1]; exact hpq
        simp [this]
      · right
        rcases List.mem_cons.mp hp with h | h
        · exact absurd h hpq
        · exact h

/-! ### quorum by distinct indices is monotone -/

theorem nodup_eraseDups : ∀ (n : Nat) (l : List Nat), l.length ≤ n → l.eraseDups.Nodup := by
  intro n
  induction n with
  | zero =>
    intro l hl
    have : l = [] := List.length_eq_zero_iff.mp (by omega)
    subst this; simp
  | succ n ih =>
    intro l hl
    cases l with
    | nil => simp
    | cons a r =>
      rw [List.eraseDups_cons]
      refine List.nodup_cons.mpr ⟨?_, ih _ ?_⟩
      · rw [List.mem_eraseDups]
        simp
      · have := List.length_filter_le (fun b => !b == a) r
        simp only [List.length_cons] at hl
        omega

theorem eraseDups_length_mono {l1 l2 : List Nat} (h : ∀ x ∈ l1, x ∈ l2) : l1.eraseDups.length ≤ l2.eraseDups.length :=
  List.Nodup.length_le_of_subset (nodup_eraseDups _ l1 (Nat.le_refl _))
    (fun x hx => List.mem_eraseDups.mpr (h x (List.mem_eraseDups.mp hx)))

/-! ### the tick that certifies -/

theorem final_tick {E : Env} {s : St} {tp : Tp} {e m : Nat} (hi : SInv E s) (hrt : s.rt = .signing tp.epoch e)
    (hom : OpenAt tp.now s.oms e m) (hmem : e ∈ tp.avail) (hgap : noGap s tp = true) (hseen : s.seen ≤ tp.epoch)
    (hq : E.quorum e (s.sigs.filter (·.entity = e)) = true) :
    ∃ c, (step E s (.tick tp)).certs = s.certs ++ [c] ∧ c.entity = some e ∧ c.epoch = tp.epoch ∧
      c.id = s.certs.length ∧ (step E s (.tick tp)).rt = .ready tp.epoch ∧
      (step E s (.tick tp)).regs = s.regs ∧ (step E s (.tick tp)).seen = tp.epoch ∧
      (step E s (.tick tp)).oms = updOm e (fun o => { o with certified := true }) s.oms := by
  obtain ⟨o, hfo, hc, hx, hst, hm⟩ := hom
  obtain ⟨hom', hoe'⟩ := findOm_some hfo
  have hoe : o.epoch = tp.epoch := by
    rw [hi.omE o hom', hoe']; exact (hi.signing _ _ hrt).2.2
  obtain ⟨mc, hmc⟩ : ∃ mc, master s.certs o.epoch = some mc := by
    unfold noGap at hgap
    cases hl : s.certs.getLast? with
    | none => simp [hl] at hgap
    | some l =>
      have hl1 : tp.epoch ≤ l.epoch + 1 := by simpa [hl] using hgap
      have hl2 : l.epoch ≤ tp.epoch := Nat.le_trans (hi.certLe l (getLast?_mem hl)) hseen
      exact master_some hi.ct (getLast?_mem hl) (by omega)
  have hme : markExpired tp.now e s.oms = s.oms := updOm_id hfo hst
  have hout : isOutdated tp e s.oms = false := by
    unfold isOutdated; rw [hfo]; simp [hx, hmem]
  have htick : tick E s tp = createCertificate E s e := by
    unfold tick
    rw [hrt]
    dsimp only
    unfold signingStep
    simp only [hme, hout, Nat.lt_irrefl, if_false, Bool.false_eq_true]
  obtain ⟨c, hnew⟩ : ∃ c, newCert E s e = some c := by
    unfold newCert
    rw [hfo]
    simp [hc, hx, hmc, hq]
  obtain ⟨o', m', ho', _, _, _, _, hceq⟩ := newCert_spec hnew
  rw [hfo] at ho'
  simp only [Option.some.injEq] at ho'
  subst ho'
  refine ⟨c, ?_, by rw [hceq], by rw [hceq]; exact hoe, by rw [hceq], ?_, ?_, rfl, ?_⟩
  · show (tick E s tp).certs = _
    rw [htick, createCertificate_eq, hnew]
  · show (tick E s tp).rt = _
    rw [htick, createCertificate_eq, hnew]
    show readyOf s.rt = _
    rw [hrt]; rfl
  · show (tick E s tp).regs = _
    rw [htick, createCertificate_eq, hnew]
  · show (tick E s tp).oms = _
    rw [htick, createCertificate_eq, hnew]

/-! ### reaching SIGNING -/

theorem toSigning_signing {E : Env} {tp : Tp} (n : Nat) {s : St} (h : s.rt.isSigning = true) : toSigning E tp n s = [] := by
  cases n <;> simp [toSigning, h]

theorem toSigning_succ {E : Env} {tp : Tp} (n : Nat) {s : St} (h : s.rt.isSigning = false) :
    toSigning E tp (n + 1) s = .tick tp :: toSigning E tp n (step E s (.tick tp)) := by
  simp [toSigning, h]

theorem NB_head {E : Env} {s : St} {evs : List Event} (h : NB E s evs) : s.rt.isBlocked = false := by
  cases evs with
  | nil => exact h
  | cons ev r => exact h.1

theorem NB_append {E : Env} : ∀ {a : List Event} {s : St} {b : List Event},
    NB E s (a ++ b) ↔ NB E s a ∧ NB E (a.foldl (step E) s) b := by
  intro a
  induction a with
  | nil => intro s b; exact ⟨fun h => ⟨NB_head h, h⟩, fun h => h.2⟩
  | cons ev r ih =>
    intro s b
    simp only [List.cons_append, NB, List.foldl_cons]
    rw [ih]
    exact ⟨fun ⟨x, y, z⟩ => ⟨⟨x, y⟩, z⟩, fun ⟨⟨x, y⟩, z⟩ => ⟨x, y, z⟩⟩

theorem RunWfC_append {E : Env} : ∀ {a : List Event} {s : St} {b : List Event},
    RunWfC E s (a ++ b) ↔ RunWfC E s a ∧ RunWfC E (a.foldl (step E) s) b := by
  intro a
  induction a with
  | nil => intro s b; simp [RunWfC]
  | cons ev r ih =>
    intro s b
    simp only [List.cons_append, RunWfC, List.foldl_cons]
    rw [ih]
    exact ⟨fun ⟨x, y, z⟩ => ⟨⟨x, y⟩, z⟩, fun ⟨⟨x, y⟩, z⟩ => ⟨x, y, z⟩⟩

/-- the ticks of `toSigning` lead to SIGNING for `e`, with the certificates `C`, the registrations `R` and an
open message for `e` carrying `m` -/
structure Reach (E : Env) (tp : Tp) (e : Nat) (C : List CertRec) (R : List (Nat × Nat)) (m : Nat) (s : St) (n : Nat) : Prop where
  ticks : ∀ ev ∈ toSigning E tp n s, ev = .tick tp
  nb : NB E s (toSigning E tp n s)
  wf : RunWfC E s (toSigning E tp n s)
  inv : SInv E ((toSigning E tp n s).foldl (step E) s)
  rt : ((toSigning E tp n s).foldl (step E) s).rt = .signing tp.epoch e
  certs : ((toSigning E tp n s).foldl (step E) s).certs = C
  regs : ((toSigning E tp n s).foldl (step E) s).regs = R
  om : OpenAt tp.now ((toSigning E tp n s).foldl (step E) s).oms e m
  fresh : ∀ x, x ≠ e → findOm x s.oms = none → findOm x ((toSigning E tp n s).foldl (step E) s).oms = none

theorem Reach.done {E : Env} {tp : Tp} {e m : Nat} {s : St} (n : Nat) (hi : SInv E s) (hrt : s.rt = .signing tp.epoch e)
    (hom : OpenAt tp.now s.oms e m) : Reach E tp e s.certs s.regs m s n := by
  have h0 : toSigning E tp n s = [] := toSigning_signing n (by rw [hrt]; rfl)
  refine ⟨?_, ?_, ?_, ?_, ?_, ?_, ?_, ?_, ?_⟩ <;> rw [h0]
  · intro ev hev; simp at hev
  · show s.rt.isBlocked = false; rw [hrt]; rfl
  · trivial
  · exact hi
  · exact hrt
  · rfl
  · rfl
  · exact hom
  · intro x _ h; exact h

theorem Reach.tick {E : Env} {tp : Tp} {e m : Nat} {C : List CertRec} {R : List (Nat × Nat)} {s : St} {n : Nat}
    (hs : s.rt.isSigning = false) (hb : s.rt.isBlocked = false) (hw : Wf E s tp)
    (hf : ∀ x, x ≠ e → findOm x s.oms = none → findOm x (step E s (.tick tp)).oms = none)
    (h : Reach E tp e C R m (step E s (.tick tp)) n) : Reach E tp e C R m s (n + 1) := by
  have h0 := toSigning_succ (E := E) (tp := tp) n hs
  obtain ⟨a1, a2, a3, a4, a5, a6, a7, a8, a9⟩ := h
  refine ⟨?_, ?_, ?_, ?_, ?_, ?_, ?_, ?_, ?_⟩ <;> rw [h0]
  · intro ev hev
    rcases List.mem_cons.mp hev with rfl | hev
    · rfl
    · exact a1 ev hev
  · exact ⟨hb, a2⟩
  · exact ⟨hw, a3⟩
  · exact a4
  · exact a5
  · exact a6
  · exact a7
  · exact a8
  · intro x hx h; exact a9 x hx (hf x hx h)

/-- from READY at the round's epoch: one tick, or two when the hand-over made the first one die -/
theorem ready_reach {E : Env} {tp : Tp} {e : Nat} {s : St} (n : Nat) (hi : SInv E s) (hrt : s.rt = .ready tp.epoch)
    (hav : ∀ x ∈ tp.avail, E.entityEpoch x = tp.epoch) (ht : target s tp = some e) :
    Reach E tp e s.certs s.regs (omMsg s.oms tp.newmsg e) s (n + 2) := by
  have hw : Wf E s tp := ⟨by rw [← (hi.ready _ hrt).1]; exact Nat.le_refl _, hav⟩
  have hi1 : SInv E (step E s (.tick tp)) := step_sinv (.tick tp) hi hw
  obtain ⟨b1, b2, b3, b4, _, b6, b7⟩ := ready_tick (E := E) hrt ht
  have hns : s.rt.isSigning = false := by rw [hrt]; rfl
  have hnb : s.rt.isBlocked = false := by rw [hrt]; rfl
  rcases b4 with b4 | b4
  · have := Reach.done (n + 1) hi1 b4 b1
    rw [b2, b3] at this
    exact Reach.tick hns hnb hw b7 this
  · -- the tick died in the hand-over: the open message is stored, the next tick finds it
    have hw1 : Wf E (step E s (.tick tp)) tp := ⟨Nat.le_refl _, hav⟩
    have hi2 : SInv E (step E (step E s (.tick tp)) (.tick tp)) := step_sinv (.tick tp) hi1 hw1
    obtain ⟨c1, c2, c3, _, c5, _, c7⟩ := ready_tick (E := E) b4 b6
    have c5' := c5 b1.isSome
    rw [b1.msg_eq] at c1
    have := Reach.done n hi2 c5' c1
    rw [c2, c3, b2, b3] at this
    have hns1 : (step E s (.tick tp)).rt.isSigning = false := by rw [b4]; rfl
    have hnb1 : (step E s (.tick tp)).rt.isBlocked = false := by rw [b4]; rfl
    exact Reach.tick hns hnb hw b7 (Reach.tick hns1 hnb1 hw1 c7 this)

theorem findOm_epochInit {E : Env} {s : St} {tp : Tp} (hi : SInv E s) {x : Nat} (hx : E.entityEpoch x = tp.epoch) :
    findOm x (s.oms.filter (fun o => tp.epoch ≤ o.epoch)) = findOm x s.oms := by
  apply findOm_filter
  intro o ho hox
  have := hi.omE o ho
  rw [hox, hx] at this
  simp [this]

/-- from IDLE (after a restart, or after the epoch changed) -/
theorem idle_reach {E : Env} {tp : Tp} {e : Nat} {s : St} {last : Option Nat} (n : Nat) (hi : SInv E s)
    (hrt : s.rt = .idle last) (hseen : s.seen ≤ tp.epoch) (hav : ∀ x ∈ tp.avail, E.entityEpoch x = tp.epoch)
    (hpre : preNeeded s tp = true) (hgap : noGap s tp = true) (hok : signersOk s tp = true)
    (ht : target s tp = some e) :
    Reach E tp e s.certs s.regs (omMsg s.oms tp.newmsg e) s (n + 3) := by
  have hw : Wf E s tp := ⟨hseen, hav⟩
  have hi1 : SInv E (step E s (.tick tp)) := step_sinv (.tick tp) hi hw
  have hst := idle_tick hi hrt hseen hpre hok hgap
  have hmem : e ∈ tp.avail := List.mem_of_find?_eq_some ht
  have ht1 : target (step E s (.tick tp)) tp = some e := by
    rw [hst]
    show tp.avail.find? (openable tp.now (s.oms.filter (fun o => tp.epoch ≤ o.epoch))) = some e
    rw [← ht]
    apply find?_congr'
    intro x hx
    unfold openable
    rw [findOm_epochInit hi (hav x hx)]
  have hm1 : omMsg (step E s (.tick tp)).oms tp.newmsg e = omMsg s.oms tp.newmsg e := by
    rw [hst]
    show omMsg (s.oms.filter (fun o => tp.epoch ≤ o.epoch)) tp.newmsg e = _
    unfold omMsg
    rw [findOm_epochInit hi (hav e hmem)]
  have hrt1 : (step E s (.tick tp)).rt = .ready tp.epoch := by rw [hst]
  have := ready_reach n hi1 hrt1 hav ht1
  rw [hm1] at this
  have hc : (step E s (.tick tp)).certs = s.certs := by rw [hst]; rfl
  have hr : (step E s (.tick tp)).regs = s.regs := by rw [hst]; rfl
  rw [hc, hr] at this
  refine Reach.tick (by rw [hrt]; rfl) (by rw [hrt]; rfl) hw ?_ this
  intro x _ hx
  rw [hst]
  show findOm x (s.oms.filter (fun o => tp.epoch ≤ o.epoch)) = none
  rw [findOm_filter (fun o ho hox => absurd hox (findOm_none hx o ho))]
  exact hx

/-- from READY of an earlier epoch: the first tick goes back to IDLE -/
theorem readyold_reach {E : Env} {tp : Tp} {e : Nat} {s : St} {ep : Nat} (n : Nat) (hi : SInv E s)
    (hrt : s.rt = .ready ep) (hlt : ep < tp.epoch) (hav : ∀ x ∈ tp.avail, E.entityEpoch x = tp.epoch)
    (hpre : preNeeded s tp = true) (hgap : noGap s tp = true) (hok : signersOk s tp = true)
    (ht : target s tp = some e) :
    Reach E tp e s.certs s.regs (omMsg s.oms tp.newmsg e) s (n + 4) := by
  have hseen : s.seen ≤ tp.epoch := by rw [← (hi.ready _ hrt).1]; exact Nat.le_of_lt hlt
  have hw : Wf E s tp := ⟨hseen, hav⟩
  have hi1 : SInv E (step E s (.tick tp)) := step_sinv (.tick tp) hi hw
  have hst : step E s (.tick tp) = { s with rt := .idle (some ep), seen := tp.epoch } := by
    show { tick E s tp with seen := tp.epoch } = _
    unfold tick
    rw [hrt]
    simp [hlt]
  rw [hst] at hi1
  have : Reach E tp e s.certs s.regs (omMsg s.oms tp.newmsg e) { s with rt := .idle (some ep), seen := tp.epoch } (n + 3) :=
    idle_reach (E := E) (tp := tp) (e := e) (s := { s with rt := .idle (some ep), seen := tp.epoch }) n hi1 rfl
      (Nat.le_refl _) hav hpre hgap hok ht
  rw [← hst] at this
  refine Reach.tick (by rw [hrt]; rfl) (by rw [hrt]; rfl) hw ?_ this
  intro x _ hx
  rw [hst]; exact hx

/-! ### the productive round -/

theorem registerSig_rt (E : Env) (s : St) (e : Nat) (g : Sig) : (registerSig E s e g).rt = s.rt := by
  unfold registerSig
  split <;> rfl

theorem sigs_NB_wf (E : Env) (e : Nat) (mk : Nat → Sig) : ∀ (ps : List Nat) (s : St), s.rt.isBlocked = false →
    NB E s (ps.map (fun p => Event.signature e (mk p))) ∧ RunWfC E s (ps.map (fun p => Event.signature e (mk p))) := by
  intro ps
  induction ps with
  | nil => intro s h; exact ⟨h, trivial⟩
  | cons q ps ih =>
    intro s h
    have h1 : (step E s (.signature e (mk q))).rt.isBlocked = false := by
      show (registerSig E s e (mk q)).rt.isBlocked = false
      rw [registerSig_rt]; exact h
    obtain ⟨a, b⟩ := ih _ h1
    exact ⟨⟨h, a⟩, ⟨trivial, b⟩⟩

theorem noGap_congr {s s' : St} (tp : Tp) (h : s'.certs = s.certs) : noGap s' tp = noGap s tp := by
  unfold noGap; rw [h]

/-- **A productive continuation inserts a certificate.** From every state that satisfies the state
invariant and is IDLE (e.g. right after a restart) or READY, under the hypotheses `Productive`, running
`cont E s r` appends exactly one certificate; it certifies the entity the round is about (`target`: the
interrupted entity when the time point still offers it and it is not flagged certified or expired, else
the next offered entity); the runtime ends READY at the round's epoch, is never blocked on the way, the
continuation is a well-formed run of ticks and signature submissions, and the invariant holds again. -/
theorem productive_round {E : Env} {k : Nat} {s : St} {r : Round} (hq : QuorumByIndices E k) (hi : SInv E s)
    (hres : s.rt.resumable = true) (hp : Productive E k s r) :
    ∃ e c, target s r.tp = some e ∧
      ((cont E s r).foldl (step E) s).certs = s.certs ++ [c] ∧ c.entity = some e ∧ c.epoch = r.tp.epoch ∧
      c.id = s.certs.length ∧
      ((cont E s r).foldl (step E) s).rt = .ready r.tp.epoch ∧ ((cont E s r).foldl (step E) s).regs = s.regs ∧
      ((cont E s r).foldl (step E) s).seen = r.tp.epoch ∧ SInv E ((cont E s r).foldl (step E) s) ∧
      NB E s (cont E s r) ∧ RunWfC E s (cont E s r) ∧
      (∀ ev ∈ cont E s r, ev = .tick r.tp ∨ ∃ g, ev = .signature e g) ∧
      (∀ x, x ≠ e → findOm x s.oms = none → findOm x ((cont E s r).foldl (step E) s).oms = none) := by
  obtain ⟨hseen, hav, hpre, hgap, hok, htg, hreg, hk⟩ := hp
  obtain ⟨e, ht⟩ := Option.isSome_iff_exists.mp htg
  have hmem : e ∈ r.tp.avail := List.mem_of_find?_eq_some ht
  -- ticks until SIGNING
  have hreach : Reach E r.tp e s.certs s.regs (omMsg s.oms r.tp.newmsg e) s 4 := by
    cases hrt : s.rt with
    | idle last => exact idle_reach 1 hi hrt hseen hav hpre hgap hok ht
    | ready ep =>
      have hep : ep = s.seen := (hi.ready _ hrt).1
      by_cases hlt : ep < r.tp.epoch
      · exact readyold_reach 0 hi hrt hlt hav hpre hgap hok ht
      · have : ep = r.tp.epoch := by omega
        subst this
        exact ready_reach 2 hi hrt hav ht
    | blocked a b => rw [hrt] at hres; cases hres
    | signing a b => rw [hrt] at hres; cases hres
  obtain ⟨p1, p2, p3, p4, p5, p6, p7, p8, p9⟩ := hreach
  -- the signatures
  obtain ⟨q1, q2, q3⟩ := p4.signing _ _ p5
  have hmk : ∀ p, (honestSig r (omMsg s.oms r.tp.newmsg e) p).party = p ∧ (honestSig r (omMsg s.oms r.tp.newmsg e) p).signer = p ∧
      (honestSig r (omMsg s.oms r.tp.newmsg e) p).msg = omMsg s.oms r.tp.newmsg e ∧
      r.tp.epoch ∈ (honestSig r (omMsg s.oms r.tp.newmsg e) p).ok := by
    intro p; exact ⟨rfl, rfl, rfl, by simp [honestSig]⟩
  have hoe : ∀ o, findOm e ((toSigning E r.tp 4 s).foldl (step E) s).oms = some o → o.epoch = r.tp.epoch := by
    intro o ho
    obtain ⟨hom', hoe'⟩ := findOm_some ho
    rw [p4.omE o hom', hoe']; exact q3
  obtain ⟨⟨f1, f2, f3, f4, f5, f6, f7⟩, hrows⟩ := sig_phase E (honestSig r (omMsg s.oms r.tp.newmsg e)) hmk r.parties _ p8 q2 hoe
    (by rw [p7]; exact hreg)
  have hi2 := sinv_frame p4 f2 f1 f6 f3 f4 f7
  -- the certifying tick
  have hquorum : E.quorum e ((((r.parties.map (fun p => Event.signature e (honestSig r (omMsg s.oms r.tp.newmsg e) p))).foldl (step E)
      ((toSigning E r.tp 4 s).foldl (step E) s))).sigs.filter (·.entity = e)) = true := by
    apply hq
    unfold quorumIdx
    simp only [decide_eq_true_eq]
    refine Nat.le_trans hk (eraseDups_length_mono ?_)
    intro i hi'
    obtain ⟨p, hp, hip⟩ := List.mem_flatMap.mp hi'
    obtain ⟨row, hrow, r1, _, r3⟩ := hrows p (Or.inr hp)
    refine List.mem_flatMap.mpr ⟨row, List.mem_filter.mpr ⟨hrow, by simp [r1]⟩, ?_⟩
    rw [r3]; exact hip
  have hseen2 : ((r.parties.map (fun p => Event.signature e (honestSig r (omMsg s.oms r.tp.newmsg e) p))).foldl (step E)
      ((toSigning E r.tp 4 s).foldl (step E) s)).seen ≤ r.tp.epoch := by rw [f6, ← q1]; exact Nat.le_refl _
  have hgap2 := (noGap_congr r.tp (f2.trans p6)).trans hgap
  obtain ⟨c, g1, g2, g3, g4, g5, g6, g7, g8⟩ := final_tick hi2 (f3.trans p5) (by rw [f1]; exact p8) hmem hgap2 hseen2 hquorum
  have hw2 : Wf E ((r.parties.map (fun p => Event.signature e (honestSig r (omMsg s.oms r.tp.newmsg e) p))).foldl (step E)
      ((toSigning E r.tp 4 s).foldl (step E) s)) r.tp := ⟨hseen2, hav⟩
  have hi3 := step_sinv (.tick r.tp) hi2 hw2
  have hnb1 : ((toSigning E r.tp 4 s).foldl (step E) s).rt.isBlocked = false := by rw [p5]; rfl
  obtain ⟨n1, n2⟩ := sigs_NB_wf E e (honestSig r (omMsg s.oms r.tp.newmsg e)) r.parties _ hnb1
  have hcont : cont E s r = toSigning E r.tp 4 s ++
      r.parties.map (fun p => Event.signature e (honestSig r (omMsg s.oms r.tp.newmsg e) p)) ++ [.tick r.tp] := by
    unfold cont; rw [ht]
  refine ⟨e, c, ht, ?_⟩
  rw [hcont]
  simp only [List.foldl_append, List.foldl_cons, List.foldl_nil]
  refine ⟨?_, g2, g3, ?_, g5, ?_, g7, hi3, ?_, ?_, ?_, ?_⟩
  · rw [g1, f2, p6]
  · rw [g4, f2, p6]
  · rw [g6, f5, p7]
  · rw [NB_append, NB_append, List.foldl_append]
    refine ⟨⟨p2, n1⟩, ?_, ?_⟩
    · rw [f3, p5]; rfl
    · show (step E _ (.tick r.tp)).rt.isBlocked = false
      rw [g5]; rfl
  · rw [RunWfC_append, RunWfC_append, List.foldl_append]
    exact ⟨⟨p3, n2⟩, hw2, trivial⟩
  · intro ev hev
    simp only [List.mem_append, List.mem_map, List.mem_singleton] at hev
    rcases hev with (hev | ⟨p, _, rfl⟩) | rfl
    · exact Or.inl (p1 ev hev)
    · exact Or.inr ⟨_, rfl⟩
    · exact Or.inl rfl
  · intro x hx hf
    rw [g8, findOm_updOm e x (fun o => { o with certified := true }) (fun _ => rfl), if_neg hx, f1]
    exact p9 x hx hf

/-! ### which entity is certified -/

/-- the interrupted round is resumed when the time point still offers its entity first and its open
message is neither flagged certified nor expired -/
theorem target_head {s : St} {tp : Tp} {e0 : Nat} {rest : List Nat} (hav : tp.avail = e0 :: rest)
    (h : openable tp.now s.oms e0 = true) : target s tp = some e0 := by
  unfold target; rw [hav, List.find?_cons, h]

/-- an entity whose open message is flagged certified is never the round's entity: a superseding one is -/
theorem target_not_certified {s : St} {tp : Tp} {e : Nat} {o : OM} (h : target s tp = some e)
    (ho : findOm e s.oms = some o) : o.certified = false ∧ e ∈ tp.avail := by
  have h1 := List.find?_some h
  have h2 := List.mem_of_find?_eq_some h
  unfold openable at h1
  rw [ho] at h1
  simp only [Bool.and_eq_true, Bool.not_eq_true'] at h1
  exact ⟨h1.1, h2⟩

/-! ### iterating: progress for ever, never blocked -/

theorem genesisEpoch_append {certs : List CertRec} {c : CertRec} (h : c.entity.isSome = true) :
    genesisEpoch (certs ++ [c]) = genesisEpoch certs := by
  unfold genesisEpoch
  have : (certs ++ [c]).filter (·.entity.isNone) = certs.filter (·.entity.isNone) := by
    rw [List.filter_append]
    have : [c].filter (·.entity.isNone) = [] := by
      cases hc : c.entity with
      | none => rw [hc] at h; cases h
      | some x => simp [hc]
    rw [this, List.append_nil]
  rw [this]

/-- the state after a certified round of epoch `ep` -/
structure After (E : Env) (s : St) (ep : Nat) : Prop where
  inv : SInv E s
  rt : s.rt = .ready ep
  seen : s.seen = ep
  genesis : ∃ g, genesisEpoch s.certs = some g ∧ g < ep
  last : ∃ l, s.certs.getLast? = some l ∧ l.epoch = ep

/-- what a round that follows a certified round of epoch `ep` needs. The gap rule of the model
(`idleStep`, `master`): the round's epoch is `ep` or `ep + 1` — no epoch without a certificate in
between. The rest are inputs: offered entities of the epoch, one of them signable, signers registered
under the keys `epoch - 1` and `epoch`, the submitting parties among them, indices reaching the quorum. -/
def NextOk (E : Env) (k : Nat) (s : St) (ep : Nat) (r : Round) : Prop :=
  ep ≤ r.tp.epoch ∧ r.tp.epoch ≤ ep + 1 ∧ (∀ e ∈ r.tp.avail, E.entityEpoch e = r.tp.epoch) ∧
  signersOk s r.tp = true ∧ (target s r.tp).isSome = true ∧
  (∀ p ∈ r.parties, p ∈ signersOf s.regs (r.tp.epoch - 1)) ∧
  k ≤ (r.parties.flatMap r.idx).eraseDups.length

instance (E : Env) (k : Nat) (s : St) (ep : Nat) (r : Round) : Decidable (NextOk E k s ep r) := by
  unfold NextOk; infer_instance

theorem productive_of_after {E : Env} {k : Nat} {s : St} {ep : Nat} {r : Round} (ha : After E s ep)
    (hn : NextOk E k s ep r) : Productive E k s r := by
  obtain ⟨h1, h2, h3, h4, h5, h6, h7⟩ := hn
  obtain ⟨g, hg, hgl⟩ := ha.genesis
  obtain ⟨l, hl, hle⟩ := ha.last
  refine ⟨by rw [ha.seen]; exact h1, h3, ?_, ?_, h4, h5, h6, h7⟩
  · unfold preNeeded; rw [hg]; simp; omega
  · unfold noGap; rw [hl]; simp; omega

theorem after_of_round {E : Env} {s s' : St} {tp : Tp} {c : CertRec} {e : Nat} (hpre : preNeeded s tp = true)
    (hc : s'.certs = s.certs ++ [c]) (hce : c.entity = some e) (hcp : c.epoch = tp.epoch)
    (hrt : s'.rt = .ready tp.epoch) (hseen : s'.seen = tp.epoch) (hi : SInv E s') : After E s' tp.epoch := by
  refine ⟨hi, hrt, hseen, ?_, ⟨c, by rw [hc]; simp, hcp⟩⟩
  rw [hc, genesisEpoch_append (by rw [hce]; rfl)]
  unfold preNeeded at hpre
  cases hge : genesisEpoch s.certs with
  | none => simp [hge] at hpre
  | some g => exact ⟨g, rfl, by simpa [hge] using hpre⟩

/-- the events of a plan: the productive continuation of each round, computed in the state the round meets -/
def runPlan (E : Env) : St → List Round → List Event
  | _, [] => []
  | s, r :: rest => cont E s r ++ runPlan E ((cont E s r).foldl (step E) s) rest

/-- every round of the plan has its inputs, in the state it meets, after a certified round of epoch `ep` -/
def PlanOk (E : Env) (k : Nat) : St → Nat → List Round → Prop
  | _, _, [] => True
  | s, ep, r :: rest => NextOk E k s ep r ∧ PlanOk E k ((cont E s r).foldl (step E) s) r.tp.epoch rest

instance PlanOk.dec (E : Env) (k : Nat) : ∀ (rounds : List Round) (s : St) (ep : Nat), Decidable (PlanOk E k s ep rounds)
  | [], _, _ => isTrue trivial
  | r :: rest, s, ep =>
    match (inferInstance : Decidable (NextOk E k s ep r)), PlanOk.dec E k rest ((cont E s r).foldl (step E) s) r.tp.epoch with
    | isTrue a, isTrue b => isTrue ⟨a, b⟩
    | isFalse a, _ => isFalse (fun h => a h.1)
    | _, isFalse b => isFalse (fun h => b h.2)

theorem plan_after {E : Env} {k : Nat} (hq : QuorumByIndices E k) : ∀ (rounds : List Round) (s : St) (ep : Nat),
    After E s ep → PlanOk E k s ep rounds →
    ((runPlan E s rounds).foldl (step E) s).certs.length = s.certs.length + rounds.length ∧
    s.certs <+: ((runPlan E s rounds).foldl (step E) s).certs ∧
    ((runPlan E s rounds).foldl (step E) s).regs = s.regs ∧
    NB E s (runPlan E s rounds) ∧ RunWfC E s (runPlan E s rounds) ∧
    SInv E ((runPlan E s rounds).foldl (step E) s) ∧ ((runPlan E s rounds).foldl (step E) s).rt.resumable = true := by
  intro rounds
  induction rounds with
  | nil =>
    intro s ep ha _
    refine ⟨rfl, List.prefix_refl _, rfl, ?_, trivial, ha.inv, ?_⟩
    · show s.rt.isBlocked = false; rw [ha.rt]; rfl
    · show s.rt.resumable = true; rw [ha.rt]; rfl
  | cons r rest ih =>
    intro s ep ha hpl
    obtain ⟨hn, hrest⟩ := hpl
    have hp := productive_of_after ha hn
    have hres : s.rt.resumable = true := by rw [ha.rt]; rfl
    obtain ⟨e, c, _, g1, g2, g3, _, g5, g6, g7, g8, g9, g10, _, _⟩ := productive_round hq ha.inv hres hp
    have ha' := after_of_round hp.2.2.1 g1 g2 g3 g5 g7 g8
    obtain ⟨i1, i2, i3, i4, i5, i6, i7⟩ := ih _ _ ha' hrest
    simp only [runPlan, List.foldl_append]
    refine ⟨?_, ?_, ?_, ?_, ?_, i6, i7⟩
    · rw [i1, g1]; simp; omega
    · refine List.IsPrefix.trans ?_ i2
      rw [g1]; exact List.prefix_append _ _
    · rw [i3, g6]
    · rw [NB_append]; exact ⟨g9, i4⟩
    · rw [RunWfC_append]; exact ⟨g10, i5⟩

/-- **Progress for ever.** From a state with the invariant that is IDLE or READY (after a restart in
particular): a first productive round, then any number of rounds each of which has its inputs
(`NextOk`: the epoch of a round is the epoch of the round before or the next one, signers are
registered, a signable entity is offered, the quorum is reachable). Every round inserts one
certificate, nothing stored is touched, the runtime is never BLOCKED, the whole continuation is a
well-formed run, and the end state can be continued again. -/
theorem progress_forever {E : Env} {k : Nat} {s : St} (hq : QuorumByIndices E k) (hi : SInv E s)
    (hres : s.rt.resumable = true) (r : Round) (rest : List Round) (hp : Productive E k s r)
    (hrest : PlanOk E k ((cont E s r).foldl (step E) s) r.tp.epoch rest) :
    ((runPlan E s (r :: rest)).foldl (step E) s).certs.length = s.certs.length + (rest.length + 1) ∧
    s.certs <+: ((runPlan E s (r :: rest)).foldl (step E) s).certs ∧
    NB E s (runPlan E s (r :: rest)) ∧ RunWfC E s (runPlan E s (r :: rest)) ∧
    SInv E ((runPlan E s (r :: rest)).foldl (step E) s) ∧
    ((runPlan E s (r :: rest)).foldl (step E) s).rt.resumable = true := by
  obtain ⟨e, c, _, g1, g2, g3, _, g5, g6, g7, g8, g9, g10, _, _⟩ := productive_round hq hi hres hp
  have ha' := after_of_round hp.2.2.1 g1 g2 g3 g5 g7 g8
  obtain ⟨i1, i2, _, i4, i5, i6, i7⟩ := plan_after hq rest _ _ ha' hrest
  simp only [runPlan, List.foldl_append]
  refine ⟨?_, ?_, ?_, ?_, i6, i7⟩
  · rw [i1, g1]; simp; omega
  · refine List.IsPrefix.trans ?_ i2
    rw [g1]; exact List.prefix_append _ _
  · rw [NB_append]; exact ⟨g9, i4⟩
  · rw [RunWfC_append]; exact ⟨g10, i5⟩

/-! ### a plan stated on inputs only: rounds over entities that have no open message yet -/

theorem signersOk_congr {s s' : St} (tp : Tp) (h : s'.regs = s.regs) : signersOk s' tp = signersOk s tp := by
  unfold signersOk; rw [h]

/-- rounds after a certified round of epoch `ep`, each offering one entity `e` that has no open message in
the start state `s0` and was not used by an earlier round of the plan; every condition is on `s0` and
on the inputs: the epochs never skip one, signers are registered in `s0` under the keys of every round's
epoch, the submitting parties are among them and their indices reach `k` -/
def FreshPlan (E : Env) (k : Nat) (s0 : St) : Nat → List Nat → List Round → Prop
  | _, _, [] => True
  | ep, used, r :: rest =>
    ∃ e, r.tp.avail = [e] ∧ e ∉ used ∧ findOm e s0.oms = none ∧ E.entityEpoch e = r.tp.epoch ∧
      ep ≤ r.tp.epoch ∧ r.tp.epoch ≤ ep + 1 ∧ signersOk s0 r.tp = true ∧
      (∀ p ∈ r.parties, p ∈ signersOf s0.regs (r.tp.epoch - 1)) ∧
      k ≤ (r.parties.flatMap r.idx).eraseDups.length ∧
      FreshPlan E k s0 r.tp.epoch (e :: used) rest

theorem planOk_of_fresh {E : Env} {k : Nat} (hq : QuorumByIndices E k) {s0 : St} :
    ∀ (rounds : List Round) (s : St) (ep : Nat) (used : List Nat),
    After E s ep → s.regs = s0.regs → (∀ x, x ∉ used → findOm x s0.oms = none → findOm x s.oms = none) →
    FreshPlan E k s0 ep used rounds → PlanOk E k s ep rounds := by
  intro rounds
  induction rounds with
  | nil => intro s ep used _ _ _ _; trivial
  | cons r rest ih =>
    intro s ep used ha hregs hfresh hpl
    obtain ⟨e, h1, h2, h3, h4, h5, h6, h7, h8, h9, h10⟩ := hpl
    have hopen : openable r.tp.now s.oms e = true := by
      unfold openable; rw [hfresh e h2 h3]
    have ht : target s r.tp = some e := target_head h1 hopen
    have hn : NextOk E k s ep r := by
      refine ⟨h5, h6, ?_, ?_, ?_, ?_, h9⟩
      · intro x hx; rw [h1] at hx; simp only [List.mem_singleton] at hx; rw [hx]; exact h4
      · rw [signersOk_congr r.tp hregs]; exact h7
      · rw [ht]; rfl
      · rw [hregs]; exact h8
    refine ⟨hn, ?_⟩
    have hp := productive_of_after ha hn
    have hres : s.rt.resumable = true := by rw [ha.rt]; rfl
    obtain ⟨e', c, ht', g1, g2, g3, _, g5, g6, g7, g8, _, _, _, g12⟩ := productive_round hq ha.inv hres hp
    rw [ht] at ht'
    simp only [Option.some.injEq] at ht'
    subst ht'
    have ha' := after_of_round hp.2.2.1 g1 g2 g3 g5 g7 g8
    refine ih _ _ (e :: used) ha' (g6.trans hregs) ?_ h10
    intro x hx hx0
    simp only [List.mem_cons, not_or] at hx
    exact g12 x hx.1 (hfresh x hx.2 hx0)

/-- **Progress for ever, stated on the inputs.** After the first productive round (which certifies `e0`),
any plan of rounds over entities without an open message (`FreshPlan`) certifies one entity per round. -/
theorem progress_forever_fresh {E : Env} {k : Nat} {s : St} (hq : QuorumByIndices E k) (hi : SInv E s)
    (hres : s.rt.resumable = true) (r : Round) (rest : List Round) (hp : Productive E k s r) (e0 : Nat)
    (ht : target s r.tp = some e0) (hplan : FreshPlan E k s r.tp.epoch [e0] rest) :
    ((runPlan E s (r :: rest)).foldl (step E) s).certs.length = s.certs.length + (rest.length + 1) ∧
    s.certs <+: ((runPlan E s (r :: rest)).foldl (step E) s).certs ∧
    NB E s (runPlan E s (r :: rest)) ∧ RunWfC E s (runPlan E s (r :: rest)) ∧
    SInv E ((runPlan E s (r :: rest)).foldl (step E) s) ∧
    ((runPlan E s (r :: rest)).foldl (step E) s).rt.resumable = true := by
  obtain ⟨e', c, ht', g1, g2, g3, _, g5, g6, g7, g8, _, _, _, g12⟩ := productive_round hq hi hres hp
  rw [ht] at ht'
  simp only [Option.some.injEq] at ht'
  subst ht'
  have ha' := after_of_round hp.2.2.1 g1 g2 g3 g5 g7 g8
  refine progress_forever hq hi hres r rest hp (planOk_of_fresh hq rest _ _ [e0] ha' g6 ?_ hplan)
  intro x hx hx0
  simp only [List.mem_singleton] at hx
  exact g12 x hx hx0

/-! ### the state after `crash tp p; restart` -/

theorem post_crash {E : Env} {s0 : St} {tp : Tp} {p : CrashPoint} (hi : SInv E s0) (hw : Wf E s0 tp) :
    SInv E (step E (step E s0 (.crash tp p)) .restart) ∧
    (step E (step E s0 (.crash tp p)) .restart).rt = .idle none ∧
    (step E (step E s0 (.crash tp p)) .restart).seen = tp.epoch :=
  ⟨step_sinv .restart (step_sinv (.crash tp p) hi hw) trivial, rfl, rfl⟩

/-- every event leaves the certificate table alone or appends one certificate of a signed entity -/
theorem step_certs (E : Env) (s : St) (ev : Event) :
    (step E s ev).certs = s.certs ∨ ∃ c, (step E s ev).certs = s.certs ++ [c] ∧ c.entity.isSome = true := by
  have hcrash : ∀ tp p, (crashTick E s tp p).certs = s.certs ∨
      ∃ c, (crashTick E s tp p).certs = s.certs ++ [c] ∧ c.entity.isSome = true := by
    intro tp p
    unfold crashTick
    split
    · exact Or.inl (idleStep_se s tp _).2
    · split <;> exact Or.inl rfl
    · split
      · exact Or.inl rfl
      · exact Or.inl (readyStepCut_se E s tp p).2
    · unfold signingStepCut
      dsimp only
      split
      · exact Or.inl rfl
      · split
        · exact Or.inl rfl
        · split
          · rename_i c hc
            obtain ⟨o, m, _, _, _, _, _, hceq⟩ := newCert_spec hc
            have hent : c.entity.isSome = true := by rw [hceq]; rfl
            unfold createCertificateCut
            cases p <;> dsimp only
            · exact Or.inl rfl
            all_goals exact Or.inr ⟨c, rfl, hent⟩
          · exact Or.inl rfl
  cases ev with
  | tick tp =>
    show (tick E s tp).certs = _ ∨ ∃ c, (tick E s tp).certs = _ ∧ _
    rw [tick_eq_crashTick]; exact hcrash tp _
  | crash tp p => exact hcrash tp p
  | signature e g =>
    left
    show (registerSig E s e g).certs = _
    unfold registerSig
    split <;> rfl
  | register k p =>
    left
    show (register s k p).certs = _
    unfold register
    split <;> rfl
  | expire e => exact Or.inl rfl
  | restart => exact Or.inl rfl

/-- the genesis epoch of a run from `init n g` stays `g` -/
theorem run_genesis (E : Env) (g : Nat) : ∀ (evs : List Event) (s : St), genesisEpoch s.certs = some g →
    genesisEpoch (evs.foldl (step E) s).certs = some g := by
  intro evs
  induction evs with
  | nil => intro s h; exact h
  | cons ev r ih =>
    intro s h
    apply ih
    rcases step_certs E s ev with h1 | ⟨c, h1, h2⟩
    · rw [h1]; exact h
    · rw [h1, genesisEpoch_append h2]; exact h

theorem genesis_init (n g : Nat) : genesisEpoch (init n g).certs = some g := by
  simp [init, genesisEpoch]

/-! ### the goal `C15_progress_goal` quantifies over too much -/

theorem newCert_none_of_no_quorum (E : Env) (hq : ∀ e rows, E.quorum e rows = false) (s : St) (e : Nat) :
    newCert E s e = none := by
  unfold newCert
  repeat' split
  all_goals first
    | rfl
    | (rename_i h; rw [hq] at h; cases h)

/-- with an environment whose quorum test never passes, ticks and signatures never insert a certificate -/
theorem no_quorum_no_certificate (E : Env) (hq : ∀ e rows, E.quorum e rows = false) (s : St) (ev : Event)
    (hev : ∃ tp', ev = .tick tp' ∨ ∃ e g', ev = .signature e g') : (step E s ev).certs = s.certs := by
  obtain ⟨tp', rfl | ⟨e, g', rfl⟩⟩ := hev
  · show (tick E s tp').certs = s.certs
    unfold tick
    split
    · exact (idleStep_se s tp' _).2
    · split <;> rfl
    · split
      · rfl
      · exact (readyStep_core E s tp').2.1
    · unfold signingStep
      dsimp only
      split
      · rfl
      · split
        · rfl
        · rw [createCertificate_eq, newCert_none_of_no_quorum E hq]
  · show (registerSig E s e g').certs = _
    unfold registerSig
    split <;> rfl

theorem no_quorum_run (E : Env) (hq : ∀ e rows, E.quorum e rows = false) : ∀ (evs : List Event) (s : St),
    (∀ ev ∈ evs, ∃ tp', ev = .tick tp' ∨ ∃ e g', ev = .signature e g') → (evs.foldl (step E) s).certs = s.certs := by
  intro evs
  induction evs with
  | nil => intro s _; rfl
  | cons ev r ih =>
    intro s h
    simp only [List.foldl_cons]
    rw [ih _ (fun ev' hev' => h ev' (List.mem_cons_of_mem _ hev'))]
    exact no_quorum_no_certificate E hq s ev (h ev (by simp))

/-! ### an open message is never flagged certified without a stored certificate

The other way a stop could lose a round: the flag set, the certificate missing — the scan would skip the
entity for ever. No cut produces that state: the insert comes before the update. -/

def Flagged (oms : List OM) (certs : List CertRec) : Prop :=
  ∀ o ∈ oms, o.certified = true → ∃ c ∈ certs, c.entity = some o.entity

theorem Flagged.mono {oms : List OM} {certs certs' : List CertRec} (h : Flagged oms certs)
    (hc : ∀ c ∈ certs, c ∈ certs') : Flagged oms certs' := by
  intro o ho hf
  obtain ⟨c, hcm, hce⟩ := h o ho hf
  exact ⟨c, hc c hcm, hce⟩

theorem Flagged.upd {oms : List OM} {certs : List CertRec} (e : Nat) {f : OM → OM}
    (hf : ∀ o, (f o).entity = o.entity ∧ ((f o).certified = true → o.certified = true)) (h : Flagged oms certs) :
    Flagged (updOm e f oms) certs := by
  intro o ho hfl
  obtain ⟨o0, h0, h1⟩ := mem_updOm ho
  rcases h1 with rfl | ⟨_, rfl⟩
  · exact h _ h0 hfl
  · rw [(hf o0).1]; exact h o0 h0 ((hf o0).2 hfl)

theorem Flagged.expire {oms : List OM} {certs : List CertRec} (now e : Nat) (h : Flagged oms certs) :
    Flagged (markExpired now e oms) certs :=
  Flagged.upd e (fun o => ⟨expireFn_entity now o, fun hh => by rw [expireFn_certified] at hh; exact hh⟩) h

theorem Flagged.scanned (E : Env) (tp : Tp) {certs : List CertRec} : ∀ (l : List Nat) (oms : List OM), Flagged oms certs →
    Flagged (scan E tp l oms).1 certs := by
  intro l
  induction l with
  | nil => intro oms h; exact h
  | cons a r ih =>
    intro oms h
    have h1 := Flagged.expire tp.now a h
    rw [scan_cons]
    split
    · intro o ho hfl
      rcases List.mem_append.mp ho with ho | ho
      · exact h1 o ho hfl
      · simp only [List.mem_singleton] at ho; subst ho; simp [newOm] at hfl
    · split
      · exact h1
      · exact ih _ h1

theorem Flagged.certify {oms : List OM} {certs : List CertRec} {e : Nat} {c : CertRec} (hc : c.entity = some e)
    (h : Flagged oms certs) : Flagged (updOm e (fun o => { o with certified := true }) oms) (certs ++ [c]) := by
  intro o ho hfl
  obtain ⟨o0, h0, h1⟩ := mem_updOm ho
  rcases h1 with rfl | ⟨he, rfl⟩
  · obtain ⟨c', hc', hce'⟩ := h o h0 hfl
    exact ⟨c', List.mem_append_left _ hc', hce'⟩
  · refine ⟨c, by simp, ?_⟩
    rw [hc]
    show some e = some o0.entity
    rw [he]

theorem idleStep_oms (s : St) (tp : Tp) (last : Option Nat) :
    (idleStep s tp last).oms = s.oms ∨ (idleStep s tp last).oms = s.oms.filter (fun o => tp.epoch ≤ o.epoch) := by
  unfold idleStep
  dsimp only
  cases (last.isNone || last.any (· < tp.epoch))
  · simp only [Bool.false_and, Bool.false_eq_true, if_false]
    repeat' split
    all_goals exact Or.inl rfl
  · simp only [Bool.true_and, if_true]
    repeat' split
    all_goals exact Or.inr rfl

theorem readyStepCut_oms (E : Env) (s : St) (tp : Tp) (p : CrashPoint) :
    (readyStepCut E s tp p).oms = (scan E tp tp.avail s.oms).1 := by
  unfold readyStepCut
  split
  · rename_i oms' e heq
    rw [heq]
    dsimp only
    have hc := handOverGo_core e (({ s with oms := oms' } : St).buf.filter (·.disc = E.entityDisc e)).reverse { s with oms := oms' } []
    have hN : (handOverNoRemoval E { s with oms := oms' } e).1.oms = oms' := by
      unfold handOverNoRemoval
      split <;> (rename_i heq3; rw [heq3] at hc; exact hc.1)
    have hH : (handOver E { s with oms := oms' } e).1.oms = oms' := (handOver_core E { s with oms := oms' } e).1
    split
    · rfl
    · split
      · rfl
      · split
        · rename_i s2 heq2; rw [heq2] at hN; exact hN
        · rename_i s2 heq2; rw [heq2] at hN; exact hN
      · split
        · rename_i s2 heq2; rw [heq2] at hH; exact hH
        · rename_i s2 heq2; rw [heq2] at hH; exact hH
  · rename_i oms' heq
    rw [heq]

theorem crashTick_flagged (E : Env) (s : St) (tp : Tp) (p : CrashPoint) (h : Flagged s.oms s.certs) :
    Flagged (crashTick E s tp p).oms (crashTick E s tp p).certs := by
  unfold crashTick
  split
  · rw [(idleStep_se s tp _).2]
    rcases idleStep_oms s tp ‹_› with h1 | h1 <;> rw [h1]
    · exact h
    · intro o ho; exact h o (List.mem_filter.mp ho).1
  · split <;> exact h
  · split
    · exact h
    · rw [(readyStepCut_se E s tp p).2, readyStepCut_oms]
      exact Flagged.scanned E tp _ _ h
  · rename_i ep e _
    have h1 : Flagged (markExpired tp.now e s.oms) s.certs := Flagged.expire tp.now e h
    unfold signingStepCut
    dsimp only
    split
    · exact h1
    · split
      · exact h1
      · split
        · rename_i c hc
          obtain ⟨o, m, _, _, _, _, _, hceq⟩ := newCert_spec hc
          have hent : c.entity = some e := by rw [hceq]
          have h2 : Flagged (markExpired tp.now e s.oms) (s.certs ++ [c]) := h1.mono (fun c' hc' => List.mem_append_left _ hc')
          have h3 := Flagged.certify hent h1
          unfold createCertificateCut
          cases p <;> dsimp only
          · exact h1
          · exact h2
          all_goals exact h3
        · exact h1

theorem step_flagged (E : Env) (s : St) (ev : Event) (h : Flagged s.oms s.certs) :
    Flagged (step E s ev).oms (step E s ev).certs := by
  cases ev with
  | tick tp =>
    show Flagged (tick E s tp).oms (tick E s tp).certs
    rw [tick_eq_crashTick]; exact crashTick_flagged E s tp _ h
  | crash tp p => exact crashTick_flagged E s tp p h
  | signature e g =>
    show Flagged (registerSig E s e g).oms (registerSig E s e g).certs
    unfold registerSig
    split <;> exact h
  | register k p =>
    show Flagged (register s k p).oms (register s k p).certs
    unfold register
    split <;> exact h
  | expire e => exact Flagged.upd e (fun o => ⟨rfl, fun hh => hh⟩) h
  | restart => exact h

/-- over every run, with cuts anywhere: a flagged open message has its certificate stored -/
theorem run_flagged (E : Env) : ∀ (evs : List Event) (s : St), Flagged s.oms s.certs →
    Flagged (evs.foldl (step E) s).oms (evs.foldl (step E) s).certs := by
  intro evs
  induction evs with
  | nil => intro s h; exact h
  | cons ev r ih => intro s h; exact ih _ (step_flagged E s ev h)

theorem flagged_init (n g : Nat) : Flagged (init n g).oms (init n g).certs := by
  intro o ho; simp [init] at ho

/-! ### a concrete history (non-vacuity) -/

def Ex : Env :=
  { entityEpoch := fun e => e / 10, entityDisc := fun e => e % 10, quorum := fun _ rows => quorumIdx 2 rows,
    timeout := fun _ => some 1000 }

theorem Ex_quorum : QuorumByIndices Ex 2 := fun _ _ h => h

def tpx (ep : Nat) (av : List Nat) : Tp := { epoch := ep, now := 1, avail := av, newmsg := 100 + ep }

/-- parties 0 and 1, two lottery indices each -/
def rdx (ep : Nat) (av : List Nat) : Round :=
  { tp := tpx ep av, parties := [0, 1], idx := fun p => [2 * p, 2 * p + 1], sigma := fun p => 50 + p }

/-- genesis at epoch 1 with two signers; epoch 2 is initialised, registrations for epoch 3 arrive, the
open message of entity 20 gets a signature that reaches the quorum -/
def hist : List Event :=
  [.tick (tpx 1 []), .register 2 0, .register 2 1, .tick (tpx 2 [20]), .tick (tpx 2 [20]), .register 3 0, .register 3 1,
   .tick (tpx 2 [20]), .signature 20 (honestSig (rdx 2 [20]) 102 0)]

def allPoints : List CrashPoint :=
  [.certBeforeInsert, .certAfterInsert, .certAfterUpdate, .artBeforeCompute, .artAfterCompute, .artAfterInsert,
   .hoBefore, .hoBeforeRemoval, .hoAfterRemoval]

/-- the state after the history, a tick cut at `p`, and the restart -/
def postCrash (p : CrashPoint) : St := step Ex (step Ex (hist.foldl (step Ex) (init 2 1)) (.crash (tpx 2 [20]) p)) .restart

/-! ### why the signers have to submit after the restart (the note "a stop before the hand-over leaves
that beacon's buffered signatures unused") -/

/-- epoch 2 initialised, the state machine READY, both parties' authenticated signatures for the coming
open message of entity 20 already in the buffer -/
def histBuf : List Event :=
  [.tick (tpx 1 []), .register 2 0, .register 2 1, .tick (tpx 2 [20]), .tick (tpx 2 [20]),
   .signature 20 (honestSig (rdx 2 [20]) 102 0), .signature 20 (honestSig (rdx 2 [20]) 102 1)]

/-- … then the tick that creates the open message is cut before the hand-over and the process restarts -/
def stuck0 : St :=
  [Event.crash (tpx 2 [20]) .hoBefore, .restart].foldl (step Ex) (histBuf.foldl (step Ex) (init 2 1))

/-- three ticks later: SIGNING for entity 20, nothing in the signature table, both signatures still buffered -/
def stuck : St := [Event.tick (tpx 2 [20]), .tick (tpx 2 [20]), .tick (tpx 2 [20])].foldl (step Ex) stuck0

theorem stuck_fixpoint : step Ex stuck (.tick (tpx 2 [20])) = stuck := by rfl

/-- ticks alone never certify the interrupted round: the buffered signatures are only handed over when
the open message is created, and that happened in the cut tick -/
theorem stuck_for_ever (n : Nat) : ((List.replicate n (Event.tick (tpx 2 [20]))).foldl (step Ex) stuck) = stuck := by
  induction n with
  | zero => rfl
  | succ n ih => rw [List.replicate_succ, List.foldl_cons, stuck_fixpoint]; exact ih

theorem stuck_facts : stuck.rt = .signing 2 20 ∧ stuck.certs.length = 1 ∧ stuck.sigs = [] ∧ stuck.buf.length = 2 := by
  decide +kernel

/-- without the cut the same ticks certify entity 20 from the buffered signatures -/
theorem not_stuck_without_crash :
    (([Event.tick (tpx 2 [20]), .restart, .tick (tpx 2 [20]), .tick (tpx 2 [20]), .tick (tpx 2 [20])].foldl (step Ex)
      (histBuf.foldl (step Ex) (init 2 1))).certs.map (·.entity)) = [none, some 20] := by
  decide +kernel

/-- and with the cut, the productive continuation (the parties submit again) certifies it -/
theorem stuck_resolved_by_resubmission :
    Productive Ex 2 stuck0 (rdx 2 [20]) ∧
    (((cont Ex stuck0 (rdx 2 [20])).foldl (step Ex) stuck0).certs.map (·.entity)) = [none, some 20] := by
  decide +kernel

end Agg
