namespace Sha256

def K : Array UInt32 := #[
  0x428a2f98, 0x71374491, 0xb5c0fbcf, 0xe9b5dba5, 0x3956c25b, 0x59f111f1, 0x923f82a4, 0xab1c5ed5,
  0xd807aa98, 0x12835b01, 0x243185be, 0x550c7dc3, 0x72be5d74, 0x80deb1fe, 0x9bdc06a7, 0xc19bf174,
  0xe49b69c1, 0xefbe4786, 0x0fc19dc6, 0x240ca1cc, 0x2de92c6f, 0x4a7484aa, 0x5cb0a9dc, 0x76f988da,
  0x983e5152, 0xa831c66d, 0xb00327c8, 0xbf597fc7, 0xc6e00bf3, 0xd5a79147, 0x06ca6351, 0x14292967,
  0x27b70a85, 0x2e1b2138, 0x4d2c6dfc, 0x53380d13, 0x650a7354, 0x766a0abb, 0x81c2c92e, 0x92722c85,
  0xa2bfe8a1, 0xa81a664b, 0xc24b8b70, 0xc76c51a3, 0xd192e819, 0xd6990624, 0xf40e3585, 0x106aa070,
  0x19a4c116, 0x1e376c08, 0x2748774c, 0x34b0bcb5, 0x391c0cb3, 0x4ed8aa4a, 0x5b9cca4f, 0x682e6ff3,
  0x748f82ee, 0x78a5636f, 0x84c87814, 0x8cc70208, 0x90befffa, 0xa4506ceb, 0xbef9a3f7, 0xc67178f2]

@[inline] def rotr (x : UInt32) (n : UInt32) : UInt32 := (x >>> n) ||| (x <<< (32 - n))

def pad (msg : ByteArray) : ByteArray := Id.run do
  let bitLen : UInt64 := msg.size.toUInt64 * 8
  let mut m := msg.push 0x80
  while m.size % 64 != 56 do
    m := m.push 0
  for i in [0:8] do
    m := m.push ((bitLen >>> (UInt64.ofNat (8 * (7 - i)))).toUInt8)
  return m

def compress (h : Array UInt32) (blk : ByteArray) (off : Nat) : Array UInt32 := Id.run do
  let mut w : Array UInt32 := Array.replicate 64 0
  for t in [0:16] do
    let b0 := (blk.get! (off + 4*t)).toUInt32
    let b1 := (blk.get! (off + 4*t + 1)).toUInt32
    let b2 := (blk.get! (off + 4*t + 2)).toUInt32
    let b3 := (blk.get! (off + 4*t + 3)).toUInt32
    w := w.set! t ((b0 <<< 24) ||| (b1 <<< 16) ||| (b2 <<< 8) ||| b3)
  for t in [16:64] do
    let x15 := w[t-15]!
    let x2 := w[t-2]!
    let s0 := rotr x15 7 ^^^ rotr x15 18 ^^^ (x15 >>> 3)
    let s1 := rotr x2 17 ^^^ rotr x2 19 ^^^ (x2 >>> 10)
    w := w.set! t (w[t-16]! + s0 + w[t-7]! + s1)
  let mut a := h[0]!; let mut b := h[1]!; let mut c := h[2]!; let mut d := h[3]!
  let mut e := h[4]!; let mut f := h[5]!; let mut g := h[6]!; let mut hh := h[7]!
  for t in [0:64] do
    let S1 := rotr e 6 ^^^ rotr e 11 ^^^ rotr e 25
    let ch := (e &&& f) ^^^ ((~~~ e) &&& g)
    let t1 := hh + S1 + ch + K[t]! + w[t]!
    let S0 := rotr a 2 ^^^ rotr a 13 ^^^ rotr a 22
    let maj := (a &&& b) ^^^ (a &&& c) ^^^ (b &&& c)
    let t2 := S0 + maj
    hh := g; g := f; f := e; e := d + t1; d := c; c := b; b := a; a := t1 + t2
  return #[h[0]! + a, h[1]! + b, h[2]! + c, h[3]! + d, h[4]! + e, h[5]! + f, h[6]! + g, h[7]! + hh]

def hash (msg : ByteArray) : ByteArray := Id.run do
  let m := pad msg
  let mut h : Array UInt32 := #[0x6a09e667, 0xbb67ae85, 0x3c6ef372, 0xa54ff53a, 0x510e527f, 0x9b05688c, 0x1f83d9ab, 0x5be0cd19]
  for i in [0:m.size / 64] do
    h := compress h m (64 * i)
  let mut out := ByteArray.empty
  for x in h do
    out := out.push (x >>> 24).toUInt8 |>.push (x >>> 16).toUInt8 |>.push (x >>> 8).toUInt8 |>.push x.toUInt8
  return out

def hexOf (b : ByteArray) : String :=
  let digits := "0123456789abcdef".toList.toArray
  b.foldl (fun s x => s.push digits[(x >>> 4).toNat]! |>.push digits[(x &&& 0xf).toNat]!) ""

end Sha256

namespace Sha256
def hashL (l : List UInt8) : List UInt8 := (hash ⟨l.toArray⟩).toList
end Sha256
