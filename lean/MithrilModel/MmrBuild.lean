import MithrilModel.EvalInj
/-! builder side of the MMR: binary-counter model of `push` + right-to-left bagging,
its naturality, and **root injectivity in the ordered leaf list**. -/
namespace MmrBuild
open ExprTree

variable {α β : Type}

/-- peaks are kept newest first, with their heights -/
def mergeTail (m : α → α → α) : List (Nat × α) → List (Nat × α)
  | (h1, a) :: (h2, b) :: rest =>
    if h1 = h2 then mergeTail m ((h1 + 1, m b a) :: rest) else (h1, a) :: (h2, b) :: rest
  | l => l
termination_by l => l.length

def push (m : α → α → α) (peaks : List (Nat × α)) (x : α) : List (Nat × α) := mergeTail m ((0, x) :: peaks)

def peaksOf (m : α → α → α) (ls : List α) : List (Nat × α) := ls.foldl (push m) []

/-- ckb `bagging_peaks_hashes`: pop right, pop left, push `merge(right, left)` -/
def bag (m : α → α → α) : List (Nat × α) → Option α
  | [] => none
  | (_, a) :: rest => some (rest.foldl (fun acc p => m acc p.2) a)

def root (m : α → α → α) (ls : List α) : Option α := bag m (peaksOf m ls)

def mapP (f : α → β) (l : List (Nat × α)) : List (Nat × β) := l.map fun p => (p.1, f p.2)

theorem mergeTail_map (mα : α → α → α) (mβ : β → β → β) (f : α → β)
    (hom : ∀ a b, f (mα a b) = mβ (f a) (f b)) (l : List (Nat × α)) :
    mergeTail mβ (mapP f l) = mapP f (mergeTail mα l) := by
  fun_induction mergeTail mα l with
  | case1 a h b rest ih =>
    have : mapP f ((h, a) :: (h, b) :: rest) = (h, f a) :: (h, f b) :: mapP f rest := rfl
    rw [this, mergeTail, if_pos rfl, ← ih]
    simp [mapP, hom]
  | case2 h1 a h2 b rest hne =>
    have : mapP f ((h1, a) :: (h2, b) :: rest) = (h1, f a) :: (h2, f b) :: mapP f rest := rfl
    rw [this, mergeTail, if_neg hne]
  | case3 l hl =>
    match l, hl with
    | [], _ => simp [mapP, mergeTail]
    | [x], _ => simp [mapP, mergeTail]
    | x :: y :: r, hl => exact absurd rfl (hl _ _ _ _ _)

theorem peaksOf_map (mα : α → α → α) (mβ : β → β → β) (f : α → β)
    (hom : ∀ a b, f (mα a b) = mβ (f a) (f b)) (ls : List α) (acc : List (Nat × α)) :
    (ls.map f).foldl (push mβ) (mapP f acc) = mapP f (ls.foldl (push mα) acc) := by
  induction ls generalizing acc with
  | nil => rfl
  | cons x xs ih =>
    simp only [List.map_cons, List.foldl_cons]
    have : push mβ (mapP f acc) (f x) = mapP f (push mα acc x) := by
      unfold push
      rw [← mergeTail_map mα mβ f hom]; rfl
    rw [this, ih]

theorem bag_map (mα : α → α → α) (mβ : β → β → β) (f : α → β)
    (hom : ∀ a b, f (mα a b) = mβ (f a) (f b)) (l : List (Nat × α)) :
    bag mβ (mapP f l) = (bag mα l).map f := by
  cases l with
  | nil => rfl
  | cons p rest =>
    obtain ⟨h, a⟩ := p
    simp only [mapP, List.map_cons, bag, Option.map_some, Option.some.injEq]
    induction rest generalizing a with
    | nil => rfl
    | cons q qs ih => simp only [List.map_cons, List.foldl_cons]; rw [← hom]; exact ih _

/-- **naturality**: the builder commutes with any merge homomorphism -/
theorem root_map (mα : α → α → α) (mβ : β → β → β) (f : α → β)
    (hom : ∀ a b, f (mα a b) = mβ (f a) (f b)) (ls : List α) :
    root mβ (ls.map f) = (root mα ls).map f := by
  unfold root peaksOf
  have := peaksOf_map mα mβ f hom ls []
  simp only [mapP, List.map_nil] at this
  rw [this]; exact bag_map mα mβ f hom _

/-- map over the leaves of an expression tree -/
def emap (g : α → β) : E α → E β
  | .leaf a => .leaf (g a)
  | .node l r => .node (emap g l) (emap g r)

theorem leaves_emap (g : α → β) (t : E α) : leaves (emap g t) = (leaves t).map g := by
  induction t with
  | leaf a => rfl
  | node l r ihl ihr => simp [emap, leaves, ihl, ihr]

theorem eval_leafmap (m : β → β → β) (ls : List β) :
    root m ls = (root E.node (ls.map E.leaf)).map (eval m) := by
  have := root_map (E.node (α := β)) m (eval m) (fun _ _ => rfl) (ls.map E.leaf)
  rw [← this]; congr 1; simp [List.map_map, Function.comp_def, eval]

/-- input-order leaves of a peak list (newest first) -/
def flat : List (Nat × E α) → List α
  | [] => []
  | p :: rest => flat rest ++ leaves p.2

theorem flat_mergeTail (l : List (Nat × E α)) : flat (mergeTail E.node l) = flat l := by
  fun_induction mergeTail E.node l with
  | case1 a h b rest ih => rw [ih]; simp [flat, leaves]
  | case2 => rfl
  | case3 => rfl

theorem flat_peaksOf (ls : List α) (acc : List (Nat × E α)) :
    flat ((ls.map E.leaf).foldl (push E.node) acc) = flat acc ++ ls := by
  induction ls generalizing acc with
  | nil => simp
  | cons x xs ih =>
    simp only [List.map_cons, List.foldl_cons]
    rw [ih, push, flat_mergeTail]; simp [flat, leaves]

/-- the bagged tree's leaves are a permutation of the peaks' input-order leaves -/
theorem bag_leaves_perm (l : List (Nat × E α)) (t : E α) (h : bag E.node l = some t) :
    (leaves t).Perm (flat l) := by
  cases l with
  | nil => simp [bag] at h
  | cons p rest =>
    obtain ⟨hh, a⟩ := p
    simp only [bag, Option.some.injEq] at h
    subst h
    induction rest generalizing a with
    | nil => simp [flat]
    | cons q qs ih =>
      simp only [List.foldl_cons]
      refine (ih (E.node a q.2)).trans ?_
      simp only [flat, leaves]
      -- flat qs ++ (leaves a ++ leaves q.2)  ~  (flat qs ++ leaves q.2) ++ leaves a
      rw [List.append_assoc]
      exact List.Perm.append_left _ List.perm_append_comm

theorem root_leaves_perm (ls : List α) (t : E α) (h : root E.node (ls.map E.leaf) = some t) :
    (leaves t).Perm ls := by
  have := bag_leaves_perm _ t h
  unfold peaksOf at this
  rw [flat_peaksOf] at this
  simpa [flat] using this

theorem emap_eq_on (g g' : α → β) (t : E α) (h : emap g t = emap g' t) : ∀ i ∈ leaves t, g i = g' i := by
  induction t with
  | leaf a => intro i hi; simp [leaves] at hi; subst hi; simpa [emap] using h
  | node l r ihl ihr =>
    simp only [emap, E.node.injEq] at h
    intro i hi
    simp only [leaves, List.mem_append] at hi
    rcases hi with hi | hi
    · exact ihl h.1 i hi
    · exact ihr h.2 i hi

/-- symbolic tree of a leaf list, as the index tree relabelled -/
theorem root_as_index_tree (ls : List α) :
    (root E.node (ls.map E.leaf)).map (emap some)
      = (root E.node ((List.range ls.length).map E.leaf)).map (emap fun i => ls[i]?) := by
  rw [← root_map E.node E.node (emap some) (fun _ _ => rfl),
      ← root_map E.node E.node (emap fun i => ls[i]?) (fun _ _ => rfl)]
  congr 1
  apply List.ext_getElem
  · simp
  · intro i h1 h2
    simp only [List.length_map] at h1
    simp [emap, h1]

theorem emap_some_inj (t t' : E α) (h : emap some t = emap some t') : t = t' := by
  induction t generalizing t' with
  | leaf a => cases t' with
    | leaf b => simpa [emap] using h
    | node _ _ => simp [emap] at h
  | node l r ihl ihr => cases t' with
    | leaf b => simp [emap] at h
    | node l' r' =>
      simp only [emap, E.node.injEq] at h
      rw [ihl l' h.1, ihr r' h.2]

/-- symbolic injectivity: the builder's tree determines the ordered leaf list -/
theorem symbolic_inj (ls ls' : List α) (t : E α)
    (h : root E.node (ls.map E.leaf) = some t) (h' : root E.node (ls'.map E.leaf) = some t) : ls = ls' := by
  have hlen : ls.length = ls'.length :=
    ((root_leaves_perm ls t h).symm.trans (root_leaves_perm ls' t h')).length_eq
  have e := root_as_index_tree ls
  have e' := root_as_index_tree ls'
  rw [h] at e; rw [h', ← hlen] at e'
  cases hT : root E.node ((List.range ls.length).map E.leaf) with
  | none => rw [hT] at e; simp at e
  | some tn =>
    rw [hT] at e e'
    simp only [Option.map_some, Option.some.injEq] at e e'
    have hon := emap_eq_on _ _ tn (e.symm.trans e')
    have hperm := root_leaves_perm (List.range ls.length) tn hT
    apply List.ext_getElem?
    intro i
    by_cases hi : i < ls.length
    · exact hon i (hperm.mem_iff.mpr (List.mem_range.mpr hi))
    · rw [List.getElem?_eq_none (by omega), List.getElem?_eq_none (by omega)]

/-- **Root injectivity (C10, C12, C11):** two leaf lists with the same MMR root are equal, when merge is
injective and no leaf is a merge value. No bound on the number of leaves. -/
theorem root_injective (m : α → α → α)
    (hinj : ∀ a b c d, m a b = m c d → a = c ∧ b = d)
    (ls ls' : List α) (hl : ∀ a ∈ ls, ¬ IsMerge m a) (hl' : ∀ a ∈ ls', ¬ IsMerge m a)
    (r : α) (h : root m ls = some r) (h' : root m ls' = some r) : ls = ls' := by
  rw [eval_leafmap] at h h'
  cases hT : root E.node (ls.map E.leaf) with
  | none => rw [hT] at h; simp at h
  | some t =>
    cases hT' : root E.node (ls'.map E.leaf) with
    | none => rw [hT'] at h'; simp at h'
    | some t' =>
      rw [hT] at h; rw [hT'] at h'
      simp only [Option.map_some, Option.some.injEq] at h h'
      have hp := root_leaves_perm ls t hT
      have hp' := root_leaves_perm ls' t' hT'
      have : t = t' := eval_injective m hinj t t'
        (fun a ha => hl a (hp.mem_iff.mp ha)) (fun a ha => hl' a (hp'.mem_iff.mp ha)) (h.trans h'.symm)
      subst this
      exact symbolic_inj ls ls' t hT hT'

#print axioms root_injective

-- sanity: the model's shape on 5 and 7 leaves with string concatenation as merge
#eval root (fun a b => "(" ++ a ++ b ++ ")") ["a","b","c","d","e"]
#eval root (fun a b => "(" ++ a ++ b ++ ")") ["a","b","c","d","e","f","g"]
end MmrBuild
