import MithrilModel.LotteryProofs
/-! Monotonicity of the lottery decision in the stake (the exponent `x`): a win at `x` excludes an early
"lost" exit at every larger `x'`. Purely algebraic (no real exponential). -/
namespace Lottery
open Finset

theorem T_mono {x x' : Rat} (hx : 0 ≤ x) (h : x ≤ x') (k : Nat) : T x k ≤ T x' k := by
  unfold T
  apply div_le_div_of_nonneg_right (pow_le_pow_left₀ hx h k)
  exact_mod_cast (Nat.factorial_pos k).le

theorem S_mono {x x' : Rat} (hx : 0 ≤ x) (h : x ≤ x') (k : Nat) : S x k ≤ S x' k := by
  unfold S
  apply Finset.sum_le_sum
  intro m _
  exact T_mono hx h m

theorem S_succ (x : Rat) (k : Nat) : S x (k + 1) = S x k + T x k := by
  unfold S T; rw [Finset.sum_range_succ]

theorem S_mono_k {x : Rat} (hx : 0 ≤ x) {k l : Nat} (h : k ≤ l) : S x k ≤ S x l := by
  induction l with
  | zero => have : k = 0 := by omega
            subst this; exact le_refl _
  | succ l ih =>
    by_cases hk : k = l + 1
    · subst hk; exact le_refl _
    · have := ih (by omega)
      rw [S_succ]
      have := T_nonneg hx l
      linarith

/-- if the run at `x` (from round `j`) answers `true`, then no round `k > j` of the run at any
`x' ≥ x` can take the early "lost" exit `cmp > S x' k + 3·T x' k` -/
theorem taylorAux_true_no_early_false (b : Nat) : ∀ (j : Nat) (cmp x x' : Rat), 0 ≤ x → x ≤ x' →
    taylorAux b cmp x (T x j) (S x j) (j : Rat) = true →
    ∀ k, j < k → cmp ≤ S x' k + T x' k * 3 := by
  induction b with
  | zero => intro j cmp x x' _ _ h; simp [taylorAux] at h
  | succ b ih =>
    intro j cmp x x' hx hxx h k hk
    have hx' : 0 ≤ x' := le_trans hx hxx
    rw [round_unfold b j cmp x hx] at h
    split at h
    · simp at h
    · rename_i hnf
      split at h
      · -- true at round j+1: cmp < S x (j+1) - 3 T ≤ S x (j+1) ≤ S x' k
        rename_i ht
        have h1 : cmp < S x (j + 1) := by
          have := T_nonneg hx (j + 1); linarith
        have h2 : S x (j + 1) ≤ S x' k := le_trans (S_mono hx hxx (j + 1)) (S_mono_k hx' (by omega))
        have := T_nonneg hx' k
        linarith
      · -- undecided at round j+1
        by_cases hk1 : k = j + 1
        · subst hk1
          have h1 : cmp ≤ S x (j + 1) + T x (j + 1) * 3 := not_lt.mp hnf
          have := S_mono hx hxx (j + 1)
          have := T_mono hx hxx (j + 1)
          linarith
        · exact ih (j + 1) cmp x x' hx hxx h k (by omega)

/-- **C08 monotone in stake, early-exit form**: a draw that wins with exponent `x` is never decided "lost"
by an early exit with a larger exponent `x'` (larger stake); a "lost" at `x'` can then only be the
fall-through after all rounds stayed undecided (inside the band). -/
theorem taylor_true_no_early_false (b : Nat) (cmp x x' : Rat) (hx : 0 ≤ x) (hxx : x ≤ x')
    (h : taylor b cmp x = true) : ∀ k, 2 ≤ k → cmp ≤ S x' k + T x' k * 3 := by
  intro k hk
  have := taylorAux_true_no_early_false b 1 cmp x x' hx hxx
  simp only [T, S, Finset.sum_range_one, pow_zero, Nat.factorial_zero, Nat.cast_one, div_one, pow_one,
    Nat.factorial_one] at this
  unfold taylor at h
  exact this (by simpa using h) k (by omega)

end Lottery
