import MithrilModel.Agg
namespace Agg

/-! list lemmas -/

theorem findOm_some {e : Nat} {oms : List OM} {o : OM} (h : findOm e oms = some o) : o ∈ oms ∧ o.entity = e := by
  induction oms with
  | nil => simp [findOm] at h
  | cons x r ih =>
    simp only [findOm] at h
    split at h
    · rename_i hx; simp at h; subst h; exact ⟨by simp, hx⟩
    · obtain ⟨a, b⟩ := ih h; exact ⟨List.mem_cons_of_mem _ a, b⟩

theorem findOm_none {e : Nat} {oms : List OM} (h : findOm e oms = none) : ∀ o ∈ oms, o.entity ≠ e := by
  induction oms with
  | nil => intro o ho; simp at ho
  | cons x r ih =>
    simp only [findOm] at h
    split at h
    · simp at h
    · rename_i hx
      intro o ho
      rcases List.mem_cons.mp ho with rfl | ho
      · exact hx
      · exact ih h o ho

/-- an updater that keeps entity and epoch and can only raise `certified` -/
def Mono (f : OM → OM) : Prop := ∀ o, (f o).entity = o.entity ∧ (f o).epoch = o.epoch ∧ (o.certified = true → (f o).certified = true)

theorem mem_updOm {e : Nat} {f : OM → OM} {oms : List OM} {o : OM} (h : o ∈ updOm e f oms) :
    ∃ o0 ∈ oms, o = o0 ∨ (o0.entity = e ∧ o = f o0) := by
  induction oms with
  | nil => simp [updOm] at h
  | cons x r ih =>
    simp only [updOm] at h
    split at h
    · rename_i hx
      rcases List.mem_cons.mp h with rfl | h
      · exact ⟨x, by simp, Or.inr ⟨hx, rfl⟩⟩
      · exact ⟨o, List.mem_cons_of_mem _ h, Or.inl rfl⟩
    · rcases List.mem_cons.mp h with rfl | h
      · exact ⟨o, by simp, Or.inl rfl⟩
      · obtain ⟨o0, h0, h1⟩ := ih h
        exact ⟨o0, List.mem_cons_of_mem _ h0, h1⟩

theorem updOm_keeps {e : Nat} {f : OM → OM} (hf : Mono f) {oms : List OM} {o : OM} (h : o ∈ oms) :
    ∃ o' ∈ updOm e f oms, o'.entity = o.entity ∧ o'.epoch = o.epoch ∧ (o.certified = true → o'.certified = true) := by
  induction oms with
  | nil => simp at h
  | cons x r ih =>
    simp only [updOm]
    split
    · rcases List.mem_cons.mp h with rfl | h
      · exact ⟨f o, by simp, (hf o).1, (hf o).2.1, (hf o).2.2⟩
      · exact ⟨o, List.mem_cons_of_mem _ h, rfl, rfl, id⟩
    · rcases List.mem_cons.mp h with rfl | h
      · exact ⟨o, by simp, rfl, rfl, id⟩
      · obtain ⟨o', h0, h1⟩ := ih h
        exact ⟨o', List.mem_cons_of_mem _ h0, h1⟩

theorem updOm_pairwise {e : Nat} {f : OM → OM} (hf : Mono f) {oms : List OM}
    (h : oms.Pairwise (fun a b => a.entity ≠ b.entity)) :
    (updOm e f oms).Pairwise (fun a b => a.entity ≠ b.entity) := by
  induction oms with
  | nil => simp [updOm]
  | cons x r ih =>
    obtain ⟨h1, h2⟩ := List.pairwise_cons.mp h
    simp only [updOm]
    split
    · refine List.pairwise_cons.mpr ⟨?_, h2⟩
      intro b hb; rw [(hf x).1]; exact h1 b hb
    · refine List.pairwise_cons.mpr ⟨?_, ih h2⟩
      intro b hb
      obtain ⟨o0, h0, h3⟩ := mem_updOm hb
      rcases h3 with rfl | ⟨_, rfl⟩
      · exact h1 _ h0
      · rw [(hf o0).1]; exact h1 _ h0

theorem updOm_sets {e : Nat} {f : OM → OM} {oms : List OM} {o : OM} (h : findOm e oms = some o) :
    f o ∈ updOm e f oms := by
  induction oms with
  | nil => simp [findOm] at h
  | cons x r ih =>
    simp only [findOm] at h
    simp only [updOm]
    split at h
    · rename_i hx; simp at h; subst h; simp [hx]
    · rename_i hx; simp only [hx, if_false]; exact List.mem_cons_of_mem _ (ih h)

theorem pairwise_unique {oms : List OM} (h : oms.Pairwise (fun a b => a.entity ≠ b.entity))
    {a b : OM} (ha : a ∈ oms) (hb : b ∈ oms) (he : a.entity = b.entity) : a = b := by
  induction oms with
  | nil => simp at ha
  | cons x r ih =>
    obtain ⟨h1, h2⟩ := List.pairwise_cons.mp h
    rcases List.mem_cons.mp ha with rfl | ha'
    · rcases List.mem_cons.mp hb with rfl | hb'
      · rfl
      · exact absurd he (h1 b hb')
    · rcases List.mem_cons.mp hb with rfl | hb'
      · exact absurd he.symm (h1 a ha')
      · exact ih h2 ha' hb'

/-! the invariant -/

def Inv (E : Env) (s : St) : Prop :=
  (∀ c ∈ s.certs, ∀ e, c.entity = some e →
      (∃ o ∈ s.oms, o.entity = e ∧ o.certified = true) ∨ E.entityEpoch e < s.cleaned) ∧
  s.oms.Pairwise (fun a b => a.entity ≠ b.entity) ∧
  (∀ o ∈ s.oms, o.epoch = E.entityEpoch o.entity ∧ s.cleaned ≤ o.epoch) ∧
  (∀ c1 ∈ s.certs, ∀ c2 ∈ s.certs, ∀ e, c1.entity = some e → c2.entity = some e → c1 = c2) ∧
  s.cleaned ≤ s.seen

/-- changing only the open messages through a monotone updater keeps the invariant -/
theorem inv_updOm (E : Env) (s : St) (e : Nat) (f : OM → OM) (hf : Mono f) (h : Inv E s) :
    Inv E { s with oms := updOm e f s.oms } := by
  obtain ⟨j1, j2, j3, j5, j4⟩ := h
  refine ⟨?_, updOm_pairwise hf j2, ?_, j5, j4⟩
  · intro c hc e' he'
    rcases j1 c hc e' he' with ⟨o, ho, h1, h2⟩ | h
    · obtain ⟨o', ho', h3, _, h5⟩ := updOm_keeps (e := e) hf ho
      exact Or.inl ⟨o', ho', h3.trans h1, h5 h2⟩
    · exact Or.inr h
  · intro o ho
    obtain ⟨o0, h0, h1⟩ := mem_updOm ho
    rcases h1 with rfl | ⟨_, rfl⟩
    · exact j3 _ h0
    · rw [(hf o0).1, (hf o0).2.1]; exact j3 _ h0

theorem markExpired_mono (now : Nat) : Mono (expireFn now) := by
  intro o
  unfold expireFn
  split
  · split <;> simp
  · simp

theorem certify_mono : Mono (fun o => { o with certified := true }) := fun _ => ⟨rfl, rfl, fun _ => rfl⟩

theorem inv_markExpired (E : Env) (s : St) (now e : Nat) (h : Inv E s) :
    Inv E { s with oms := markExpired now e s.oms } :=
  inv_updOm E s e (expireFn now) (markExpired_mono now) h

end Agg

namespace Agg

theorem inv_append_om (E : Env) (s : St) (o : OM) (h : Inv E s)
    (hfresh : ∀ x ∈ s.oms, x.entity ≠ o.entity) (hep : o.epoch = E.entityEpoch o.entity)
    (hcl : s.cleaned ≤ o.epoch) : Inv E { s with oms := s.oms ++ [o] } := by
  obtain ⟨j1, j2, j3, j5, j4⟩ := h
  refine ⟨?_, ?_, ?_, j5, j4⟩
  · intro c hc e he
    rcases j1 c hc e he with ⟨x, hx, h1⟩ | h
    · exact Or.inl ⟨x, List.mem_append_left _ hx, h1⟩
    · exact Or.inr h
  · refine List.pairwise_append.mpr ⟨j2, by simp, ?_⟩
    intro a ha b hb
    simp only [List.mem_singleton] at hb; subst hb
    exact hfresh a ha
  · intro x hx
    rcases List.mem_append.mp hx with hx | hx
    · exact j3 x hx
    · simp only [List.mem_singleton] at hx; subst hx; exact ⟨hep, hcl⟩

theorem scan_inv (E : Env) (tp : Tp) : ∀ (l : List Nat) (s : St), Inv E s →
    (∀ e ∈ l, E.entityEpoch e = tp.epoch) → s.cleaned ≤ tp.epoch →
    Inv E { s with oms := (scan E tp l s.oms).1 } := by
  intro l
  induction l with
  | nil => intro s h _ _; simpa [scan] using h
  | cons e r ih =>
    intro s h hav hcl
    have h1 := inv_markExpired E s tp.now e h
    simp only [scan]
    split
    · rename_i hnone
      have := inv_append_om E { s with oms := markExpired tp.now e s.oms }
        { entity := e, epoch := E.entityEpoch e, msg := tp.newmsg, certified := false, expired := false,
          expiresAt := (E.timeout e).map (· + tp.now) } h1
        (fun x hx => findOm_none hnone x hx) rfl
        (by simpa [hav e (by simp)] using hcl)
      simpa using this
    · rename_i o hsome
      split
      · simpa using h1
      · have := ih { s with oms := markExpired tp.now e s.oms } h1
          (fun e' he' => hav e' (List.mem_cons_of_mem _ he')) hcl
        simpa using this

theorem createCertificate_inv (E : Env) (s : St) (e : Nat) (h : Inv E s) :
    Inv E (createCertificate E s e) := by
  unfold createCertificate
  split
  · exact h
  · rename_i o ho
    split
    · exact h
    · rename_i hflags
      split
      · exact h
      · rename_i m hm
        split
        · -- a certificate is inserted
          obtain ⟨hom, hoe⟩ := findOm_some ho
          have hnc : o.certified = false := by
            cases hc : o.certified <;> simp_all
          obtain ⟨j1, j2, j3, j5, j4⟩ := h
          -- no certificate for this entity exists yet
          have hnone : ∀ c ∈ s.certs, c.entity ≠ some e := by
            intro c hc hce
            rcases j1 c hc e hce with ⟨o', ho', h1, h2⟩ | hlt
            · have : o' = o := pairwise_unique j2 ho' hom (h1.trans hoe.symm)
              subst this; simp_all
            · have := (j3 o hom); rw [hoe] at this; omega
          refine ⟨?_, updOm_pairwise certify_mono j2, ?_, ?_, j4⟩
          · intro c hc e' he'
            rcases List.mem_append.mp hc with hc | hc
            · rcases j1 c hc e' he' with ⟨o', ho', h1, h2⟩ | hlt
              · obtain ⟨o'', ho'', h3, _, h5⟩ := updOm_keeps (e := e) certify_mono ho'
                exact Or.inl ⟨o'', ho'', h3.trans h1, h5 h2⟩
              · exact Or.inr hlt
            · simp only [List.mem_singleton] at hc; subst hc
              simp only [Option.some.injEq] at he'; subst he'
              exact Or.inl ⟨_, updOm_sets (f := fun o => { o with certified := true }) ho, hoe, rfl⟩
          · intro x hx
            obtain ⟨o0, h0, h1⟩ := mem_updOm hx
            rcases h1 with rfl | ⟨_, rfl⟩
            · exact j3 _ h0
            · exact j3 o0 h0
          · intro c1 hc1 c2 hc2 e' h1 h2
            rcases List.mem_append.mp hc1 with hc1 | hc1 <;> rcases List.mem_append.mp hc2 with hc2 | hc2
            · exact j5 c1 hc1 c2 hc2 e' h1 h2
            · simp only [List.mem_singleton] at hc2; subst hc2
              simp only [Option.some.injEq] at h2; subst h2
              exact absurd h1 (hnone c1 hc1)
            · simp only [List.mem_singleton] at hc1; subst hc1
              simp only [Option.some.injEq] at h1; subst h1
              exact absurd h2 (hnone c2 hc2)
            · simp only [List.mem_singleton] at hc1 hc2; rw [hc1, hc2]
        · exact h

end Agg

namespace Agg

theorem createCertificate_seen (E : Env) (s : St) (e : Nat) : (createCertificate E s e).seen = s.seen := by
  unfold createCertificate
  repeat' split
  all_goals rfl

/-- the invariant only reads the open messages, the certificates and the two ghost epochs -/
theorem inv_of_core (E : Env) {s s' : St} (h : Inv E s) (h1 : s'.oms = s.oms) (h2 : s'.certs = s.certs)
    (h3 : s'.cleaned = s.cleaned) (h4 : s'.seen = s.seen) : Inv E s' := by
  unfold Inv at *
  rw [h1, h2, h3, h4]; exact h

theorem inv_rt (E : Env) (s : St) (r : Rt) (h : Inv E s) : Inv E { s with rt := r } := h

theorem inv_seen (E : Env) (s : St) (n : Nat) (h : Inv E s) (hn : s.seen ≤ n) : Inv E { s with seen := n } := by
  obtain ⟨j1, j2, j3, j5, j4⟩ := h
  exact ⟨j1, j2, j3, j5, Nat.le_trans j4 hn⟩

/-- epoch clean-up (inside `epochInit`) together with the bump of `seen` -/
theorem inv_clean (E : Env) (s : St) (tp : Tp) (h : Inv E s) (hs : s.seen ≤ tp.epoch) :
    Inv E { epochInit s tp with seen := tp.epoch } := by
  obtain ⟨j1, j2, j3, j5, j4⟩ := h
  refine ⟨?_, j2.sublist List.filter_sublist, ?_, j5, ?_⟩
  · intro c hc e he
    rcases j1 c hc e he with ⟨o, ho, h1, h2⟩ | hlt
    · by_cases hk : tp.epoch ≤ o.epoch
      · exact Or.inl ⟨o, List.mem_filter.mpr ⟨ho, by simpa using hk⟩, h1, h2⟩
      · right
        have := (j3 o ho).1
        rw [h1] at this
        show E.entityEpoch e < max s.cleaned tp.epoch
        omega
    · right; show E.entityEpoch e < max s.cleaned tp.epoch; omega
  · intro o ho
    obtain ⟨ho1, ho2⟩ := List.mem_filter.mp ho
    have hk : tp.epoch ≤ o.epoch := by simpa using ho2
    have := j3 o ho1
    exact ⟨this.1, by show max s.cleaned tp.epoch ≤ o.epoch; omega⟩
  · show max s.cleaned tp.epoch ≤ tp.epoch; omega

/-! signatures, buffer, registrations: outside the invariant's footprint -/

theorem storeSig_core (s : St) (e : Nat) (g : Sig) :
    (storeSig s e g).oms = s.oms ∧ (storeSig s e g).certs = s.certs ∧
    (storeSig s e g).cleaned = s.cleaned ∧ (storeSig s e g).seen = s.seen := ⟨rfl, rfl, rfl, rfl⟩

theorem handOverGo_core (e : Nat) : ∀ (l : List BufSig) (s : St) (r : List Nat),
    (handOverGo s e l r).1.oms = s.oms ∧ (handOverGo s e l r).1.certs = s.certs ∧
    (handOverGo s e l r).1.cleaned = s.cleaned ∧ (handOverGo s e l r).1.seen = s.seen ∧
    (handOverGo s e l r).1.rt = s.rt := by
  intro l
  induction l with
  | nil => intro s r; exact ⟨rfl, rfl, rfl, rfl, rfl⟩
  | cons b rest ih =>
    intro s r
    simp only [handOverGo]
    split
    · have := ih (storeSig s e b.sig) (b.sig.party :: r)
      exact this
    · exact ih s r
    · exact ⟨rfl, rfl, rfl, rfl, rfl⟩

theorem handOver_core (E : Env) (s : St) (e : Nat) :
    (handOver E s e).1.oms = s.oms ∧ (handOver E s e).1.certs = s.certs ∧
    (handOver E s e).1.cleaned = s.cleaned ∧ (handOver E s e).1.seen = s.seen ∧ (handOver E s e).1.rt = s.rt := by
  unfold handOver
  have h := handOverGo_core e ((s.buf.filter (·.disc = E.entityDisc e)).reverse) s []
  dsimp only
  split
  · rename_i s1 removed heq
    rw [heq] at h
    exact h
  · rename_i s1 heq
    rw [heq] at h
    exact h

theorem registerSig_inv (E : Env) (s : St) (e : Nat) (g : Sig) (h : Inv E s) : Inv E (registerSig E s e g) := by
  unfold registerSig
  split
  · exact inv_of_core E h rfl rfl rfl rfl
  · exact inv_of_core E h rfl rfl rfl rfl
  · exact h

theorem register_inv (E : Env) (s : St) (k p : Nat) (h : Inv E s) : Inv E (register s k p) := by
  unfold register
  split
  · exact inv_of_core E h rfl rfl rfl rfl
  · exact h

theorem expire_mono : Mono (fun o => { o with expiresAt := some 0 }) := fun _ => ⟨rfl, rfl, fun h => h⟩

/-- well-formed tick input: epochs never go back, and the entities offered belong to the epoch -/
def Wf (E : Env) (s : St) (tp : Tp) : Prop :=
  s.seen ≤ tp.epoch ∧ ∀ e ∈ tp.avail, E.entityEpoch e = tp.epoch

theorem idleStep_inv (E : Env) (s : St) (tp : Tp) (last : Option Nat) (h : Inv E s) (hseen : s.seen ≤ tp.epoch) :
    Inv E { idleStep s tp last with seen := tp.epoch } := by
  have hc := inv_clean E s tp h hseen
  have hn := inv_seen E s tp.epoch h hseen
  unfold idleStep
  dsimp only
  cases hrun : (last.isNone || last.any (· < tp.epoch))
  · simp only [Bool.false_and, Bool.false_eq_true, if_false]
    repeat' split
    all_goals exact hn
  · simp only [Bool.true_and, if_true]
    repeat' split
    all_goals exact hc

theorem readyStep_core (E : Env) (s : St) (tp : Tp) :
    (readyStep E s tp).oms = (scan E tp tp.avail s.oms).1 ∧ (readyStep E s tp).certs = s.certs ∧
    (readyStep E s tp).cleaned = s.cleaned ∧ (readyStep E s tp).seen = s.seen := by
  unfold readyStep
  split
  · rename_i oms' e heq
    rw [heq]
    dsimp only
    split
    · exact ⟨rfl, rfl, rfl, rfl⟩
    · have hcore := handOver_core E { s with oms := oms' } e
      split
      · rename_i s2 heq2
        rw [heq2] at hcore
        exact ⟨hcore.1, hcore.2.1, hcore.2.2.1, hcore.2.2.2.1⟩
      · rename_i s2 heq2
        rw [heq2] at hcore
        exact ⟨hcore.1, hcore.2.1, hcore.2.2.1, hcore.2.2.2.1⟩
  · rename_i oms' heq
    rw [heq]
    exact ⟨rfl, rfl, rfl, rfl⟩

theorem signingStep_inv (E : Env) (s : St) (tp : Tp) (ep e : Nat) (h : Inv E s) (hseen : s.seen ≤ tp.epoch) :
    Inv E { signingStep E s tp ep e with seen := tp.epoch } := by
  have h1 := inv_markExpired E s tp.now e h
  have hA := inv_seen E _ tp.epoch h1 hseen
  have hB := inv_seen E _ tp.epoch (createCertificate_inv E _ e h1)
    (by rw [createCertificate_seen]; exact hseen)
  unfold signingStep
  dsimp only
  repeat' split
  all_goals first
    | exact hA
    | exact hB

theorem tick_inv (E : Env) (s : St) (tp : Tp) (h : Inv E s) (hw : Wf E s tp) :
    Inv E { tick E s tp with seen := tp.epoch } := by
  obtain ⟨hseen, hav⟩ := hw
  have hcl : s.cleaned ≤ tp.epoch := Nat.le_trans h.2.2.2.2 hseen
  unfold tick
  split
  · exact idleStep_inv E s tp _ h hseen
  · split <;> exact inv_seen E _ tp.epoch h hseen
  · split
    · exact inv_seen E _ tp.epoch h hseen
    · have hsc := scan_inv E tp tp.avail s h hav hcl
      have hA := inv_seen E _ tp.epoch hsc hseen
      have hcore := readyStep_core E s tp
      exact inv_of_core E hA hcore.1 hcore.2.1 hcore.2.2.1 rfl
  · exact signingStep_inv E s tp _ _ h hseen

/-- events with their well-formedness condition -/
def EvWf (E : Env) (s : St) : Event → Prop
  | .tick tp => Wf E s tp
  | .crash _ _ => False          -- C14 quantifies over runs without mid-tick crashes (those are C15)
  | _ => True

theorem step_inv (E : Env) (s : St) (ev : Event) (h : Inv E s) (hw : EvWf E s ev) : Inv E (step E s ev) := by
  cases ev with
  | tick tp => exact tick_inv E s tp h hw
  | signature e g => exact registerSig_inv E s e g h
  | register k p => exact register_inv E s k p h
  | expire e => exact inv_updOm E s e _ expire_mono h
  | restart => exact h
  | crash tp p => exact hw.elim

/-- runs: every event is well formed in the state it meets -/
def RunWf (E : Env) : St → List Event → Prop
  | _, [] => True
  | s, ev :: r => EvWf E s ev ∧ RunWf E (step E s ev) r

theorem run_inv (E : Env) : ∀ (evs : List Event) (s : St), Inv E s → RunWf E s evs → Inv E (evs.foldl (step E) s) := by
  intro evs
  induction evs with
  | nil => intro s h _; exact h
  | cons ev r ih => intro s h hw; exact ih _ (step_inv E s ev h hw.1) hw.2

/-- **No signed entity is certified twice**, along any run of ticks, signature arrivals (direct or
buffered), registrations, expiries and restarts between ticks, from any state satisfying the
invariant (e.g. right after genesis). -/
theorem no_double_certification (E : Env) (s : St) (evs : List Event) (h : Inv E s) (hw : RunWf E s evs) :
    ∀ c1 ∈ (evs.foldl (step E) s).certs, ∀ c2 ∈ (evs.foldl (step E) s).certs,
      ∀ e, c1.entity = some e → c2.entity = some e → c1 = c2 :=
  (run_inv E evs s h hw).2.2.2.1

/-- the initial state after a genesis certificate satisfies the invariant -/
theorem inv_init (E : Env) (n g : Nat) : Inv E (init n g) := by
  refine ⟨?_, List.Pairwise.nil, by simp [init], ?_, Nat.zero_le _⟩
  · intro c hc e he; simp [init] at hc; subst hc; simp at he
  · intro c1 hc1 c2 hc2 e h1 h2; simp [init] at hc1; subst hc1; simp at h1

end Agg
