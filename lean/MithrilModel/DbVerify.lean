namespace DbVerify

/-- file names and digests as numbers; `dir` = the files present with the digest of their content -/
def lookup (k : Nat) : List (Nat × Nat) → Option Nat
  | [] => none
  | (a, b) :: r => if a = k then some b else lookup k r

structure Result where
  missing : List Nat
  tampered : List Nat
  nonVerifiable : List Nat
deriving Repr, DecidableEq

/-- `verify_cardano_database` as it is: membership of every computed digest among the certified
*values*; the per-name lists are only computed when that fails -/
def verifyCurrent (certified dir : List (Nat × Nat)) (range : List Nat) (allowMissing : Bool) :
    Except Result Unit :=
  let missing := if allowMissing then [] else range.filter (fun n => (lookup n dir).isNone)
  let present := dir.filter (fun f => range.contains f.1)
  let proofOk := present.all (fun f => certified.any (fun c => c.2 = f.2))
  if proofOk && missing.isEmpty then .ok ()
  else
    let tampered := if proofOk then [] else
      (present.filter (fun f => match lookup f.1 certified with | some d => d ≠ f.2 | none => false)).map (·.1)
    let nonVer := if proofOk then [] else
      (present.filter (fun f => (lookup f.1 certified).isNone)).map (·.1)
    .error { missing := missing, tampered := tampered, nonVerifiable := nonVer }

/-- repaired: the per-name comparison is also required on the success path -/
def verifyFixed (certified dir : List (Nat × Nat)) (range : List Nat) (allowMissing : Bool) :
    Except Result Unit :=
  let missing := if allowMissing then [] else range.filter (fun n => (lookup n dir).isNone)
  let present := dir.filter (fun f => range.contains f.1)
  let tampered := (present.filter (fun f => match lookup f.1 certified with | some d => d ≠ f.2 | none => false)).map (·.1)
  let nonVer := (present.filter (fun f => (lookup f.1 certified).isNone)).map (·.1)
  if missing.isEmpty && tampered.isEmpty && nonVer.isEmpty then .ok ()
  else .error { missing := missing, tampered := tampered, nonVerifiable := nonVer }

/-- contents of files 1 and 2 exchanged: accepted by the code as it is, rejected after the repair -/
theorem swap_counterexample :
    verifyCurrent [(1, 11), (2, 22)] [(1, 22), (2, 11)] [1, 2] false = .ok () ∧
    verifyFixed [(1, 11), (2, 22)] [(1, 22), (2, 11)] [1, 2] false
      = .error { missing := [], tampered := [1, 2], nonVerifiable := [] } := by
  exact ⟨rfl, rfl⟩

theorem fixed_sound (certified dir : List (Nat × Nat)) (range : List Nat) (allowMissing : Bool)
    (h : verifyFixed certified dir range allowMissing = .ok ()) :
    (allowMissing = false → ∀ n ∈ range, (lookup n dir).isSome) ∧
    (∀ f ∈ dir, f.1 ∈ range → lookup f.1 certified = some f.2) := by
  unfold verifyFixed at h
  have key : ∀ (h2 : ∀ (a b : Nat), (a, b) ∈ dir →
        (match lookup a certified with | some d => !decide (d = b) | none => false) = true → ¬a ∈ range)
      (h3 : ∀ (a b : Nat), (a, b) ∈ dir → lookup a certified = none → ¬a ∈ range),
      ∀ f ∈ dir, f.1 ∈ range → lookup f.1 certified = some f.2 := by
    intro h2 h3 f hf hr
    obtain ⟨a, b⟩ := f
    cases hl : lookup a certified with
    | none => exact absurd hr (h3 a b hf hl)
    | some d =>
      by_cases hd : d = b
      · simp [hd]
      · exact absurd hr (h2 a b hf (by simp [hl, hd]))
  cases allowMissing
  · simp at h
    obtain ⟨h1, h2, h3⟩ := h
    refine ⟨fun _ n hn => ?_, key h2 h3⟩
    have := h1 n hn
    cases hl : lookup n dir <;> simp_all
  · simp at h
    obtain ⟨h2, h3⟩ := h
    exact ⟨fun hh => by simp at hh, key h2 h3⟩

#print axioms fixed_sound
end DbVerify
