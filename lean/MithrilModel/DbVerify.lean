import MithrilModel.MmrBuild
namespace DbVerify

/-- file names and digests as numbers; `dir` = the files present with the digest of their content -/
def lookup (k : Nat) : List (Nat × Nat) → Option Nat
  | [] => none
  | (a, b) :: r => if a = k then some b else lookup k r

structure Result where
  missing : List Nat
  tampered : List Nat
  nonVerifiable : List Nat
deriving Repr, DecidableEq

/-- `verify_cardano_database` as it is: membership of every computed digest among the certified
*values*; the per-name lists are only computed when that fails -/
def verifyCurrent (certified dir : List (Nat × Nat)) (range : List Nat) (allowMissing : Bool) :
    Except Result Unit :=
  let missing := if allowMissing then [] else range.filter (fun n => (lookup n dir).isNone)
  let present := dir.filter (fun f => range.contains f.1)
  let proofOk := present.all (fun f => certified.any (fun c => c.2 = f.2))
  if proofOk && missing.isEmpty then .ok ()
  else
    let tampered := if proofOk then [] else
      (present.filter (fun f => match lookup f.1 certified with | some d => d ≠ f.2 | none => false)).map (·.1)
    let nonVer := if proofOk then [] else
      (present.filter (fun f => (lookup f.1 certified).isNone)).map (·.1)
    .error { missing := missing, tampered := tampered, nonVerifiable := nonVer }

/-- repaired: the per-name comparison is also required on the success path -/
def verifyFixed (certified dir : List (Nat × Nat)) (range : List Nat) (allowMissing : Bool) :
    Except Result Unit :=
  let missing := if allowMissing then [] else range.filter (fun n => (lookup n dir).isNone)
  let present := dir.filter (fun f => range.contains f.1)
  let tampered := (present.filter (fun f => match lookup f.1 certified with | some d => d ≠ f.2 | none => false)).map (·.1)
  let nonVer := (present.filter (fun f => (lookup f.1 certified).isNone)).map (·.1)
  if missing.isEmpty && tampered.isEmpty && nonVer.isEmpty then .ok ()
  else .error { missing := missing, tampered := tampered, nonVerifiable := nonVer }

/-- contents of files 1 and 2 exchanged: accepted by the code as it is, rejected after the repair -/
theorem swap_counterexample :
    verifyCurrent [(1, 11), (2, 22)] [(1, 22), (2, 11)] [1, 2] false = .ok () ∧
    verifyFixed [(1, 11), (2, 22)] [(1, 22), (2, 11)] [1, 2] false
      = .error { missing := [], tampered := [1, 2], nonVerifiable := [] } := by
  exact ⟨rfl, rfl⟩

theorem fixed_sound (certified dir : List (Nat × Nat)) (range : List Nat) (allowMissing : Bool)
    (h : verifyFixed certified dir range allowMissing = .ok ()) :
    (allowMissing = false → ∀ n ∈ range, (lookup n dir).isSome) ∧
    (∀ f ∈ dir, f.1 ∈ range → lookup f.1 certified = some f.2) := by
  unfold verifyFixed at h
  have key : ∀ (h2 : ∀ (a b : Nat), (a, b) ∈ dir →
        (match lookup a certified with | some d => !decide (d = b) | none => false) = true → ¬a ∈ range)
      (h3 : ∀ (a b : Nat), (a, b) ∈ dir → lookup a certified = none → ¬a ∈ range),
      ∀ f ∈ dir, f.1 ∈ range → lookup f.1 certified = some f.2 := by
    intro h2 h3 f hf hr
    obtain ⟨a, b⟩ := f
    cases hl : lookup a certified with
    | none => exact absurd hr (h3 a b hf hl)
    | some d =>
      by_cases hd : d = b
      · simp [hd]
      · exact absurd hr (h2 a b hf (by simp [hl, hd]))
  cases allowMissing
  · simp at h
    obtain ⟨h1, h2, h3⟩ := h
    refine ⟨fun _ n hn => ?_, key h2 h3⟩
    have := h1 n hn
    cases hl : lookup n dir <;> simp_all
  · simp at h
    obtain ⟨h2, h3⟩ := h
    exact ⟨fun hh => by simp at hh, key h2 h3⟩

#print axioms fixed_sound
end DbVerify

/-!
# C10 — the model of the code as it is after the `fix:` commit

`Db.verify` transliterates `InternalArtifactProver::verify_cardano_database`
(`mithril-client/src/cardano_database_client/proving.rs`) together with the parts of
`ImmutableFile::list_all_in_dir` / `CardanoImmutableDigester::compute_digests_for_range` it relies on;
`Db.verifyDigests` transliterates `download_and_verify_digests`. Names are abstract (`Names ν`): the
driver instantiates them with strings, the theorems hold for every instantiation. Digests are abstract
values `δ` (the harness sends SHA-256 values; nothing here depends on the hash function).
-/
namespace Db

/-- what the verifier can see of one entry of `immutable/` -/
inductive Kind (δ : Type) where
  | file (digest : δ)     -- regular file; `digest` = SHA-256 of its content
  | dir                   -- directory
  | link (live : Bool)    -- symbolic link; `live` = the target exists (`Path::exists` follows links)
deriving DecidableEq, Repr

/-- name operations used by the code -/
structure Names (ν : Type) where
  number : ν → Option Nat     -- `ImmutableFile::new`: the file stem parsed as `u64`
  immExt : ν → Bool           -- extension is `chunk`, `primary` or `secondary`
  trio : Nat → List ν         -- `format!("{n:05}.{ext}")` for the three extensions, in that order
  lt : ν → ν → Bool           -- order of names (`BTreeMap<String, _>`, `PathBuf` inside one directory)

inductive Range where
  | full
  | from_ (a : Nat)
  | range (a b : Nat)
  | upTo (b : Nat)
deriving DecidableEq, Repr

/-- `ImmutableFileRange::to_range_inclusive` -/
def Range.bounds : Range → Nat → Option (Nat × Nat)
  | .full, last => some (0, last)
  | .from_ a, last => if a ≤ last then some (a, last) else none
  | .range a b, last => if a ≤ last ∧ b ≤ last ∧ a ≤ b then some (a, b) else none
  | .upTo b, last => if b ≤ last then some (0, b) else none

inductive Verdict (ν : Type) where
  | accepted
  | rejected (missing tampered nonVerifiable : List ν)
  | rangeError
  | digesterError
deriving DecidableEq, Repr

variable {ν δ : Type} [DecidableEq ν] [DecidableEq δ]

def lookup (k : ν) : List (ν × α) → Option α
  | [] => none
  | (a, b) :: r => if a = k then some b else lookup k r

/-- `immutable_dir.join(name).exists()` -/
def present (dir : List (ν × Kind δ)) (n : ν) : Bool :=
  match lookup n dir with
  | some (.link false) => false
  | some _ => true
  | none => false

def numbersIn (lo hi : Nat) : List Nat := (List.range (hi + 1 - lo)).map (· + lo)

/-- `list_missing_immutable_files` -/
def missingNames (N : Names ν) (dir : List (ν × Kind δ)) (lo hi : Nat) : List ν :=
  ((numbersIn lo hi).flatMap N.trio).filter fun n => !present dir n

/-- regular files with an immutable extension (`walk_immutables_in_dir` + `is_immutable`) -/
def immFiles (N : Names ν) : List (ν × Kind δ) → List (ν × δ)
  | [] => []
  | (n, .file d) :: r => if N.immExt n then (n, d) :: immFiles N r else immFiles N r
  | _ :: r => immFiles N r

/-- `ImmutableFile::new` on every listed file; one failure fails the listing -/
def parseAll (N : Names ν) : List (ν × δ) → Option (List (Nat × ν × δ))
  | [] => some []
  | (n, d) :: r =>
    match N.number n, parseAll N r with
    | some k, some l => some ((k, n, d) :: l)
    | _, _ => none

def fileLe (N : Names ν) (a b : Nat × ν × δ) : Bool :=
  a.1 < b.1 || (a.1 == b.1 && !N.lt b.2.1 a.2.1)

/-- insertion sort (structural, so that concrete cases reduce in the kernel); the keys `(number, name)`
are pairwise distinct inside one directory, hence the result is THE sorted list -/
def insertFile (N : Names ν) (e : Nat × ν × δ) : List (Nat × ν × δ) → List (Nat × ν × δ)
  | [] => [e]
  | x :: r => if fileLe N e x then e :: x :: r else x :: insertFile N e r

def sortFiles (N : Names ν) (l : List (Nat × ν × δ)) : List (Nat × ν × δ) := l.foldr (insertFile N) []

/-- `ImmutableFile::list_all_in_dir`: sorted by `(number, path)` -/
def listAll (N : Names ν) (dir : List (ν × Kind δ)) : Option (List (Nat × ν × δ)) :=
  (parseAll N (immFiles N dir)).map (sortFiles N)

def tamperedOf (certified : List (ν × δ)) (computed : List (Nat × ν × δ)) : List ν :=
  computed.filterMap fun e =>
    match lookup e.2.1 certified with
    | some d => if d = e.2.2 then none else some e.2.1
    | none => none

def nonVerifiableOf (certified : List (ν × δ)) (computed : List (Nat × ν × δ)) : List ν :=
  computed.filterMap fun e =>
    match lookup e.2.1 certified with
    | some _ => none
    | none => some e.2.1

/-- names of the range that exist without being regular files (`list_non_regular_immutable_files`,
second fix: a symbolic link or a directory under a certified name is never digested) -/
def nonRegularNames (N : Names ν) (dir : List (ν × Kind δ)) (lo hi : Nat) : List ν :=
  ((numbersIn lo hi).flatMap N.trio).filter fun n =>
    match lookup n dir with
    | some (.file _) => false
    | some _ => true
    | none => false

/-- the final decision of `verify_cardano_database` once the lists are known (after the fix: the
per-name comparison is part of the success path). A proof can be computed iff there is at least one
digest and every digest is a leaf of the certified tree; such a proof is taken to verify
(completeness of the MMR library; compared by K). -/
def conclude (certified : List (ν × δ)) (missing nonRegular : List ν) (computed : List (Nat × ν × δ)) :
    Verdict ν :=
  if (!computed.isEmpty && computed.all fun e => certified.any fun c => decide (c.2 = e.2.2))
      && missing.isEmpty && (tamperedOf certified computed).isEmpty
      && (nonVerifiableOf certified computed ++ nonRegular).isEmpty then .accepted
  else .rejected missing (tamperedOf certified computed) (nonVerifiableOf certified computed ++ nonRegular)

/-- `verify_cardano_database`. `dir = none`: there is no `immutable` directory. -/
def verify (N : Names ν) (certified : List (ν × δ)) (dir : Option (List (ν × Kind δ)))
    (range : Range) (last : Nat) (allowMissing : Bool) : Verdict ν :=
  match range.bounds last with
  | none => .rangeError
  | some (lo, hi) =>
    match dir with
    | none => .digesterError
    | some dir =>
      match listAll N dir with
      | none => .digesterError
      | some all =>
        conclude certified (if allowMissing then [] else missingNames N dir lo hi)
          (nonRegularNames N dir lo hi) (all.filter fun e => decide (lo ≤ e.1) && decide (e.1 ≤ hi))

/-! ## the digest list -/

/-- insertion into a `BTreeMap`: sorted by name, a later binding replaces an earlier one -/
def insertMap (N : Names ν) (e : ν × δ) : List (ν × δ) → List (ν × δ)
  | [] => [e]
  | x :: r => if e.1 = x.1 then e :: r else if N.lt e.1 x.1 then e :: x :: r else x :: insertMap N e r

def toMap (N : Names ν) (l : List (ν × δ)) : List (ν × δ) := l.foldl (fun m e => insertMap N e m) []

/-- the served list as the client keeps it: a map, restricted to names whose number is ≤ the beacon -/
def served (N : Names ν) (l : List (ν × δ)) (last : Nat) : List (ν × δ) :=
  (toMap N l).filter fun e => match N.number e.1 with | some k => decide (k ≤ last) | none => false

/-- `download_and_verify_digests`, root comparison replaced by comparison of the leaf lists
(justified by `root_binding` below: the MMR root determines the ordered leaf list).
`certOk` = the certificate's signed message is the hash of its own protocol message. -/
def verifyDigests (N : Names ν) (l : List (ν × δ)) (last : Nat) (signedLeaves : List δ) (certOk : Bool) :
    Option (List (ν × δ)) :=
  let f := served N l last
  if f.isEmpty then none
  else if certOk && decide (f.map (·.2) = signedLeaves) then some f else none

/-- the same decision on roots, for any merge function -/
def verifyDigestsRoot (m : δ → δ → δ) (N : Names ν) (l : List (ν × δ)) (last : Nat) (signedRoot : δ) :
    Option (List (ν × δ)) :=
  let f := served N l last
  if MmrBuild.root m (f.map (·.2)) = some signedRoot then some f else none

/-! ## lemmas -/

theorem mem_immFiles (N : Names ν) (n : ν) (d : δ) : ∀ (dir : List (ν × Kind δ)),
    (n, d) ∈ immFiles N dir ↔ ((n, Kind.file d) ∈ dir ∧ N.immExt n = true) := by
  intro dir
  induction dir with
  | nil => simp [immFiles]
  | cons e r ih =>
    obtain ⟨a, k⟩ := e
    cases k with
    | file d' =>
      cases hx : N.immExt a with
      | true =>
        simp only [immFiles, hx, if_true, List.mem_cons, ih, Prod.mk.injEq, Kind.file.injEq]
        constructor
        · rintro (⟨rfl, rfl⟩ | ⟨h1, h2⟩)
          · exact ⟨Or.inl ⟨rfl, rfl⟩, hx⟩
          · exact ⟨Or.inr h1, h2⟩
        · rintro ⟨(⟨rfl, rfl⟩ | h1), h2⟩
          · exact Or.inl ⟨rfl, rfl⟩
          · exact Or.inr ⟨h1, h2⟩
      | false =>
        simp only [immFiles, hx, Bool.false_eq_true, if_false, List.mem_cons, ih, Prod.mk.injEq,
          Kind.file.injEq]
        constructor
        · rintro ⟨h1, h2⟩; exact ⟨Or.inr h1, h2⟩
        · rintro ⟨(⟨rfl, rfl⟩ | h1), h2⟩
          · rw [hx] at h2; cases h2
          · exact ⟨h1, h2⟩
    | dir => simp [immFiles, ih]
    | link b => simp [immFiles, ih]

theorem parseAll_mem (N : Names ν) : ∀ (fs : List (ν × δ)) (l : List (Nat × ν × δ)),
    parseAll N fs = some l →
    ∀ k n d, (k, n, d) ∈ l ↔ ((n, d) ∈ fs ∧ N.number n = some k) := by
  intro fs
  induction fs with
  | nil => intro l h; simp [parseAll] at h; subst h; simp
  | cons e r ih =>
    intro l h k n d
    obtain ⟨a, b⟩ := e
    simp only [parseAll] at h
    cases hn : N.number a with
    | none => simp [hn] at h
    | some ka =>
      cases hr : parseAll N r with
      | none => simp [hn, hr] at h
      | some lr =>
        simp only [hn, hr, Option.some.injEq] at h
        subst h
        simp only [List.mem_cons, Prod.mk.injEq, ih lr hr]
        constructor
        · rintro (⟨rfl, rfl, rfl⟩ | ⟨h1, h2⟩)
          · exact ⟨Or.inl ⟨rfl, rfl⟩, hn⟩
          · exact ⟨Or.inr h1, h2⟩
        · rintro ⟨(⟨rfl, rfl⟩ | h1), h2⟩
          · rw [hn] at h2; injection h2 with h2; exact Or.inl ⟨h2.symm, rfl, rfl⟩
          · exact Or.inr ⟨h1, h2⟩

theorem mem_insertFile (N : Names ν) (e x : Nat × ν × δ) (l : List (Nat × ν × δ)) :
    x ∈ insertFile N e l ↔ (x = e ∨ x ∈ l) := by
  induction l with
  | nil => simp [insertFile]
  | cons y r ih =>
    simp only [insertFile]
    split
    · simp
    · simp only [List.mem_cons, ih]
      constructor
      · rintro (h | h | h)
        · exact Or.inr (Or.inl h)
        · exact Or.inl h
        · exact Or.inr (Or.inr h)
      · rintro (h | h | h)
        · exact Or.inr (Or.inl h)
        · exact Or.inl h
        · exact Or.inr (Or.inr h)

theorem mem_sortFiles (N : Names ν) (x : Nat × ν × δ) (l : List (Nat × ν × δ)) :
    x ∈ sortFiles N l ↔ x ∈ l := by
  induction l with
  | nil => simp [sortFiles]
  | cons y r ih =>
    have : sortFiles N (y :: r) = insertFile N y (sortFiles N r) := rfl
    rw [this, mem_insertFile, ih]; simp

/-- what `list_all_in_dir` returns: exactly the regular files with an immutable extension, with their numbers -/
theorem listAll_mem (N : Names ν) (dir : List (ν × Kind δ)) (all : List (Nat × ν × δ))
    (h : listAll N dir = some all) (k : Nat) (n : ν) (d : δ) :
    (k, n, d) ∈ all ↔ ((n, Kind.file d) ∈ dir ∧ N.immExt n = true ∧ N.number n = some k) := by
  unfold listAll at h
  cases hp : parseAll N (immFiles N dir) with
  | none => simp [hp] at h
  | some l =>
    simp only [hp, Option.map_some, Option.some.injEq] at h
    subst h
    rw [mem_sortFiles, parseAll_mem N _ l hp, mem_immFiles]
    constructor
    · rintro ⟨⟨h1, h2⟩, h3⟩; exact ⟨h1, h2, h3⟩
    · rintro ⟨h1, h2, h3⟩; exact ⟨⟨h1, h2⟩, h3⟩

theorem mem_numbersIn (lo hi k : Nat) : k ∈ numbersIn lo hi ↔ (lo ≤ k ∧ k ≤ hi) := by
  simp only [numbersIn, List.mem_map, List.mem_range]
  constructor
  · rintro ⟨a, h1, rfl⟩; omega
  · rintro ⟨h1, h2⟩; exact ⟨k - lo, by omega, by omega⟩

theorem mem_missingNames (N : Names ν) (dir : List (ν × Kind δ)) (lo hi : Nat) (n : ν) :
    n ∈ missingNames N dir lo hi ↔ ((∃ k, lo ≤ k ∧ k ≤ hi ∧ n ∈ N.trio k) ∧ present dir n = false) := by
  simp only [missingNames, List.mem_filter, List.mem_flatMap, mem_numbersIn, Bool.not_eq_true']
  constructor
  · rintro ⟨⟨k, ⟨h1, h2⟩, h3⟩, h4⟩; exact ⟨⟨k, h1, h2, h3⟩, h4⟩
  · rintro ⟨⟨k, h1, h2, h3⟩, h4⟩; exact ⟨⟨k, ⟨h1, h2⟩, h3⟩, h4⟩

theorem mem_tamperedOf (certified : List (ν × δ)) (computed : List (Nat × ν × δ)) (n : ν) :
    n ∈ tamperedOf certified computed ↔
      ∃ k d d', (k, n, d) ∈ computed ∧ lookup n certified = some d' ∧ d' ≠ d := by
  simp only [tamperedOf, List.mem_filterMap]
  constructor
  · rintro ⟨⟨k, a, d⟩, hm, h⟩
    dsimp only at h
    cases hl : lookup a certified with
    | none => simp [hl] at h
    | some d' =>
      by_cases hd : d' = d
      · simp [hl, hd] at h
      · simp [hl, hd] at h; subst h; exact ⟨k, d, d', hm, hl, hd⟩
  · rintro ⟨k, d, d', hm, hl, hd⟩
    exact ⟨(k, n, d), hm, by simp [hl, hd]⟩

theorem mem_nonVerifiableOf (certified : List (ν × δ)) (computed : List (Nat × ν × δ)) (n : ν) :
    n ∈ nonVerifiableOf certified computed ↔
      ∃ k d, (k, n, d) ∈ computed ∧ lookup n certified = none := by
  simp only [nonVerifiableOf, List.mem_filterMap]
  constructor
  · rintro ⟨⟨k, a, d⟩, hm, h⟩
    dsimp only at h
    cases hl : lookup a certified with
    | none => simp [hl] at h; subst h; exact ⟨k, d, hm, hl⟩
    | some d' => simp [hl] at h
  · rintro ⟨k, d, hm, hl⟩
    exact ⟨(k, n, d), hm, by simp [hl]⟩

/-- the three ways a regular file of the range can be judged against the certified map -/
inductive Judgement where | verified | tampered | nonVerifiable
deriving DecidableEq, Repr

def judge (certified : List (ν × δ)) (n : ν) (d : δ) : Judgement :=
  match lookup n certified with
  | some d' => if d' = d then .verified else .tampered
  | none => .nonVerifiable

theorem verify_eq (N : Names ν) (certified : List (ν × δ)) (dir : List (ν × Kind δ))
    (range : Range) (last : Nat) (allowMissing : Bool) (lo hi : Nat) (all : List (Nat × ν × δ))
    (hb : range.bounds last = some (lo, hi)) (hl : listAll N dir = some all) :
    verify N certified (some dir) range last allowMissing =
      conclude certified (if allowMissing then [] else missingNames N dir lo hi)
        (nonRegularNames N dir lo hi) (all.filter fun e => decide (lo ≤ e.1) && decide (e.1 ≤ hi)) := by
  simp only [verify, hb, hl]

theorem conclude_accepted (certified : List (ν × δ)) (missing nonRegular : List ν)
    (computed : List (Nat × ν × δ)) (h : conclude certified missing nonRegular computed = .accepted) :
    computed ≠ [] ∧ missing = [] ∧ tamperedOf certified computed = [] ∧
      nonVerifiableOf certified computed = [] ∧ nonRegular = [] := by
  unfold conclude at h
  by_cases hc : ((!computed.isEmpty && computed.all fun e => certified.any fun c => decide (c.2 = e.2.2))
      && missing.isEmpty && (tamperedOf certified computed).isEmpty
      && (nonVerifiableOf certified computed ++ nonRegular).isEmpty) = true
  · simp only [Bool.and_eq_true, List.isEmpty_iff, Bool.not_eq_true', List.append_eq_nil_iff] at hc
    obtain ⟨⟨⟨⟨hne, _⟩, hmiss⟩, ht⟩, hnv, hnr⟩ := hc
    refine ⟨?_, hmiss, ht, hnv, hnr⟩
    intro he; rw [he] at hne; simp at hne
  · rw [if_neg hc] at h; cases h

theorem conclude_rejected (certified : List (ν × δ)) (missing nonRegular : List ν)
    (computed : List (Nat × ν × δ)) (m t nv : List ν)
    (h : conclude certified missing nonRegular computed = .rejected m t nv) :
    m = missing ∧ t = tamperedOf certified computed ∧
      nv = nonVerifiableOf certified computed ++ nonRegular := by
  unfold conclude at h
  by_cases hc : ((!computed.isEmpty && computed.all fun e => certified.any fun c => decide (c.2 = e.2.2))
      && missing.isEmpty && (tamperedOf certified computed).isEmpty
      && (nonVerifiableOf certified computed ++ nonRegular).isEmpty) = true
  · rw [if_pos hc] at h; cases h
  · rw [if_neg hc] at h; injection h with h1 h2 h3; exact ⟨h1.symm, h2.symm, h3.symm⟩

theorem mem_nonRegularNames (N : Names ν) (dir : List (ν × Kind δ)) (lo hi : Nat) (n : ν) :
    n ∈ nonRegularNames N dir lo hi ↔
      ((∃ k, lo ≤ k ∧ k ≤ hi ∧ n ∈ N.trio k) ∧ ∃ kd, lookup n dir = some kd ∧ ∀ d, kd ≠ Kind.file d) := by
  simp only [nonRegularNames, List.mem_filter, List.mem_flatMap, mem_numbersIn]
  constructor
  · rintro ⟨⟨k, ⟨h1, h2⟩, h3⟩, h4⟩
    refine ⟨⟨k, h1, h2, h3⟩, ?_⟩
    cases hl : lookup n dir with
    | none => simp [hl] at h4
    | some kd =>
      cases kd with
      | file d => simp [hl] at h4
      | dir => exact ⟨_, rfl, fun d hd => by cases hd⟩
      | link b => exact ⟨_, rfl, fun d hd => by cases hd⟩
  · rintro ⟨⟨k, h1, h2, h3⟩, kd, hl, hk⟩
    refine ⟨⟨k, ⟨h1, h2⟩, h3⟩, ?_⟩
    rw [hl]
    cases kd with
    | file d => exact absurd rfl (hk d)
    | dir => rfl
    | link b => rfl

theorem verify_accepted_inv (N : Names ν) (certified : List (ν × δ)) (dir : Option (List (ν × Kind δ)))
    (range : Range) (last : Nat) (allowMissing : Bool)
    (h : verify N certified dir range last allowMissing = .accepted) :
    ∃ d lo hi all, dir = some d ∧ range.bounds last = some (lo, hi) ∧ listAll N d = some all := by
  unfold verify at h
  cases hb : range.bounds last with
  | none => simp [hb] at h
  | some b =>
    obtain ⟨lo, hi⟩ := b
    cases dir with
    | none => simp [hb] at h
    | some d =>
      cases hl : listAll N d with
      | none => simp [hb, hl] at h
      | some all => exact ⟨d, lo, hi, all, rfl, rfl, hl⟩

theorem verify_rejected_inv (N : Names ν) (certified : List (ν × δ)) (dir : Option (List (ν × Kind δ)))
    (range : Range) (last : Nat) (allowMissing : Bool) (m t nv : List ν)
    (h : verify N certified dir range last allowMissing = .rejected m t nv) :
    ∃ d lo hi all, dir = some d ∧ range.bounds last = some (lo, hi) ∧ listAll N d = some all := by
  unfold verify at h
  cases hb : range.bounds last with
  | none => simp [hb] at h
  | some b =>
    obtain ⟨lo, hi⟩ := b
    cases dir with
    | none => simp [hb] at h
    | some d =>
      cases hl : listAll N d with
      | none => simp [hb, hl] at h
      | some all => exact ⟨d, lo, hi, all, rfl, rfl, hl⟩

theorem lookup_of_lists_empty (certified : List (ν × δ)) (computed : List (Nat × ν × δ))
    (ht : tamperedOf certified computed = []) (hn : nonVerifiableOf certified computed = [])
    (k : Nat) (n : ν) (d : δ) (hm : (k, n, d) ∈ computed) : lookup n certified = some d := by
  cases hlk : lookup n certified with
  | none =>
    have : n ∈ nonVerifiableOf certified computed := (mem_nonVerifiableOf certified _ n).2 ⟨k, d, hm, hlk⟩
    rw [hn] at this; cases this
  | some d' =>
    by_cases hd : d' = d
    · rw [hd]
    · have : n ∈ tamperedOf certified computed := (mem_tamperedOf certified _ n).2 ⟨k, d, d', hm, hlk, hd⟩
      rw [ht] at this; cases this

/-- **soundness**: acceptance implies that every name of the range is present (unless gaps were
allowed) and that every regular immutable file of the range carries the digest certified for its own name -/
theorem verify_sound (N : Names ν) (certified : List (ν × δ)) (dir : Option (List (ν × Kind δ)))
    (range : Range) (last : Nat) (allowMissing : Bool)
    (h : verify N certified dir range last allowMissing = .accepted) :
    ∃ d lo hi, dir = some d ∧ range.bounds last = some (lo, hi) ∧
      (allowMissing = false → ∀ k, lo ≤ k → k ≤ hi → ∀ n ∈ N.trio k, present d n = true) ∧
      (∀ n dg k, (n, Kind.file dg) ∈ d → N.immExt n = true → N.number n = some k → lo ≤ k → k ≤ hi →
          lookup n certified = some dg) ∧
      (∃ n dg k, (n, Kind.file dg) ∈ d ∧ N.immExt n = true ∧ N.number n = some k ∧ lo ≤ k ∧ k ≤ hi) ∧
      (∀ k, lo ≤ k → k ≤ hi → ∀ n ∈ N.trio k, ∀ kd, lookup n d = some kd → ∃ dg, kd = Kind.file dg) := by
  obtain ⟨d, lo, hi, all, rfl, hb, hl⟩ := verify_accepted_inv N certified dir range last allowMissing h
  rw [verify_eq N certified d range last allowMissing lo hi all hb hl] at h
  obtain ⟨hne, hmiss, ht, hnv, hnr⟩ := conclude_accepted _ _ _ _ h
  refine ⟨d, lo, hi, rfl, hb, ?_, ?_, ?_, ?_⟩
  rotate_left 3
  · intro k h1 h2 n hn kd hlk
    cases kd with
    | file dg => exact ⟨dg, rfl⟩
    | dir =>
      have : n ∈ nonRegularNames N d lo hi :=
        (mem_nonRegularNames N d lo hi n).2 ⟨⟨k, h1, h2, hn⟩, _, hlk, fun _ hd => by cases hd⟩
      rw [hnr] at this; cases this
    | link b =>
      have : n ∈ nonRegularNames N d lo hi :=
        (mem_nonRegularNames N d lo hi n).2 ⟨⟨k, h1, h2, hn⟩, _, hlk, fun _ hd => by cases hd⟩
      rw [hnr] at this; cases this
  · intro ham k h1 h2 n hn
    subst ham
    simp only [Bool.false_eq_true, if_false] at hmiss
    cases hp : present d n with
    | true => rfl
    | false =>
      have : n ∈ missingNames N d lo hi := (mem_missingNames N d lo hi n).2 ⟨⟨k, h1, h2, hn⟩, hp⟩
      rw [hmiss] at this; cases this
  · intro n dg k hmem hx hnum h1 h2
    have hall : (k, n, dg) ∈ all := (listAll_mem N d all hl k n dg).2 ⟨hmem, hx, hnum⟩
    exact lookup_of_lists_empty certified _ ht hnv k n dg (by simp [List.mem_filter, hall, h1, h2])
  · cases hf : all.filter fun e => decide (lo ≤ e.1) && decide (e.1 ≤ hi) with
    | nil => exact absurd hf hne
    | cons e r =>
      obtain ⟨k, n, dg⟩ := e
      have hm : (k, n, dg) ∈ all.filter fun e => decide (lo ≤ e.1) && decide (e.1 ≤ hi) := by
        rw [hf]; simp
      simp only [List.mem_filter, Bool.and_eq_true, decide_eq_true_eq] at hm
      obtain ⟨h1, h2, h3⟩ := (listAll_mem N d all hl k n dg).1 hm.1
      exact ⟨n, dg, k, h1, h2, h3, hm.2.1, hm.2.2⟩

/-- **the report is complete**: on a rejection every offending name is in one of the three lists -/
theorem verify_report_complete (N : Names ν) (certified : List (ν × δ)) (dir : Option (List (ν × Kind δ)))
    (range : Range) (last : Nat) (allowMissing : Bool) (m t nv : List ν)
    (h : verify N certified dir range last allowMissing = .rejected m t nv) :
    ∃ d lo hi, dir = some d ∧ range.bounds last = some (lo, hi) ∧
      (allowMissing = false → ∀ k, lo ≤ k → k ≤ hi → ∀ n ∈ N.trio k, present d n = false → n ∈ m) ∧
      (∀ n dg k, (n, Kind.file dg) ∈ d → N.immExt n = true → N.number n = some k → lo ≤ k → k ≤ hi →
          (∀ d', lookup n certified = some d' → d' ≠ dg → n ∈ t) ∧
          (lookup n certified = none → n ∈ nv)) ∧
      (∀ k, lo ≤ k → k ≤ hi → ∀ n ∈ N.trio k, ∀ kd, lookup n d = some kd → (∀ dg, kd ≠ Kind.file dg) → n ∈ nv) := by
  obtain ⟨d, lo, hi, all, rfl, hb, hl⟩ := verify_rejected_inv N certified dir range last allowMissing m t nv h
  rw [verify_eq N certified d range last allowMissing lo hi all hb hl] at h
  obtain ⟨hm, ht, hnv⟩ := conclude_rejected _ _ _ _ m t nv h
  refine ⟨d, lo, hi, rfl, hb, ?_, ?_, ?_⟩
  rotate_left 2
  · intro k h1 h2 n hn kd hlk hk
    rw [hnv]
    exact List.mem_append_right _ ((mem_nonRegularNames N d lo hi n).2 ⟨⟨k, h1, h2, hn⟩, kd, hlk, hk⟩)
  · intro ham k h1 h2 n hn hp
    subst ham
    simp only [Bool.false_eq_true, if_false] at hm
    rw [hm]
    exact (mem_missingNames N d lo hi n).2 ⟨⟨k, h1, h2, hn⟩, hp⟩
  · intro n dg k hmem hx hnum h1 h2
    have hall : (k, n, dg) ∈ all := (listAll_mem N d all hl k n dg).2 ⟨hmem, hx, hnum⟩
    have hc : (k, n, dg) ∈ all.filter fun e => decide (lo ≤ e.1) && decide (e.1 ≤ hi) := by
      simp [List.mem_filter, hall, h1, h2]
    constructor
    · intro d' hlk hd
      rw [ht]
      exact (mem_tamperedOf certified _ n).2 ⟨k, dg, d', hc, hlk, hd⟩
    · intro hlk
      rw [hnv]
      exact List.mem_append_left _ ((mem_nonVerifiableOf certified _ n).2 ⟨k, dg, hc, hlk⟩)

/-- nothing is reported without a reason: the lists contain only offending names -/
theorem verify_report_exact (N : Names ν) (certified : List (ν × δ)) (dir : Option (List (ν × Kind δ)))
    (range : Range) (last : Nat) (allowMissing : Bool) (m t nv : List ν)
    (h : verify N certified dir range last allowMissing = .rejected m t nv) :
    ∃ d lo hi, dir = some d ∧ range.bounds last = some (lo, hi) ∧
      (∀ n ∈ m, allowMissing = false ∧ present d n = false ∧ ∃ k, lo ≤ k ∧ k ≤ hi ∧ n ∈ N.trio k) ∧
      (∀ n ∈ t, ∃ dg d', (n, Kind.file dg) ∈ d ∧ lookup n certified = some d' ∧ d' ≠ dg) ∧
      (∀ n ∈ nv, ((∃ dg, (n, Kind.file dg) ∈ d) ∧ lookup n certified = none) ∨
          ∃ kd, lookup n d = some kd ∧ ∀ dg, kd ≠ Kind.file dg) := by
  obtain ⟨d, lo, hi, all, rfl, hb, hl⟩ := verify_rejected_inv N certified dir range last allowMissing m t nv h
  rw [verify_eq N certified d range last allowMissing lo hi all hb hl] at h
  obtain ⟨hm, ht, hnv⟩ := conclude_rejected _ _ _ _ m t nv h
  refine ⟨d, lo, hi, rfl, hb, ?_, ?_, ?_⟩
  · intro n hn
    rw [hm] at hn
    cases allowMissing with
    | true => simp at hn
    | false =>
      simp only [Bool.false_eq_true, if_false] at hn
      obtain ⟨⟨k, h1, h2, h3⟩, h4⟩ := (mem_missingNames N d lo hi n).1 hn
      exact ⟨rfl, h4, k, h1, h2, h3⟩
  · intro n hn
    rw [ht] at hn
    obtain ⟨k, dg, d', hc, hlk, hd⟩ := (mem_tamperedOf certified _ n).1 hn
    simp only [List.mem_filter] at hc
    exact ⟨dg, d', ((listAll_mem N d all hl k n dg).1 hc.1).1, hlk, hd⟩
  · intro n hn
    rw [hnv] at hn
    rcases List.mem_append.1 hn with hn | hn
    · obtain ⟨k, dg, hc, hlk⟩ := (mem_nonVerifiableOf certified _ n).1 hn
      simp only [List.mem_filter] at hc
      exact Or.inl ⟨⟨dg, ((listAll_mem N d all hl k n dg).1 hc.1).1⟩, hlk⟩
    · exact Or.inr ((mem_nonRegularNames N d lo hi n).1 hn).2

/-! ## the digest list binds to the signed root -/

theorem verifyDigests_binding (N : Names ν) (l : List (ν × δ)) (last : Nat) (signedLeaves : List δ)
    (certOk : Bool) (f : List (ν × δ)) (h : verifyDigests N l last signedLeaves certOk = some f) :
    f = served N l last ∧ f.map (·.2) = signedLeaves ∧ certOk = true ∧ f ≠ [] := by
  unfold verifyDigests at h
  dsimp only at h
  split at h
  · cases h
  · rename_i hne
    split at h
    · rename_i hc
      injection h with h
      simp only [Bool.and_eq_true, decide_eq_true_eq] at hc
      subst h
      refine ⟨rfl, hc.2, hc.1, ?_⟩
      intro he; rw [he] at hne; simp at hne
    · cases h

/-- **root binding**: if the served list (restricted to the beacon) reproduces the signed root, its
digests ARE the certified leaf list, in order — for every injective merge whose values no leaf equals
(`MmrBuild.root_injective`; byte level: `MmrBuild.root_injective_bytes`) -/
theorem root_binding (m : δ → δ → δ) (hinj : ∀ a b c d, m a b = m c d → a = c ∧ b = d)
    (N : Names ν) (l : List (ν × δ)) (last : Nat) (signedRoot : δ) (certifiedLeaves : List δ)
    (hc : MmrBuild.root m certifiedLeaves = some signedRoot)
    (hl : ∀ a ∈ certifiedLeaves, ¬ ExprTree.IsMerge m a)
    (f : List (ν × δ)) (hl' : ∀ a ∈ (served N l last).map (·.2), ¬ ExprTree.IsMerge m a)
    (h : verifyDigestsRoot m N l last signedRoot = some f) :
    f = served N l last ∧ f.map (·.2) = certifiedLeaves := by
  unfold verifyDigestsRoot at h
  dsimp only at h
  split at h
  · rename_i hr
    injection h with h
    subst h
    exact ⟨rfl, MmrBuild.root_injective m hinj _ _ hl' hl signedRoot hr hc⟩
  · cases h

end Db
