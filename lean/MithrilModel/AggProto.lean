import MithrilModel.Proto
import MithrilModel.Agg
/-! Request parsing and canonical printing shared by the handlers of C14, C15 and C16
(the Rust side is `harness-agg/src/lib.rs`, functions `request`, `show`, `record`). -/
namespace AggProto
open Proto Agg

def parseSig : List Val → Option (Nat × Sig)
  | [ent, label, signer, sigma, msg, ok, idx, auth] => do
    let ent ← ent.nat?
    let label ← label.nat?
    let signer ← signer.nat?
    let sigma ← sigma.nat?
    let msg ← msg.nat?
    let ok ← ok.nats?
    let idx ← idx.nats?
    let auth ← auth.nat?
    pure (ent, { party := label, signer, sigma, msg, ok, idx, auth := auth == 1 })
  | _ => none

/-- numbering shared with `harness-agg/src/lib.rs::CRASH_POINTS` -/
def crashPointOfNat : Nat → Option CrashPoint
  | 0 => some .certBeforeInsert | 1 => some .certAfterInsert | 2 => some .certAfterUpdate
  | 3 => some .artBeforeCompute | 4 => some .artAfterCompute | 5 => some .artAfterInsert
  | 6 => some .hoBefore | 7 => some .hoBeforeRemoval | 8 => some .hoAfterRemoval
  | _ => none

def parseEvent : Val → Option Event
  | .l (.s "tick" :: [ep, av, nm]) => do
    let ep ← ep.nat?
    let avail ← av.nats?
    let newmsg := (nm.nat?).getD 0
    pure (.tick { epoch := ep, now := 1, avail, newmsg })
  | .l (.s "reg" :: [key, party]) => do
    let key ← key.nat?
    let party ← party.nat?
    pure (.register key party)
  | .l (.s "sig" :: rest) => (parseSig rest).map fun (e, g) => .signature e g
  | .l (.s "exp" :: [e]) => do
    let e ← e.nat?
    pure (.expire e)
  | .l [.s "rst"] => some .restart
  | .l (.s "ctick" :: [pt, ep, av, nm]) => do
    let pt ← pt.nat?
    let ep ← ep.nat?
    let avail ← av.nats?
    let newmsg := (nm.nat?).getD 0
    let p ← crashPointOfNat pt
    pure (.crash { epoch := ep, now := 1, avail, newmsg } p)
  | _ => none

def parseEnts (vs : List Val) : Option (List (Nat × Nat)) :=
  vs.mapM fun v => match v with
    | .l [d, e] => do
      let d ← d.nat?
      let e ← e.nat?
      pure (d, e)
    | _ => none

def mkEnv (k : Nat) (ents : List (Nat × Nat)) : Env :=
  { entityEpoch := fun e => (ents[e]?.map (·.2)).getD 0
    entityDisc := fun e => (ents[e]?.map (·.1)).getD 0
    quorum := fun _ rows => quorumIdx k rows
    timeout := fun _ => some 1000 }

/-- as `mkEnv`, with the quorum parameter `k` of each EPOCH listed in `ks` (protocol parameters that change at an
epoch boundary: a message of epoch `e` is certified under the parameters its signers registered with); epochs that
are not listed use `k` -/
def mkEnvK (k : Nat) (ks : List (Nat × Nat)) (ents : List (Nat × Nat)) : Env :=
  let epochOf := fun e => (ents[e]?.map (·.2)).getD 0
  { entityEpoch := epochOf
    entityDisc := fun e => (ents[e]?.map (·.1)).getD 0
    quorum := fun e rows => quorumIdx (((ks.find? (·.1 == epochOf e)).map (·.2)).getD k) rows
    timeout := fun _ => some 1000 }

theorem mkEnvK_nil (k : Nat) (ents : List (Nat × Nat)) : mkEnvK k [] ents = mkEnv k ents := rfl

def b01 (b : Bool) : String := if b then "1" else "0"

def insertPair (x : Nat × Nat) : List (Nat × Nat) → List (Nat × Nat)
  | [] => [x]
  | y :: r => if x.1 < y.1 || (x.1 == y.1 && x.2 ≤ y.2) then x :: y :: r else y :: insertPair x r

def sortPairs (l : List (Nat × Nat)) : List (Nat × Nat) := l.foldr insertPair []

def insertNat (x : Nat) : List Nat → List Nat
  | [] => [x]
  | y :: r => if x ≤ y then x :: y :: r else y :: insertNat x r

def sortNats (l : List Nat) : List Nat := l.foldr insertNat []

def showPairs (l : List (Nat × Nat)) : String :=
  String.intercalate "," (l.map fun p => s!"({p.1},{p.2})")

def label (s : St) : String :=
  match s.rt with
  | .idle _ => "idle"
  | .blocked _ 0 => "bng"
  | .blocked _ 1 => "bge"
  | .blocked _ _ => "bgap"
  | .ready _ => "ready"
  | .signing _ _ => "signing"

def showTables (s : St) : String :=
  let oms := String.intercalate "," (s.oms.map fun o => s!"({o.entity},{o.epoch},{b01 o.certified},{b01 o.expired})")
  let ce := String.intercalate "," (s.certs.map fun c =>
    let e := match c.entity with | some e => toString e | none => "g"
    let p := match c.parent with | some p => toString p | none => "n"
    s!"({e},{c.epoch},{p},{showNats (sortNats c.signers)})")
  let sg := String.intercalate "," ((sortPairs (s.sigs.map fun r => (r.entity, r.party))).map fun p =>
    let sigma := ((s.sigs.find? fun r => r.entity == p.1 && r.party == p.2).map (·.sigma)).getD 0
    s!"({p.1},{p.2},{sigma})")
  let bf := showPairs (sortPairs (s.buf.map fun b => (b.disc, b.sig.party)))
  let se := showPairs s.ses
  s!"om=[{oms}]ce=[{ce}]sg=[{sg}]bf=[{bf}]se=[{se}]"

def sigClassName : SigClass → String
  | .registered => "registered" | .buffered => "buffered" | .notFound => "notfound"
  | .certified => "certified" | .expired => "expired" | .invalid => "invalid" | .storeErr => "panic"

def regClassName : RegClass → String
  | .ok => "ok" | .existing => "existing" | .closed => "closed" | .epoch => "epoch"

/-- outcome class of an event in the state it meets -/
def outcome (E : Env) (s : St) : Event → String
  | .tick tp => match tickOut E s tp with | 0 => "ok" | 1 => "err" | _ => "panic"
  | .signature e g => sigClassName (sigClass s e g)
  | .register key party => regClassName (regClass s key party)
  | .expire e => if (findOm e s.oms).isSome then "ok" else "none"
  | .restart => "ok"
  | .crash tp p => (match crashTickOut E s tp p with | 0 => "ok" | 1 => "err" | _ => "panic") ++
      (if crashFires E s tp p then "!" else "")

def observe (E : Env) (s : St) (ev : Event) : St × String :=
  let s' := step E s ev
  (s', s!"{label s'}/{outcome E s ev}/{showTables s'}")

def runFrom (E : Env) (s0 : St) (evs : List Event) : St × List String :=
  let (s, out) := evs.foldl (fun (acc : St × List String) ev =>
    let (s', o) := observe E acc.1 ev
    (s', o :: acc.2)) (s0, [])
  (s, out.reverse)

structure Scenario where
  n : Nat
  k : Nat
  gen : Nat
  ents : List (Nat × Nat)
  evs : List Event
  ks : List (Nat × Nat) := []

def parseScenario (r : Req) : Option Scenario := do
  let n ← r.nat "n"
  let k ← r.nat "k"
  let gen ← r.nat "gen"
  let ents ← parseEnts (← r.list "ents")
  let evs ← (← r.list "evs").mapM parseEvent
  let ks ← match r.list "ks" with
    | some l => parseEnts l
    | none => some []
  pure { n, k, gen, ents, evs, ks }

end AggProto
