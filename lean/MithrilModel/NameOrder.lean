import MithrilModel.DigesterProofs
import MithrilModel.DbVerify
import MithrilModel.Handlers.C10
/-!
# C10 / C12 — the order of immutable file names

Immutable files are named `format!("{number:05}.{ext}")`, `ext ∈ {chunk, primary, secondary}`
(`mithril-client/src/cardano_database_client/proving.rs:282`, `:303`).

Which order is used where (Rust):
* **signer / aggregator digest (C12)** and the client's `verify_cardano_database` listing:
  `impl Ord for ImmutableFile` — `self.number.cmp(&other.number).then(self.path.cmp(&other.path))`
  (`internal/cardano-node/mithril-cardano-node-internal-database/src/entities/immutable_file.rs:192-196`),
  used by `files.sort()` (`:147`) and by the `BTreeMap<ImmutableFile, _>` whose `into_values()` are the
  leaves (`digesters/cardano_immutable_digester.rs:131-134`). THE NUMBER IS COMPARED FIRST: between files
  of different numbers the string order never matters.
* **client `download_and_verify_digests` (C10)**: the served list is collected into a
  `BTreeMap<ImmutableFileName, HexEncodedDigest>` with `ImmutableFileName = String`
  (`proving.rs:244-256`, `mithril-common/src/entities/type_alias.rs:7`) and the tree is built over
  `.values()`: the order is the STRING order of the names alone (`impl Ord for String` = bytewise
  order of the UTF-8 bytes).

The order used here: `<` on `List Char` / `String` of Lean core, which is the lexicographic order by
code point (`String.lt_iff : s < t ↔ s.toList < t.toList`, `Char.lt_def : a < b ↔ a.val < b.val`); a
proper prefix is smaller. For the ASCII names in question a character is one byte whose value is the
code point (`fileName_ascii`), so this IS Rust's bytewise order; `lexLe_iff_not_lt` shows that it is also
the order `Digester.lexLe` of the digest model (on code point lists).

Results:
* `name_order` / `name_order_string` — for numbers below 100000 the string order of the names is the
  order by (number, then name);
* `name_order_boundary` — it fails at 99999 / 100000: `"100000.chunk" < "99999.chunk"`;
* `digester_le_iff_rust`, `digester_number_first`, `listAll_sorted_by_number`, `fileLe_iff` — the two
  model orders that transliterate `ImmutableFile: Ord` ARE the Rust order for ALL numbers (nothing to do
  with 100000), numbers first;
* `toMap_sorted`, `client_order_below_boundary` — below 100000 the client's map keeps the signer's
  order, so the honest list reproduces the signed root;
* `client_order_beyond_boundary` — beyond, the client's map orders an honest list differently from the
  signer and the honest digest list is REJECTED (`Db.verifyDigests … = none`): completeness fails there,
  soundness is unaffected (`C10_digests_binding` holds for every order of names).
-/
namespace NameOrder

/-! ## zero padded decimals -/

/-- Rust `format!("{n:0w$}")`: the decimal digits, padded with `'0'` on the left up to width `w`
(never truncated) -/
def pad (w n : Nat) : List Char :=
  List.replicate (w - (Nat.toDigits 10 n).length) '0' ++ Nat.toDigits 10 n

/-- `format!("{n:05}")` -/
def pad5 (n : Nat) : List Char := pad 5 n

/-- the `w` low decimal digits of `n`, most significant first -/
def fixed : Nat → Nat → List Char
  | 0, _ => []
  | w + 1, n => fixed w (n / 10) ++ [Nat.digitChar (n % 10)]

theorem fixed_length : ∀ (w n : Nat), (fixed w n).length = w
  | 0, _ => rfl
  | w + 1, n => by simp [fixed, fixed_length w]

theorem fixed_zero : ∀ w : Nat, fixed w 0 = List.replicate w '0'
  | 0 => rfl
  | w + 1 => by
    have : Nat.digitChar 0 = '0' := rfl
    simp only [fixed, Nat.zero_div, Nat.zero_mod, fixed_zero w, this, List.replicate_succ']

/-- below `10 ^ w` the padded decimal is exactly the `w` digits -/
theorem pad_eq_fixed : ∀ (w n : Nat), 0 < w → n < 10 ^ w → pad w n = fixed w n := by
  intro w
  induction w with
  | zero => intro n h; omega
  | succ w ih =>
    intro n _ hn
    unfold pad
    rw [Nat.toDigits_eq_if (by decide)]
    split
    · rename_i hlt
      have h0 : n / 10 = 0 := by omega
      have h1 : n % 10 = n := by omega
      simp [fixed, h0, h1, fixed_zero]
    · rename_i hge
      have hw : 0 < w := by
        cases w with
        | zero => simp at hn; omega
        | succ w => omega
      have hn' : n / 10 < 10 ^ w := by rw [Nat.pow_succ] at hn; omega
      have := ih (n / 10) hw hn'
      unfold pad at this
      simp only [fixed, List.length_append, List.length_cons, List.length_nil, ← this]
      rw [show w + 1 - ((Nat.toDigits 10 (n / 10)).length + (0 + 1)) = w - (Nat.toDigits 10 (n / 10)).length by omega]
      simp

/-! ## lexicographic order -/

theorem append_lt_append_iff {α : Type} [LT α] : ∀ (xs ys u v : List α), xs.length = ys.length →
    (xs ++ u < ys ++ v ↔ xs < ys ∨ (xs = ys ∧ u < v))
  | [], [], u, v, _ => by simp
  | [], _ :: _, _, _, h => by simp at h
  | _ :: _, [], _, _, h => by simp at h
  | x :: xs, y :: ys, u, v, h => by
    have ih := append_lt_append_iff xs ys u v (by simpa using h)
    simp only [List.cons_append, List.cons_lt_cons_iff, ih, List.cons.injEq]
    constructor
    · rintro (h | ⟨e, h | ⟨e', h⟩⟩)
      · exact Or.inl (Or.inl h)
      · exact Or.inl (Or.inr ⟨e, h⟩)
      · exact Or.inr ⟨⟨e, e'⟩, h⟩
    · rintro ((h | ⟨e, h⟩) | ⟨⟨e, e'⟩, h⟩)
      · exact Or.inl h
      · exact Or.inr ⟨e, Or.inl h⟩
      · exact Or.inr ⟨e, Or.inr ⟨e', h⟩⟩

theorem digitChar_lt_iff : ∀ x y : Fin 10, (Nat.digitChar x.1 < Nat.digitChar y.1 ↔ x < y) := by decide

theorem digitChar_lt_iff' (x y : Nat) (hx : x < 10) (hy : y < 10) :
    (Nat.digitChar x < Nat.digitChar y ↔ x < y) := digitChar_lt_iff ⟨x, hx⟩ ⟨y, hy⟩

theorem list_char_lt_irrefl (l : List Char) : ¬ l < l := by
  induction l with
  | nil => simp
  | cons x xs ih =>
    rw [List.cons_lt_cons_iff]
    rintro (h | ⟨_, h⟩)
    · exact absurd h (by rw [Char.lt_def]; exact Nat.lt_irrefl _)
    · exact ih h

theorem list_char_lt_asymm : ∀ (a b : List Char), a < b → ¬ b < a
  | [], _, _, h => by simp at h
  | _ :: _, [], h, _ => by simp at h
  | x :: xs, y :: ys, h, h' => by
    rw [List.cons_lt_cons_iff] at h h'
    simp only [Char.lt_def, UInt32.lt_iff_toNat_lt] at h h'
    rcases h with h | ⟨e, h⟩
    · rcases h' with h' | ⟨e', _⟩
      · omega
      · subst e'; omega
    · rcases h' with h' | ⟨_, h'⟩
      · subst e; omega
      · exact list_char_lt_asymm xs ys h h'

/-- on `w` digit numbers the lexicographic order of the digit strings is the numeric order -/
theorem fixed_lt_iff : ∀ (w a b : Nat), a < 10 ^ w → b < 10 ^ w → (fixed w a < fixed w b ↔ a < b) := by
  intro w
  induction w with
  | zero => intro a b ha hb; simp at ha hb; subst ha; subst hb; simp [fixed]
  | succ w ih =>
    intro a b ha hb
    have ha' : a / 10 < 10 ^ w := by rw [Nat.pow_succ] at ha; omega
    have hb' : b / 10 < 10 ^ w := by rw [Nat.pow_succ] at hb; omega
    have hinj : fixed w (a / 10) = fixed w (b / 10) ↔ a / 10 = b / 10 := by
      constructor
      · intro e
        rcases Nat.lt_trichotomy (a / 10) (b / 10) with h | h | h
        · have := (ih _ _ ha' hb').mpr h; rw [e] at this; exact absurd this (list_char_lt_irrefl _)
        · exact h
        · have := (ih _ _ hb' ha').mpr h; rw [e] at this; exact absurd this (list_char_lt_irrefl _)
      · intro e; rw [e]
    simp only [fixed]
    rw [append_lt_append_iff _ _ _ _ (by rw [fixed_length, fixed_length]), ih _ _ ha' hb', hinj,
      List.cons_lt_cons_iff, digitChar_lt_iff' _ _ (Nat.mod_lt _ (by decide)) (Nat.mod_lt _ (by decide))]
    simp only [List.not_lt_nil, and_false, or_false]
    omega

theorem pad_lt_iff (w a b : Nat) (hw : 0 < w) (ha : a < 10 ^ w) (hb : b < 10 ^ w) :
    (pad w a < pad w b ↔ a < b) := by
  rw [pad_eq_fixed w a hw ha, pad_eq_fixed w b hw hb]; exact fixed_lt_iff w a b ha hb

theorem pad_inj (w a b : Nat) (hw : 0 < w) (ha : a < 10 ^ w) (hb : b < 10 ^ w) (e : pad w a = pad w b) : a = b := by
  rcases Nat.lt_trichotomy a b with h | h | h
  · have := (pad_lt_iff w a b hw ha hb).mpr h; rw [e] at this; exact absurd this (list_char_lt_irrefl _)
  · exact h
  · have := (pad_lt_iff w b a hw hb ha).mpr h; rw [e] at this; exact absurd this (list_char_lt_irrefl _)

/-- **five digits**: for numbers below 100000 the order of the zero padded strings is the numeric order -/
theorem pad5_lt_iff (a b : Nat) (ha : a < 100000) (hb : b < 100000) : (pad5 a < pad5 b ↔ a < b) :=
  pad_lt_iff 5 a b (by decide) ha hb

theorem pad5_length (a : Nat) (ha : a < 100000) : (pad5 a).length = 5 := by
  unfold pad5; rw [pad_eq_fixed 5 a (by decide) ha, fixed_length]

/-! ## file names -/

/-- `format!("{n:05}.{ext}")` as a list of characters -/
def fileName (n : Nat) (ext : List Char) : List Char := pad5 n ++ '.' :: ext

/-- the same as a `String` -/
def fileNameS (n : Nat) (ext : String) : String := String.ofList (fileName n ext.toList)

def CHUNK : List Char := ['c', 'h', 'u', 'n', 'k']
def PRIMARY : List Char := ['p', 'r', 'i', 'm', 'a', 'r', 'y']
def SECONDARY : List Char := ['s', 'e', 'c', 'o', 'n', 'd', 'a', 'r', 'y']

theorem fileName_examples :
    fileNameS 7 "chunk" = "00007.chunk" ∧ fileNameS 99999 "primary" = "99999.primary" ∧
    fileNameS 100000 "secondary" = "100000.secondary" ∧ fileName 42 CHUNK = "00042.chunk".toList := by
  refine ⟨?_, ?_, ?_, ?_⟩ <;> simp [fileNameS, fileName, pad5, pad, CHUNK] <;> decide

theorem name_lt_iff (a b : Nat) (ha : a < 100000) (hb : b < 100000) (e₁ e₂ : List Char) :
    (fileName a e₁ < fileName b e₂ ↔ a < b ∨ (a = b ∧ e₁ < e₂)) := by
  unfold fileName
  rw [append_lt_append_iff _ _ _ _ (by rw [pad5_length a ha, pad5_length b hb]), pad5_lt_iff a b ha hb]
  have hirr : ¬ ('.' : Char) < '.' := by decide
  constructor
  · rintro (h | ⟨e, h⟩)
    · exact Or.inl h
    · refine Or.inr ⟨pad_inj 5 a b (by decide) ha hb e, ?_⟩
      rw [List.cons_lt_cons_iff] at h
      rcases h with h | ⟨_, h⟩
      · exact absurd h hirr
      · exact h
  · rintro (h | ⟨e, h⟩)
    · exact Or.inl h
    · exact Or.inr ⟨by rw [e], by rw [List.cons_lt_cons_iff]; exact Or.inr ⟨rfl, h⟩⟩

/-- **Name order (characters).** For immutable file numbers below 100000 and any two extensions, the
string order of the names `%05d.ext` is the order by (number, then name) — the order of
`ImmutableFile: Ord`. `<` is the lexicographic order by code point = Rust's bytewise `String: Ord`. -/
theorem name_order (a b : Nat) (ha : a < 100000) (hb : b < 100000) (e₁ e₂ : List Char) :
    (fileName a e₁ < fileName b e₂ ↔ a < b ∨ (a = b ∧ fileName a e₁ < fileName b e₂)) := by
  rw [name_lt_iff a b ha hb]
  constructor
  · rintro (h | ⟨e, h⟩)
    · exact Or.inl h
    · exact Or.inr ⟨e, Or.inr ⟨e, h⟩⟩
  · rintro (h | ⟨_, h | ⟨e, h⟩⟩)
    · exact Or.inl h
    · exact Or.inl h
    · exact Or.inr ⟨e, h⟩

/-- **Name order (`String`).** The same on Lean strings, with the `<` the C10 model uses for names
(`Handlers.C10.names.lt a b = decide (a < b)`). -/
theorem name_order_string (a b : Nat) (ha : a < 100000) (hb : b < 100000) (e₁ e₂ : String) :
    (fileNameS a e₁ < fileNameS b e₂ ↔ a < b ∨ (a = b ∧ fileNameS a e₁ < fileNameS b e₂)) := by
  simp only [String.lt_iff, fileNameS, String.toList_ofList]
  exact name_order a b ha hb _ _

/-- non-vacuity of `name_order`: both directions occur below the boundary -/
example : (7 : Nat) < 100000 ∧ (12 : Nat) < 100000 ∧ fileName 7 SECONDARY < fileName 12 CHUNK ∧
    ¬ fileName 12 CHUNK < fileName 7 SECONDARY ∧ fileName 7 CHUNK < fileName 7 PRIMARY ∧
    fileNameS 7 "secondary" < fileNameS 12 "chunk" := by
  refine ⟨by decide, by decide, by decide, by decide, by decide, ?_⟩
  rw [String.lt_iff]; simp only [fileNameS, String.toList_ofList]
  exact (name_lt_iff 7 12 (by decide) (by decide) _ _).mpr (Or.inl (by decide))

/-- different names of one number are ordered by their extensions -/
theorem name_same_number (a : Nat) (ha : a < 100000) (e₁ e₂ : List Char) :
    (fileName a e₁ < fileName a e₂ ↔ e₁ < e₂) := by
  rw [name_lt_iff a a ha ha]
  constructor
  · rintro (h | ⟨_, h⟩)
    · omega
    · exact h
  · intro h; exact Or.inr ⟨rfl, h⟩

/-- **Boundary.** At 99999 / 100000 the string order is the opposite of the numeric order: the names
are no longer of equal length and `'1' < '9'`. -/
theorem name_order_boundary :
    "100000.chunk" < "99999.chunk" ∧ ¬ ("99999.chunk" < "100000.chunk") ∧
    fileName 100000 CHUNK < fileName 99999 CHUNK ∧ fileName 100000 SECONDARY < fileName 99999 CHUNK ∧
    fileNameS 100000 "chunk" = "100000.chunk" ∧ fileNameS 99999 "chunk" = "99999.chunk" ∧
    (99999 : Nat) < 100000 := by
  refine ⟨by decide, by decide, by decide, by decide, ?_, ?_, by decide⟩ <;>
    simp [fileNameS, fileName, pad5, pad] <;> decide

/-- the names are ASCII: one byte per character, the byte is the code point -/
theorem fileName_ascii (n : Nat) (e : List Char) (he : ∀ c ∈ e, c.toNat < 128) : ∀ c ∈ fileName n e, c.toNat < 128 := by
  intro c hc
  simp only [fileName, pad5, pad, List.mem_append, List.mem_replicate, List.mem_cons] at hc
  rcases hc with (⟨_, rfl⟩ | hc) | rfl | hc
  · decide
  · have := Nat.isDigit_of_mem_toDigits (by decide) (by decide) hc
    simp only [Char.isDigit, Bool.and_eq_true, decide_eq_true_eq] at this
    have h2 := this.2
    rw [UInt32.le_iff_toNat_le] at h2
    exact Nat.lt_of_le_of_lt h2 (by decide)
  · decide
  · exact he c hc

/-! ## the digest model (C12) orders like the Rust for ALL numbers: numbers first -/

open Digester in
/-- the order of `Digester.lexLe` on code point lists is the order `≤` of `List Char` -/
theorem lexLe_iff_not_lt : ∀ (a b : List Char),
    (lexLe (a.map Char.toNat) (b.map Char.toNat) = true ↔ ¬ b < a)
  | [], _ => by simp [lexLe]
  | _ :: _, [] => by simp [lexLe]
  | x :: xs, y :: ys => by
    have ih := lexLe_iff_not_lt xs ys
    simp only [List.map_cons, lexLe, Bool.or_eq_true, Bool.and_eq_true, decide_eq_true_eq, ih,
      List.cons_lt_cons_iff, Char.lt_def]
    have hxy : x.toNat = y.toNat ↔ y = x := by
      constructor
      · intro h; exact (Char.toNat_inj.mp h).symm
      · intro h; rw [h]
    have e1 : x.toNat = x.val.toNat := rfl
    have e2 : y.toNat = y.val.toNat := rfl
    rw [UInt32.lt_iff_toNat_lt, hxy, e1, e2]
    constructor
    · rintro (h | ⟨e, h⟩)
      · rintro (h' | ⟨e', _⟩)
        · omega
        · subst e'; omega
      · rintro (h' | ⟨_, h'⟩)
        · subst e; omega
        · exact h h'
    · intro h
      by_cases h1 : x.val.toNat < y.val.toNat
      · exact Or.inl h1
      · by_cases h2 : y.val.toNat < x.val.toNat
        · exact absurd (Or.inl h2) h
        · have : y = x := by
            apply Char.ext
            apply UInt32.toNat_inj.mp
            omega
          exact Or.inr ⟨this, fun h' => h (Or.inr ⟨this, h'⟩)⟩

/-- `<[u8] as Ord>::cmp`, the comparison of two file names inside one directory (`Path::cmp` compares
the components; all files have the same parent): bytewise, a proper prefix is smaller -/
def cmpBytes : List Nat → List Nat → Ordering
  | [], [] => .eq
  | [], _ :: _ => .lt
  | _ :: _, [] => .gt
  | a :: as, b :: bs => (compare a b).then (cmpBytes as bs)

variable {γ : Type}

/-- `impl Ord for ImmutableFile` (`immutable_file.rs:192-196`):
`self.number.cmp(&other.number).then(self.path.cmp(&other.path))` -/
def rustCmp (a b : Digester.IFile γ) : Ordering := (compare a.number b.number).then (cmpBytes a.name b.name)

theorem lexLe_iff_cmpBytes : ∀ (a b : List Nat), (Digester.lexLe a b = true ↔ cmpBytes a b ≠ .gt)
  | [], [] => by simp [Digester.lexLe, cmpBytes]
  | [], _ :: _ => by simp [Digester.lexLe, cmpBytes]
  | _ :: _, [] => by simp [Digester.lexLe, cmpBytes]
  | x :: xs, y :: ys => by
    have ih := lexLe_iff_cmpBytes xs ys
    simp only [Digester.lexLe, cmpBytes, Bool.or_eq_true, Bool.and_eq_true, decide_eq_true_eq, ih, ne_eq,
      Ordering.then_eq_gt, Nat.compare_eq_gt, Nat.compare_eq_eq]
    constructor
    · rintro (h | ⟨e, h⟩)
      · rintro (h' | ⟨e', _⟩) <;> omega
      · rintro (h' | ⟨_, h'⟩)
        · omega
        · exact h h'
    · intro h
      by_cases h1 : x < y
      · exact Or.inl h1
      · by_cases h2 : y < x
        · exact absurd (Or.inl h2) h
        · have : x = y := by omega
          exact Or.inr ⟨this, fun h' => h (Or.inr ⟨this, h'⟩)⟩

/-- **Model order = Rust order, for ALL numbers.** `Digester.le` (the order `listAll` sorts with) is
`ImmutableFile::cmp(..) != Greater`. No bound on the numbers: the number is compared first, as in the Rust. -/
theorem digester_le_iff_rust (a b : Digester.IFile γ) : (Digester.le a b = true ↔ rustCmp a b ≠ .gt) := by
  unfold Digester.le rustCmp
  simp only [Bool.or_eq_true, Bool.and_eq_true, decide_eq_true_eq, ne_eq, Ordering.then_eq_gt,
    Nat.compare_eq_gt, Nat.compare_eq_eq, lexLe_iff_cmpBytes]
  constructor
  · rintro (h | ⟨e, h⟩)
    · rintro (h' | ⟨e', _⟩) <;> omega
    · rintro (h' | ⟨_, h'⟩)
      · omega
      · exact h h'
  · intro h
    by_cases h1 : a.number < b.number
    · exact Or.inl h1
    · by_cases h2 : b.number < a.number
      · exact absurd (Or.inl h2) h
      · have : a.number = b.number := by omega
        exact Or.inr ⟨this, fun h' => h (Or.inr ⟨this, h'⟩)⟩

/-- **Numbers first**: between two files of different numbers the names are never looked at — in the
model and in the Rust. The string order of the names is irrelevant for the digest. -/
theorem digester_number_first (a b : Digester.IFile γ) (h : a.number < b.number) :
    Digester.le a b = true ∧ Digester.le b a = false ∧ rustCmp a b = .lt ∧ rustCmp b a = .gt := by
  have h1 : compare a.number b.number = .lt := Nat.compare_eq_lt.mpr h
  have h2 : compare b.number a.number = .gt := Nat.compare_eq_gt.mpr h
  refine ⟨?_, ?_, ?_, ?_⟩
  · simp [Digester.le, h]
  · simp only [Digester.le, Bool.or_eq_false_iff, Bool.and_eq_false_iff, decide_eq_false_iff_not]
    exact ⟨by omega, Or.inl (by omega)⟩
  · simp [rustCmp, h1]
  · simp [rustCmp, h2]

/-- the leaves of the digest are in the order of the file numbers, whatever the numbers are -/
theorem listAll_sorted_by_number (es : List (Digester.Entry γ)) (fs : List (Digester.IFile γ))
    (h : Digester.listAll es = some fs) : fs.Pairwise (fun a b => a.number ≤ b.number) := by
  unfold Digester.listAll at h
  dsimp only at h
  split at h
  · simp only [Option.some.injEq] at h
    subst h
    refine (List.pairwise_mergeSort Digester.le_trans' Digester.le_total' _).imp ?_
    intro a b hab
    simp only [Digester.le, Bool.or_eq_true, Bool.and_eq_true, decide_eq_true_eq] at hab
    omega
  · cases h

/-- the boundary is no boundary for the digest: 99999 comes before 100000 although its name is the
greater string (`¬ lexLe "99999.chunk" "100000.chunk"`) -/
theorem digester_boundary :
    let f : Digester.IFile Unit := ⟨99999, Digester.str "99999.chunk", ()⟩
    let g : Digester.IFile Unit := ⟨100000, Digester.str "100000.chunk", ()⟩
    Digester.le f g = true ∧ Digester.le g f = false ∧ Digester.lexLe f.name g.name = false ∧
    Digester.numberOf f.name = some 99999 ∧ Digester.numberOf g.name = some 100000 := by decide

def e100000 : Digester.Entry Unit := ⟨Digester.str "100000.chunk", true, ()⟩
def e99999 : Digester.Entry Unit := ⟨Digester.str "99999.chunk", true, ()⟩

/-- … and the listing of the digest model puts 99999 before 100000 (non-vacuity of
`listAll_sorted_by_number` beyond the boundary) -/
theorem listAll_boundary :
    (Digester.listAll [e100000, e99999]).map (fun fs => fs.map (fun f => (f.number, f.name)))
      = some [(99999, Digester.str "99999.chunk"), (100000, Digester.str "100000.chunk")] := by
  have i1 : Digester.isImm e100000 = true := by decide
  have i2 : Digester.isImm e99999 = true := by decide
  have n1 : Digester.numberOf e100000.name = some 100000 := by decide
  have n2 : Digester.numberOf e99999.name = some 99999 := by decide
  unfold Digester.listAll
  simp only [List.filter_cons, i1, i2, if_true, List.filter_nil, List.all_cons, List.all_nil, n1, n2,
    Option.isSome_some, Bool.and_self, List.filterMap_cons, Digester.mkFile, Option.map_some, List.filterMap_nil]
  simp [List.mergeSort, List.MergeSort.Internal.splitInTwo, Digester.le, e100000, e99999]

/-- the client's transliteration of `list_all_in_dir` (`Db.fileLe`) is number first as well -/
theorem fileLe_iff {ν δ : Type} (N : Db.Names ν) (a b : Nat × ν × δ) :
    (Db.fileLe N a b = true ↔ a.1 < b.1 ∨ (a.1 = b.1 ∧ N.lt b.2.1 a.2.1 = false)) := by
  simp [Db.fileLe]

/-! ## the client's digest map (C10): string order alone -/

section client
open Db
variable {ν δ : Type} [DecidableEq ν]

theorem insertMap_last (N : Names ν) (hirr : ∀ a, N.lt a a = false)
    (hasym : ∀ a b, N.lt a b = true → N.lt b a = false) (e : ν × δ) :
    ∀ (m : List (ν × δ)), (∀ x ∈ m, N.lt x.1 e.1 = true) → insertMap N e m = m ++ [e]
  | [], _ => rfl
  | x :: r, h => by
    have hx := h x (by simp)
    have hne : ¬ e.1 = x.1 := by
      intro he; rw [he, hirr] at hx; cases hx
    have hnlt : N.lt e.1 x.1 = false := hasym _ _ hx
    simp only [insertMap, hne, hnlt, if_false, Bool.false_eq_true, List.cons_append]
    rw [insertMap_last N hirr hasym e r (fun y hy => h y (by simp [hy]))]

/-- a list that is strictly increasing in the order of the map keys is its own map -/
theorem toMap_sorted (N : Names ν) (hirr : ∀ a, N.lt a a = false)
    (hasym : ∀ a b, N.lt a b = true → N.lt b a = false) (l : List (ν × δ))
    (hs : l.Pairwise (fun p q => N.lt p.1 q.1 = true)) : toMap N l = l := by
  unfold toMap
  have key : ∀ (rest acc : List (ν × δ)), (acc ++ rest).Pairwise (fun p q => N.lt p.1 q.1 = true) →
      rest.foldl (fun m e => insertMap N e m) acc = acc ++ rest := by
    intro rest
    induction rest with
    | nil => intro acc _; simp
    | cons e rest ih =>
      intro acc h
      simp only [List.foldl_cons]
      have hacc : ∀ x ∈ acc, N.lt x.1 e.1 = true := by
        intro x hx
        rw [List.pairwise_append] at h
        exact h.2.2 x hx e (by simp)
      rw [insertMap_last N hirr hasym e acc hacc, ih (acc ++ [e]) (by simpa using h)]
      simp
  simpa using key l [] (by simpa using hs)

end client

/-- names as character lists, with the operations the client uses; `lt` is the string order -/
def charNames : Db.Names (List Char) where
  number := fun n =>
    match n.span Char.isDigit with
    | (ds, '.' :: _) => if ds = [] then none else some (ds.foldl (fun acc c => acc * 10 + (c.toNat - 48)) 0)
    | _ => none
  immExt := fun n => [CHUNK, PRIMARY, SECONDARY].any fun e => ('.' :: e).isSuffixOf n
  trio := fun n => [fileName n CHUNK, fileName n PRIMARY, fileName n SECONDARY]
  lt := fun a b => decide (a < b)

/-- **Below the boundary the client keeps the signer's order.** A digest list whose names are `%05d.ext`
names of numbers below 100000, listed in the order of `ImmutableFile: Ord` (number, then name) — the
order in which the signers fed the leaves — is left unchanged by the client's `BTreeMap`: the tree the
client rebuilds has the signed leaves in the signed order. For every `Names` whose `lt` is the string order. -/
theorem client_order_below_boundary {δ : Type} (N : Db.Names (List Char)) (hlt : ∀ a b, N.lt a b = decide (a < b))
    (fs : List ((Nat × List Char) × δ)) (hb : ∀ f ∈ fs, f.1.1 < 100000)
    (hs : fs.Pairwise (fun f g => f.1.1 < g.1.1 ∨
      (f.1.1 = g.1.1 ∧ fileName f.1.1 f.1.2 < fileName g.1.1 g.1.2))) :
    Db.toMap N (fs.map fun f => (fileName f.1.1 f.1.2, f.2)) = fs.map fun f => (fileName f.1.1 f.1.2, f.2) := by
  apply toMap_sorted N
  · intro a; rw [hlt]; exact decide_eq_false (list_char_lt_irrefl a)
  · intro a b h; rw [hlt] at h ⊢
    exact decide_eq_false (list_char_lt_asymm a b (of_decide_eq_true h))
  · rw [List.pairwise_map]
    refine List.Pairwise.imp_of_mem ?_ hs
    intro f g hf hg h
    rw [hlt]
    exact decide_eq_true ((name_order f.1.1 g.1.1 (hb f hf) (hb g hg) f.1.2 g.1.2).mpr h)

/-- non-vacuity: the six names of 99998 and 99999 in signer order -/
example :
    let fs : List ((Nat × List Char) × Nat) :=
      [((99998, CHUNK), 1), ((99998, PRIMARY), 2), ((99998, SECONDARY), 3),
       ((99999, CHUNK), 4), ((99999, PRIMARY), 5), ((99999, SECONDARY), 6)]
    (∀ f ∈ fs, f.1.1 < 100000) ∧
    fs.Pairwise (fun f g => f.1.1 < g.1.1 ∨ (f.1.1 = g.1.1 ∧ fileName f.1.1 f.1.2 < fileName g.1.1 g.1.2)) ∧
    (∀ a b, charNames.lt a b = decide (a < b)) := by
  refine ⟨by decide, by decide, fun _ _ => rfl⟩

def honestBelow : List (List Char × Nat) :=
  [(fileName 99998 CHUNK, 1), (fileName 99998 PRIMARY, 2), (fileName 99998 SECONDARY, 3),
   (fileName 99999 CHUNK, 4), (fileName 99999 PRIMARY, 5), (fileName 99999 SECONDARY, 6)]

def honestBeyond : List (List Char × Nat) :=
  [(fileName 99999 CHUNK, 1), (fileName 99999 PRIMARY, 2), (fileName 99999 SECONDARY, 3),
   (fileName 100000 CHUNK, 4), (fileName 100000 PRIMARY, 5), (fileName 100000 SECONDARY, 6)]

/-- **Beyond the boundary the client reorders an honest list.** The digests `1 … 6` of the files
99999.* and 100000.* were signed in the order of `ImmutableFile: Ord` (`[1,2,3,4,5,6]`,
`digester_number_first`); the client's map puts the names of 100000 first (`[4,5,6,1,2,3]`), and the
honest digest list is rejected. With 99998 / 99999 the same list is accepted. -/
theorem client_order_beyond_boundary :
    (Db.served charNames honestBeyond 100000).map (·.2) = [4, 5, 6, 1, 2, 3] ∧
    Db.verifyDigests charNames honestBeyond 100000 [1, 2, 3, 4, 5, 6] true = none ∧
    Db.verifyDigests charNames honestBelow 99999 [1, 2, 3, 4, 5, 6] true = some honestBelow := by
  decide

/-! ## the same for the `String` names of the driver's instance `Handlers.C10.names` -/

/-- the driver's `pad5` is `format!("{n:05}")` as defined here -/
theorem handler_pad5 (n : Nat) : Handlers.C10.pad5 n = String.ofList (pad5 n) := by
  simp [Handlers.C10.pad5, pad5, pad, String.ofList_append, Nat.repr_eq_ofList_toDigits]

/-- the three names the client derives from a number are the `fileNameS` names -/
theorem handler_trio (n : Nat) :
    Handlers.C10.names.trio n = [fileNameS n "chunk", fileNameS n "primary", fileNameS n "secondary"] := by
  simp [Handlers.C10.names, handler_pad5, fileNameS, fileName, String.ofList_append]

theorem client_order_below_boundary_string {δ : Type} (N : Db.Names String) (hlt : ∀ a b, N.lt a b = decide (a < b))
    (fs : List ((Nat × String) × δ)) (hb : ∀ f ∈ fs, f.1.1 < 100000)
    (hs : fs.Pairwise (fun f g => f.1.1 < g.1.1 ∨
      (f.1.1 = g.1.1 ∧ fileNameS f.1.1 f.1.2 < fileNameS g.1.1 g.1.2))) :
    Db.toMap N (fs.map fun f => (fileNameS f.1.1 f.1.2, f.2)) = fs.map fun f => (fileNameS f.1.1 f.1.2, f.2) := by
  apply toMap_sorted N
  · intro a; rw [hlt]; exact decide_eq_false (by rw [String.lt_iff]; exact list_char_lt_irrefl _)
  · intro a b h; rw [hlt] at h ⊢
    have h' := of_decide_eq_true h
    rw [String.lt_iff] at h'
    exact decide_eq_false (by rw [String.lt_iff]; exact list_char_lt_asymm _ _ h')
  · rw [List.pairwise_map]
    refine List.Pairwise.imp_of_mem ?_ hs
    intro f g hf hg h
    rw [hlt]
    exact decide_eq_true ((name_order_string f.1.1 g.1.1 (hb f hf) (hb g hg) f.1.2 g.1.2).mpr h)

/-- non-vacuity of `toMap_sorted` / `client_order_below_boundary_string`: hypotheses on a two element list -/
example :
    let fs : List ((Nat × String) × Nat) := [((99998, "secondary"), 3), ((99999, "chunk"), 4)]
    (∀ f ∈ fs, f.1.1 < 100000) ∧
    fs.Pairwise (fun f g => f.1.1 < g.1.1 ∨ (f.1.1 = g.1.1 ∧ fileNameS f.1.1 f.1.2 < fileNameS g.1.1 g.1.2)) := by
  refine ⟨by decide, ?_⟩
  simp

/-- … in particular for the instance the driver runs (`Handlers.C10.names`, whose `lt` is `decide (a < b)`) -/
theorem client_order_below_boundary_driver {δ : Type}
    (fs : List ((Nat × String) × δ)) (hb : ∀ f ∈ fs, f.1.1 < 100000)
    (hs : fs.Pairwise (fun f g => f.1.1 < g.1.1 ∨
      (f.1.1 = g.1.1 ∧ fileNameS f.1.1 f.1.2 < fileNameS g.1.1 g.1.2))) :
    Db.toMap Handlers.C10.names (fs.map fun f => (fileNameS f.1.1 f.1.2, f.2)) =
      fs.map fun f => (fileNameS f.1.1 f.1.2, f.2) :=
  client_order_below_boundary_string Handlers.C10.names (fun _ _ => rfl) fs hb hs

end NameOrder
