import MithrilModel.LegacyDec
/-!
Legacy (fixed-layout) byte ENCODERS of mithril-stm and the round trip `decode (encode v) = v`.

The crate's `to_bytes` functions write CBOR nowadays; the legacy layouts are only *read*
(`from_bytes_legacy`). The encoders below are the transliteration of the hand assembly in
`harness/core/src/bin/c05.rs` (`legacy_single`, `legacy_reg`, `legacy_sigreg`, `legacy_path`,
`legacy_aggregate`), i.e. of exactly the byte strings the real decoders are fed with on every check run.
Every `u64` is 8 big-endian bytes.
-/
namespace LegacyEnc
open Decoder LegacyDec

/-- `u64::to_be_bytes` -/
def be8 (n : Nat) : Bytes :=
  [UInt8.ofNat (n / 72057594037927936 % 256), UInt8.ofNat (n / 281474976710656 % 256),
   UInt8.ofNat (n / 1099511627776 % 256), UInt8.ofNat (n / 4294967296 % 256),
   UInt8.ofNat (n / 16777216 % 256), UInt8.ofNat (n / 65536 % 256),
   UInt8.ofNat (n / 256 % 256), UInt8.ofNat (n % 256)]

/-- `legacy_single`: count ‖ indexes ‖ sigma ‖ signer index -/
def encSingle (s : SingleSig) : Bytes :=
  be8 s.indexes.length ++ (s.indexes.flatMap be8 ++ (s.sigma ++ be8 s.signerIndex))

/-- `legacy_reg`: vk ‖ stake -/
def encReg (r : RegEntry) : Bytes := r.vk ++ be8 r.stake

/-- `legacy_sigreg` on two already encoded parts: |reg| ‖ reg ‖ |sig| ‖ sig -/
def encSigRegRaw (reg sig : Bytes) : Bytes :=
  be8 reg.length ++ (reg ++ (be8 sig.length ++ sig))

def encSigReg (sr : SingleSig × RegEntry) : Bytes := encSigRegRaw (encReg sr.2) (encSingle sr.1)

/-- `legacy_path`: |values| ‖ |indices| ‖ values ‖ indices -/
def encPath (p : BatchPath) : Bytes :=
  be8 p.values.length ++ (be8 p.indices.length ++ (p.values.flatten ++ p.indices.flatMap be8))

/-- one element of the signature list of `legacy_aggregate`: |sigreg| ‖ sigreg -/
def encItem (sr : SingleSig × RegEntry) : Bytes := be8 (encSigReg sr).length ++ encSigReg sr

/-- the `ConcatenationProof` part of `legacy_aggregate`: count ‖ (|sigreg| ‖ sigreg)* ‖ path -/
def encProof (p : Proof) : Bytes :=
  be8 p.sigs.length ++ (p.sigs.flatMap encItem ++ encPath p.path)

/-- `legacy_aggregate`: type byte 0 (concatenation) ‖ proof -/
def encAggregate (p : Proof) : Bytes := 0 :: encProof p

/-! ## round trip: basic facts -/

@[simp] theorem be8_length (n : Nat) : (be8 n).length = 8 := rfl

theorem beU64_be8 (n : Nat) (h : n < 2^64) : beU64 (be8 n) = n := by
  simp [beU64, be8, List.foldl]
  omega

@[simp] theorem bind_ok {α β} (a : α) (f : α → Outcome β) : (Outcome.ok a).bind f = f a := rfl
@[simp] theorem ofOption_some {α} (a : α) : ofOption (some a) = .ok a := rfl

theorem addU_ok {a b : Nat} (h : a + b < 2^64) : addU a b = .ok (a + b) := by
  unfold addU U64MAX; rw [if_pos (by omega)]
theorem addChecked_ok {a b : Nat} (h : a + b < 2^64) : addChecked a b = .ok (a + b) := by
  unfold addChecked U64MAX; rw [if_pos (by omega)]
theorem mulU_ok {a b : Nat} (h : a * b < 2^64) : mulU a b = .ok (a * b) := by
  unfold mulU U64MAX; rw [if_pos (by omega)]
theorem mulChecked_ok {a b : Nat} (h : a * b < 2^64) : mulChecked a b = .ok (a * b) := by
  unfold mulChecked U64MAX; rw [if_pos (by omega)]

/-- the slice of `a ++ b ++ c` that is exactly `b` -/
theorem slice?_mid (bytes a b c : Bytes) (lo hi : Nat) (h : bytes = a ++ (b ++ c))
    (hlo : lo = a.length) (hhi : hi = lo + b.length) : slice? bytes lo hi = some b := by
  subst h hlo hhi
  unfold slice?
  rw [if_pos (by simp)]
  simp

@[simp] theorem flatMap_be8_length (xs : List Nat) : (xs.flatMap be8).length = 8 * xs.length := by
  induction xs with
  | nil => rfl
  | cons x xs ih => simp [List.flatMap_cons, ih]; omega

theorem idxLoop_enc (post : Bytes) : ∀ (xs : List Nat) (pre : Bytes) (i : Nat),
    pre.length = 8 + i * 8 → (∀ x ∈ xs, x < 2^64) →
    (pre ++ (xs.flatMap be8 ++ post)).length < 2^63 →
    idxLoop (pre ++ (xs.flatMap be8 ++ post)) xs.length i = .ok xs := by
  intro xs
  induction xs with
  | nil => intros; rfl
  | cons x xs ih =>
    intro pre i hpre hx hlen
    have hl : (pre ++ ((x :: xs).flatMap be8 ++ post)).length = 8 + i * 8 + 8 + 8 * xs.length + post.length := by
      simp only [List.length_append, List.flatMap_cons, flatMap_be8_length, be8_length, hpre]; omega
    rw [hl] at hlen
    simp only [List.length_cons, idxLoop]
    rw [mulU_ok (by omega), bind_ok, addU_ok (by omega), bind_ok, addU_ok (by omega), bind_ok]
    rw [slice?_mid _ pre (be8 x) (xs.flatMap be8 ++ post) _ _ (by simp) (by omega) (by simp; omega)]
    rw [ofOption_some, bind_ok]
    have e : pre ++ ((x :: xs).flatMap be8 ++ post) = (pre ++ be8 x) ++ (xs.flatMap be8 ++ post) := by simp
    rw [e, ih (pre ++ be8 x) (i + 1) (by simp; omega) (fun y hy => hx y (List.mem_cons_of_mem _ hy))
      (by rw [← e, hl]; exact hlen)]
    rw [bind_ok, beU64_be8 x (hx x (List.mem_cons_self))]

/-- lengths of concatenations of encoded parts -/
macro "lens" : tactic =>
  `(tactic| simp only [List.length_append, List.length_cons, List.length_nil, be8_length, flatMap_be8_length])

/-! ## well-formedness of honest values -/

def WF.single (O : Oracle) (s : SingleSig) : Prop :=
  s.sigma.length = 48 ∧ O.sigValid s.sigma = true ∧ s.signerIndex < 2^64 ∧ ∀ i ∈ s.indexes, i < 2^64

instance (O : Oracle) (s : SingleSig) : Decidable (WF.single O s) := by unfold WF.single; infer_instance

def WF.reg (O : Oracle) (r : RegEntry) : Prop :=
  r.vk.length = 96 ∧ O.vkValid r.vk = true ∧ r.stake < 2^64

instance (O : Oracle) (r : RegEntry) : Decidable (WF.reg O r) := by unfold WF.reg; infer_instance

theorem encSingle_length (s : SingleSig) :
    (encSingle s).length = 8 + 8 * s.indexes.length + s.sigma.length + 8 := by
  simp only [encSingle, List.length_append, flatMap_be8_length, be8_length]; omega

theorem singleSig_enc (O : Oracle) (s : SingleSig) (hwf : WF.single O s) (hlen : (encSingle s).length < 2^63) :
    singleSig O (encSingle s) = .ok s := by
  obtain ⟨hsig, hval, hsi, hidx⟩ := hwf
  have hl := encSingle_length s
  have hlen' := hlen
  rw [hl, hsig] at hlen'
  have hn : s.indexes.length < 2^64 := by omega
  have h0 : slice? (encSingle s) 0 8 = some (be8 s.indexes.length) :=
    slice?_mid _ [] _ (s.indexes.flatMap be8 ++ (s.sigma ++ be8 s.signerIndex)) 0 8 rfl rfl rfl
  have hloop : idxLoop (encSingle s) s.indexes.length 0 = .ok s.indexes :=
    idxLoop_enc (s.sigma ++ be8 s.signerIndex) s.indexes (be8 s.indexes.length) 0 rfl hidx hlen
  have h1 : slice? (encSingle s) (8 + s.indexes.length * 8) (8 + s.indexes.length * 8 + 48) = some s.sigma :=
    slice?_mid _ (be8 s.indexes.length ++ s.indexes.flatMap be8) _ (be8 s.signerIndex) _ _
      (by simp [encSingle]) (by lens; omega) (by omega)
  have h2 : slice? (encSingle s) (8 + s.indexes.length * 8 + 48) (8 + s.indexes.length * 8 + 56) = some (be8 s.signerIndex) :=
    slice?_mid _ (be8 s.indexes.length ++ (s.indexes.flatMap be8 ++ s.sigma)) _ [] _ _
      (by simp [encSingle]) (by lens; omega) (by simp)
  unfold singleSig
  rw [h0]
  simp only [ofOption_some, bind_ok, beU64_be8 _ hn]
  rw [hloop, bind_ok, mulU_ok (by omega), bind_ok, addU_ok (by omega), bind_ok, addU_ok (by omega), bind_ok]
  rw [h1, ofOption_some, bind_ok, if_pos hval, bind_ok, addU_ok (by omega), bind_ok]
  rw [h2, ofOption_some, bind_ok, beU64_be8 _ hsi]

theorem regEntry_enc (O : Oracle) (r : RegEntry) (hwf : WF.reg O r) : regEntry O (encReg r) = .ok r := by
  obtain ⟨hvk, hval, hst⟩ := hwf
  have h0 : slice? (encReg r) 0 96 = some r.vk := slice?_mid _ [] _ (be8 r.stake) 0 96 rfl rfl (by simp [hvk])
  have h1 : slice? (encReg r) 96 104 = some (be8 r.stake) :=
    slice?_mid _ r.vk _ [] 96 104 (by simp [encReg]) hvk.symm (by simp)
  unfold regEntry
  rw [h0, ofOption_some, bind_ok, if_pos hval, bind_ok, h1, ofOption_some, bind_ok, beU64_be8 _ hst]

/-! ## the version dispatch: an honest legacy payload must not start with the CBOR version byte `1` -/

theorem isCborPrefix_be8 (n : Nat) (rest : Bytes) (h : n < 2^56) : isCborPrefix (be8 n ++ rest) = false := by
  have : n / 72057594037927936 = 0 := Nat.div_eq_of_lt (by omega)
  simp [isCborPrefix, be8, this]

/-- a count of `2^56 ≤ n < 2^57` elements makes the payload start with byte `1` -/
theorem isCborPrefix_be8_big (n : Nat) (rest : Bytes) (h1 : 2^56 ≤ n) (h2 : n < 2^57) :
    isCborPrefix (be8 n ++ rest) = true := by
  have : n / 72057594037927936 = 1 := by omega
  simp [isCborPrefix, be8, this]

theorem isCborPrefix_encReg (r : RegEntry) (hlen : r.vk.length = 96) :
    isCborPrefix (encReg r) = (r.vk.head? == some 1) := by
  unfold isCborPrefix encReg
  cases h : r.vk with
  | nil => simp [h] at hlen
  | cons a t => simp

/-! `Routed.x v`: the legacy encoding of `v` does not start with the CBOR version byte `1`, so the versioned
decoder of the enclosing structure hands it to the legacy branch. For the three payloads that start with a
count this is `count < 2^56` (the top byte of the count is 0); for a registration entry it is the first byte of
the key. Honest values satisfy all of them: a count of 2^56 needs an encoding of ≥ 2^59 bytes, and blst accepts
a 96-byte key only when bit 7 of its first byte (the compression flag) is set (`CompressedKeys`). -/

def Routed.single (s : SingleSig) : Prop := s.indexes.length < 2^56
def Routed.reg (r : RegEntry) : Prop := r.vk.head? ≠ some 1
def Routed.path (p : BatchPath) : Prop := p.values.length < 2^56
def Routed.sigReg (sr : SingleSig × RegEntry) : Prop := Routed.single sr.1 ∧ Routed.reg sr.2
def Routed.proof (p : Proof) : Prop := (∀ sr ∈ p.sigs, Routed.sigReg sr) ∧ Routed.path p.path

instance (s : SingleSig) : Decidable (Routed.single s) := by unfold Routed.single; infer_instance
instance (r : RegEntry) : Decidable (Routed.reg r) := by unfold Routed.reg; infer_instance
instance (p : BatchPath) : Decidable (Routed.path p) := by unfold Routed.path; infer_instance
instance (sr : SingleSig × RegEntry) : Decidable (Routed.sigReg sr) := by unfold Routed.sigReg; infer_instance
instance (p : Proof) : Decidable (Routed.proof p) := by unfold Routed.proof; infer_instance

/-- the property of the real point validation that makes `Routed.reg` automatic: an accepted key has the
compression flag set (`blst::min_sig::PublicKey::deserialize`: a 96-byte input needs `pk_in[0] & 0x80 != 0`) -/
def CompressedKeys (O : Oracle) : Prop := ∀ b x, O.vkValid b = true → b.head? = some x → 128 ≤ x.toNat

theorem Routed.reg_of_compressed (O : Oracle) (hO : CompressedKeys O) (r : RegEntry) (h : O.vkValid r.vk = true) :
    Routed.reg r := by
  intro h1
  have := hO _ 1 h h1
  revert this; decide

theorem nestedSingle_enc (O : Oracle) (s : SingleSig) (hwf : WF.single O s) (hlen : (encSingle s).length < 2^63)
    (hn : Routed.single s) : nestedSingle O (encSingle s) = .ok (.val s) := by
  unfold nestedSingle
  rw [show encSingle s = be8 s.indexes.length ++ (s.indexes.flatMap be8 ++ (s.sigma ++ be8 s.signerIndex)) from rfl,
    isCborPrefix_be8 _ _ hn]
  simp only [Bool.false_eq_true, if_false]
  rw [show be8 s.indexes.length ++ (s.indexes.flatMap be8 ++ (s.sigma ++ be8 s.signerIndex)) = encSingle s from rfl,
    singleSig_enc O s hwf hlen, bind_ok]

theorem nestedReg_enc (O : Oracle) (r : RegEntry) (hwf : WF.reg O r) (h1 : Routed.reg r) :
    nestedReg O (encReg r) = .ok (.val r) := by
  unfold nestedReg
  rw [isCborPrefix_encReg r hwf.1, regEntry_enc O r hwf, bind_ok]
  unfold Routed.reg at h1
  simp [h1]

/-- MIS-ROUTING in the model: a registration entry whose key starts with byte `1` is handed to the CBOR
branch although its legacy encoding is honest. (Cannot happen with the real oracle: blst accepts a 96-byte key
only if bit 7 of its first byte — the compression flag — is set.) -/
theorem nestedReg_enc_misrouted (O : Oracle) (r : RegEntry) (hlen : r.vk.length = 96) (h1 : r.vk.head? = some 1) :
    nestedReg O (encReg r) = .ok .cbor := by
  unfold nestedReg
  rw [isCborPrefix_encReg r hlen]
  simp [h1]

/-- … and so is a single signature with `2^56 ≤ count < 2^57` indexes (an encoding of more than 2^59 bytes) -/
theorem nestedSingle_enc_misrouted (O : Oracle) (s : SingleSig) (h1 : 2^56 ≤ s.indexes.length)
    (h2 : s.indexes.length < 2^57) : nestedSingle O (encSingle s) = .ok .cbor := by
  unfold nestedSingle
  rw [show encSingle s = be8 s.indexes.length ++ (s.indexes.flatMap be8 ++ (s.sigma ++ be8 s.signerIndex)) from rfl,
    isCborPrefix_be8_big _ _ h1 h2]
  rfl

theorem encReg_length (r : RegEntry) : (encReg r).length = r.vk.length + 8 := by
  simp only [encReg, List.length_append, be8_length]

theorem encSigRegRaw_length (R S : Bytes) : (encSigRegRaw R S).length = 8 + R.length + 8 + S.length := by
  simp only [encSigRegRaw, List.length_append, be8_length]; omega

theorem sigReg_enc (O : Oracle) (s : SingleSig) (r : RegEntry) (hs : WF.single O s) (hr : WF.reg O r)
    (hrt : Routed.sigReg (s, r))
    (hlen : (encSigReg (s, r)).length < 2^63) : sigReg O (encSigReg (s, r)) = .ok (.val (s, r)) := by
  obtain ⟨hn, h1⟩ := hrt
  have hl : (encSigReg (s, r)).length = 8 + (encReg r).length + 8 + (encSingle s).length := encSigRegRaw_length _ _
  rw [hl] at hlen
  have h0 : slice? (encSigReg (s, r)) 0 8 = some (be8 (encReg r).length) :=
    slice?_mid _ [] _ (encReg r ++ (be8 (encSingle s).length ++ encSingle s)) 0 8 rfl rfl rfl
  have h2 : slice? (encSigReg (s, r)) 8 (8 + (encReg r).length) = some (encReg r) :=
    slice?_mid _ (be8 (encReg r).length) _ (be8 (encSingle s).length ++ encSingle s) _ _ rfl rfl rfl
  have h3 : slice? (encSigReg (s, r)) (8 + (encReg r).length) (8 + (encReg r).length + 8) = some (be8 (encSingle s).length) :=
    slice?_mid _ (be8 (encReg r).length ++ encReg r) _ (encSingle s) _ _
      (by simp [encSigReg, encSigRegRaw]) (by lens) (by lens)
  have h4 : slice? (encSigReg (s, r)) (8 + (encReg r).length + 8) (8 + (encReg r).length + 8 + (encSingle s).length)
      = some (encSingle s) :=
    slice?_mid _ (be8 (encReg r).length ++ (encReg r ++ be8 (encSingle s).length)) _ [] _ _
      (by simp [encSigReg, encSigRegRaw]) (by lens; omega) (by lens)
  unfold sigReg
  rw [h0, ofOption_some, bind_ok, beU64_be8 _ (by omega), addChecked_ok (by omega), bind_ok, h2, ofOption_some, bind_ok,
    nestedReg_enc O r hr h1, bind_ok, addChecked_ok (by omega), bind_ok, h3, ofOption_some, bind_ok,
    beU64_be8 _ (by omega), addChecked_ok (by omega), bind_ok, h4, ofOption_some, bind_ok,
    nestedSingle_enc O s hs (by omega) hn, bind_ok]

/-! ## `MerkleBatchPath` -/

def WF.path (p : BatchPath) : Prop :=
  (∀ v ∈ p.values, v.length = 32) ∧ ∀ i ∈ p.indices, i < 2^64

instance (p : BatchPath) : Decidable (WF.path p) := by unfold WF.path; infer_instance

theorem flatten_length32 (vs : List Bytes) (h : ∀ v ∈ vs, v.length = 32) : vs.flatten.length = 32 * vs.length := by
  induction vs with
  | nil => rfl
  | cons v vs ih =>
    rw [List.flatten_cons, List.length_append, ih (fun w hw => h w (List.mem_cons_of_mem _ hw)),
      h v List.mem_cons_self, List.length_cons]; omega

theorem valLoop_enc (post : Bytes) : ∀ (vs : List Bytes) (pre : Bytes) (i : Nat),
    pre.length = 16 + i * 32 → (∀ v ∈ vs, v.length = 32) →
    (pre ++ (vs.flatten ++ post)).length < 2^63 →
    valLoop (pre ++ (vs.flatten ++ post)) vs.length i = .ok vs := by
  intro vs
  induction vs with
  | nil => intros; rfl
  | cons v vs ih =>
    intro pre i hpre hv hlen
    have hv32 := hv v List.mem_cons_self
    have hvs : ∀ w ∈ vs, w.length = 32 := fun w hw => hv w (List.mem_cons_of_mem _ hw)
    have hl : (pre ++ ((v :: vs).flatten ++ post)).length = 16 + i * 32 + 32 + 32 * vs.length + post.length := by
      simp only [List.length_append, List.flatten_cons, flatten_length32 vs hvs, hv32, hpre]; omega
    rw [hl] at hlen
    simp only [List.length_cons, valLoop]
    rw [mulChecked_ok (by omega), bind_ok, addChecked_ok (by omega), bind_ok, addChecked_ok (by omega), bind_ok,
      mulChecked_ok (by omega), bind_ok, addChecked_ok (by omega), bind_ok]
    rw [slice?_mid _ pre v (vs.flatten ++ post) _ _ (by simp) (by omega) (by omega)]
    rw [ofOption_some, bind_ok]
    have e : pre ++ ((v :: vs).flatten ++ post) = (pre ++ v) ++ (vs.flatten ++ post) := by simp
    rw [e, ih (pre ++ v) (i + 1) (by rw [List.length_append, hpre, hv32]; omega) hvs (by rw [← e, hl]; exact hlen)]
    rw [bind_ok]

theorem indLoop_enc (post : Bytes) (off : Nat) : ∀ (xs : List Nat) (pre : Bytes) (i : Nat),
    pre.length = off + i * 8 → (∀ x ∈ xs, x < 2^64) →
    (pre ++ (xs.flatMap be8 ++ post)).length < 2^63 →
    indLoop (pre ++ (xs.flatMap be8 ++ post)) off xs.length i = .ok xs := by
  intro xs
  induction xs with
  | nil => intros; rfl
  | cons x xs ih =>
    intro pre i hpre hx hlen
    have hl : (pre ++ ((x :: xs).flatMap be8 ++ post)).length = off + i * 8 + 8 + 8 * xs.length + post.length := by
      simp only [List.length_append, List.flatMap_cons, flatMap_be8_length, be8_length, hpre]; omega
    rw [hl] at hlen
    simp only [List.length_cons, indLoop]
    rw [mulChecked_ok (by omega), bind_ok, addChecked_ok (by omega), bind_ok, addChecked_ok (by omega), bind_ok,
      mulChecked_ok (by omega), bind_ok, addChecked_ok (by omega), bind_ok]
    rw [slice?_mid _ pre (be8 x) (xs.flatMap be8 ++ post) _ _ (by simp) (by omega) (by simp; omega)]
    rw [ofOption_some, bind_ok]
    have e : pre ++ ((x :: xs).flatMap be8 ++ post) = (pre ++ be8 x) ++ (xs.flatMap be8 ++ post) := by simp
    rw [e, ih (pre ++ be8 x) (i + 1) (by simp; omega) (fun y hy => hx y (List.mem_cons_of_mem _ hy))
      (by rw [← e, hl]; exact hlen)]
    rw [bind_ok, beU64_be8 x (hx x List.mem_cons_self)]

theorem encPath_length (p : BatchPath) (h : ∀ v ∈ p.values, v.length = 32) :
    (encPath p).length = 16 + 32 * p.values.length + 8 * p.indices.length := by
  simp only [encPath, List.length_append, be8_length, flatMap_be8_length, flatten_length32 _ h]; omega

theorem batchPath_enc (p : BatchPath) (hwf : WF.path p) (hlen : (encPath p).length < 2^63) :
    batchPath (encPath p) = .ok p := by
  obtain ⟨hv, hi⟩ := hwf
  have hl := encPath_length p hv
  have hlen' := hlen
  rw [hl] at hlen'
  have h0 : slice? (encPath p) 0 8 = some (be8 p.values.length) :=
    slice?_mid _ [] _ (be8 p.indices.length ++ (p.values.flatten ++ p.indices.flatMap be8)) 0 8 rfl rfl rfl
  have h1 : slice? (encPath p) 8 16 = some (be8 p.indices.length) :=
    slice?_mid _ (be8 p.values.length) _ (p.values.flatten ++ p.indices.flatMap be8) 8 16 rfl rfl rfl
  have hvals : valLoop (encPath p) p.values.length 0 = .ok p.values := by
    have := valLoop_enc (p.indices.flatMap be8) p.values (be8 p.values.length ++ be8 p.indices.length) 0 rfl hv
      (by rw [show (be8 p.values.length ++ be8 p.indices.length ++ (p.values.flatten ++ p.indices.flatMap be8)) = encPath p by
            simp [encPath]]; exact hlen)
    rw [← this]; simp [encPath]
  have hinds : indLoop (encPath p) (p.values.length * 32 + 16) p.indices.length 0 = .ok p.indices := by
    have := indLoop_enc [] (p.values.length * 32 + 16) p.indices
      (be8 p.values.length ++ (be8 p.indices.length ++ p.values.flatten)) 0
      (by simp only [List.length_append, be8_length, flatten_length32 _ hv]; omega) hi
      (by rw [show (be8 p.values.length ++ (be8 p.indices.length ++ p.values.flatten) ++ (p.indices.flatMap be8 ++ [])) = encPath p by
            simp [encPath]]; exact hlen)
    rw [← this]; simp [encPath]
  unfold batchPath
  rw [h0, ofOption_some, bind_ok, h1, ofOption_some, bind_ok]
  simp only [beU64_be8 _ (show p.values.length < 2^64 by omega), beU64_be8 _ (show p.indices.length < 2^64 by omega)]
  rw [hvals, bind_ok, mulChecked_ok (by omega), bind_ok, addChecked_ok (by omega), bind_ok, hinds, bind_ok]

/-! ## `ConcatenationProof` and `AggregateSignature` -/

/-- what the signature loop needs of one element -/
def WF.sigReg (O : Oracle) (sr : SingleSig × RegEntry) : Prop := WF.single O sr.1 ∧ WF.reg O sr.2

instance (O : Oracle) (sr : SingleSig × RegEntry) : Decidable (WF.sigReg O sr) := by unfold WF.sigReg; infer_instance

theorem encItem_length (sr : SingleSig × RegEntry) : (encItem sr).length = 8 + (encSigReg sr).length := by
  simp only [encItem, List.length_append, be8_length]

theorem sigRegLoop_enc (O : Oracle) (post : Bytes) : ∀ (xs : List (SingleSig × RegEntry)) (pre : Bytes),
    (∀ sr ∈ xs, WF.sigReg O sr) → (∀ sr ∈ xs, Routed.sigReg sr) →
    (pre ++ (xs.flatMap encItem ++ post)).length < 2^63 →
    sigRegLoop O (pre ++ (xs.flatMap encItem ++ post)) xs.length pre.length
      = .ok (.val xs, (pre ++ xs.flatMap encItem).length) := by
  intro xs
  induction xs with
  | nil => intro pre _ _ _; simp [sigRegLoop]
  | cons sr xs ih =>
    intro pre hwf hrt hlen
    obtain ⟨hs, hr⟩ := hwf sr List.mem_cons_self
    have e : pre ++ ((sr :: xs).flatMap encItem ++ post) = (pre ++ encItem sr) ++ (xs.flatMap encItem ++ post) := by simp
    have hl : (pre ++ ((sr :: xs).flatMap encItem ++ post)).length
        = pre.length + 8 + (encSigReg sr).length + ((xs.flatMap encItem).length + post.length) := by
      rw [e]; simp only [List.length_append, encItem_length]; omega
    have hlen' := hlen
    rw [hl] at hlen'
    have h0 : slice? (pre ++ ((sr :: xs).flatMap encItem ++ post)) pre.length (pre.length + 8)
        = some (be8 (encSigReg sr).length) :=
      slice?_mid _ pre _ (encSigReg sr ++ (xs.flatMap encItem ++ post)) _ _ (by simp [encItem]) rfl rfl
    have h2 : slice? (pre ++ ((sr :: xs).flatMap encItem ++ post)) (pre.length + 8) (pre.length + 8 + (encSigReg sr).length)
        = some (encSigReg sr) :=
      slice?_mid _ (pre ++ be8 (encSigReg sr).length) _ (xs.flatMap encItem ++ post) _ _ (by simp [encItem]) (by lens) rfl
    have hrec := ih (pre ++ encItem sr) (fun y hy => hwf y (List.mem_cons_of_mem _ hy))
      (fun y hy => hrt y (List.mem_cons_of_mem _ hy)) (by rw [← e]; exact hlen)
    rw [← e, show (pre ++ encItem sr).length = pre.length + 8 + (encSigReg sr).length by
      rw [List.length_append, encItem_length]; omega] at hrec
    have hpre : isCborPrefix (encSigReg sr) = false :=
      isCborPrefix_be8 (encReg sr.2).length _ (by rw [encReg_length, hr.1]; decide)
    simp only [List.length_cons, sigRegLoop]
    rw [addChecked_ok (by omega), bind_ok, h0, ofOption_some, bind_ok, beU64_be8 _ (by omega),
      addChecked_ok (by omega), bind_ok, h2, ofOption_some, bind_ok, hpre, if_neg Bool.false_ne_true,
      sigReg_enc O sr.1 sr.2 hs hr (hrt sr List.mem_cons_self) (by show (encSigReg sr).length < 2^63; omega), bind_ok, hrec, bind_ok]
    simp

def WF.proof (O : Oracle) (p : Proof) : Prop :=
  (∀ sr ∈ p.sigs, WF.sigReg O sr) ∧ WF.path p.path

instance (O : Oracle) (p : Proof) : Decidable (WF.proof O p) := by unfold WF.proof; infer_instance

theorem encSigReg_length_ge (O : Oracle) (sr : SingleSig × RegEntry) (hs : WF.single O sr.1) (hr : WF.reg O sr.2) :
    184 ≤ (encSigReg sr).length := by
  have : (encSigReg sr).length = 8 + (encReg sr.2).length + 8 + (encSingle sr.1).length := encSigRegRaw_length _ _
  rw [this, encReg_length, encSingle_length, hs.1, hr.1]; omega

theorem items_length_ge (O : Oracle) (xs : List (SingleSig × RegEntry)) (h : ∀ sr ∈ xs, WF.sigReg O sr) :
    192 * xs.length ≤ (xs.flatMap encItem).length := by
  induction xs with
  | nil => simp
  | cons sr xs ih =>
    have := encSigReg_length_ge O sr (h sr List.mem_cons_self).1 (h sr List.mem_cons_self).2
    have := ih (fun y hy => h y (List.mem_cons_of_mem _ hy))
    rw [List.flatMap_cons, List.length_append, encItem_length, List.length_cons]; omega

theorem encProof_length (p : Proof) :
    (encProof p).length = 8 + (p.sigs.flatMap encItem).length + (encPath p.path).length := by
  simp only [encProof, List.length_append, be8_length]; omega

/-- the number of signatures of a proof shorter than 2^63 bytes is below 2^56: the count field starts with byte 0 -/
theorem sigs_count_lt (O : Oracle) (p : Proof) (hwf : WF.proof O p) (hlen : (encProof p).length < 2^63) :
    p.sigs.length < 2^56 := by
  have := items_length_ge O p.sigs hwf.1
  rw [encProof_length] at hlen; omega

theorem proof_enc (O : Oracle) (p : Proof) (hwf : WF.proof O p) (hrt : Routed.proof p)
    (hlen : (encProof p).length < 2^63) : proof O (encProof p) = .ok (.val p) := by
  have hcnt := sigs_count_lt O p hwf hlen
  have hl := encProof_length p
  have h0 : slice? (encProof p) 0 8 = some (be8 p.sigs.length) :=
    slice?_mid _ [] _ (p.sigs.flatMap encItem ++ encPath p.path) 0 8 rfl rfl rfl
  have hloop : sigRegLoop O (encProof p) p.sigs.length 8
      = .ok (.val p.sigs, (be8 p.sigs.length ++ p.sigs.flatMap encItem).length) :=
    sigRegLoop_enc O (encPath p.path) p.sigs (be8 p.sigs.length)
      hwf.1 hrt.1 hlen
  have h1 : slice? (encProof p) (be8 p.sigs.length ++ p.sigs.flatMap encItem).length (encProof p).length
      = some (encPath p.path) :=
    slice?_mid _ (be8 p.sigs.length ++ p.sigs.flatMap encItem) _ [] _ _ (by simp [encProof]) rfl
      (by rw [hl]; simp only [List.length_append, be8_length])
  have hpre : isCborPrefix (encPath p.path) = false := isCborPrefix_be8 _ _ hrt.2
  have hpl : (encPath p.path).length < 2^63 := by omega
  unfold proof
  rw [h0, ofOption_some, bind_ok, beU64_be8 _ (by omega), hloop, bind_ok]
  simp only []
  rw [h1, ofOption_some, bind_ok, hpre]
  simp only [Bool.false_eq_true, if_false]
  rw [batchPath_enc p.path hwf.2 hpl, bind_ok]

theorem proofVersioned_enc (O : Oracle) (p : Proof) (hwf : WF.proof O p) (hrt : Routed.proof p)
    (hlen : (encProof p).length < 2^63) : proofVersioned O (encProof p) = .ok (.val p) := by
  unfold proofVersioned
  rw [show isCborPrefix (encProof p) = false from isCborPrefix_be8 _ _ (sigs_count_lt O p hwf hlen)]
  simp only [Bool.false_eq_true, if_false]
  exact proof_enc O p hwf hrt hlen

theorem aggregate_enc (O : Oracle) (p : Proof) (hwf : WF.proof O p) (hrt : Routed.proof p)
    (hlen : (encAggregate p).length < 2^63) : aggregate O (encAggregate p) = .ok (.val p) := by
  have hlen' : (encProof p).length < 2^63 := by
    have : (encAggregate p).length = (encProof p).length + 1 := rfl
    omega
  simp only [aggregate, encAggregate]
  rw [if_neg (by decide), if_pos trivial]
  exact proofVersioned_enc O p hwf hrt hlen'

/-- with the real point validation (`CompressedKeys`) only the three counts have to stay below 2^56 -/
theorem Routed.proof_of_compressed (O : Oracle) (hO : CompressedKeys O) (p : Proof) (hwf : WF.proof O p)
    (hidx : ∀ sr ∈ p.sigs, sr.1.indexes.length < 2^56) (hval : p.path.values.length < 2^56) : Routed.proof p :=
  ⟨fun sr h => ⟨hidx sr h, Routed.reg_of_compressed O hO sr.2 (hwf.1 sr h).2.2.1⟩, hval⟩

/-! decidable equality of decoder outcomes (for closed examples by `decide +kernel`) -/
deriving instance DecidableEq for Outcome
deriving instance DecidableEq for Nested

end LegacyEnc
