import MithrilModel.Mmr
namespace Mmr

variable {α β : Type} (mα : α → α → α) (mβ : β → β → β) (f : α → β)

def mapQ (q : List (Nat × α × Nat)) : List (Nat × β × Nat) := q.map fun e => (e.1, f e.2.1, e.2.2)

@[simp] theorem mapQ_nil : mapQ f ([] : List (Nat × α × Nat)) = [] := rfl
@[simp] theorem mapQ_cons (p : Nat) (a : α) (h : Nat) (q : List (Nat × α × Nat)) :
    mapQ f ((p, a, h) :: q) = (p, f a, h) :: mapQ f q := rfl
@[simp] theorem mapQ_append (q1 q2 : List (Nat × α × Nat)) : mapQ f (q1 ++ q2) = mapQ f q1 ++ mapQ f q2 := by
  simp [mapQ]
@[simp] theorem mapQ_isEmpty (q : List (Nat × α × Nat)) : (mapQ f q).isEmpty = q.isEmpty := by
  cases q <;> rfl

theorem peakRoot_map (hom : ∀ a b, f (mα a b) = mβ (f a) (f b)) (peakPos : Nat) :
    ∀ (fuel : Nat) (q : List (Nat × α × Nat)) (proof : List α),
      peakRoot mβ peakPos fuel (mapQ f q) (proof.map f) =
        (peakRoot mα peakPos fuel q proof).map (fun r => (f r.1, r.2.map f)) := by
  intro fuel
  induction fuel with
  | zero => intro q proof; simp [peakRoot]
  | succ fuel ih =>
    intro q proof
    cases q with
    | nil => simp [peakRoot]
    | cons e q =>
      obtain ⟨pos, item, height⟩ := e
      cases q with
      | nil =>
        cases proof with
        | nil =>
          simp only [mapQ_cons, mapQ_nil, List.map_nil, peakRoot]
          repeat' split
          all_goals first
            | rfl
            | (simp_all; done)
        | cons pi proof =>
          simp only [mapQ_cons, mapQ_nil, List.map_cons, peakRoot]
          repeat' split
          all_goals first
            | rfl
            | (simp_all; done)
            | (rw [← hom, ← ih]; simp)
      | cons e2 q =>
        obtain ⟨p2, it2, h2⟩ := e2
        cases proof with
        | nil =>
          simp only [mapQ_cons, List.map_nil, peakRoot]
          repeat' split
          all_goals first
            | rfl
            | (simp_all; done)
            | (rw [← hom, ← ih]; simp)
        | cons pi proof =>
          simp only [mapQ_cons, List.map_cons, peakRoot]
          repeat' split
          all_goals first
            | rfl
            | (simp_all; done)
            | (rw [← hom, ← ih]; simp)

end Mmr

namespace Mmr
variable {α β : Type} (mα : α → α → α) (mβ : β → β → β) (f : α → β)

def mapL (l : List (Nat × α)) : List (Nat × β) := l.map fun e => (e.1, f e.2)

theorem takeWhile_mapL (pk : Nat) (l : List (Nat × α)) :
    (mapL f l).takeWhile (fun e => decide (e.1 ≤ pk)) = mapL f (l.takeWhile (fun e => decide (e.1 ≤ pk))) := by
  induction l with
  | nil => rfl
  | cons e r ih =>
    simp only [mapL, List.map_cons, List.takeWhile_cons]
    split
    · simp only [List.map_cons]; congr 1
    · rfl

theorem dropWhile_mapL (pk : Nat) (l : List (Nat × α)) :
    (mapL f l).dropWhile (fun e => decide (e.1 ≤ pk)) = mapL f (l.dropWhile (fun e => decide (e.1 ≤ pk))) := by
  induction l with
  | nil => rfl
  | cons e r ih =>
    simp only [mapL, List.map_cons, List.dropWhile_cons]
    split
    · exact ih
    · rfl

theorem mapQ_of_mapL (l : List (Nat × α)) :
    (mapL f l).map (fun l => (l.1, l.2, 0)) = mapQ f (l.map fun l => (l.1, l.2, 0)) := by
  simp [mapL, mapQ]

theorem peaksLoop_map (hom : ∀ a b, f (mα a b) = mβ (f a) (f b)) (fuel : Nat) :
    ∀ (peaks : List Nat) (leaves : List (Nat × α)) (proof : List α),
      peaksLoop mβ fuel peaks (mapL f leaves) (proof.map f) =
        (peaksLoop mα fuel peaks leaves proof).map (fun r => (r.1.map f, mapL f r.2.1, r.2.2.map f)) := by
  intro peaks
  induction peaks with
  | nil => intro leaves proof; simp [peaksLoop]
  | cons pk peaks ih =>
    intro leaves proof
    simp only [peaksLoop, takeWhile_mapL, dropWhile_mapL]
    generalize leaves.takeWhile (fun e => decide (e.1 ≤ pk)) = mine
    generalize leaves.dropWhile (fun e => decide (e.1 ≤ pk)) = rest
    match mine with
    | [] =>
      cases proof with
      | nil => simp [mapL]
      | cons pi proof =>
        simp only [mapL, List.map_nil, List.map_cons]
        have := ih rest proof
        simp only [mapL] at this
        rw [this]
        cases peaksLoop mα fuel peaks rest proof <;> simp
    | [(p, x)] =>
      simp only [mapL, List.map_cons, List.map_nil]
      split
      · have := ih rest proof
        simp only [mapL] at this
        rw [this]
        cases peaksLoop mα fuel peaks rest proof <;> simp
      · have hp := peakRoot_map mα mβ f hom pk fuel [(p, x, 0)] proof
        simp only [mapQ_cons, mapQ_nil] at hp
        rw [hp]
        cases hpr : peakRoot mα pk fuel [(p, x, 0)] proof with
        | none => simp
        | some r =>
          simp only [Option.map_some]
          have := ih rest r.2
          simp only [mapL] at this
          rw [this]
          cases peaksLoop mα fuel peaks rest r.2 <;> simp
    | e1 :: e2 :: more =>
      have hq : (mapL f (e1 :: e2 :: more)).map (fun l => (l.1, l.2, 0)) = mapQ f ((e1 :: e2 :: more).map fun l => (l.1, l.2, 0)) :=
        mapQ_of_mapL f _
      simp only [mapL, List.map_cons] at hq ⊢
      rw [hq]
      have hp := peakRoot_map mα mβ f hom pk fuel ((e1 :: e2 :: more).map fun l => (l.1, l.2, 0)) proof
      simp only [List.map_cons] at hp
      rw [hp]
      cases hpr : peakRoot mα pk fuel ((e1.1, e1.2, 0) :: (e2.1, e2.2, 0) :: more.map fun l => (l.1, l.2, 0)) proof with
      | none => simp
      | some r =>
        simp only [Option.map_some]
        have := ih rest r.2
        simp only [mapL] at this
        rw [this]
        cases peaksLoop mα fuel peaks rest r.2 <;> simp

end Mmr

namespace Mmr
variable {α β : Type} (mα : α → α → α) (mβ : β → β → β) (f : α → β)

theorem bagRev_map (hom : ∀ a b, f (mα a b) = mβ (f a) (f b)) :
    ∀ (l : List α), bagRev mβ (l.map f) = (bagRev mα l).map f := by
  intro l
  fun_induction bagRev mα l with
  | case1 => simp [bagRev]
  | case2 a => simp [bagRev]
  | case3 right left rest ih =>
    simp only [List.map_cons] at ih ⊢
    rw [bagRev, ← hom]
    exact ih

theorem insertPos_mapL (x : Nat × α) (l : List (Nat × α)) :
    insertPos (x.1, f x.2) (mapL f l) = mapL f (insertPos x l) := by
  induction l with
  | nil => rfl
  | cons y r ih =>
    simp only [mapL, List.map_cons, insertPos] at ih ⊢
    split
    · rfl
    · simp only [List.map_cons]; rw [ih]

theorem sortPos_mapL (l : List (Nat × α)) : sortPos (mapL f l) = mapL f (sortPos l) := by
  induction l with
  | nil => rfl
  | cons x r ih =>
    simp only [sortPos, mapL, List.map_cons, List.foldr_cons] at ih ⊢
    rw [ih]
    exact insertPos_mapL f x _

theorem dedupPos_mapL : ∀ (l : List (Nat × α)), dedupPos (mapL f l) = mapL f (dedupPos l) := by
  intro l
  fun_induction dedupPos l with
  | case1 => simp [mapL, dedupPos]
  | case2 x => simp [mapL, dedupPos]
  | case3 x y r hxy ih =>
    simp only [mapL, List.map_cons] at ih ⊢
    rw [dedupPos]; simp only [hxy, if_true]; exact ih
  | case4 x y r hxy ih =>
    simp only [mapL, List.map_cons] at ih ⊢
    rw [dedupPos]; simp only [hxy, if_false]; rw [ih]

/-- **the verifier commutes with any merge-homomorphism on its items** -/
theorem calcRoot_map (hom : ∀ a b, f (mα a b) = mβ (f a) (f b)) (fuel mmrSize : Nat)
    (leaves : List (Nat × α)) (proof : List α) :
    calcRoot mβ fuel mmrSize (mapL f leaves) (proof.map f) = (calcRoot mα fuel mmrSize leaves proof).map f := by
  unfold calcRoot
  have hany : (mapL f leaves).any (fun l => decide (posHeight l.1 > 0)) = leaves.any (fun l => decide (posHeight l.1 > 0)) := by
    simp [mapL, List.any_map, Function.comp_def]
  have hlen : (mapL f leaves).length = leaves.length := by simp [mapL]
  have hhead : (mapL f leaves).head?.map (·.1) = leaves.head?.map (·.1) := by
    cases leaves <;> simp [mapL]
  have hhead2 : (mapL f leaves).head?.map (·.2) = (leaves.head?.map (·.2)).map f := by
    cases leaves <;> simp [mapL]
  rw [hany, hlen, hhead, hhead2]
  split
  · rfl
  · split
    · rfl
    · simp only [sortPos_mapL, dedupPos_mapL]
      rw [peaksLoop_map mα mβ f hom]
      cases peaksLoop mα fuel (getPeaks mmrSize) (dedupPos (sortPos leaves)) proof with
      | none => rfl
      | some r =>
        obtain ⟨hs, lv, pr⟩ := r
        simp only [Option.map_some]
        have hlv : (mapL f lv).isEmpty = lv.isEmpty := by cases lv <;> rfl
        rw [hlv]
        split
        · rfl
        · match pr with
          | [] => simp only [List.map_nil]; rw [← List.map_reverse]; exact bagRev_map mα mβ f hom _
          | [rhs] =>
            simp only [List.map_cons, List.map_nil]
            rw [show (hs.map f ++ [f rhs]) = (hs ++ [rhs]).map f by simp, ← List.map_reverse]
            exact bagRev_map mα mβ f hom _
          | _ :: _ :: _ => rfl

end Mmr
