/-!
Unique parsing of the protocol-message digest pre-image (`ProtocolMessage::compute_hash`, legacy scheme):
the pre-image is `k₁ v₁ k₂ v₂ … kₙ vₙ` without separators, keys from the fixed table of twelve part names,
values over the honest grammar `[0-9a-f]*` (hex digests, decimal numbers, hex-encoded keys).
Result: the pre-image determines the list of (key, value) pairs (`preimage_injective`).
-/
namespace PmInj

def isHex (c : Char) : Bool := ('0' ≤ c && c ≤ '9') || ('a' ≤ c && c ≤ 'f')

/-- the twelve part names, the longer one of the only prefix pair first -/
def keys : List (List Char) := [
  "snapshot_digest".toList,
  "cardano_transactions_merkle_root".toList,
  "cardano_blocks_transactions_merkle_root".toList,
  "next_aggregate_verification_key_snark".toList,
  "next_aggregate_verification_key".toList,
  "next_protocol_parameters".toList,
  "current_epoch".toList,
  "latest_block_number".toList,
  "cardano_blocks_transactions_block_number_offset".toList,
  "cardano_stake_distribution_epoch".toList,
  "cardano_stake_distribution_merkle_root".toList,
  "cardano_database_merkle_root".toList]

def long : List Char := "next_aggregate_verification_key_snark".toList
def short : List Char := "next_aggregate_verification_key".toList

/-- first characters of keys -/
def keyStart (c : Char) : Bool := c == 's' || c == 'c' || c == 'n' || c == 'l'

/-- a well-formed continuation: nothing, or something that starts like a key -/
def ContOk (r : List Char) : Prop := r = [] ∨ ∃ c t, r = c :: t ∧ keyStart c = true

def pre : List (List Char × List Char) → List Char
  | [] => []
  | (k, v) :: r => k ++ v ++ pre r

def WF (m : List (List Char × List Char)) : Prop := ∀ kv ∈ m, kv.1 ∈ keys ∧ ∀ c ∈ kv.2, isHex c = true

def headIsKeyStart : List Char → Bool
  | c :: _ => keyStart c
  | [] => false

theorem keys_head_b : keys.all headIsKeyStart = true := by decide

theorem keys_head : ∀ k ∈ keys, ∃ c t, k = c :: t ∧ keyStart c = true := by
  intro k hk
  have := List.all_eq_true.mp keys_head_b k hk
  cases k with
  | nil => simp [headIsKeyStart] at this
  | cons c t => exact ⟨c, t, rfl, this⟩

theorem pre_contOk (m : List (List Char × List Char)) (h : WF m) : ContOk (pre m) := by
  cases m with
  | nil => exact Or.inl rfl
  | cons kv r =>
    obtain ⟨k, v⟩ := kv
    obtain ⟨c, t, hk, hc⟩ := keys_head k (h (k, v) (by simp)).1
    exact Or.inr ⟨c, t ++ v ++ pre r, by simp [pre, hk], hc⟩

/-! ### table facts (closed, by evaluation) -/

/-- two different keys other than the prefix pair differ within their common length -/
theorem keys_differ : ∀ k ∈ keys, ∀ k2 ∈ keys, k2 ≠ k → ¬ (k = short ∧ k2 = long) → ¬ (k = long ∧ k2 = short) →
    k2.take (min k2.length k.length) ≠ k.take (min k2.length k.length) := by decide

def hexKeyShape : List Char → Bool
  | _ :: 'a' :: 'r' :: _ => true
  | _ :: 'u' :: _ => true
  | c :: _ => !isHex c
  | [] => true

theorem hex_keys_b : keys.all hexKeyShape = true := by decide

/-- a key whose first character is a hex digit continues with `a` then `r`, or with `u` -/
theorem hex_keys : ∀ k ∈ keys, ∀ c t, k = c :: t → isHex c = true →
    (∃ t', t = 'a' :: 'r' :: t') ∨ (∃ t', t = 'u' :: t') := by
  intro k hk c t hkt hc
  have h := List.all_eq_true.mp hex_keys_b k hk
  subst hkt
  unfold hexKeyShape at h
  split at h
  · rename_i heq; simp at heq; exact Or.inl ⟨_, heq.2⟩
  · rename_i heq; simp at heq; exact Or.inr ⟨_, heq.2⟩
  · rename_i heq; simp at heq; rw [← heq.1] at h; simp [hc] at h
  · rename_i heq; simp at heq

theorem not_hex_start : isHex 'r' = false ∧ isHex 'u' = false ∧ isHex '_' = false ∧
    keyStart 'r' = false ∧ keyStart 'u' = false ∧ keyStart 'a' = false ∧ keyStart '_' = false := by decide

theorem long_eq : long = short ++ "_snark".toList := by decide

/-! ### a value never looks like the start of a key -/

theorem prefix_take {α} {a b : List α} (h : a <+: b) (n : Nat) : a.take n = (b.take a.length).take n := by
  obtain ⟨t, rfl⟩ := h; simp

theorem cont_head (v r : List Char) (hv : ∀ x ∈ v, isHex x = true) (hr : ContOk r) (x : Char) (s : List Char)
    (e : v ++ r = x :: s) : isHex x = true ∨ keyStart x = true := by
  cases v with
  | nil =>
    rcases hr with rfl | ⟨c', t'', rfl, hks⟩
    · simp at e
    · simp at e; right; rw [← e.1]; exact hks
  | cons y v' => simp at e; left; rw [← e.1]; exact hv y (by simp)

theorem cont_tail (v r : List Char) (hr : ContOk r) (x : Char) (s : List Char)
    (e : v ++ r = x :: s) (hx : keyStart x = false) : ∃ v', v = x :: v' ∧ s = v' ++ r := by
  cases v with
  | nil =>
    rcases hr with rfl | ⟨c', t'', rfl, hks⟩
    · simp at e
    · simp at e; rw [e.1] at hks; simp [hx] at hks
  | cons y v' => simp at e; exact ⟨v', by rw [e.1], e.2.symm⟩

/-- inside or at the start of a non-empty hex value followed by a well-formed continuation, no key starts -/
theorem no_key_in_value (k : List Char) (hk : k ∈ keys) (c : Char) (v r : List Char) (hc : isHex c = true)
    (hv : ∀ x ∈ v, isHex x = true) (hr : ContOk r) : ¬ k <+: (c :: v ++ r) := by
  intro hp
  obtain ⟨c0, t, hkt, _⟩ := keys_head k hk
  subst hkt
  obtain ⟨s, hs⟩ := hp
  simp only [List.cons_append, List.cons.injEq] at hs
  obtain ⟨hc0, hs⟩ := hs
  subst hc0
  obtain ⟨hn1, hn2, _, hk1, hk2, hk3, _⟩ := not_hex_start
  rcases hex_keys _ hk c0 t rfl hc with ⟨t', rfl⟩ | ⟨t', rfl⟩
  · -- "?a r…": 'a' can only be a value character, then 'r' is neither hex nor a key start
    obtain ⟨v', hv', hs'⟩ := cont_tail v r hr 'a' ('r' :: t' ++ s) (by simpa using hs.symm) hk3
    have := cont_head v' r (fun x hx => hv x (by rw [hv']; simp [hx])) hr 'r' (t' ++ s) (by simpa using hs'.symm)
    rcases this with h | h
    · simp [hn1] at h
    · simp [hk1] at h
  · have := cont_head v r hv hr 'u' (t' ++ s) (by simpa using hs.symm)
    rcases this with h | h
    · simp [hn2] at h
    · simp [hk2] at h

/-! ### the lexer -/

def startsWithKey (s : List Char) : Bool := keys.any fun k => k.isPrefixOf s

/-- value = hex characters up to the first position where a key starts -/
def lexVal : List Char → List Char × List Char
  | [] => ([], [])
  | c :: r =>
    if isHex c && !startsWithKey (c :: r) then
      let (v, rest) := lexVal r
      (c :: v, rest)
    else ([], c :: r)

def lexKey (s : List Char) : Option (List Char × List Char) :=
  if long.isPrefixOf s then some (long, s.drop long.length)
  else (keys.find? fun k2 => k2.isPrefixOf s).map fun k2 => (k2, s.drop k2.length)

def lex : Nat → List Char → Option (List (List Char × List Char))
  | _, [] => some []
  | 0, _ => none
  | fuel + 1, s =>
    match lexKey s with
    | none => none
    | some (k, r) =>
      let (v, rest) := lexVal r
      (lex fuel rest).map fun m => (k, v) :: m

theorem startsWithKey_iff (s : List Char) : startsWithKey s = true ↔ ∃ k ∈ keys, k <+: s := by
  unfold startsWithKey
  simp only [List.any_eq_true, List.isPrefixOf_iff_prefix]

theorem lexVal_correct (v r : List Char) (hv : ∀ x ∈ v, isHex x = true) (hr : ContOk r) (hr2 : r = [] ∨ startsWithKey r = true) :
    lexVal (v ++ r) = (v, r) := by
  induction v with
  | nil =>
    cases r with
    | nil => rfl
    | cons c t =>
      rcases hr2 with h | h
      · cases h
      · simp only [List.nil_append, lexVal, h]
        simp
  | cons c v' ih =>
    have hc : isHex c = true := hv c (by simp)
    have hns : startsWithKey (c :: v' ++ r) = false := by
      cases hh : startsWithKey (c :: v' ++ r) with
      | false => rfl
      | true =>
        obtain ⟨k, hk, hp⟩ := (startsWithKey_iff _).mp hh
        exact absurd hp (no_key_in_value k hk c v' r hc (fun x hx => hv x (by simp [hx])) hr)
    simp only [List.cons_append] at hns ⊢
    simp only [lexVal, hc, hns, Bool.not_false, Bool.and_self, if_true]
    rw [ih (fun x hx => hv x (by simp [hx]))]

theorem long_mem : long ∈ keys := by decide

theorem lexKey_correct (k : List Char) (hk : k ∈ keys) (w : List Char)
    (hw : w = [] ∨ ∃ c t, w = c :: t ∧ (isHex c = true ∨ keyStart c = true)) :
    lexKey (k ++ w) = some (k, w) := by
  have hpk : k.isPrefixOf (k ++ w) = true := by simp [List.isPrefixOf_iff_prefix]
  -- every key that is a prefix of k ++ w is k itself, or `short` when k is `long`
  have hcand : ∀ k2 ∈ keys, k2.isPrefixOf (k ++ w) = true → k2 = k ∨ (k = long ∧ k2 = short) := by
    intro k2 hk2 hp
    have hp' : k2 <+: k ++ w := List.isPrefixOf_iff_prefix.mp hp
    by_cases he : k2 = k
    · exact Or.inl he
    · by_cases hls : k = long ∧ k2 = short
      · exact Or.inr hls
      · by_cases hsl : k = short ∧ k2 = long
        · exfalso
          obtain ⟨rfl, rfl⟩ := hsl
          rw [long_eq] at hp'
          have : "_snark".toList <+: w := by
            obtain ⟨t, ht⟩ := hp'
            rw [List.append_assoc] at ht
            exact ⟨t, List.append_cancel_left ht⟩
          obtain ⟨_, _, hn3, _, _, _, hk4⟩ := not_hex_start
          rcases hw with rfl | ⟨c, t, rfl, hc⟩
          · obtain ⟨t, ht⟩ := this; simp at ht
          · obtain ⟨t', ht⟩ := this
            simp at ht
            rw [← ht.1] at hc
            rcases hc with hc | hc
            · simp [hn3] at hc
            · simp [hk4] at hc
        · exfalso
          have hd := keys_differ k hk k2 hk2 he hsl hls
          apply hd
          have h1 := prefix_take hp' (min k2.length k.length)
          rw [h1, List.take_take, List.take_append_of_le_length (by omega)]
          congr 1
          omega
  unfold lexKey
  by_cases hl : k = long
  · subst hl
    rw [if_pos hpk]; simp
  · have hnl : long.isPrefixOf (k ++ w) = false := by
      cases h : long.isPrefixOf (k ++ w) with
      | false => rfl
      | true =>
        rcases hcand long long_mem h with h1 | h1
        · exact absurd h1.symm hl
        · exact absurd h1.1 hl
    rw [if_neg (by simp [hnl])]
    cases hf : keys.find? (fun k2 => k2.isPrefixOf (k ++ w)) with
    | none =>
      have := List.find?_eq_none.mp hf k hk
      simp [hpk] at this
    | some k2 =>
      have hp2 := List.find?_some hf
      have hm2 := List.mem_of_find?_eq_some hf
      rcases hcand k2 hm2 hp2 with h1 | h1
      · subst h1; simp
      · exact absurd h1.1 hl

/-- lexing the pre-image of a well-formed message returns the message -/
theorem lex_pre : ∀ (m : List (List Char × List Char)), WF m → ∀ fuel, m.length ≤ fuel → lex fuel (pre m) = some m := by
  intro m
  induction m with
  | nil => intro _ fuel _; cases fuel <;> rfl
  | cons kv r ih =>
    obtain ⟨k, v⟩ := kv
    intro hwf fuel hf
    have hk := (hwf (k, v) (by simp)).1
    have hv := (hwf (k, v) (by simp)).2
    have hwr : WF r := fun x hx => hwf x (by simp [hx])
    have hcr := pre_contOk r hwr
    cases fuel with
    | zero => simp at hf
    | succ fuel =>
      obtain ⟨c0, t0, hk0, _⟩ := keys_head k hk
      have hne : pre ((k, v) :: r) = c0 :: (t0 ++ v ++ pre r) := by simp [pre, hk0]
      have hw : (v ++ pre r) = [] ∨ ∃ c t, v ++ pre r = c :: t ∧ (isHex c = true ∨ keyStart c = true) := by
        cases hvr : v ++ pre r with
        | nil => exact Or.inl rfl
        | cons c t => exact Or.inr ⟨c, t, rfl, cont_head v (pre r) hv hcr c t hvr⟩
      have hlk : lexKey (pre ((k, v) :: r)) = some (k, v ++ pre r) := by
        have := lexKey_correct k hk (v ++ pre r) hw
        simpa [pre, List.append_assoc] using this
      have hr2 : pre r = [] ∨ startsWithKey (pre r) = true := by
        cases r with
        | nil => exact Or.inl rfl
        | cons kv' r' =>
          right
          obtain ⟨k', v'⟩ := kv'
          exact (startsWithKey_iff _).mpr ⟨k', (hwr (k', v') (by simp)).1, ⟨v' ++ pre r', by simp [pre]⟩⟩
      have hlv := lexVal_correct v (pre r) hv hcr hr2
      rw [hne] at hlk ⊢
      simp only [lex, hlk, hlv]
      rw [ih hwr fuel (by simpa using hf)]
      rfl

/-- **the digest pre-image of a protocol message determines the message** (honest value grammar) -/
theorem preimage_injective (m m' : List (List Char × List Char)) (h : WF m) (h' : WF m')
    (he : pre m = pre m') : m = m' := by
  have a := lex_pre m h (m.length + m'.length) (by omega)
  have b := lex_pre m' h' (m.length + m'.length) (by omega)
  rw [he] at a
  rw [a] at b
  exact Option.some.inj b

end PmInj
