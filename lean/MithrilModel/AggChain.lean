import MithrilModel.AggInv
/-!
Structure of the certificate table along every run of the aggregator model, INCLUDING ticks cut at
a crash point (C14 parent rule / epoch order / aggregate key of the epoch, C15 store invariants).
-/
namespace Agg

/-! ### `create_certificate` inserts exactly `newCert` -/

theorem createCertificate_eq (E : Env) (s : St) (e : Nat) :
    createCertificate E s e =
      match newCert E s e with
      | some c => { s with certs := s.certs ++ [c],
                           oms := updOm e (fun o => { o with certified := true }) s.oms,
                           ses := addSignedEntity s.ses e s.certs.length,
                           rt := readyOf s.rt }
      | none => s := by
  unfold createCertificate newCert
  repeat' split
  all_goals first
    | rfl
    | (simp_all; done)

/-- what `newCert` guarantees about the certificate it builds -/
theorem newCert_spec {E : Env} {s : St} {e : Nat} {c : CertRec} (h : newCert E s e = some c) :
    ∃ o m, findOm e s.oms = some o ∧ o.certified = false ∧ o.expired = false ∧
      master s.certs o.epoch = some m ∧ E.quorum e (s.sigs.filter (·.entity = e)) = true ∧
      c = { id := s.certs.length, entity := some e, epoch := o.epoch, parent := some m.id, avk := s.es.getD 0,
            signers := metadataSigners s e } := by
  unfold newCert at h
  split at h
  · simp at h
  · rename_i o ho
    split at h
    · simp at h
    · rename_i hflags
      split at h
      · simp at h
      · rename_i m hm
        split at h
        · rename_i hq
          simp only [Option.some.injEq] at h
          refine ⟨o, m, ho, ?_, ?_, hm, hq, h.symm⟩
          · cases hc : o.certified <;> simp_all
          · cases hc : o.expired <;> simp_all
        · simp at h

/-! ### the master certificate -/

theorem getLast?_mem {α} : ∀ {l : List α} {x : α}, l.getLast? = some x → x ∈ l := by
  intro l x h
  exact List.mem_of_getLast? h

theorem master_mem {certs : List CertRec} {e : Nat} {m : CertRec} (h : master certs e = some m) :
    m ∈ certs ∧ (m.epoch = e ∨ m.epoch + 1 = e) ∧ isMaster certs m = true := by
  unfold master at h
  have := List.mem_filter.mp (getLast?_mem h)
  refine ⟨this.1, ?_, ?_⟩
  · have h2 := this.2
    simp only [Bool.and_eq_true, Bool.or_eq_true, decide_eq_true_eq] at h2
    exact h2.1
  · have h2 := this.2
    simp only [Bool.and_eq_true] at h2
    exact h2.2

/-! ### invariant of the certificate table -/

/-- `c` is the first certificate of its epoch in the table (ids are insertion ranks) -/
def FirstOf (certs : List CertRec) (c : CertRec) : Prop := ∀ d ∈ certs, d.epoch = c.epoch → c.id ≤ d.id

structure CT (certs : List CertRec) : Prop where
  ids : ∀ c ∈ certs, c.id < certs.length ∧ certById c.id certs = some c
  sorted : certs.Pairwise (fun a b => a.epoch ≤ b.epoch)
  idsorted : certs.Pairwise (fun a b => a.id < b.id)
  closed : ∀ c ∈ certs, ∀ p, c.parent = some p → ∃ pc, certById p certs = some pc
  mast : ∀ c ∈ certs, (isMaster certs c = true ↔ FirstOf certs c)
  par : ∀ c ∈ certs, c.entity.isSome = true → ∃ p ∈ certs, c.parent = some p.id ∧ p.id < c.id ∧ FirstOf certs p ∧
          (p.epoch = c.epoch ∨ (p.epoch + 1 = c.epoch ∧ FirstOf certs c))

theorem certById_some {i : Nat} {l : List CertRec} {c : CertRec} (h : certById i l = some c) : c ∈ l ∧ c.id = i := by
  induction l with
  | nil => simp [certById] at h
  | cons x r ih =>
    simp only [certById] at h
    split at h
    · rename_i hx; simp at h; subst h; exact ⟨by simp, hx⟩
    · obtain ⟨a, b⟩ := ih h; exact ⟨List.mem_cons_of_mem _ a, b⟩

theorem certById_append (i : Nat) (l : List CertRec) (n : CertRec) :
    certById i (l ++ [n]) = match certById i l with
      | some c => some c
      | none => if n.id = i then some n else none := by
  induction l with
  | nil => simp [certById]
  | cons x r ih =>
    simp only [List.cons_append, certById]
    split
    · rfl
    · exact ih

theorem certById_append_of_some {i : Nat} {l : List CertRec} {c : CertRec} (n : CertRec) (h : certById i l = some c) :
    certById i (l ++ [n]) = some c := by rw [certById_append, h]

theorem pairwise_getLast {α} {R : α → α → Prop} : ∀ {l : List α} {m : α}, l.Pairwise R → l.getLast? = some m →
    ∀ x ∈ l, x = m ∨ R x m := by
  intro l
  induction l with
  | nil => intro m _ h; simp at h
  | cons a r ih =>
    intro m hp hl x hx
    obtain ⟨h1, h2⟩ := List.pairwise_cons.mp hp
    cases r with
    | nil =>
      simp at hl; simp at hx; subst hl; subst hx; exact Or.inl rfl
    | cons b r' =>
      have hl' : (b :: r').getLast? = some m := by simpa [List.getLast?_cons_cons] using hl
      rcases List.mem_cons.mp hx with rfl | hx'
      · right; exact h1 m (getLast?_mem hl')
      · exact ih h2 hl' x hx'

/-- an epoch that occurs in the table has a first certificate -/
theorem exists_first {certs : List CertRec} (hs : certs.Pairwise (fun a b => a.id < b.id)) {ep : Nat}
    (h : ∃ d ∈ certs, d.epoch = ep) : ∃ f ∈ certs, f.epoch = ep ∧ FirstOf certs f := by
  induction certs with
  | nil => obtain ⟨d, hd, _⟩ := h; simp at hd
  | cons a r ih =>
    obtain ⟨h1, h2⟩ := List.pairwise_cons.mp hs
    by_cases ha : a.epoch = ep
    · refine ⟨a, by simp, ha, ?_⟩
      intro d hd _
      rcases List.mem_cons.mp hd with rfl | hd'
      · exact Nat.le_refl _
      · exact Nat.le_of_lt (h1 d hd')
    · obtain ⟨d, hd, hde⟩ := h
      have hd' : d ∈ r := by
        rcases List.mem_cons.mp hd with rfl | hd'
        · exact absurd hde ha
        · exact hd'
      obtain ⟨f, hf, hfe, hff⟩ := ih h2 ⟨d, hd', hde⟩
      refine ⟨f, List.mem_cons_of_mem _ hf, hfe, ?_⟩
      intro x hx hxe
      rcases List.mem_cons.mp hx with rfl | hx'
      · rw [hfe] at hxe; exact absurd hxe ha
      · exact hff x hx' hxe

theorem isMaster_append_old {certs : List CertRec} (h : CT certs) (n : CertRec) {c : CertRec} (hc : c ∈ certs) :
    isMaster (certs ++ [n]) c = isMaster certs c := by
  unfold isMaster
  cases hp : c.parent with
  | none => rfl
  | some p =>
    obtain ⟨pc, hpc⟩ := h.closed c hc p hp
    simp only [certById_append_of_some n hpc, hpc]

theorem firstOf_append_old {certs : List CertRec} (h : CT certs) (n : CertRec) (hn : n.id = certs.length)
    {c : CertRec} (hc : c ∈ certs) : FirstOf (certs ++ [n]) c ↔ FirstOf certs c := by
  constructor
  · intro hf d hd he; exact hf d (List.mem_append_left _ hd) he
  · intro hf d hd he
    rcases List.mem_append.mp hd with hd | hd
    · exact hf d hd he
    · simp only [List.mem_singleton] at hd; subst hd
      rw [hn]; exact Nat.le_of_lt (h.ids c hc).1

/-- **appending the certificate `create_certificate` builds keeps the table invariant** -/
theorem CT_append {certs : List CertRec} (h : CT certs) {e' : Nat} {m : CertRec} (hm : master certs e' = some m)
    (hle : ∀ c ∈ certs, c.epoch ≤ e') (x : Nat) (avk : Nat) (sg : List Nat) :
    CT (certs ++ [{ id := certs.length, entity := some x, epoch := e', parent := some m.id, avk := avk, signers := sg }]) := by
  obtain ⟨hmc, hme, hmm⟩ := master_mem hm
  have hmid := h.ids m hmc
  let n : CertRec := { id := certs.length, entity := some x, epoch := e', parent := some m.id, avk := avk, signers := sg }
  have hnid : n.id = certs.length := rfl
  -- the new certificate is a first-of-epoch certificate iff its parent belongs to the previous epoch
  have hkey : m.epoch ≠ e' → ∀ d ∈ certs, d.epoch ≠ e' := by
    intro hne d hd hde
    obtain ⟨f, hf, hfe, hff⟩ := exists_first h.idsorted ⟨d, hd, hde⟩
    have hfm : isMaster certs f = true := (h.mast f hf).mpr hff
    have hfin : f ∈ certs.filter (fun c => (c.epoch = e' || c.epoch + 1 = e') && isMaster certs c) := by
      refine List.mem_filter.mpr ⟨hf, ?_⟩
      simp [hfe, hfm]
    have hsub : (certs.filter (fun c => (c.epoch = e' || c.epoch + 1 = e') && isMaster certs c)).Pairwise
        (fun a b => a.epoch ≤ b.epoch) := h.sorted.sublist List.filter_sublist
    rcases pairwise_getLast hsub hm f hfin with rfl | hle'
    · exact hne hfe
    · rcases hme with h1 | h1
      · exact hne h1
      · omega
  refine ⟨?_, ?_, ?_, ?_, ?_, ?_⟩
  · intro c hc
    rcases List.mem_append.mp hc with hc | hc
    · obtain ⟨a, b⟩ := h.ids c hc
      exact ⟨by simp; omega, certById_append_of_some _ b⟩
    · simp only [List.mem_singleton] at hc; subst hc
      refine ⟨by simp, ?_⟩
      rw [certById_append]
      cases hcb : certById certs.length certs with
      | none => simp
      | some c0 =>
        obtain ⟨a, b⟩ := certById_some hcb
        have := (h.ids c0 a).1
        omega
  · refine List.pairwise_append.mpr ⟨h.sorted, by simp, ?_⟩
    intro a ha b hb
    simp only [List.mem_singleton] at hb; subst hb
    exact hle a ha
  · refine List.pairwise_append.mpr ⟨h.idsorted, by simp, ?_⟩
    intro a ha b hb
    simp only [List.mem_singleton] at hb; subst hb
    exact (h.ids a ha).1
  · intro c hc p hp
    rcases List.mem_append.mp hc with hc | hc
    · obtain ⟨pc, hpc⟩ := h.closed c hc p hp
      exact ⟨pc, certById_append_of_some _ hpc⟩
    · simp only [List.mem_singleton] at hc; subst hc
      simp only [Option.some.injEq] at hp; subst hp
      exact ⟨m, certById_append_of_some _ hmid.2⟩
  · intro c hc
    rcases List.mem_append.mp hc with hc | hc
    · rw [isMaster_append_old h n hc, firstOf_append_old h n hnid hc]
      exact h.mast c hc
    · simp only [List.mem_singleton] at hc; subst hc
      have him : isMaster (certs ++ [n]) n = decide (m.epoch ≠ e') := by
        unfold isMaster
        simp only [n, certById_append_of_some _ hmid.2]
      rw [him]
      simp only [decide_eq_true_eq]
      constructor
      · intro hne d hd hde
        rcases List.mem_append.mp hd with hd | hd
        · exact absurd hde (hkey hne d hd)
        · simp only [List.mem_singleton] at hd; subst hd; exact Nat.le_refl _
      · intro hf hme'
        have := hf m (List.mem_append_left _ hmc) hme'
        have := hmid.1
        simp only [n] at *
        omega
  · intro c hc hent
    rcases List.mem_append.mp hc with hc | hc
    · obtain ⟨p, hp, h1, h2, h3, h4⟩ := h.par c hc hent
      refine ⟨p, List.mem_append_left _ hp, h1, h2, (firstOf_append_old h n hnid hp).mpr h3, ?_⟩
      rcases h4 with h4 | ⟨h4, h5⟩
      · exact Or.inl h4
      · exact Or.inr ⟨h4, (firstOf_append_old h n hnid hc).mpr h5⟩
    · simp only [List.mem_singleton] at hc; subst hc
      refine ⟨m, List.mem_append_left _ hmc, rfl, hmid.1, (firstOf_append_old h n hnid hmc).mpr ((h.mast m hmc).mp hmm), ?_⟩
      by_cases hme' : m.epoch = e'
      · exact Or.inl hme'
      · right
        refine ⟨by rcases hme with h1 | h1; exact absurd h1 hme'; exact h1, ?_⟩
        intro d hd hde
        rcases List.mem_append.mp hd with hd | hd
        · exact absurd hde (hkey hme' d hd)
        · simp only [List.mem_singleton] at hd; subst hd; exact Nat.le_refl _

theorem CT_init (g : Nat) : CT [{ id := 0, entity := none, epoch := g, parent := none, avk := g, signers := [] }] := by
  refine ⟨?_, by simp, by simp, ?_, ?_, ?_⟩
  · intro c hc; simp at hc; subst hc; simp [certById]
  · intro c hc p hp; simp at hc; subst hc; simp at hp
  · intro c hc; simp at hc; subst hc
    simp [isMaster, FirstOf]
  · intro c hc he; simp at hc; subst hc; simp at he

/-! ### the state invariant, preserved by every event including ticks cut at a crash point -/

structure SInv (E : Env) (s : St) : Prop where
  ct : CT s.certs
  omE : ∀ o ∈ s.oms, o.epoch = E.entityEpoch o.entity
  certLe : ∀ c ∈ s.certs, c.epoch ≤ s.seen
  idleLt : ∀ l, s.rt = .idle (some l) → l < s.seen
  ready : ∀ ep, s.rt = .ready ep → ep = s.seen ∧ s.es = some ep
  signing : ∀ ep e, s.rt = .signing ep e → ep = s.seen ∧ s.es = some ep ∧ E.entityEpoch e = ep
  avk : ∀ c ∈ s.certs, c.avk = c.epoch
  esRound : ∀ ep, s.es = some ep → ep ≤ s.seen ∧ s.round = some (ep + 1)
  roundGt : ∀ K, s.round = some K → ∀ c ∈ s.certs, c.epoch < K

theorem createCertificate_eq_cut (E : Env) (s : St) (e : Nat) :
    createCertificate E s e = match newCert E s e with
      | some c => createCertificateCut s e c .artAfterInsert
      | none => s := by
  rw [createCertificate_eq]
  split
  · rename_i c hc
    obtain ⟨o, m, _, _, _, _, _, hceq⟩ := newCert_spec hc
    unfold createCertificateCut
    subst hceq
    rfl
  · rfl

theorem tick_eq_crashTick (E : Env) (s : St) (tp : Tp) : tick E s tp = crashTick E s tp .artAfterInsert := by
  unfold tick crashTick
  split
  · rfl
  · rfl
  · split
    · rfl
    · unfold readyStep readyStepCut
      rfl
  · unfold signingStep signingStepCut
    simp only [createCertificate_eq_cut]
    rfl

theorem omE_updOm {E : Env} {oms : List OM} (e : Nat) {f : OM → OM} (hf : Mono f)
    (h : ∀ o ∈ oms, o.epoch = E.entityEpoch o.entity) : ∀ o ∈ updOm e f oms, o.epoch = E.entityEpoch o.entity := by
  intro o ho
  obtain ⟨o0, h0, h1⟩ := mem_updOm ho
  rcases h1 with rfl | ⟨_, rfl⟩
  · exact h _ h0
  · rw [(hf o0).1, (hf o0).2.1]; exact h _ h0

theorem omE_scan (E : Env) (tp : Tp) : ∀ (l : List Nat) (oms : List OM),
    (∀ o ∈ oms, o.epoch = E.entityEpoch o.entity) → ∀ o ∈ (scan E tp l oms).1, o.epoch = E.entityEpoch o.entity := by
  intro l
  induction l with
  | nil => intro oms h; simpa [scan] using h
  | cons e r ih =>
    intro oms h
    have h1 := omE_updOm (E := E) e (markExpired_mono tp.now) h
    simp only [scan]
    split
    · intro o ho
      rcases List.mem_append.mp ho with ho | ho
      · exact h1 o ho
      · simp only [List.mem_singleton] at ho; subst ho; rfl
    · split
      · exact h1
      · exact ih _ h1

/-- the entity `scan` selects is one of the offered ones -/
theorem scan_mem (E : Env) (tp : Tp) : ∀ (l : List Nat) (oms : List OM) (e : Nat), (scan E tp l oms).2 = some e → e ∈ l := by
  intro l
  induction l with
  | nil => intro oms e h; simp [scan] at h
  | cons a r ih =>
    intro oms e h
    simp only [scan] at h
    split at h
    · simp at h; subst h; simp
    · split at h
      · simp at h; subst h; simp
      · exact List.mem_cons_of_mem _ (ih _ e h)

/-- the invariant reads certs, oms, seen, rt, es, round only -/
theorem sinv_frame {E : Env} {s s' : St} (h : SInv E s) (hc : s'.certs = s.certs) (ho : s'.oms = s.oms)
    (hs : s'.seen = s.seen) (hr : s'.rt = s.rt) (he : s'.es = s.es) (hro : s'.round = s.round) : SInv E s' := by
  obtain ⟨a, b, c, d, e, f, g, i, j⟩ := h
  refine ⟨?_, ?_, ?_, ?_, ?_, ?_, ?_, ?_, ?_⟩
  · rw [hc]; exact a
  · rw [ho]; exact b
  · rw [hc, hs]; exact c
  · rw [hr, hs]; exact d
  · rw [hr, hs, he]; exact e
  · rw [hr, hs, he]; exact f
  · rw [hc]; exact g
  · rw [he, hs, hro]; exact i
  · rw [hro, hc]; exact j

theorem handOverGo_frame (e : Nat) : ∀ (l : List BufSig) (s : St) (r : List Nat),
    (handOverGo s e l r).1.es = s.es ∧ (handOverGo s e l r).1.round = s.round := by
  intro l
  induction l with
  | nil => intro s r; exact ⟨rfl, rfl⟩
  | cons b rest ih =>
    intro s r
    simp only [handOverGo]
    split
    · exact ih (storeSig s e b.sig) (b.sig.party :: r)
    · exact ih s r
    · exact ⟨rfl, rfl⟩

theorem handOver_sinv {E : Env} {s : St} (e : Nat) (h : SInv E s) : SInv E (handOver E s e).1 := by
  have h1 := handOverGo_core e ((s.buf.filter (·.disc = E.entityDisc e)).reverse) s []
  have h2 := handOverGo_frame e ((s.buf.filter (·.disc = E.entityDisc e)).reverse) s []
  unfold handOver
  dsimp only
  split
  · rename_i s1 removed heq
    rw [heq] at h1 h2
    exact sinv_frame h h1.2.1 h1.1 h1.2.2.2.1 h1.2.2.2.2 h2.1 h2.2
  · rename_i s1 heq
    rw [heq] at h1 h2
    exact sinv_frame h h1.2.1 h1.1 h1.2.2.2.1 h1.2.2.2.2 h2.1 h2.2

theorem handOverNoRemoval_sinv {E : Env} {s : St} (e : Nat) (h : SInv E s) : SInv E (handOverNoRemoval E s e).1 := by
  have h1 := handOverGo_core e ((s.buf.filter (·.disc = E.entityDisc e)).reverse) s []
  have h2 := handOverGo_frame e ((s.buf.filter (·.disc = E.entityDisc e)).reverse) s []
  unfold handOverNoRemoval
  split
  · rename_i s1 removed heq
    rw [heq] at h1 h2
    exact sinv_frame h h1.2.1 h1.1 h1.2.2.2.1 h1.2.2.2.2 h2.1 h2.2
  · rename_i s1 heq
    rw [heq] at h1 h2
    exact sinv_frame h h1.2.1 h1.1 h1.2.2.2.1 h1.2.2.2.2 h2.1 h2.2

theorem genesisEpoch_mem {certs : List CertRec} {g : Nat} (h : genesisEpoch certs = some g) : ∃ c ∈ certs, c.epoch = g := by
  unfold genesisEpoch at h
  cases hl : (certs.filter (·.entity.isNone)).getLast? with
  | none => simp [hl] at h
  | some c =>
    simp [hl] at h
    exact ⟨c, (List.mem_filter.mp (getLast?_mem hl)).1, h⟩

/-- idle tick -/
theorem idleStep_sinv {E : Env} {s : St} (tp : Tp) (last : Option Nat) (h : SInv E s) (hrt : s.rt = .idle last)
    (hseen : s.seen ≤ tp.epoch) : SInv E { idleStep s tp last with seen := tp.epoch } := by
  have hrun : (last.isNone || last.any (· < tp.epoch)) = true := by
    cases last with
    | none => rfl
    | some l =>
      have := h.idleLt l hrt
      simp; omega
  -- the state after the epoch initialisation, whatever the runtime state becomes
  have key : ∀ (r : Rt), (∀ l, r = .idle (some l) → l < tp.epoch) →
      (∀ ep, r = .ready ep → ep = tp.epoch ∧ (epochInit s tp).es = some ep) → (∀ ep e, r ≠ .signing ep e) →
      SInv E { epochInit s tp with rt := r, seen := tp.epoch } := by
    intro r h1 h2 h3
    refine ⟨h.ct, ?_, ?_, h1, h2, ?_, h.avk, ?_, ?_⟩
    · intro o ho; exact h.omE o (List.mem_filter.mp ho).1
    · intro c hc; exact Nat.le_trans (h.certLe c hc) hseen
    · intro ep e he; exact absurd he (h3 ep e)
    · intro ep hep
      simp only [epochInit] at hep
      split at hep
      · simp at hep; subst hep; exact ⟨Nat.le_refl _, rfl⟩
      · simp at hep
    · intro K hK c hc
      simp only [epochInit, Option.some.injEq] at hK
      have := Nat.le_trans (h.certLe c hc) hseen
      omega
  have hidle : ∀ l, s.rt = .idle (some l) → l < tp.epoch := fun l hl => Nat.lt_of_lt_of_le (h.idleLt l hl) hseen
  unfold idleStep
  simp only [hrun, if_true, Bool.true_and]
  split
  · -- precompute failed: the runtime state is kept
    have := key s.rt hidle (by intro ep he; rw [hrt] at he; cases he) (by intro ep e he; rw [hrt] at he; cases he)
    exact this
  · rename_i hnoerr
    split
    · exact key _ (by intro l hl; cases hl) (by intro ep he; cases he) (by intro ep e he; cases he)
    · split
      · exact key _ (by intro l hl; cases hl) (by intro ep he; cases he) (by intro ep e he; cases he)
      · split
        · exact key _ (by intro l hl; cases hl) (by intro ep he; cases he) (by intro ep e he; cases he)
        · rename_i g hg
          split
          · exact key _ (by intro l hl; cases hl) (by intro ep he; cases he) (by intro ep e he; cases he)
          · rename_i hne
            refine key _ (by intro l hl; cases hl) ?_ (by intro ep e he; cases he)
            intro ep he
            simp only [Rt.ready.injEq] at he
            subst he
            refine ⟨rfl, ?_⟩
            have hg' : genesisEpoch s.certs = some g := hg
            obtain ⟨c, hc, hce⟩ := genesisEpoch_mem hg'
            have hgle : g ≤ tp.epoch := by rw [← hce]; exact Nat.le_trans (h.certLe c hc) hseen
            have hpre : preNeeded s tp = true := by
              unfold preNeeded; rw [hg']; simp; omega
            have hok : signersOk s tp = true := by
              cases hso : signersOk s tp with
              | true => rfl
              | false => simp [hpre, hso] at hnoerr
            simp [epochInit, hpre, hok]

/-- ready tick (with or without a cut in the hand-over) -/
theorem readyStepCut_sinv {E : Env} {s : St} (tp : Tp) (p : CrashPoint) (h : SInv E s) {ep : Nat} (hrt : s.rt = .ready ep)
    (hep : ¬ ep < tp.epoch) (hseen : s.seen ≤ tp.epoch) (hav : ∀ e ∈ tp.avail, E.entityEpoch e = tp.epoch) :
    SInv E { readyStepCut E s tp p with seen := tp.epoch } := by
  obtain ⟨hep1, hes⟩ := h.ready ep hrt
  have hte : tp.epoch = ep := by omega
  have hse : s.seen = tp.epoch := by omega
  -- the state once the open messages have been scanned, for any admissible runtime state
  have key : ∀ (r : Rt), (r = .ready ep ∨ ∃ e, r = .signing tp.epoch e ∧ E.entityEpoch e = tp.epoch) →
      SInv E { s with oms := (scan E tp tp.avail s.oms).1, rt := r, seen := tp.epoch } := by
    intro r hr
    refine ⟨h.ct, omE_scan E tp tp.avail s.oms h.omE, ?_, ?_, ?_, ?_, h.avk, ?_, h.roundGt⟩
    · intro c hc; exact Nat.le_trans (h.certLe c hc) hseen
    · intro l hl
      rcases hr with rfl | ⟨e, rfl, _⟩ <;> cases hl
    · intro ep' he
      rcases hr with rfl | ⟨e, rfl, _⟩
      · simp only [Rt.ready.injEq] at he; subst he; exact ⟨hte.symm, hes⟩
      · cases he
    · intro ep' e' he
      rcases hr with rfl | ⟨e, rfl, hee⟩
      · cases he
      · simp only [Rt.signing.injEq] at he
        obtain ⟨rfl, rfl⟩ := he
        exact ⟨rfl, by rw [hte]; exact hes, hee⟩
    · intro ep' he'
      obtain ⟨a, b⟩ := h.esRound ep' he'
      exact ⟨Nat.le_trans a hseen, b⟩
  unfold readyStepCut
  split
  · rename_i oms' e heq
    have homs : (scan E tp tp.avail s.oms).1 = oms' := by rw [heq]
    have hee : E.entityEpoch e = tp.epoch :=
      hav e (scan_mem E tp tp.avail s.oms e (by rw [heq]))
    have kS := key (.signing tp.epoch e) (Or.inr ⟨e, rfl, hee⟩)
    have kR := key (.ready ep) (Or.inl rfl)
    rw [homs] at kS kR
    dsimp only
    split
    · exact kS
    · -- a new open message: the hand-over variants only touch signatures and buffer
      have base : SInv E { s with oms := oms' } := by
        have := sinv_frame (s' := { s with oms := oms', seen := s.seen }) kR rfl rfl (by simp [hse]) (by simp [hrt]) rfl rfl
        exact this
      split
      · -- cut before the hand-over: runtime state kept
        exact sinv_frame (s' := { s with oms := oms', seen := tp.epoch }) kR rfl rfl rfl (by simp [hrt]) rfl rfl
      · have hn := handOverNoRemoval_sinv (E := E) e base
        split
        · rename_i s2 heq2
          rw [heq2] at hn
          have hcore := handOverGo_core e (({ s with oms := oms' } : St).buf.filter (·.disc = E.entityDisc e)).reverse { s with oms := oms' } []
          have hfr := handOverGo_frame e (({ s with oms := oms' } : St).buf.filter (·.disc = E.entityDisc e)).reverse { s with oms := oms' } []
          have hs2 : s2 = (handOverNoRemoval E { s with oms := oms' } e).1 := by rw [heq2]
          have e1 : s2.oms = oms' ∧ s2.certs = s.certs ∧ s2.es = s.es ∧ s2.round = s.round := by
            rw [hs2]; unfold handOverNoRemoval
            split <;> (rename_i heq3; rw [heq3] at hcore hfr; exact ⟨hcore.1, hcore.2.1, hfr.1, hfr.2⟩)
          exact sinv_frame (s' := { s2 with rt := .signing tp.epoch e, seen := tp.epoch }) kS e1.2.1 e1.1 rfl rfl e1.2.2.1 e1.2.2.2
        · rename_i s2 heq2
          rw [heq2] at hn
          have hcore := handOverGo_core e (({ s with oms := oms' } : St).buf.filter (·.disc = E.entityDisc e)).reverse { s with oms := oms' } []
          have hfr := handOverGo_frame e (({ s with oms := oms' } : St).buf.filter (·.disc = E.entityDisc e)).reverse { s with oms := oms' } []
          have hs2 : s2 = (handOverNoRemoval E { s with oms := oms' } e).1 := by rw [heq2]
          have e1 : s2.oms = oms' ∧ s2.certs = s.certs ∧ s2.es = s.es ∧ s2.round = s.round ∧ s2.rt = s.rt := by
            rw [hs2]; unfold handOverNoRemoval
            split <;> (rename_i heq3; rw [heq3] at hcore hfr; exact ⟨hcore.1, hcore.2.1, hfr.1, hfr.2, hcore.2.2.2.2⟩)
          exact sinv_frame (s' := { s2 with seen := tp.epoch }) kR e1.2.1 e1.1 rfl (by simp [e1.2.2.2.2, hrt]) e1.2.2.1 e1.2.2.2.1
      · have hcoreH := handOver_core E { s with oms := oms' } e
        have hfr := handOverGo_frame e (({ s with oms := oms' } : St).buf.filter (·.disc = E.entityDisc e)).reverse { s with oms := oms' } []
        have hesr : (handOver E { s with oms := oms' } e).1.es = s.es ∧ (handOver E { s with oms := oms' } e).1.round = s.round := by
          unfold handOver; dsimp only
          split <;> (rename_i heq3; rw [heq3] at hfr; exact ⟨hfr.1, hfr.2⟩)
        split
        · rename_i s2 heq2
          rw [heq2] at hcoreH hesr
          exact sinv_frame (s' := { s2 with rt := .signing tp.epoch e, seen := tp.epoch }) kS hcoreH.2.1 hcoreH.1 rfl rfl hesr.1 hesr.2
        · rename_i s2 heq2
          rw [heq2] at hcoreH hesr
          have hrt2 : s2.rt = s.rt := hcoreH.2.2.2.2
          exact sinv_frame (s' := { s2 with seen := tp.epoch }) kR hcoreH.2.1 hcoreH.1 rfl
            (by show s2.rt = Rt.ready ep; rw [hrt2, hrt]) hesr.1 hesr.2
  · rename_i oms' heq
    have homs : (scan E tp tp.avail s.oms).1 = oms' := by rw [heq]
    have kR := key (.ready ep) (Or.inl rfl)
    rw [homs] at kR
    rw [← hte] at kR
    exact kR

/-- signing tick (with or without a cut in `create_certificate` / the artifact task) -/
theorem signingStepCut_sinv {E : Env} {s : St} (tp : Tp) (p : CrashPoint) (h : SInv E s) {ep e : Nat}
    (hrt : s.rt = .signing ep e) (hseen : s.seen ≤ tp.epoch) :
    SInv E { signingStepCut E s tp ep e p with seen := tp.epoch } := by
  obtain ⟨hep1, hes, hee⟩ := h.signing ep e hrt
  have homE : ∀ o ∈ markExpired tp.now e s.oms, o.epoch = E.entityEpoch o.entity :=
    omE_updOm (E := E) e (markExpired_mono tp.now) h.omE
  -- states without a new certificate
  have key0 : ∀ (r : Rt), (∀ l, r = .idle (some l) → l < tp.epoch) →
      (∀ ep', r = .ready ep' → ep' = tp.epoch ∧ s.es = some ep') →
      (∀ ep' e', r = .signing ep' e' → ep' = tp.epoch ∧ s.es = some ep' ∧ E.entityEpoch e' = ep') →
      SInv E { s with oms := markExpired tp.now e s.oms, rt := r, seen := tp.epoch } := by
    intro r h1 h2 h3
    refine ⟨h.ct, homE, ?_, h1, h2, h3, h.avk, ?_, h.roundGt⟩
    · intro c hc; exact Nat.le_trans (h.certLe c hc) hseen
    · intro ep' he'
      obtain ⟨a, b⟩ := h.esRound ep' he'
      exact ⟨Nat.le_trans a hseen, b⟩
  unfold signingStepCut
  dsimp only
  split
  · rename_i hlt
    exact key0 _ (by intro l hl; simp only [Rt.idle.injEq, Option.some.injEq] at hl; omega)
      (by intro ep' he; cases he) (by intro ep' e' he; cases he)
  · rename_i hnlt
    have hte : tp.epoch = ep := by omega
    have kSame := key0 s.rt (by intro l hl; rw [hrt] at hl; cases hl) (by intro ep' he; rw [hrt] at he; cases he)
      (by intro ep' e' he; rw [hrt] at he; simp only [Rt.signing.injEq] at he; obtain ⟨rfl, rfl⟩ := he
          exact ⟨hte.symm, hes, hee⟩)
    have kReady := key0 (.ready ep) (by intro l hl; cases hl)
      (by intro ep' he; simp only [Rt.ready.injEq] at he; subst he; exact ⟨hte.symm, hes⟩)
      (by intro ep' e' he; cases he)
    split
    · exact kReady
    · split
      · -- a certificate is built
        rename_i c hc
        obtain ⟨o, m, ho, _, _, hm, _, hceq⟩ := newCert_spec hc
        obtain ⟨hom, hoe⟩ := findOm_some ho
        have hoep : o.epoch = ep := by
          have := homE o hom
          rw [this, hoe]; exact hee
        have hle : ∀ c' ∈ s.certs, c'.epoch ≤ o.epoch := by
          intro c' hc'; rw [hoep, hep1]; exact h.certLe c' hc'
        have hct : CT (s.certs ++ [c]) := by
          rw [hceq]; exact CT_append h.ct hm hle e _ _
        have hcav : c.avk = c.epoch ∧ c.epoch = tp.epoch := by
          rw [hceq]; simp [hes, hoep, hte]
        -- any combination of the later writes
        have key1 : ∀ (oms'' : List OM) (r : Rt) (ses'' : List (Nat × Nat)),
            (∀ o ∈ oms'', o.epoch = E.entityEpoch o.entity) → (r = s.rt ∨ r = .ready ep) →
            SInv E { s with certs := s.certs ++ [c], oms := oms'', rt := r, ses := ses'', seen := tp.epoch } := by
          intro oms'' r ses'' ho'' hr
          refine ⟨hct, ho'', ?_, ?_, ?_, ?_, ?_, ?_, ?_⟩
          · intro c' hc'
            rcases List.mem_append.mp hc' with hc' | hc'
            · exact Nat.le_trans (h.certLe c' hc') hseen
            · simp only [List.mem_singleton] at hc'; subst hc'; exact Nat.le_of_eq hcav.2
          · intro l hl
            rcases hr with rfl | rfl
            · rw [hrt] at hl; cases hl
            · cases hl
          · intro ep' he
            rcases hr with rfl | rfl
            · rw [hrt] at he; cases he
            · simp only [Rt.ready.injEq] at he; subst he; exact ⟨hte.symm, hes⟩
          · intro ep' e' he
            rcases hr with rfl | rfl
            · rw [hrt] at he; simp only [Rt.signing.injEq] at he; obtain ⟨rfl, rfl⟩ := he
              exact ⟨hte.symm, hes, hee⟩
            · cases he
          · intro c' hc'
            rcases List.mem_append.mp hc' with hc' | hc'
            · exact h.avk c' hc'
            · simp only [List.mem_singleton] at hc'; subst hc'; exact hcav.1
          · intro ep' he'
            obtain ⟨a, b⟩ := h.esRound ep' he'
            exact ⟨Nat.le_trans a hseen, b⟩
          · intro K hK c' hc'
            rcases List.mem_append.mp hc' with hc' | hc'
            · exact h.roundGt K hK c' hc'
            · simp only [List.mem_singleton] at hc'; subst hc'
              have hr := (h.esRound ep hes).2
              have hK' : s.round = some K := hK
              rw [hr] at hK'
              simp only [Option.some.injEq] at hK'
              have := hcav.2
              omega
        have hcert : ∀ o ∈ updOm e (fun o => { o with certified := true }) (markExpired tp.now e s.oms),
            o.epoch = E.entityEpoch o.entity := omE_updOm (E := E) e certify_mono homE
        have hready : readyOf s.rt = .ready ep := by rw [hrt]; rfl
        unfold createCertificateCut
        cases p <;> dsimp only
        · exact kSame
        · exact key1 _ s.rt s.ses homE (Or.inl rfl)
        · exact key1 _ s.rt s.ses hcert (Or.inl rfl)
        · rw [hready]; exact key1 _ _ s.ses hcert (Or.inr rfl)
        · rw [hready]; exact key1 _ _ s.ses hcert (Or.inr rfl)
        · rw [hready]; exact key1 _ _ _ hcert (Or.inr rfl)
        · rw [hready]; exact key1 _ _ _ hcert (Or.inr rfl)
        · rw [hready]; exact key1 _ _ _ hcert (Or.inr rfl)
        · rw [hready]; exact key1 _ _ _ hcert (Or.inr rfl)
      · exact kSame

/-- **every tick, complete or cut at any crash point, keeps the state invariant** -/
theorem crashTick_sinv {E : Env} {s : St} (tp : Tp) (p : CrashPoint) (h : SInv E s) (hw : Wf E s tp) :
    SInv E { crashTick E s tp p with seen := tp.epoch } := by
  obtain ⟨hseen, hav⟩ := hw
  unfold crashTick
  split
  · rename_i last hrt
    exact idleStep_sinv tp last h hrt hseen
  · rename_i since why hrt
    have keyB : ∀ (r : Rt), (∀ l, r = .idle (some l) → l < tp.epoch) → (∀ ep, r ≠ .ready ep) → (∀ ep e, r ≠ .signing ep e) →
        SInv E { s with rt := r, seen := tp.epoch } := by
      intro r h1 h2 h3
      refine ⟨h.ct, h.omE, ?_, h1, ?_, ?_, h.avk, ?_, h.roundGt⟩
      · intro c hc; exact Nat.le_trans (h.certLe c hc) hseen
      · intro ep he; exact absurd he (h2 ep)
      · intro ep e he; exact absurd he (h3 ep e)
      · intro ep' he'
        obtain ⟨a, b⟩ := h.esRound ep' he'
        exact ⟨Nat.le_trans a hseen, b⟩
    split
    · rename_i hlt
      exact keyB _ (by intro l hl; simp only [Rt.idle.injEq, Option.some.injEq] at hl; omega)
        (by intro ep he; cases he) (by intro ep e he; cases he)
    · have := keyB s.rt (by intro l hl; rw [hrt] at hl; cases hl) (by intro ep he; rw [hrt] at he; cases he)
        (by intro ep e he; rw [hrt] at he; cases he)
      exact this
  · rename_i ep hrt
    split
    · rename_i hlt
      refine ⟨h.ct, h.omE, ?_, ?_, ?_, ?_, h.avk, ?_, h.roundGt⟩
      · intro c hc; exact Nat.le_trans (h.certLe c hc) hseen
      · intro l hl; simp only [Rt.idle.injEq, Option.some.injEq] at hl; show l < tp.epoch; omega
      · intro ep' he; cases he
      · intro ep' e' he; cases he
      · intro ep' he'
        obtain ⟨a, b⟩ := h.esRound ep' he'
        exact ⟨Nat.le_trans a hseen, b⟩
    · rename_i hnlt
      exact readyStepCut_sinv tp p h hrt hnlt hseen hav
  · rename_i ep e hrt
    exact signingStepCut_sinv tp p h hrt hseen

/-- events with their well-formedness condition (runs WITH crashes) -/
def EvWfC (E : Env) (s : St) : Event → Prop
  | .tick tp => Wf E s tp
  | .crash tp _ => Wf E s tp
  | _ => True

theorem step_sinv {E : Env} {s : St} (ev : Event) (h : SInv E s) (hw : EvWfC E s ev) : SInv E (step E s ev) := by
  cases ev with
  | tick tp =>
    show SInv E { tick E s tp with seen := tp.epoch }
    rw [tick_eq_crashTick]
    exact crashTick_sinv tp _ h hw
  | crash tp p => exact crashTick_sinv tp p h hw
  | signature e g =>
    show SInv E (registerSig E s e g)
    unfold registerSig
    split
    · exact sinv_frame h rfl rfl rfl rfl rfl rfl
    · exact sinv_frame h rfl rfl rfl rfl rfl rfl
    · exact h
  | register k p =>
    show SInv E (register s k p)
    unfold register
    split
    · exact sinv_frame h rfl rfl rfl rfl rfl rfl
    · exact h
  | expire e =>
    refine ⟨h.ct, omE_updOm (E := E) e expire_mono h.omE, h.certLe, h.idleLt, h.ready, h.signing, h.avk, h.esRound, h.roundGt⟩
  | restart =>
    refine ⟨h.ct, h.omE, h.certLe, ?_, ?_, ?_, h.avk, ?_, ?_⟩
    · intro l hl; cases hl
    · intro ep he; cases he
    · intro ep e he; cases he
    · intro ep he; cases he
    · intro K hK; cases hK

def RunWfC (E : Env) : St → List Event → Prop
  | _, [] => True
  | s, ev :: r => EvWfC E s ev ∧ RunWfC E (step E s ev) r

theorem run_sinv (E : Env) : ∀ (evs : List Event) (s : St), SInv E s → RunWfC E s evs → SInv E (evs.foldl (step E) s) := by
  intro evs
  induction evs with
  | nil => intro s h _; exact h
  | cons ev r ih => intro s h hw; exact ih _ (step_sinv ev h hw.1) hw.2

theorem sinv_init (E : Env) (n g : Nat) : SInv E (init n g) := by
  refine ⟨CT_init g, ?_, ?_, ?_, ?_, ?_, ?_, ?_, ?_⟩
  · intro o ho; simp [init] at ho
  · intro c hc; simp [init] at hc; subst hc; simp [init]
  · intro l hl; simp [init] at hl
  · intro ep he; simp [init] at he
  · intro ep e he; simp [init] at he
  · intro c hc; simp [init] at hc; subst hc; rfl
  · intro ep he; simp [init] at he
  · intro K hK; simp [init] at hK

/-- registrations are frozen: once a certificate of epoch `e` is stored, a registration is only
accepted for a key above `e` — the signer sets of the keys `e - 1` (aggregate key of epoch `e`) and
`e` (next aggregate key) never change afterwards -/
theorem regs_frozen {E : Env} {s : St} (h : SInv E s) {key party : Nat} (hr : regClass s key party = .ok) :
    ∀ c ∈ s.certs, c.epoch < key := by
  unfold regClass at hr
  split at hr
  · cases hr
  · rename_i k hk
    split at hr
    · cases hr
    · rename_i hkk
      have : k = key := by simpa using hkk
      subst this
      exact h.roundGt k hk

end Agg
