namespace SignerOnce

/-- epoch offsets shared by signer and aggregator -/
def RETRIEVAL : Int := -1
def RECORDING : Nat := 1
def SIGNING : Nat := 2

/-- the key a signer uses in epoch `E` was stored under `E + RETRIEVAL`, i.e. while registering in
`E - SIGNING`; the aggregator's signer set for `E` is the one recorded under `E + RETRIEVAL` too -/
theorem offsets_agree (E reg : Nat) (h : ((reg + RECORDING : Nat) : Int) = (E : Int) + RETRIEVAL) :
    E = reg + SIGNING := by
  unfold RECORDING RETRIEVAL SIGNING at *; omega

structure St where
  signed : List Nat        -- beacons marked as signed (persistent)
  log : List Nat           -- successful publications seen by the aggregator

/-- one `ReadyToSign` cycle: first offered beacon that is not marked; `pubOk`/`markOk` are the
fault schedule for this cycle -/
def cycle (s : St) (offered : List Nat) (pubOk markOk : Bool) : St :=
  match offered.find? (fun b => !s.signed.contains b) with
  | none => s
  | some b =>
    if pubOk then
      let s' := { s with log := s.log ++ [b] }
      if markOk then { s' with signed := s'.signed ++ [b] } else s'
    else s

def Inv (s : St) : Prop := s.log.Nodup ∧ ∀ b ∈ s.log, b ∈ s.signed

theorem cycle_inv (s : St) (offered : List Nat) (pubOk markOk : Bool) (hm : pubOk = true → markOk = true)
    (h : Inv s) : Inv (cycle s offered pubOk markOk) := by
  unfold cycle
  split
  · exact h
  · rename_i b hb
    have hnot : b ∉ s.signed := by
      have := List.find?_some hb
      simpa using this
    split
    · rename_i hp
      have hmk := hm hp
      simp only [hmk, if_true]
      obtain ⟨h1, h2⟩ := h
      refine ⟨?_, ?_⟩
      · refine List.nodup_append.mpr ⟨h1, by simp, ?_⟩
        intro a ha c hc
        simp only [List.mem_singleton] at hc; subst hc
        intro hac; subst hac
        exact hnot (h2 a ha)
      · intro c hc
        rcases List.mem_append.mp hc with hc | hc
        · exact List.mem_append_left _ (h2 c hc)
        · exact List.mem_append_right _ hc
    · exact h

/-- **At most one publication per beacon** along any run in which marking succeeds whenever
publishing does; restarts do not matter because `signed` is persistent. -/
theorem once (runs : List (List Nat × Bool × Bool)) (hm : ∀ r ∈ runs, r.2.1 = true → r.2.2 = true) :
    (runs.foldl (fun s r => cycle s r.1 r.2.1 r.2.2) { signed := [], log := [] }).log.Nodup := by
  have : ∀ (rs : List (List Nat × Bool × Bool)) (s : St), Inv s → (∀ r ∈ rs, r.2.1 = true → r.2.2 = true) →
      Inv (rs.foldl (fun s r => cycle s r.1 r.2.1 r.2.2) s) := by
    intro rs
    induction rs with
    | nil => intro s h _; exact h
    | cons r rs ih =>
      intro s h hmm
      exact ih _ (cycle_inv s r.1 r.2.1 r.2.2 (hmm r (by simp)) h) (fun r' hr' => hmm r' (List.mem_cons_of_mem _ hr'))
  exact (this runs _ ⟨List.nodup_nil, by simp⟩ hm).1

/-- a failed `mark` after a successful publish re-publishes the same beacon -/
theorem republish_counterexample :
    ([([5], true, false), ([5], true, true)].foldl (fun s (r : List Nat × Bool × Bool) => cycle s r.1 r.2.1 r.2.2)
      { signed := [], log := [] }).log = [5, 5] := by
  decide

end SignerOnce
