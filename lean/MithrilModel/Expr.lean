namespace ExprTree

/-- expression trees over node values `α` with an abstract binary `merge` -/
inductive E (α : Type) where
  | leaf : α → E α
  | node : E α → E α → E α

variable {α : Type} (merge : α → α → α)

def eval : E α → α
  | .leaf a => a
  | .node l r => merge (eval l) (eval r)

def leaves : E α → List α
  | .leaf a => [a]
  | .node l r => leaves l ++ leaves r

/-- `claimed e` marks which leaves of the verifier's expression are *claimed leaves*
(as opposed to proof items); we simply use a second tree type with a flag -/
inductive V (α : Type) where
  | claim : α → V α      -- a claimed leaf
  | item : α → V α       -- a proof item (arbitrary value)
  | node : V α → V α → V α

def veval : V α → α
  | .claim a => a
  | .item a => a
  | .node l r => merge (veval l) (veval r)

def claims : V α → List α
  | .claim a => [a]
  | .item _ => []
  | .node l r => claims l ++ claims r

def IsMerge (a : α) : Prop := ∃ x y, a = merge x y

/-- **Generic soundness.** If the verifier's expression evaluates to the value of the
committed tree, merge is injective, and neither committed leaves nor claimed leaves are
merge values, then every claimed leaf is a committed leaf. -/
theorem claims_sub_leaves
    (hinj : ∀ a b c d, merge a b = merge c d → a = c ∧ b = d) :
    ∀ (v : V α) (t : E α),
      veval merge v = eval merge t →
      (∀ a ∈ leaves t, ¬ IsMerge merge a) →
      (∀ a ∈ claims v, ¬ IsMerge merge a) →
      ∀ a ∈ claims v, a ∈ leaves t := by
  intro v
  induction v with
  | claim a =>
    intro t h hT hC x hx
    simp [claims] at hx; subst hx
    cases t with
    | leaf b => simp [veval, eval] at h; simp [leaves, h]
    | node l r =>
      exfalso
      exact hC x (by simp [claims]) ⟨_, _, by simpa [veval, eval] using h⟩
  | item a => intro t h hT hC x hx; simp [claims] at hx
  | node l r ihl ihr =>
    intro t h hT hC x hx
    cases t with
    | leaf b =>
      exfalso
      exact hT b (by simp [leaves]) ⟨_, _, by simpa [veval, eval] using h.symm⟩
    | node tl tr =>
      simp only [veval, eval] at h
      obtain ⟨h1, h2⟩ := hinj _ _ _ _ h
      simp only [claims, List.mem_append] at hx
      simp only [leaves, List.mem_append]
      rcases hx with hx | hx
      · exact Or.inl (ihl tl h1 (fun a ha => hT a (by simp [leaves, ha]))
          (fun a ha => hC a (by simp [claims, ha])) x hx)
      · exact Or.inr (ihr tr h2 (fun a ha => hT a (by simp [leaves, ha]))
          (fun a ha => hC a (by simp [claims, ha])) x hx)

/-- per-claim version: only the claim under consideration needs to be a non-merge value -/
theorem claim_mem_leaves
    (hinj : ∀ a b c d, merge a b = merge c d → a = c ∧ b = d) :
    ∀ (v : V α) (t : E α),
      veval merge v = eval merge t →
      (∀ a ∈ leaves t, ¬ IsMerge merge a) →
      ∀ a ∈ claims v, ¬ IsMerge merge a → a ∈ leaves t := by
  intro v
  induction v with
  | claim a =>
    intro t h hT x hx hnm
    simp [claims] at hx; subst hx
    cases t with
    | leaf b => simp [veval, eval] at h; simp [leaves, h]
    | node l r => exact absurd ⟨_, _, by simpa [veval, eval] using h⟩ hnm
  | item a => intro t h hT x hx; simp [claims] at hx
  | node l r ihl ihr =>
    intro t h hT x hx hnm
    cases t with
    | leaf b =>
      exfalso
      exact hT b (by simp [leaves]) ⟨_, _, by simpa [veval, eval] using h.symm⟩
    | node tl tr =>
      simp only [veval, eval] at h
      obtain ⟨h1, h2⟩ := hinj _ _ _ _ h
      simp only [claims, List.mem_append] at hx
      simp only [leaves, List.mem_append]
      rcases hx with hx | hx
      · exact Or.inl (ihl tl h1 (fun a ha => hT a (by simp [leaves, ha])) x hx hnm)
      · exact Or.inr (ihr tr h2 (fun a ha => hT a (by simp [leaves, ha])) x hx hnm)

#print axioms claims_sub_leaves
end ExprTree
