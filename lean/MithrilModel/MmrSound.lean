import MithrilModel.MmrHom
import MithrilModel.Expr
namespace Mmr
open ExprTree

variable {β : Type}

/-- claims carried by a queue -/
def claimsQ (q : List (Nat × V β × Nat)) : List β := q.flatMap fun e => claims e.2.1

theorem mem_claimsQ_append {q1 q2 : List (Nat × V β × Nat)} {x : β} :
    x ∈ claimsQ (q1 ++ q2) ↔ x ∈ claimsQ q1 ∨ x ∈ claimsQ q2 := by
  simp [claimsQ, List.flatMap_append]

/-- **coverage for one peak**: whatever `calculate_peak_root` returns contains every claim
that was in its queue -/
theorem peakRoot_cover (peakPos : Nat) :
    ∀ (fuel : Nat) (q : List (Nat × V β × Nat)) (proof : List (V β)) (r : V β) (proof' : List (V β)),
      peakRoot V.node peakPos fuel q proof = some (r, proof') →
      ∀ x ∈ claimsQ q, x ∈ claims r := by
  intro fuel
  induction fuel with
  | zero => intro q proof r proof' h; simp [peakRoot] at h
  | succ fuel ih =>
    intro q proof r proof' h x hx
    cases q with
    | nil => simp [peakRoot] at h
    | cons e q =>
      obtain ⟨pos, item, height⟩ := e
      simp only [peakRoot] at h
      split at h
      · -- reached the peak
        split at h
        · rename_i hq
          simp only [Option.some.injEq, Prod.mk.injEq] at h
          obtain ⟨rfl, _⟩ := h
          have : q = [] := by simpa using hq
          subst this
          simpa [claimsQ] using hx
        · simp at h
      · split at h
        · -- right sibling
          cases q with
          | nil =>
            simp only at h
            cases proof with
            | nil => simp at h
            | cons pi proof2 =>
              simp only at h
              split at h
              · refine ih _ _ r proof' h x ?_
                simp only [claimsQ, List.flatMap_cons, List.flatMap_nil, List.append_nil, claims, List.mem_append] at hx ⊢
                exact Or.inr hx
              · simp at h
          | cons e2 q2 =>
            obtain ⟨p2, it2, h2⟩ := e2
            simp only at h
            split at h
            · split at h
              · refine ih _ _ r proof' h x ?_
                rw [mem_claimsQ_append]
                simp only [claimsQ, List.flatMap_cons, List.flatMap_nil, List.append_nil, claims, List.mem_append] at hx ⊢
                rcases hx with hx | hx | hx
                · exact Or.inr (Or.inr hx)
                · exact Or.inr (Or.inl hx)
                · exact Or.inl hx
              · simp at h
            · cases proof with
              | nil => simp at h
              | cons pi proof2 =>
                simp only at h
                split at h
                · refine ih _ _ r proof' h x ?_
                  rw [List.cons_append, ← List.singleton_append (l := q2 ++ _), mem_claimsQ_append, mem_claimsQ_append]
                  simp only [claimsQ, List.flatMap_cons, List.flatMap_nil, List.append_nil, claims, List.mem_append] at hx ⊢
                  rcases hx with hx | hx | hx
                  · exact Or.inr (Or.inr (Or.inr hx))
                  · exact Or.inl hx
                  · exact Or.inr (Or.inl hx)
                · simp at h
        · -- left sibling
          cases q with
          | nil =>
            simp only at h
            cases proof with
            | nil => simp at h
            | cons pi proof2 =>
              simp only at h
              split at h
              · refine ih _ _ r proof' h x ?_
                simp only [claimsQ, List.flatMap_cons, List.flatMap_nil, List.append_nil, claims, List.mem_append] at hx ⊢
                exact Or.inl hx
              · simp at h
          | cons e2 q2 =>
            obtain ⟨p2, it2, h2⟩ := e2
            simp only at h
            split at h
            · split at h
              · refine ih _ _ r proof' h x ?_
                rw [mem_claimsQ_append]
                simp only [claimsQ, List.flatMap_cons, List.flatMap_nil, List.append_nil, claims, List.mem_append] at hx ⊢
                rcases hx with hx | hx | hx
                · exact Or.inr (Or.inl hx)
                · exact Or.inr (Or.inr hx)
                · exact Or.inl hx
              · simp at h
            · cases proof with
              | nil => simp at h
              | cons pi proof2 =>
                simp only at h
                split at h
                · refine ih _ _ r proof' h x ?_
                  rw [List.cons_append, ← List.singleton_append (l := q2 ++ _), mem_claimsQ_append, mem_claimsQ_append]
                  simp only [claimsQ, List.flatMap_cons, List.flatMap_nil, List.append_nil, claims, List.mem_append] at hx ⊢
                  rcases hx with hx | hx | hx
                  · exact Or.inr (Or.inr (Or.inl hx))
                  · exact Or.inl hx
                  · exact Or.inr (Or.inl hx)
                · simp at h

theorem claimsQ_map_leaves (mine : List (Nat × V β)) (l : Nat × V β) (hl : l ∈ mine) (x : β)
    (hx : x ∈ claims l.2) : x ∈ claimsQ (mine.map fun l => (l.1, l.2, 0)) := by
  simp only [claimsQ, List.flatMap_map, List.mem_flatMap]
  exact ⟨l, hl, hx⟩

/-- **coverage for the loop over peaks**: every input leaf is either returned as left over
or all of its claims occur in one of the produced peak values -/
theorem peaksLoop_cover (fuel : Nat) :
    ∀ (peaks : List Nat) (leaves : List (Nat × V β)) (proof : List (V β))
      (hs : List (V β)) (lv : List (Nat × V β)) (pr : List (V β)),
      peaksLoop V.node fuel peaks leaves proof = some (hs, lv, pr) →
      ∀ l ∈ leaves, l ∈ lv ∨ ∀ x ∈ claims l.2, ∃ h ∈ hs, x ∈ claims h := by
  intro peaks
  induction peaks with
  | nil =>
    intro leaves proof hs lv pr h l hl
    simp only [peaksLoop, Option.some.injEq, Prod.mk.injEq] at h
    obtain ⟨_, rfl, _⟩ := h
    exact Or.inl hl
  | cons peakPos peaks ih =>
    intro leaves proof hs lv pr h l hl
    have hsplit : leaves = leaves.takeWhile (fun l => decide (l.1 ≤ peakPos)) ++ leaves.dropWhile (fun l => decide (l.1 ≤ peakPos)) :=
      (List.takeWhile_append_dropWhile).symm
    have hl' : l ∈ leaves.takeWhile (fun l => decide (l.1 ≤ peakPos)) ∨ l ∈ leaves.dropWhile (fun l => decide (l.1 ≤ peakPos)) := by
      rw [hsplit] at hl; exact List.mem_append.mp hl
    simp only [peaksLoop] at h
    -- helper: lift a result about the tail
    have lift : ∀ {hs0 : List (V β)} {r : V β},
        (l ∈ lv ∨ ∀ x ∈ claims l.2, ∃ h ∈ hs0, x ∈ claims h) →
        (l ∈ lv ∨ ∀ x ∈ claims l.2, ∃ h ∈ r :: hs0, x ∈ claims h) := by
      intro hs0 r hh
      rcases hh with hh | hh
      · exact Or.inl hh
      · exact Or.inr fun x hx => by
          obtain ⟨h', hh', hx'⟩ := hh x hx
          exact ⟨h', List.mem_cons_of_mem _ hh', hx'⟩
    split at h
    · -- exactly one leaf under this peak
      rename_i p x hmine
      split at h
      · -- the leaf is the peak
        split at h
        · simp at h
        · rename_i hs0 lv0 pr0 hrec
          simp only [Option.some.injEq, Prod.mk.injEq] at h
          obtain ⟨rfl, rfl, rfl⟩ := h
          rcases hl' with hm | hr
          · rw [hmine] at hm
            simp only [List.mem_singleton] at hm
            subst hm
            exact Or.inr fun y hy => ⟨x, by simp, hy⟩
          · exact lift (ih _ _ _ _ _ hrec l hr)
      · split at h
        · simp at h
        · rename_i r proof' hpk
          split at h
          · simp at h
          · rename_i hs0 lv0 pr0 hrec
            simp only [Option.some.injEq, Prod.mk.injEq] at h
            obtain ⟨rfl, rfl, rfl⟩ := h
            rcases hl' with hm | hr
            · rw [hmine] at hm
              simp only [List.mem_singleton] at hm
              subst hm
              refine Or.inr fun y hy => ⟨r, by simp, ?_⟩
              exact peakRoot_cover peakPos fuel _ _ r proof' hpk y (by simpa [claimsQ] using hy)
            · exact lift (ih _ _ _ _ _ hrec l hr)
    · -- no leaf under this peak
      rename_i hmine
      split at h
      · rename_i pi proof'
        split at h
        · simp at h
        · rename_i hs0 lv0 pr0 hrec
          simp only [Option.some.injEq, Prod.mk.injEq] at h
          obtain ⟨rfl, rfl, rfl⟩ := h
          rcases hl' with hm | hr
          · rw [hmine] at hm; simp at hm
          · exact lift (ih _ _ _ _ _ hrec l hr)
      · simp only [Option.some.injEq, Prod.mk.injEq] at h
        obtain ⟨rfl, rfl, rfl⟩ := h
        rcases hl' with hm | hr
        · rw [hmine] at hm; simp at hm
        · exact Or.inl hr
    · -- several leaves under this peak
      split at h
      · simp at h
      · rename_i r proof' hpk
        split at h
        · simp at h
        · rename_i hs0 lv0 pr0 hrec
          simp only [Option.some.injEq, Prod.mk.injEq] at h
          obtain ⟨rfl, rfl, rfl⟩ := h
          rcases hl' with hm | hr
          · refine Or.inr fun y hy => ⟨r, by simp, ?_⟩
            exact peakRoot_cover peakPos fuel _ _ r proof' hpk y (claimsQ_map_leaves _ l hm y hy)
          · exact lift (ih _ _ _ _ _ hrec l hr)

theorem bagRev_cover : ∀ (l : List (V β)) (r : V β), bagRev V.node l = some r →
    ∀ h ∈ l, ∀ x ∈ claims h, x ∈ claims r := by
  intro l
  fun_induction bagRev V.node l with
  | case1 => intro r h; simp at h
  | case2 a =>
    intro r h g hg x hx
    simp only [Option.some.injEq] at h; subst h
    simp only [List.mem_singleton] at hg; subst hg; exact hx
  | case3 right left rest ih =>
    intro r h g hg x hx
    rcases List.mem_cons.mp hg with rfl | hg
    · exact ih r h (V.node g left) List.mem_cons_self x (by simp [claims, hx])
    · rcases List.mem_cons.mp hg with rfl | hg
      · exact ih r h (V.node right g) List.mem_cons_self x (by simp [claims, hx])
      · exact ih r h g (List.mem_cons_of_mem _ hg) x hx

/-- **Coverage of the whole verifier**: when `calculate_root` succeeds on expression-valued
items, every leaf that survives sorting and de-duplication occurs in the returned expression -/
theorem calcRoot_cover (fuel mmrSize : Nat) (leaves : List (Nat × V β)) (proof : List (V β)) (r : V β)
    (h : calcRoot V.node fuel mmrSize leaves proof = some r) :
    ∀ l ∈ dedupPos (sortPos leaves), ∀ x ∈ claims l.2, x ∈ claims r := by
  intro l hl x hx
  unfold calcRoot at h
  split at h
  · simp at h
  · split at h
    · rename_i hsp
      obtain ⟨_, hlen, _⟩ := hsp
      match leaves, hlen with
      | [l0], _ =>
        simp only [List.head?_cons, Option.map_some, Option.some.injEq] at h
        subst h
        simp [sortPos, insertPos, dedupPos] at hl
        subst hl
        exact hx
    · simp only at h
      split at h
      · simp at h
      · rename_i hs lv pr hloop
        split at h
        · simp at h
        · rename_i hlv
          have hlv' : lv = [] := by simpa using hlv
          have hc := peaksLoop_cover fuel _ _ _ _ _ _ hloop l hl
          rcases hc with hc | hc
          · rw [hlv'] at hc; simp at hc
          · obtain ⟨g, hg, hxg⟩ := hc x hx
            split at h
            · exact bagRev_cover _ r h g (by simpa using hg) x hxg
            · exact bagRev_cover _ r h g (by simp [hg]) x hxg
            · simp at h

/-- **Value-level soundness of the MMR proof verifier** (ckb `MerkleProof::verify` as used by
`MKProof::verify`), for an abstract injective `merge`: if the computed root equals the value of a
committed tree `t` whose leaves are not merge values, every claimed leaf that survives the
position de-duplication and is not itself a merge value is a leaf of `t`.
The claimed MMR size plays no role. -/
theorem mkproof_value_sound (merge : β → β → β)
    (hinj : ∀ a b c d, merge a b = merge c d → a = c ∧ b = d)
    (t : E β) (hT : ∀ a ∈ ExprTree.leaves t, ¬ IsMerge merge a)
    (fuel mmrSize : Nat) (leaves : List (Nat × β)) (proof : List β)
    (hv : calcRoot merge fuel mmrSize leaves proof = some (eval merge t)) :
    ∀ l ∈ dedupPos (sortPos leaves), ¬ IsMerge merge l.2 → l.2 ∈ ExprTree.leaves t := by
  intro l hl hnm
  have hom : ∀ a b : V β, veval merge (V.node a b) = merge (veval merge a) (veval merge b) := fun _ _ => rfl
  have hmap := calcRoot_map V.node merge (veval merge) hom fuel mmrSize
    (mapL V.claim leaves) (proof.map V.item)
  have h1 : mapL (veval merge) (mapL V.claim leaves) = leaves := by
    simp only [mapL, List.map_map]
    conv => rhs; rw [← List.map_id leaves]
    apply List.map_congr_left
    intro e _; rfl
  have h2 : (proof.map V.item).map (veval merge) = proof := by
    simp only [List.map_map]
    conv => rhs; rw [← List.map_id proof]
    apply List.map_congr_left
    intro e _; rfl
  rw [h1, h2, hv] at hmap
  cases he : calcRoot V.node fuel mmrSize (mapL V.claim leaves) (proof.map V.item) with
  | none => rw [he] at hmap; simp at hmap
  | some e =>
    rw [he] at hmap
    simp only [Option.map_some, Option.some.injEq] at hmap
    have hl' : (l.1, V.claim l.2) ∈ dedupPos (sortPos (mapL V.claim leaves)) := by
      rw [sortPos_mapL, dedupPos_mapL]
      simp only [mapL, List.mem_map]
      exact ⟨l, hl, rfl⟩
    have hcov := calcRoot_cover fuel mmrSize _ _ e he _ hl' l.2 (by simp [claims])
    exact claim_mem_leaves merge hinj e t hmap.symm hT l.2 hcov hnm

#print axioms peakRoot_cover
#print axioms peaksLoop_cover
#print axioms calcRoot_cover
#print axioms mkproof_value_sound
end Mmr
