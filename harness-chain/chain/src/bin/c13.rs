//! C13 harness: the real `CardanoChainDataImporter` (BlocksTransactionsImporter + BlockRangeImporter)
//! over the real `ChainReaderBlockStreamer` / `CardanoBlockScanner`, fed by a chain-sync-faithful
//! simulator of the public `ChainBlockReader` trait, storing into the real sqlite
//! `CardanoTransactionRepository` (file database) through the signer's own `ChainDataStore`
//! wrapper (compiled from /repo by `#[path]`).
//!
//! The histories RE-INCLUDE transactions: a fork carries transactions of the blocks it abandons, in
//! other blocks (earlier / later block number, same or another block range, the same block number
//! under another block hash), also across successive switches, prunings and restarts. `cardano_tx` is
//! keyed by the transaction hash alone and filled with `insert or ignore`: the new row survives only if
//! the roll-back removed the old one (`on delete cascade`, foreign keys ON on the pooled connections).
//!
//! K: one request per history — the replies the real streamer consumed during each import, restarts
//!    and prunings — and the trace (resume point, store calls, class letter, store checksum after every
//!    step, full store dump at the end) compared with the Lean model `Import.*`.
//! S: (1) store and roots equal those of the real importer run ONCE FROM SCRATCH on the simulator's
//!    canonical chain up to the same target; (2) the signable builders' Merkle root for a beacon does
//!    not depend on how far beyond it the node imported; failures are tagged with the class computed
//!    from the history.
use async_trait::async_trait;
use blake2::{Blake2s256, Digest};
use hutil::{Args, Rng, Sink};
use mithril_cardano_node_chain::chain_importer::{CardanoChainDataImporter, ChainDataImporter, ChainDataPruner, ChainDataStore};
use mithril_cardano_node_chain::chain_reader::ChainBlockReader;
use mithril_cardano_node_chain::chain_scanner::CardanoBlockScanner;
use mithril_cardano_node_chain::entities::{ChainBlockNextAction, RawCardanoPoint, ScannedBlock};
use mithril_common::crypto_helper::{MKTreeNode, MKTreeStoreInMemory};
use mithril_common::entities::{
    BlockNumber, BlockNumberOffset, BlockRange, CardanoBlockTransactionMkTreeNode, CardanoBlockWithTransactions, CardanoTransaction,
    ChainPoint, ProtocolMessagePartKey, SlotNumber,
};
use mithril_common::signable_builder::{
    BlockRangeRootRetriever, BlocksTransactionsImporter, CardanoBlocksTransactionsSignableBuilder, CardanoTransactionsSignableBuilder,
    LegacyBlockRangeRootRetriever, SignableBuilder, TransactionsImporter,
};
use mithril_common::StdResult;
use mithril_persistence::database::cardano_transaction_migration;
use mithril_persistence::sqlite::{ConnectionBuilder, ConnectionOptions};
use std::collections::{BTreeMap, BTreeSet};
use std::fmt::Write as _;
use std::ops::Range;
use std::path::{Path, PathBuf};
use std::sync::atomic::{AtomicBool, AtomicU64, Ordering};
use std::sync::{Arc, Mutex};

// the signer's production wrapper of the repository (ChainDataStore / pruner / root retrievers)
#[allow(dead_code)]
#[path = "/repo/mithril-signer/src/database/repository/cardano_transaction_repository.rs"]
mod signer_repo;
use signer_repo::SignerCardanoChainDataRepository;

fn logger() -> slog::Logger {
    slog::Logger::root(slog::Discard, slog::o!())
}

static QUIET: AtomicBool = AtomicBool::new(false);
static DB_COUNTER: AtomicU64 = AtomicU64::new(0);
/// imports classified `x` because a chain presented by the node carried a transaction twice
static TX_TWICE: AtomicU64 = AtomicU64::new(0);

// ------------------------------------------------------------------------------------------ blocks

#[derive(Clone, Debug, PartialEq, Eq)]
struct Blk {
    id: u32,
    number: u64,
    slot: u64,
    /// transaction ids, in the order the block delivers them (a transaction is named by its id only:
    /// the same id in two blocks is the same transaction hash)
    txs: Vec<u32>,
}

fn hash_bytes(id: u32) -> Vec<u8> {
    id.to_be_bytes().to_vec()
}
#[allow(dead_code)]
fn hash_hex(id: u32) -> String {
    format!("{:08x}", id)
}
/// fixed width: the order of the hashes is the order of the ids
fn tx_name(t: u32) -> String {
    format!("t{:06}", t)
}
fn scanned(b: &Blk) -> ScannedBlock {
    ScannedBlock::new(hash_bytes(b.id), BlockNumber(b.number), SlotNumber(b.slot), b.txs.iter().map(|t| tx_name(*t)).collect::<Vec<_>>())
}

// --------------------------------------------------------------------------------------- simulator

#[derive(Clone, Debug)]
enum Mutation {
    /// append blocks to the tip
    Grow(Vec<Blk>),
    /// chain switch: keep the first `keep` blocks, then the new ones
    Switch { keep: usize, blocks: Vec<Blk> },
}

#[derive(Clone, Debug, PartialEq)]
enum Reply {
    Fwd(Blk),
    /// roll-back point: slot and block id (None = origin)
    Back(u64, Option<u32>),
    Nothing,
}

struct Conn {
    /// index in `chain` of the last block this connection was told about; -1 = origin
    ptr: isize,
    /// the next reply is a roll-back to `ptr`
    pending: bool,
    /// the last reply was `Await`: the client has no agency
    awaiting: bool,
}

/// Chain-sync producer (one Cardano node, one client): the node's current chain, the per-connection
/// read pointer, `FindIntersect` (found: pointer := point, next reply RollBackward(point); not found:
/// nothing changes), `RequestNext` (pending roll-back, else next block, else Await).
struct Sim {
    chain: Vec<Blk>,
    conn: Option<Conn>,
    /// pallas: `set_chain_point` does nothing while the client has no agency (after an Await)
    await_sem: bool,
    // recording, per import
    replies: Vec<Reply>,
    set_points: Vec<(u64, Option<u32>)>,
    schedule: Vec<(usize, Mutation)>,
    /// the node's chain at the time of the last reply of the current import
    seen: Option<Vec<Blk>>,
}

impl Sim {
    fn new(chain: Vec<Blk>, await_sem: bool) -> Sim {
        Sim { chain, conn: None, await_sem, replies: vec![], set_points: vec![], schedule: vec![], seen: None }
    }
    fn apply(&mut self, m: &Mutation) {
        match m {
            Mutation::Grow(bs) => self.chain.extend(bs.iter().cloned()),
            Mutation::Switch { keep, blocks } => {
                self.chain.truncate(*keep);
                self.chain.extend(blocks.iter().cloned());
                if let Some(c) = self.conn.as_mut() {
                    if c.ptr >= *keep as isize {
                        c.ptr = *keep as isize - 1;
                        c.pending = true;
                    }
                }
            }
        }
    }
    fn connect(&mut self) {
        if self.conn.is_none() {
            // a new follower starts at the origin and is first told to roll back to it
            self.conn = Some(Conn { ptr: -1, pending: true, awaiting: false });
        }
    }
    fn point(&self, idx: isize) -> (u64, Option<u32>) {
        if idx < 0 {
            (0, None)
        } else {
            let b = &self.chain[idx as usize];
            (b.slot, Some(b.id))
        }
    }
    fn set_point(&mut self, slot: u64, hash: &[u8]) {
        let id = if hash.len() == 4 { Some(u32::from_be_bytes([hash[0], hash[1], hash[2], hash[3]])) } else { None };
        self.set_points.push((slot, id));
        self.connect();
        let await_sem = self.await_sem;
        let found: Option<isize> = if hash.is_empty() && slot == 0 {
            Some(-1)
        } else {
            self.chain.iter().position(|b| b.slot == slot && Some(b.id) == id).map(|i| i as isize)
        };
        let c = self.conn.as_mut().unwrap();
        if c.awaiting && await_sem {
            return;
        }
        if let Some(i) = found {
            c.ptr = i;
            c.pending = true;
        }
    }
    fn next(&mut self) -> Reply {
        // the chain moves while the client reads
        let n = self.replies.len();
        let due: Vec<Mutation> = self.schedule.iter().filter(|(k, _)| *k == n).map(|(_, m)| m.clone()).collect();
        self.schedule.retain(|(k, _)| *k != n);
        for m in due {
            self.apply(&m);
        }
        self.connect();
        let len = self.chain.len() as isize;
        let c = self.conn.as_mut().unwrap();
        let r = if c.pending {
            c.pending = false;
            c.awaiting = false;
            let idx = c.ptr;
            let (s, id) = self.point(idx);
            Reply::Back(s, id)
        } else if c.ptr + 1 < len {
            c.ptr += 1;
            c.awaiting = false;
            Reply::Fwd(self.chain[c.ptr as usize].clone())
        } else {
            c.awaiting = true;
            Reply::Nothing
        };
        self.replies.push(r.clone());
        self.seen = Some(self.chain.clone());
        r
    }
}

struct Reader {
    sim: Arc<Mutex<Sim>>,
}

#[async_trait]
impl ChainBlockReader for Reader {
    async fn set_chain_point(&mut self, point: &RawCardanoPoint) -> StdResult<()> {
        self.sim.lock().unwrap().set_point(*point.slot_number, &point.block_hash);
        Ok(())
    }
    async fn get_next_chain_block(&mut self) -> StdResult<Option<ChainBlockNextAction>> {
        Ok(match self.sim.lock().unwrap().next() {
            Reply::Fwd(b) => Some(ChainBlockNextAction::RollForward { parsed_block: scanned(&b) }),
            Reply::Back(slot, id) => Some(ChainBlockNextAction::RollBackward {
                rollback_point: RawCardanoPoint::new(SlotNumber(slot), id.map(hash_bytes).unwrap_or_default()),
            }),
            Reply::Nothing => None,
        })
    }
}

// ------------------------------------------------------------------------------------- real store

/// decorator recording the calls the importer makes on the real store
struct Recorder {
    inner: Arc<SignerCardanoChainDataRepository>,
    ops: Mutex<Vec<String>>,
    /// per roll-back: (slot, lowest stored slot before, anchor block number)
    rollbacks: Mutex<Vec<(u64, Option<u64>, Option<u64>)>>,
}

#[async_trait]
impl ChainDataStore for Recorder {
    async fn get_highest_beacon(&self) -> StdResult<Option<ChainPoint>> {
        self.inner.get_highest_beacon().await
    }
    async fn get_highest_block_range(&self) -> StdResult<Option<BlockRange>> {
        self.inner.get_highest_block_range().await
    }
    async fn get_highest_legacy_block_range(&self) -> StdResult<Option<BlockRange>> {
        self.inner.get_highest_legacy_block_range().await
    }
    async fn store_blocks_and_transactions(&self, b: Vec<CardanoBlockWithTransactions>) -> StdResult<()> {
        self.ops.lock().unwrap().push(format!("s{}", b.len()));
        self.inner.store_blocks_and_transactions(b).await
    }
    async fn get_blocks_and_transactions_in_range(&self, range: Range<BlockNumber>) -> StdResult<BTreeSet<CardanoBlockTransactionMkTreeNode>> {
        self.inner.get_blocks_and_transactions_in_range(range).await
    }
    async fn get_transactions_in_range(&self, range: Range<BlockNumber>) -> StdResult<Vec<CardanoTransaction>> {
        self.inner.get_transactions_in_range(range).await
    }
    async fn store_block_range_roots(&self, r: Vec<(BlockRange, MKTreeNode)>) -> StdResult<()> {
        self.inner.store_block_range_roots(r).await
    }
    async fn store_legacy_block_range_roots(&self, r: Vec<(BlockRange, MKTreeNode)>) -> StdResult<()> {
        self.inner.store_legacy_block_range_roots(r).await
    }
    async fn remove_rolled_chain_data_and_block_range(&self, slot: SlotNumber) -> StdResult<()> {
        let blocks = self.inner.get_all_blocks().await?;
        let lowest = blocks.iter().map(|b| *b.slot_number).min();
        let anchor = blocks.iter().filter(|b| *b.slot_number <= *slot).map(|b| *b.block_number).max();
        self.rollbacks.lock().unwrap().push((*slot, lowest, anchor));
        self.ops.lock().unwrap().push(format!("r{}", *slot));
        self.inner.remove_rolled_chain_data_and_block_range(slot).await
    }
    async fn optimize(&self) -> StdResult<()> {
        self.inner.optimize().await
    }
}

/// the importer as the signable builders see it
struct ImporterAdapter(Arc<CardanoChainDataImporter>);
#[async_trait]
impl BlocksTransactionsImporter for ImporterAdapter {
    async fn import(&self, up_to: BlockNumber) -> StdResult<()> {
        self.0.import(up_to).await
    }
}
#[async_trait]
impl TransactionsImporter for ImporterAdapter {
    async fn import(&self, up_to: BlockNumber) -> StdResult<()> {
        self.0.import(up_to).await
    }
}
struct NoImport;
#[async_trait]
impl BlocksTransactionsImporter for NoImport {
    async fn import(&self, _: BlockNumber) -> StdResult<()> {
        Ok(())
    }
}
#[async_trait]
impl TransactionsImporter for NoImport {
    async fn import(&self, _: BlockNumber) -> StdResult<()> {
        Ok(())
    }
}

#[derive(Clone, Debug, Default, PartialEq)]
struct Dump {
    /// (id, number, slot) ordered by number
    blocks: Vec<(u32, u64, u64)>,
    /// the join every read query goes through: (transaction hash, block number, block id) ordered by
    /// (block number, hash)
    txs: Vec<(String, u64, u32)>,
    roots: Vec<(u64, u64, String)>,
    legacy: Vec<(u64, u64, String)>,
    /// rows of `cardano_tx` whose block is not in `cardano_block` (read from the table itself):
    /// `hash@block hash`; none while the foreign key is enforced
    orphans: Vec<String>,
}

impl Dump {
    fn text(&self) -> String {
        let mut s = String::from("B[");
        for (i, b) in self.blocks.iter().enumerate() {
            let _ = write!(s, "{}({},{},{})", if i > 0 { "," } else { "" }, b.0, b.1, b.2);
        }
        s.push_str("]T[");
        for (i, t) in self.txs.iter().enumerate() {
            let _ = write!(s, "{}({},{},{})", if i > 0 { "," } else { "" }, t.0, t.1, t.2);
        }
        s.push_str("]R[");
        for (i, r) in self.roots.iter().enumerate() {
            let _ = write!(s, "{}({},{},{})", if i > 0 { "," } else { "" }, r.0, r.1, r.2);
        }
        s.push_str("]L[");
        for (i, r) in self.legacy.iter().enumerate() {
            let _ = write!(s, "{}({},{},{})", if i > 0 { "," } else { "" }, r.0, r.1, r.2);
        }
        s.push(']');
        if !self.orphans.is_empty() {
            let _ = write!(s, "O[{}]", self.orphans.join(","));
        }
        s
    }
    fn summary(&self) -> String {
        let h = Blake2s256::digest(self.text().as_bytes());
        format!(
            "n={};hi={};r={};l={};h={}",
            self.blocks.len(),
            self.blocks.iter().map(|b| b.1).max().map(|x| x.to_string()).unwrap_or("-".into()),
            self.roots.len(),
            self.legacy.len(),
            hex::encode(&h[..4])
        )
    }
}

struct Node {
    rt: Arc<tokio::runtime::Runtime>,
    db_path: PathBuf,
    repo: Arc<SignerCardanoChainDataRepository>,
    store: Arc<Recorder>,
    importer: Arc<CardanoChainDataImporter>,
    sim: Arc<Mutex<Sim>>,
    max_per_poll: usize,
    /// the harness's own read-only connection to the file, for the rows of `cardano_tx` itself
    raw: Mutex<Option<mithril_persistence::sqlite::SqliteConnection>>,
}

/// The Cardano transactions database opened the way the signer and the aggregator open it
/// (`DependenciesBuilder::build_cardano_tx_sqlite_connection_pool`, aggregator `support/sqlite.rs`):
/// `EnableForeignKeys` + `build_pool`, every store call on a POOLED connection.
fn open_repo(path: &Path) -> Arc<SignerCardanoChainDataRepository> {
    let pool = ConnectionBuilder::open_file(path)
        .with_options(&[ConnectionOptions::EnableForeignKeys, ConnectionOptions::EnableWriteAheadLog])
        .with_migrations(cardano_transaction_migration::get_migrations())
        .build_pool(1)
        .unwrap();
    Arc::new(SignerCardanoChainDataRepository::new(Arc::new(pool)))
}

/// the rows of the table `cardano_tx` itself (no join) that name a block `cardano_block` does not hold
fn raw_orphans(conn: &mithril_persistence::sqlite::SqliteConnection) -> Vec<String> {
    use mithril_persistence::sqlite::ConnectionExtensions;
    let cell: String = conn
        .query_single_cell(
            "select coalesce(group_concat(x, ','), '') from (select transaction_hash || '@' || block_hash as x from cardano_tx \
             where block_hash not in (select block_hash from cardano_block) order by transaction_hash)",
            &[],
        )
        .unwrap();
    if cell.is_empty() {
        vec![]
    } else {
        cell.split(',').map(|x| x.to_string()).collect()
    }
}

impl Node {
    fn new(rt: Arc<tokio::runtime::Runtime>, scratch: &Path, template: &Path, sim: Arc<Mutex<Sim>>, max_per_poll: usize) -> Node {
        let db_path = scratch.join(format!("db-{}.sqlite3", DB_COUNTER.fetch_add(1, Ordering::SeqCst)));
        std::fs::copy(template, &db_path).unwrap();
        let (repo, store, importer) = Node::wire(&db_path, &sim, max_per_poll);
        Node { rt, db_path, repo, store, importer, sim, max_per_poll, raw: Mutex::new(None) }
    }
    fn wire(db_path: &Path, sim: &Arc<Mutex<Sim>>, max_per_poll: usize) -> (Arc<SignerCardanoChainDataRepository>, Arc<Recorder>, Arc<CardanoChainDataImporter>) {
        let repo = open_repo(db_path);
        let store = Arc::new(Recorder { inner: repo.clone(), ops: Mutex::new(vec![]), rollbacks: Mutex::new(vec![]) });
        let reader: Arc<tokio::sync::Mutex<dyn ChainBlockReader>> = Arc::new(tokio::sync::Mutex::new(Reader { sim: sim.clone() }));
        let scanner = Arc::new(CardanoBlockScanner::new(reader, max_per_poll, logger()));
        let importer = Arc::new(CardanoChainDataImporter::new(scanner, store.clone(), logger()));
        (repo, store, importer)
    }
    /// process restart: new importer (no in-memory cursor), new repository on the same file, new connection
    fn restart(&mut self) {
        let (repo, store, importer) = Node::wire(&self.db_path, &self.sim, self.max_per_poll);
        self.repo = repo;
        self.store = store;
        self.importer = importer;
        self.sim.lock().unwrap().conn = None;
    }
    fn import(&self, target: u64) -> String {
        QUIET.store(true, Ordering::SeqCst);
        let imp = self.importer.clone();
        let r = self.rt.block_on(async move { imp.import(BlockNumber(target)).await });
        QUIET.store(false, Ordering::SeqCst);
        match r {
            Ok(()) => "ok".into(),
            Err(e) => {
                let t = format!("{:?}", e);
                if t.contains("worker thread crashed") || t.contains("panicked") {
                    "panic".into()
                } else {
                    "err".into()
                }
            }
        }
    }
    fn prune(&self, keep: u64) {
        let repo = self.repo.clone();
        self.rt.block_on(async move { ChainDataPruner::prune(&*repo, BlockNumber(keep)).await }).unwrap();
    }
    fn dump(&self) -> Dump {
        let mut d = self.dump_joined();
        let mut raw = self.raw.lock().unwrap();
        if raw.is_none() {
            *raw = Some(ConnectionBuilder::open_file(&self.db_path).build_without_migrations().unwrap());
        }
        d.orphans = raw_orphans(raw.as_ref().unwrap());
        d
    }
    /// what the repository's read queries give (blocks, the join with the transactions, both root tables)
    fn dump_joined(&self) -> Dump {
        let repo = self.repo.clone();
        self.rt.block_on(async move {
            let mut d = Dump::default();
            let id_of = |h: &str| u32::from_str_radix(h, 16).unwrap_or(u32::MAX);
            for b in repo.get_all_blocks().await.unwrap() {
                d.blocks.push((id_of(&b.block_hash), *b.block_number, *b.slot_number));
            }
            d.blocks.sort_by_key(|b| (b.1, b.0));
            let mut txs: Vec<(u64, String, u32)> =
                repo.get_all_transactions().await.unwrap().into_iter().map(|t| (*t.block_number, t.transaction_hash, id_of(&t.block_hash))).collect();
            txs.sort();
            d.txs = txs.into_iter().map(|t| (t.1, t.0, t.2)).collect();
            for r in repo.get_all_block_range_root().unwrap() {
                d.roots.push((*r.range.start, *r.range.end, r.merkle_root.to_hex()));
            }
            d.roots.sort();
            for r in repo.get_all_legacy_block_range_root().unwrap() {
                d.legacy.push((*r.range.start, *r.range.end, r.merkle_root.to_hex()));
            }
            d.legacy.sort();
            d
        })
    }
    /// Merkle root the CardanoBlocksTransactions builder offers for `beacon`; `import_first` = through
    /// the real importer (the production path), else from the store as it is
    fn signable_root(&self, beacon: u64, import_first: bool) -> String {
        let retriever: Arc<dyn BlockRangeRootRetriever<MKTreeStoreInMemory>> = self.repo.clone();
        let importer: Arc<dyn BlocksTransactionsImporter> = if import_first { Arc::new(ImporterAdapter(self.importer.clone())) } else { Arc::new(NoImport) };
        let builder = CardanoBlocksTransactionsSignableBuilder::<MKTreeStoreInMemory>::new(importer, retriever);
        QUIET.store(true, Ordering::SeqCst);
        let r = self.rt.block_on(async move { builder.compute_protocol_message((BlockNumber(beacon), BlockNumberOffset(0))).await });
        QUIET.store(false, Ordering::SeqCst);
        match r {
            Ok(m) => m.get_message_part(&ProtocolMessagePartKey::CardanoBlocksTransactionsMerkleRoot).cloned().unwrap_or_default(),
            Err(_) => "err".into(),
        }
    }
    fn legacy_signable_root(&self, beacon: u64, import_first: bool) -> String {
        let retriever: Arc<dyn LegacyBlockRangeRootRetriever<MKTreeStoreInMemory>> = self.repo.clone();
        let importer: Arc<dyn TransactionsImporter> = if import_first { Arc::new(ImporterAdapter(self.importer.clone())) } else { Arc::new(NoImport) };
        let builder = CardanoTransactionsSignableBuilder::<MKTreeStoreInMemory>::new(importer, retriever);
        QUIET.store(true, Ordering::SeqCst);
        let r = self.rt.block_on(async move { builder.compute_protocol_message(BlockNumber(beacon)).await });
        QUIET.store(false, Ordering::SeqCst);
        match r {
            Ok(m) => m.get_message_part(&ProtocolMessagePartKey::CardanoTransactionsMerkleRoot).cloned().unwrap_or_default(),
            Err(_) => "err".into(),
        }
    }
    fn close(self) {
        let p = self.db_path.clone();
        drop(self);
        let _ = std::fs::remove_file(&p);
        let _ = std::fs::remove_file(p.with_extension("sqlite3-wal"));
        let _ = std::fs::remove_file(p.with_extension("sqlite3-shm"));
    }
}

// ----------------------------------------------------------------------------------------- history

#[derive(Clone, Debug)]
enum Event {
    Mutate(Mutation),
    Import { target: u64, mid: Vec<(usize, Mutation)> },
    Restart,
    Reconnect,
    Prune(u64),
}

#[derive(Clone, Debug)]
struct History {
    max_per_poll: usize,
    await_sem: bool,
    events: Vec<Event>,
}

/// `Good` of the Lean model on one import, mirrored: the class letter of the import
///   e  early exit (target not above the highest stored block)
///   p  the store is not a chain (not strictly increasing in number and slot) — an earlier class left it so
///   x  protocol violation: a forward that does not extend the chain, or (all other clauses holding) a
///      chain presented by the node that carries a transaction twice (`GoodTx` of the Lean model)
///   1  the echo roll-back to the scan's start point is not a no-op
///   2  a roll-back to a point that is not in the chain known to the node (below / outside the store)
///   3  the target exceeds the highest block delivered: the last complete range below it is not covered
///   g  good: the refinement theorem applies
fn classify(
    s0: &[(u32, u64, u64)],
    from_slot: u64,
    target: u64,
    replies: &[Reply],
    after: Option<&[(u32, u64, u64)]>,
    known: &BTreeMap<u32, Blk>,
) -> char {
    if let Some(hi) = s0.iter().map(|b| b.1).max() {
        if hi >= target {
            return 'e';
        }
    }
    for w in s0.windows(2) {
        if !(w[0].1 < w[1].1 && w[0].2 < w[1].2) {
            return 'p';
        }
    }
    let ids: BTreeSet<u32> = s0.iter().map(|b| b.0).collect();
    if ids.len() != s0.len() {
        return 'p';
    }
    let mut v: Vec<(u32, u64, u64)> = s0.to_vec();
    let mut lp = false;
    // no transaction twice on a chain the node presents
    let txs_of = |v: &[(u32, u64, u64)]| -> (std::collections::HashSet<u32>, bool) {
        let mut seen = std::collections::HashSet::new();
        let ok = v.iter().all(|x| known.get(&x.0).map(|b| b.txs.iter().all(|t| seen.insert(*t))).unwrap_or(true));
        (seen, ok)
    };
    let (mut on_chain, ok) = txs_of(&v);
    let mut tx_twice = !ok;
    for r in replies {
        match r {
            Reply::Nothing => {}
            Reply::Fwd(b) => {
                if !v.iter().all(|x| x.1 < b.number && x.2 < b.slot && x.0 != b.id) {
                    return 'x';
                }
                v.push((b.id, b.number, b.slot));
                if !tx_twice && !b.txs.iter().all(|t| on_chain.insert(*t)) {
                    tx_twice = true;
                }
                if b.number <= target {
                    lp = true;
                }
            }
            Reply::Back(s, _) => {
                if *s == from_slot && !lp {
                    if !v.iter().all(|x| x.2 <= *s) {
                        return '1';
                    }
                } else {
                    if !(v.iter().any(|x| x.2 == *s) || v.is_empty()) {
                        return '2';
                    }
                    lp = true;
                }
                let n = v.len();
                v.retain(|x| x.2 <= *s);
                if v.len() != n && !tx_twice {
                    on_chain = txs_of(&v).0;
                }
            }
        }
    }
    if tx_twice {
        TX_TWICE.fetch_add(1, Ordering::SeqCst);
        return 'x';
    }
    let k = (target + 1) / 15;
    if let Some(after) = after {
        if k > 0 && !after.iter().any(|b| k * 15 <= b.1 + 1) {
            return '3';
        }
    }
    'g'
}

fn show_reply(r: &Reply) -> String {
    match r {
        Reply::Fwd(b) => format!("(f,{})", b.id),
        Reply::Back(s, Some(id)) => format!("(b,{},{})", s, id),
        Reply::Back(s, None) => format!("(b,{},o)", s),
        Reply::Nothing => "(n)".into(),
    }
}

#[derive(Default)]
struct Outcome {
    req: String,
    trace: String,
    /// (class, what)
    sfails: Vec<(String, String)>,
    letters: String,
    s_checks: u64,
    s2_checks: u64,
    taint: Option<String>,
    /// transactions stored (at a sampled import) under a block other than the one that delivered them first
    reincluded: u64,
    /// streamer branches: [roll-backs resolved in the buffer, full roll-backs, skipped echo, forwards dropped above the target, polls capped by max_roll_forwards_per_poll]
    branches: [u64; 5],
}

struct Env {
    rt: Arc<tokio::runtime::Runtime>,
    scratch: PathBuf,
    template: PathBuf,
}

impl Env {
    /// the real importer run ONCE FROM SCRATCH on `chain` up to `target`
    fn fresh(&self, chain: &[Blk], target: u64) -> (Dump, Node) {
        let sim = Arc::new(Mutex::new(Sim::new(chain.to_vec(), false)));
        let node = Node::new(self.rt.clone(), &self.scratch, &self.template, sim, 100);
        let _ = node.import(target);
        (node.dump_joined(), node)
    }
}

/// how deep the S comparison goes for one history
#[derive(Clone, Copy)]
struct SPlan {
    /// compare with a fresh import after every import (else: a sample + the last)
    every: bool,
    beacons: usize,
    /// the signable roots only after the last import of the history
    beacons_last_only: bool,
}

fn run_history(env: &Env, h: &History, rng: &mut Rng, plan: SPlan) -> Outcome {
    let mut out = Outcome::default();
    let sim = Arc::new(Mutex::new(Sim::new(vec![], h.await_sem)));
    let mut node = Node::new(env.rt.clone(), &env.scratch, &env.template, sim.clone(), h.max_per_poll);
    let mut steps: Vec<String> = vec![];
    let mut trace: Vec<String> = vec![];
    let mut blocks_seen: BTreeMap<u32, Blk> = BTreeMap::new();
    // transaction id -> the blocks that delivered it so far
    let mut tx_blocks: BTreeMap<String, BTreeSet<u32>> = BTreeMap::new();
    let mut dump = Dump::default();
    let mut pruned_below: u64 = 0;
    let mut tainted_letters = false;
    let n_imports = h.events.iter().filter(|e| matches!(e, Event::Import { .. })).count();
    let mut import_idx = 0;
    let sample: BTreeSet<usize> = if plan.every { (0..n_imports).collect() } else { (0..2).map(|_| rng.below(n_imports.max(1) as u64) as usize).chain([n_imports.saturating_sub(1)]).collect() };
    let mut stopped = false;
    for ev in &h.events {
        if stopped {
            break;
        }
        match ev {
            Event::Mutate(m) => sim.lock().unwrap().apply(m),
            Event::Reconnect => sim.lock().unwrap().conn = None,
            Event::Restart => {
                node.restart();
                steps.push("(r)".into());
                trace.push(format!("R;{}", dump.summary()));
            }
            Event::Prune(k) => {
                // threshold as the repository computes it (for the class predicate only)
                let hi_new = dump.roots.iter().map(|r| r.0).max();
                let hi_leg = dump.legacy.iter().map(|r| r.0).max();
                let thr = match (hi_new, hi_leg) {
                    (Some(a), Some(b)) => Some(a.min(b)),
                    (a, b) => a.or(b),
                };
                if let Some(t) = thr {
                    pruned_below = pruned_below.max(t.saturating_sub(*k));
                }
                node.prune(*k);
                dump = node.dump();
                steps.push(format!("(p,{})", k));
                trace.push(format!("P{};{}", k, dump.summary()));
            }
            Event::Import { target, mid } => {
                {
                    let mut s = sim.lock().unwrap();
                    s.replies.clear();
                    s.set_points.clear();
                    s.schedule = mid.clone();
                    s.seen = None;
                }
                node.store.ops.lock().unwrap().clear();
                node.store.rollbacks.lock().unwrap().clear();
                let before = dump.clone();
                let res = node.import(*target);
                let (replies, set_points, canon) = {
                    let mut s = sim.lock().unwrap();
                    // the canonical chain of this import: the node's chain when the importer last looked
                    let canon: Vec<Blk> = s.seen.clone().unwrap_or_else(|| s.chain.clone());
                    // the chain moved on whether or not the importer looked
                    let rest: Vec<Mutation> = s.schedule.drain(..).map(|x| x.1).collect();
                    for m in rest {
                        s.apply(&m);
                    }
                    (s.replies.clone(), s.set_points.clone(), canon)
                };
                let ops = node.store.ops.lock().unwrap().join(",");
                let rbs = node.store.rollbacks.lock().unwrap().clone();
                if res == "panic" {
                    // the worker thread died: reopen the database as a restarted process would
                    node.restart();
                }
                dump = node.dump();
                for r in &replies {
                    if let Reply::Fwd(b) = r {
                        blocks_seen.insert(b.id, b.clone());
                        for t in &b.txs {
                            tx_blocks.entry(tx_name(*t)).or_default().insert(b.id);
                        }
                    }
                }
                let from = match set_points.first() {
                    None => "skip".to_string(),
                    Some((_, None)) => "origin".to_string(),
                    Some((s, Some(_))) => format!("{}", s),
                };
                let from_slot = set_points.first().map(|p| p.0).unwrap_or(0);
                let letter = classify(&before.blocks, from_slot, *target, &replies, if res == "ok" { Some(&dump.blocks) } else { None }, &blocks_seen);
                {
                    let backs = replies.iter().filter(|r| matches!(r, Reply::Back(..))).count() as u64;
                    let full = ops.split(',').filter(|o| o.starts_with('r')).count() as u64;
                    let skipped = match replies.iter().find(|r| !matches!(r, Reply::Nothing)) {
                        Some(Reply::Back(s, _)) if *s == from_slot => 1,
                        _ => 0,
                    };
                    out.branches[0] += backs.saturating_sub(full + skipped);
                    out.branches[1] += full;
                    out.branches[2] += skipped;
                    out.branches[3] += replies.iter().filter(|r| matches!(r, Reply::Fwd(b) if b.number > *target)).count() as u64;
                    out.branches[4] += ops.split(',').filter(|o| *o == format!("s{}", h.max_per_poll)).count() as u64;
                }
                out.letters.push(letter);
                // class predicates on the real store's roll-backs
                let mut cls: Option<&str> = match letter {
                    '1' => Some("skip-rollback-to-start"),
                    '2' => Some("rollback-below-store"),
                    '3' => Some("partial-range-root"),
                    'x' => Some("protocol-violation"),
                    _ => None,
                };
                for (_slot, _lowest, anchor) in &rbs {
                    if let Some(a) = anchor {
                        if (a / 15) * 15 < pruned_below && cls.is_none() {
                            cls = Some("rollback-into-pruned-range");
                        }
                    }
                }
                if out.taint.is_none() {
                    if let Some(c) = cls {
                        out.taint = Some(c.to_string());
                    }
                }
                steps.push(format!("(i,{},[{}])", target, replies.iter().map(show_reply).collect::<Vec<_>>().join(",")));
                let shown = if tainted_letters { 't' } else { letter };
                if matches!(letter, '1' | '2' | 'x' | 'p') {
                    tainted_letters = true;
                }
                trace.push(format!("i{}:{};from={};ops=[{}];c={};{}", target, res, from, ops, shown, dump.summary()));
                if res != "ok" {
                    stopped = true;
                    if out.taint.is_none() {
                        out.sfails.push(("import-failed".into(), format!("import({}) = {} on a history without a classified event", target, res)));
                    }
                    continue;
                }
                // ---------------------------------------------------------------- S
                let check_here = sample.contains(&import_idx);
                import_idx += 1;
                if !check_here {
                    continue;
                }
                let (fd, fnode) = env.fresh(&canon, *target);
                fnode.close();
                out.s_checks += 1;
                let early = letter == 'e';
                let lowest_kept = dump.blocks.first().map(|b| b.1).unwrap_or(0);
                let (a_blocks, a_txs, a_roots, a_legacy, f_blocks, f_txs) = if early {
                    let keep_ids: BTreeSet<u32> = dump.blocks.iter().filter(|b| b.1 <= *target).map(|b| b.0).collect();
                    (
                        dump.blocks.iter().filter(|b| b.1 <= *target).cloned().collect::<Vec<_>>(),
                        dump.txs.iter().filter(|t| keep_ids.contains(&t.2)).cloned().collect::<Vec<_>>(),
                        dump.roots.iter().filter(|r| r.1 <= *target + 1).cloned().collect::<Vec<_>>(),
                        dump.legacy.iter().filter(|r| r.1 <= *target + 1).cloned().collect::<Vec<_>>(),
                        fd.blocks.iter().filter(|b| b.1 >= lowest_kept || pruned_below == 0).cloned().collect::<Vec<_>>(),
                        fd.txs.clone(),
                    )
                } else {
                    (dump.blocks.clone(), dump.txs.clone(), dump.roots.clone(), dump.legacy.clone(), fd.blocks.iter().filter(|b| b.1 >= lowest_kept || pruned_below == 0).cloned().collect::<Vec<_>>(), fd.txs.clone())
                };
                let f_ids: BTreeSet<u32> = f_blocks.iter().map(|b| b.0).collect();
                let f_txs: Vec<(String, u64, u32)> = f_txs.into_iter().filter(|t| f_ids.contains(&t.2)).collect();
                out.reincluded += a_txs.iter().filter(|t| tx_blocks.get(&t.0).map(|bs| bs.iter().any(|b| *b != t.2)).unwrap_or(false)).count() as u64;
                let mut diffs = vec![];
                // a transaction of the canonical chain whose block IS stored, that an abandoned block had
                // delivered before, and that the store does not hold under its canonical block
                let a_ids: BTreeSet<u32> = a_blocks.iter().map(|b| b.0).collect();
                let lost: Vec<(String, u64, u32)> = f_txs
                    .iter()
                    .filter(|t| !a_txs.contains(t) && a_ids.contains(&t.2) && tx_blocks.get(&t.0).map(|bs| bs.iter().any(|b| *b != t.2)).unwrap_or(false))
                    .cloned()
                    .collect();
                if a_blocks != f_blocks {
                    diffs.push(format!("blocks differ: stored {:?} vs fresh {:?}", first_diff(&a_blocks, &f_blocks), first_diff(&f_blocks, &a_blocks)));
                }
                if a_txs != f_txs {
                    diffs.push(format!(
                        "transactions (hash, block number, block) differ: stored has {:?} that fresh has not, fresh has {:?} that stored has not",
                        first_diff(&a_txs, &f_txs),
                        first_diff(&f_txs, &a_txs)
                    ));
                }
                if a_roots != fd.roots {
                    diffs.push(format!("block-range roots differ: stored {:?} vs fresh {:?}", first_diff(&a_roots, &fd.roots), first_diff(&fd.roots, &a_roots)));
                }
                if a_legacy != fd.legacy {
                    diffs.push(format!("legacy block-range roots differ: stored {:?} vs fresh {:?}", first_diff(&a_legacy, &fd.legacy), first_diff(&fd.legacy, &a_legacy)));
                }
                if !diffs.is_empty() {
                    let canon_ids: BTreeSet<u32> = canon.iter().map(|b| b.id).collect();
                    let stale = early && dump.blocks.last().map(|b| !canon_ids.contains(&b.0)).unwrap_or(false);
                    let class = out.taint.clone().unwrap_or_else(|| {
                        if stale {
                            "stale-noop-import".into()
                        } else if !lost.is_empty() {
                            "reincluded-transaction-lost".into()
                        } else {
                            "diverged".into()
                        }
                    });
                    let lost_txt = if lost.is_empty() {
                        String::new()
                    } else {
                        let t = &lost[0];
                        format!(
                            "; transaction {} is in block {} (number {}) of the canonical chain, which is stored, but the store does not hold it there — it was delivered before by the abandoned block(s) {:?} ({} such transaction(s))",
                            t.0,
                            t.2,
                            t.1,
                            tx_blocks.get(&t.0).map(|bs| bs.iter().filter(|b| **b != t.2).cloned().collect::<Vec<_>>()).unwrap_or_default(),
                            lost.len()
                        )
                    };
                    out.sfails.push((class, format!("after import({}) [{}]: {}{}", target, letter, diffs.join("; "), lost_txt)));
                }
                // the table `cardano_tx` itself holds no row of a block that is no longer stored
                if !dump.orphans.is_empty() {
                    let class = out.taint.clone().unwrap_or_else(|| "orphan-transaction-rows".into());
                    out.sfails.push((
                        class,
                        format!(
                            "after import({}) [{}]: cardano_tx holds {} row(s) of blocks that are not stored (first: {}); a fresh import holds none",
                            target,
                            letter,
                            dump.orphans.len(),
                            dump.orphans[0]
                        ),
                    ));
                }
                // (2) signable roots do not depend on how far beyond the beacon the node imported
                let hi = dump.blocks.iter().map(|b| b.1).max().unwrap_or(0).min(*target);
                let mut beacons: Vec<u64> = vec![];
                if plan.beacons > 0 && (!plan.beacons_last_only || import_idx == n_imports) {
                    // any beacon; an aligned one (last block of a range: both builders); one above the last stored root
                    beacons.push(rng.range(0, hi));
                    if hi >= 14 {
                        beacons.push(rng.range(1, (hi + 1) / 15) * 15 - 1);
                    }
                    let last_end = dump.roots.iter().map(|r| r.1).max().unwrap_or(0);
                    if last_end <= hi {
                        beacons.push(rng.range(last_end, hi));
                    }
                }
                for b in beacons {
                    out.s2_checks += 1;
                    let mine = node.signable_root(b, false);
                    let fsim = Arc::new(Mutex::new(Sim::new(canon.clone(), false)));
                    let fnode = Node::new(env.rt.clone(), &env.scratch, &env.template, fsim, 100);
                    let theirs = fnode.signable_root(b, true);
                    let aligned = (b + 1) % 15 == 0;
                    let (lm, lt) = if aligned { (node.legacy_signable_root(b, false), fnode.legacy_signable_root(b, false)) } else { (String::new(), String::new()) };
                    fnode.close();
                    if mine != theirs || lm != lt {
                        let partial = (b + 1) % 15 != 0;
                        let inside = partial && dump.roots.iter().any(|r| r.0 <= b && b < r.1);
                        let canon_ids: BTreeSet<u32> = canon.iter().map(|x| x.id).collect();
                        let stale = dump.blocks.last().map(|x| !canon_ids.contains(&x.0)).unwrap_or(false);
                        let class = out.taint.clone().unwrap_or_else(|| {
                            if stale && early {
                                "stale-noop-import".into()
                            } else if !lost.is_empty() {
                                "reincluded-transaction-lost".into()
                            } else if inside && lm == lt {
                                "beacon-inside-stored-range".into()
                            } else {
                                "signable-root-diverged".into()
                            }
                        });
                        out.sfails.push((class, format!("beacon {} after import({}): signable root {} / legacy {} but a node that imports exactly to the beacon has {} / {}", b, target, mine, lm, theirs, lt)));
                    }
                }
            }
        }
    }
    let final_dump = dump.text();
    node.close();
    let mut blocks = String::from("[");
    for (i, b) in blocks_seen.values().enumerate() {
        let _ = write!(blocks, "{}({},{},{},[{}])", if i > 0 { "," } else { "" }, b.id, b.number, b.slot, b.txs.iter().map(|t| t.to_string()).collect::<Vec<_>>().join(","));
    }
    blocks.push(']');
    out.req = format!("c13.run max={} blocks={} steps=[{}]", h.max_per_poll, blocks, steps.join(","));
    out.trace = format!("{} D={}", trace.join(" "), final_dump);
    out
}

fn first_diff<T: PartialEq + Clone + std::fmt::Debug>(a: &[T], b: &[T]) -> Option<T> {
    a.iter().find(|x| !b.contains(x)).cloned()
}

// --------------------------------------------------------------------------------------- generator

struct Gen {
    chain: Vec<Blk>,
    next_id: u32,
    next_tx: u32,
    sparse: bool,
    tx_rate: u64,
    /// number of the first block of every chain of this history (0 or 1)
    first_number: u64,
    /// the mempool: transactions of abandoned blocks that are not on the node's chain
    pool: Vec<u32>,
    /// chance (%) that a transaction of a new block is a re-included one when the pool is not empty
    reinclude: u64,
    /// a new block whose number an abandoned block had takes exactly that block's transactions
    /// (same transactions, same block number, another block hash)
    mirror: bool,
    /// blocks abandoned by the switches so far, by block number (the latest)
    abandoned: BTreeMap<u64, Vec<u32>>,
}

impl Gen {
    fn new(rng: &mut Rng, sparse: bool, tx_rate: u64, first_number: u64, reinclude: u64, mirror: bool) -> Gen {
        let _ = rng;
        Gen { chain: vec![], next_id: 1, next_tx: 1, sparse, tx_rate, first_number, pool: vec![], reinclude, mirror, abandoned: BTreeMap::new() }
    }
    fn new_blocks(&mut self, rng: &mut Rng, after: Option<&Blk>, n: usize) -> Vec<Blk> {
        let mut out = vec![];
        let (mut number, mut slot) = match after {
            Some(b) => (b.number, b.slot),
            None => (self.first_number.wrapping_sub(1), 0),
        };
        for _ in 0..n {
            number = number.wrapping_add(if self.sparse && rng.chance(1, 6) { rng.range(2, 20) } else { 1 });
            slot += rng.range(1, 4);
            let mut txs: Vec<u32> = vec![];
            let mirrored = if self.mirror { self.abandoned.get(&number).cloned() } else { None };
            match mirrored {
                // the abandoned block of this number, under another hash: every transaction of it still in the pool
                Some(old) if old.iter().any(|t| self.pool.contains(t)) => {
                    for t in old {
                        if let Some(i) = self.pool.iter().position(|x| *x == t) {
                            self.pool.remove(i);
                            txs.push(t);
                        }
                    }
                }
                _ => {
                    // a fork that abandons transactions takes them up again more eagerly than it creates new ones
                    let want = rng.below(100) < self.tx_rate || (!self.pool.is_empty() && rng.below(100) < self.reinclude);
                    let ntx = if want { rng.range(1, 3) } else { 0 };
                    for _ in 0..ntx {
                        if !self.pool.is_empty() && rng.below(100) < self.reinclude {
                            // any abandoned transaction: from an earlier or a later block, the same or another range
                            let i = rng.below(self.pool.len() as u64) as usize;
                            txs.push(self.pool.swap_remove(i));
                        } else {
                            txs.push(self.next_tx);
                            self.next_tx += 1;
                        }
                    }
                }
            }
            // the order of delivery inside a block is not the order of the hashes
            if txs.len() > 1 && rng.bool() {
                txs.reverse();
            }
            out.push(Blk { id: self.next_id, number, slot, txs });
            self.next_id += 1;
        }
        out
    }
    fn grow(&mut self, rng: &mut Rng, n: usize) -> Mutation {
        let last = self.chain.last().cloned();
        let bs = self.new_blocks(rng, last.as_ref(), n);
        self.chain.extend(bs.iter().cloned());
        Mutation::Grow(bs)
    }
    fn switch(&mut self, rng: &mut Rng, keep: usize, n: usize) -> Mutation {
        let keep = keep.min(self.chain.len());
        // the transactions of the abandoned blocks go back to the mempool
        for b in self.chain[keep..].iter() {
            self.pool.extend(b.txs.iter().cloned());
            self.abandoned.insert(b.number, b.txs.clone());
        }
        self.chain.truncate(keep);
        let last = self.chain.last().cloned();
        let bs = self.new_blocks(rng, last.as_ref(), n);
        self.chain.extend(bs.iter().cloned());
        Mutation::Switch { keep, blocks: bs }
    }
    fn tip(&self) -> u64 {
        self.chain.last().map(|b| b.number).unwrap_or(0)
    }
    /// a fork point: number of blocks kept
    fn pick_keep(&self, rng: &mut Rng, imported_hi: u64) -> usize {
        let len = self.chain.len();
        if len == 0 {
            return 0;
        }
        let by_number = |n: u64| self.chain.iter().position(|b| b.number > n).unwrap_or(len);
        match rng.below(9) {
            0 => len - 1 - (rng.below(5) as usize).min(len - 1),
            1 => {
                // a block-range boundary and its neighbours
                let k = rng.range(1, (self.tip() / 15).max(1));
                by_number((k * 15 + rng.below(3)).saturating_sub(2))
            }
            2 => 1,                                  // back to the first block
            3 => 0,                                  // back to the origin
            4 => by_number(imported_hi),             // exactly the highest imported block
            5 => by_number(imported_hi.saturating_sub(rng.range(1, 6))),
            6 => by_number(imported_hi + rng.range(1, 6)),
            _ => rng.below(len as u64 + 1) as usize,
        }
    }
}

#[derive(Clone, Copy, PartialEq)]
enum Mode {
    /// no trigger of a recorded class is generated on purpose: targets at or below the tip, chain
    /// switches to longer chains only, restarts only while the stored tip is on the node's chain
    Clean,
    /// clean + pruning
    Prune,
    /// anything
    Wild,
}

fn gen_history(rng: &mut Rng, thorough: bool) -> (History, Mode) {
    let mode = match rng.below(20) {
        0..=11 => Mode::Clean,
        12..=14 => Mode::Prune,
        _ => Mode::Wild,
    };
    let wild = mode == Mode::Wild;
    let max_per_poll = *rng.pick(&[1usize, 2, 3, 5, 10, 30, 100]);
    let sparse = rng.chance(1, 6);
    let tx_rate = *rng.pick(&[0u64, 10, 40, 80]);
    let first_number = rng.below(2);
    // three histories out of four re-include transactions of the forks they abandon
    let reinclude = *rng.pick(&[0u64, 35, 70, 100]);
    let mirror = rng.chance(1, 4);
    let mut g = Gen::new(rng, sparse, tx_rate, first_number, reinclude, mirror);
    let mut events = vec![];
    let n_events = rng.range(5, if thorough { 80 } else { 40 }) as usize;
    let max_chain = 120usize;
    let first = rng.range(1, 50) as usize;
    events.push(Event::Mutate(g.grow(rng, first)));
    let mut imported_hi: u64 = 0;
    let mut imported_any = false;
    let mut last_target: u64 = 0;
    // the stored tip may have been abandoned by the node since the last scan
    let mut stale = false;
    // no scan yet since the last restart / reconnection
    let mut fresh_conn = false;
    // a switch: to a longer chain unless wild
    let do_switch = |g: &mut Gen, rng: &mut Rng, imported_hi: u64, wild: bool, fresh_conn: bool| -> (Mutation, bool) {
        let mut keep = g.pick_keep(rng, imported_hi).min(g.chain.len());
        if !wild && keep == 0 && imported_hi > 0 {
            // replacing the whole chain makes the node roll back to the origin, below every stored block
            keep = 1;
        }
        if fresh_conn && !wild {
            // a new connection can only intersect at the stored tip: it must still be on the node's chain
            keep = keep.max(g.chain.iter().position(|b| b.number > imported_hi).unwrap_or(g.chain.len()));
        }
        let removes_imported = g.chain[keep..].iter().any(|b| b.number <= imported_hi);
        let removed = g.chain.len() - keep;
        let n = if wild {
            if rng.chance(1, 8) { 0 } else { rng.range(1, 25) as usize }
        } else {
            removed + rng.range(1, 6) as usize
        };
        let n = n.min((max_chain + 20).saturating_sub(keep));
        let old_tip = g.tip();
        let mut m = g.switch(rng, keep, n);
        if !wild {
            // the node only adopts a chain that is longer in block number
            let mut guard = 0;
            while g.tip() <= old_tip && guard < 200 {
                guard += 1;
                let last = g.chain.last().cloned();
                let more = g.new_blocks(rng, last.as_ref(), 1);
                g.chain.extend(more.iter().cloned());
                if let Mutation::Switch { blocks, .. } = &mut m {
                    blocks.extend(more);
                }
            }
        }
        (m, removes_imported)
    };
    for _ in 0..n_events {
        let room = max_chain.saturating_sub(g.chain.len());
        let w = rng.below(100);
        if w < 36 {
            // import
            let tip = g.tip();
            let above = imported_hi + 1;
            let mut target = match rng.below(14) {
                0 => tip,
                1 => tip.saturating_sub(rng.below(10)),
                2 => tip + rng.range(1, 30),
                3 => last_target,
                4 => last_target.saturating_sub(rng.range(1, 20)),
                5 => (tip / 15 * 15).saturating_sub(1),
                6 => tip / 15 * 15,
                7 => tip / 15 * 15 + 1,
                8 => imported_hi + rng.range(1, 2 * max_per_poll as u64 + 1),
                9 => imported_hi + max_per_poll as u64,
                10 => ((above / 15 + 1) * 15).saturating_sub(rng.below(3)),
                11 => rng.range(0, tip + 2),
                _ => rng.range(above.min(tip), tip.max(above)),
            };
            if !wild {
                target = target.min(tip);
            }
            let mut mid = vec![];
            if rng.chance(2, 5) {
                // reply indices first, then the mutations in the order the simulator applies them
                let mut ats: Vec<usize> = (0..rng.range(1, 2)).map(|_| rng.below(2 * max_per_poll as u64 + 8) as usize).collect();
                ats.sort();
                // half of the time: one switch whose fork point is a block the streamer is holding in its
                // buffer (the d-th last block delivered in the current poll)
                if max_per_poll >= 3 && rng.bool() && imported_any {
                    let at = rng.range(2, (max_per_poll as u64).min(20)) as usize;
                    let d = rng.below(at as u64 - 1);
                    let fork_number = imported_hi + (at as u64 - 1) - d;
                    let keep = g.chain.iter().position(|b| b.number > fork_number).unwrap_or(g.chain.len());
                    if keep < g.chain.len() && keep > 0 {
                        let removed = g.chain.len() - keep;
                        let n = if wild { rng.range(0, 12) as usize } else { removed + rng.range(1, 4) as usize };
                        mid.push((at, g.switch(rng, keep, n)));
                        ats.retain(|a| *a > at);
                    }
                }
                for at in ats {
                    let room = max_chain.saturating_sub(g.chain.len());
                    let m = if rng.bool() && room > 0 {
                        let n = rng.range(1, room.min(12) as u64) as usize;
                        g.grow(rng, n)
                    } else {
                        let early_gen = imported_any && target <= imported_hi;
                        let (m, removes) = do_switch(&mut g, rng, imported_hi.max(target.min(tip)), wild, fresh_conn && early_gen);
                        if removes {
                            stale = true;
                        }
                        m
                    };
                    mid.push((at, m));
                }
            }
            let had_mid_switch = mid.iter().any(|m| matches!(m.1, Mutation::Switch { .. }));
            events.push(Event::Import { target, mid });
            if target > imported_hi || !imported_any {
                fresh_conn = false;
                // a real scan: the store follows the node (unless a switch came in after the scan ended)
                if !had_mid_switch {
                    stale = false;
                }
                imported_hi = imported_hi.max(target.min(g.tip()));
                imported_any = true;
            }
            last_target = target;
        } else if w < 60 {
            if room > 0 {
                let n = (*rng.pick(&[1u64, 1, 2, 5, 14, 15, 16, 31, 60, 100])).min(room as u64) as usize;
                events.push(Event::Mutate(g.grow(rng, n)));
            }
        } else if w < 80 {
            let (m, removes) = do_switch(&mut g, rng, imported_hi, wild, fresh_conn && imported_any);
            if removes && imported_any {
                stale = true;
            }
            events.push(Event::Mutate(m));
        } else if w < 89 {
            if wild || !stale {
                events.push(Event::Restart);
                fresh_conn = true;
            }
        } else if w < 93 {
            if wild || !stale {
                events.push(Event::Reconnect);
                fresh_conn = true;
            }
        } else if mode == Mode::Prune || (wild && rng.chance(1, 4)) {
            events.push(Event::Prune(*rng.pick(&[0u64, 1, 15, 20, 30, 60])));
        }
    }
    // end with an import to the tip so that the last state is a quiescent one
    events.push(Event::Import { target: g.tip(), mid: vec![] });
    (History { max_per_poll, await_sem: rng.bool() && !g.sparse, events }, mode)
}

// ------------------------------------------------------------------------------ witnesses (corpus)

/// blocks with `ntx` transactions of their own each (transaction id = 10 * block id + k)
fn chain_of(ids_from: u32, numbers: std::ops::RangeInclusive<u64>, slot_of: impl Fn(u64) -> u64, ntx: u8) -> Vec<Blk> {
    numbers
        .enumerate()
        .map(|(i, n)| {
            let id = ids_from + i as u32;
            Blk { id, number: n, slot: slot_of(n), txs: (0..ntx as u32).map(|k| id * 10 + k).collect() }
        })
        .collect()
}

/// class 1: a real roll-back to the scan's start point after forwards
fn w_skip() -> History {
    let p = chain_of(1, 1..=1, |n| n * 10, 0);
    let b = chain_of(101, 2..=3, |n| n * 10, 0);
    let c = chain_of(201, 2..=2, |n| n * 10 + 1, 0);
    History {
        max_per_poll: 100,
        await_sem: false,
        events: vec![
            Event::Mutate(Mutation::Grow(p)),
            Event::Import { target: 1, mid: vec![] },
            Event::Mutate(Mutation::Grow(b)),
            // the node switches to C while the client is reading: after the echo, B1 and B2
            Event::Import { target: 3, mid: vec![(3, Mutation::Switch { keep: 1, blocks: c })] },
        ],
    }
}

/// class 2: after a restart the resume point is no longer on the node's chain; the new connection
/// starts at the origin: `RollBackward(origin)` finds no stored block at or below slot 0
fn w_below_store(ntx: u8) -> History {
    let a = chain_of(1, 1..=12, |n| n * 10, 0);
    let b = chain_of(101, 11..=14, |n| n * 10 + 5, ntx);
    History {
        max_per_poll: 100,
        await_sem: false,
        events: vec![
            Event::Mutate(Mutation::Grow(a)),
            Event::Import { target: 12, mid: vec![] },
            Event::Mutate(Mutation::Switch { keep: 10, blocks: b }),
            Event::Restart,
            Event::Import { target: 14, mid: vec![] },
        ],
    }
}

/// class 2': pruning leaves a range partially stored; a roll-back anchored in it deletes its root,
/// which is then recomputed from the remaining blocks
fn w_pruned_range() -> History {
    let a = chain_of(1, 1..=50, |n| n * 10, 1);
    let b = chain_of(101, 29..=50, |n| n * 10 + 5, 1);
    History {
        max_per_poll: 100,
        await_sem: false,
        events: vec![
            Event::Mutate(Mutation::Grow(a)),
            Event::Import { target: 50, mid: vec![] },
            Event::Prune(10), // highest range start 30 - 10 = 20: blocks below 20 go, range [15,30) keeps 20..29
            Event::Mutate(Mutation::Switch { keep: 28, blocks: b }),
            Event::Import { target: 51, mid: vec![] },
        ],
    }
}

/// class 3: a target above the delivered tip caches the root of a partially imported range
fn w_partial_range() -> History {
    let a = chain_of(1, 1..=20, |n| n * 10, 1);
    let b = chain_of(21, 21..=50, |n| n * 10, 1);
    History {
        max_per_poll: 100,
        await_sem: false,
        events: vec![
            Event::Mutate(Mutation::Grow(a)),
            Event::Import { target: 40, mid: vec![] },
            Event::Mutate(Mutation::Grow(b)),
            Event::Import { target: 50, mid: vec![] },
        ],
    }
}

/// an import whose target does not exceed the highest stored block does not consult the node
fn w_stale_noop() -> History {
    let a = chain_of(1, 1..=30, |n| n * 10, 1);
    let b = chain_of(101, 11..=40, |n| n * 10 + 5, 1);
    History {
        max_per_poll: 100,
        await_sem: false,
        events: vec![
            Event::Mutate(Mutation::Grow(a)),
            Event::Import { target: 30, mid: vec![] },
            Event::Mutate(Mutation::Switch { keep: 10, blocks: b }),
            Event::Import { target: 25, mid: vec![] },
        ],
    }
}

/// the blocks-transactions builder uses a stored root of the range CONTAINING a partial beacon
fn w_beacon_inside() -> History {
    let a = chain_of(1, 1..=50, |n| n * 10, 1);
    History { max_per_poll: 100, await_sem: false, events: vec![Event::Mutate(Mutation::Grow(a)), Event::Import { target: 50, mid: vec![] }] }
}

/// a transaction of an abandoned block is included again in ANOTHER block of the new fork (the usual
/// fate of a rolled-back transaction): trunk 1..25, fork A 26..30 with the transaction in A27, the node
/// switches at 25 to fork B 26..40 with the transaction in B28
fn w_reinclude() -> History {
    let trunk = chain_of(1, 1..=25, |n| n * 10, 1);
    let mut a = chain_of(101, 26..=30, |n| n * 10 + 1, 0);
    a[1].txs = vec![7777];
    let mut b = chain_of(201, 26..=40, |n| n * 10 + 2, 0);
    b[2].txs = vec![7777];
    History {
        max_per_poll: 10,
        await_sem: false,
        events: vec![
            Event::Mutate(Mutation::Grow(trunk)),
            Event::Mutate(Mutation::Grow(a)),
            Event::Import { target: 30, mid: vec![] },
            Event::Mutate(Mutation::Switch { keep: 25, blocks: b }),
            Event::Import { target: 40, mid: vec![] },
        ],
    }
}

/// where a fork puts the transactions of the blocks it abandons
#[derive(Clone, Copy, Debug)]
enum Place {
    /// k-th transaction of the abandoned block n -> block n + 1 + k
    Later,
    /// -> block n - 1 - k
    Earlier,
    /// -> the block of the same number (another block hash)
    SameNumber,
    /// -> 15 blocks later: another block range
    RangeUp,
    /// transactions of the range [45,60) -> blocks of the range [30,45)
    RangeDown,
    /// first transaction -> the first block of the fork, the others -> its last blocks
    Scattered,
}

/// the fork `lo..=hi` that abandons `old`: every transaction of `old` exactly once, placed by `p`,
/// plus transactions of its own in every third block
fn fork_reincluding(p: Place, old: &[Blk], ids_from: u32, lo: u64, hi: u64, slot_off: u64, own_from: u32) -> Vec<Blk> {
    let mut at: BTreeMap<u64, Vec<u32>> = BTreeMap::new();
    for b in old {
        for (k, t) in b.txs.iter().enumerate() {
            let k = k as u64;
            let n = match p {
                Place::Later => b.number + 1 + k,
                Place::Earlier => b.number.saturating_sub(1 + k),
                Place::SameNumber => b.number,
                Place::RangeUp => b.number + 15,
                Place::RangeDown => {
                    if b.number >= 45 && lo < 45 {
                        lo + (b.number - lo) % (45 - lo)
                    } else {
                        b.number
                    }
                }
                Place::Scattered => {
                    if k == 0 {
                        lo
                    } else {
                        hi - (b.number.saturating_sub(lo)).min(hi - lo)
                    }
                }
            };
            at.entry(n.max(lo).min(hi)).or_default().push(*t);
        }
    }
    (lo..=hi)
        .enumerate()
        .map(|(i, n)| {
            let mut txs = at.remove(&n).unwrap_or_default();
            if n % 3 == 0 {
                txs.push(own_from + n as u32);
            }
            Blk { id: ids_from + i as u32, number: n, slot: n * 10 + slot_off, txs }
        })
        .collect()
}

/// forks that RE-INCLUDE the transactions of the blocks they abandon: every placement, small and large
/// batches, with a pruning, a second switch (a transaction moves A -> B -> C), a restart and a scan
/// between the two switches, and a switch that arrives while fork A is being read
fn reinclude_histories() -> Vec<(&'static str, History)> {
    let mut out = vec![];
    for p in [Place::Later, Place::Earlier, Place::SameNumber, Place::RangeUp, Place::RangeDown, Place::Scattered] {
        for max in [4usize, 100] {
            for mode in 0..5 {
                let trunk = chain_of(1, 1..=40, |n| n * 10, 1);
                // fork A: 41..=50, two transactions per block
                let a: Vec<Blk> = (41..=50u64).map(|n| Blk { id: 100 + n as u32, number: n, slot: n * 10 + 1, txs: vec![5000 + 2 * n as u32, 5001 + 2 * n as u32] }).collect();
                let b = fork_reincluding(p, &a, 241, 41, 62, 2, 6000);
                // fork C leaves B at 45 and re-includes what B46.. carried (transactions of A among them)
                let c = fork_reincluding(p, &b[5..], 346, 46, 70, 3, 7000);
                let mut ev = vec![Event::Mutate(Mutation::Grow(trunk)), Event::Import { target: 40, mid: vec![] }];
                match mode {
                    // the switch arrives while fork A is being read: after the echo and six blocks of A
                    4 => {
                        ev.push(Event::Mutate(Mutation::Grow(a)));
                        ev.push(Event::Import { target: 50, mid: vec![(7, Mutation::Switch { keep: 40, blocks: b })] });
                        ev.push(Event::Import { target: 62, mid: vec![] });
                    }
                    _ => {
                        ev.push(Event::Mutate(Mutation::Grow(a)));
                        ev.push(Event::Import { target: 50, mid: vec![] });
                        if mode == 1 {
                            // roots [0,15) [15,30) [30,45): blocks below 30 - 10 go; the roll-back is anchored above
                            ev.push(Event::Prune(10));
                        }
                        ev.push(Event::Mutate(Mutation::Switch { keep: 40, blocks: b }));
                        ev.push(Event::Import { target: 55, mid: vec![] });
                        if mode == 3 {
                            ev.push(Event::Restart);
                        }
                        ev.push(Event::Import { target: 62, mid: vec![] });
                        if mode >= 2 {
                            if mode == 3 {
                                ev.push(Event::Prune(20));
                            }
                            ev.push(Event::Mutate(Mutation::Switch { keep: 45, blocks: c }));
                            ev.push(Event::Import { target: 66, mid: vec![] });
                            ev.push(Event::Import { target: 70, mid: vec![] });
                        }
                    }
                }
                out.push(("grid-reinclude", History { max_per_poll: max, await_sem: false, events: ev }));
            }
        }
    }
    out
}

/// deterministic families aimed at the anticipated breaking changes
fn grid_histories() -> Vec<(&'static str, History)> {
    let mut out = vec![];
    let mk = |max: usize, events: Vec<Event>| History { max_per_poll: max, await_sem: false, events };
    // (1) a roll-back to every position of the streamer's buffer, to the scan's start point and to a stored block
    for at in 2..=9usize {
        for d in 0..=at {
            let a = chain_of(1, 1..=14, |n| n * 10, 1);
            // replies of import(14): echo, then blocks 3,4,…; after `at` replies the node switches
            let delivered_hi = 2 + (at as u64 - 1); // highest block delivered before the switch
            let fork = delivered_hi.saturating_sub(d as u64).max(1); // block kept
            let b = chain_of(100 + (at * 20 + d) as u32 * 20, fork + 1..=16, |n| n * 10 + 3, 1);
            out.push((
                "grid-buffer",
                mk(100, vec![
                    Event::Mutate(Mutation::Grow(a)),
                    Event::Import { target: 2, mid: vec![] },
                    Event::Import { target: 14, mid: vec![(at, Mutation::Switch { keep: fork as usize, blocks: b })] },
                    Event::Import { target: 16, mid: vec![] },
                ]),
            ));
        }
    }
    // (2) roll-backs to a block-range boundary and its neighbours, the first stored block; batch sizes around the cap
    for keep in [1usize, 2, 13, 14, 15, 16, 17, 28, 29, 30, 31, 32, 43, 44, 45, 46, 47, 49] {
        for max in [4usize, 100] {
            let a = chain_of(1, 1..=50, |n| n * 10, (keep % 2) as u8);
            let b = chain_of(1000 + keep as u32 * 100, keep as u64 + 1..=62, |n| n * 10 + 4, 1);
            out.push((
                "grid-boundary",
                mk(max, vec![
                    Event::Mutate(Mutation::Grow(a)),
                    Event::Import { target: 50, mid: vec![] },
                    Event::Mutate(Mutation::Switch { keep, blocks: b }),
                    Event::Import { target: 60, mid: vec![] },
                    Event::Import { target: 62, mid: vec![] },
                ]),
            ));
        }
    }
    // (3) targets inside a batch and at the cap boundaries
    for max in [1usize, 3, 5] {
        for target in [4u64, 5, 6, 9, 10, 11, 14, 15, 16, 29, 30, 31] {
            let a = chain_of(1, 1..=40, |n| n * 10, 1);
            out.push((
                "grid-target",
                mk(max, vec![Event::Mutate(Mutation::Grow(a)), Event::Import { target, mid: vec![] }, Event::Import { target: target + max as u64, mid: vec![] }, Event::Import { target: 40, mid: vec![] }]),
            ));
        }
    }
    // (4) a restart / reconnection between every pair of steps of one scenario with a roll-back
    let scenario = |extra_at: usize, extra: Event| {
        let a = chain_of(1, 1..=20, |n| n * 10, 1);
        let b = chain_of(500, 17..=33, |n| n * 10 + 2, 1);
        let c = chain_of(600, 34..=48, |n| n * 10 + 2, 0);
        let mut ev = vec![
            Event::Mutate(Mutation::Grow(a)),
            Event::Import { target: 12, mid: vec![] },
            Event::Import { target: 20, mid: vec![] },
            Event::Mutate(Mutation::Switch { keep: 16, blocks: b }),
            Event::Import { target: 25, mid: vec![] },
            Event::Import { target: 33, mid: vec![] },
            Event::Mutate(Mutation::Grow(c)),
            Event::Import { target: 40, mid: vec![] },
            Event::Import { target: 48, mid: vec![] },
        ];
        ev.insert(extra_at, extra);
        ev
    };
    for at in 1..=9usize {
        // not between the switch and the next scan: there the stored tip is off the node's chain (known class)
        if at == 4 {
            continue;
        }
        out.push(("grid-restart", mk(7, scenario(at, Event::Restart))));
        out.push(("grid-restart", mk(7, scenario(at, Event::Reconnect))));
    }
    out
}

fn main() {
    let args = Args::parse();
    let mut rng = Rng::new(args.seed ^ 0xC13);
    let mut sink = Sink::new(&args);
    let default_hook = std::panic::take_hook();
    std::panic::set_hook(Box::new(move |info| {
        if !QUIET.load(Ordering::SeqCst) {
            default_hook(info);
        }
    }));
    let rt = Arc::new(tokio::runtime::Builder::new_multi_thread().worker_threads(2).max_blocking_threads(4).enable_all().build().unwrap());
    let scratch = std::env::temp_dir().join(format!("verif-c13-{}-{}", std::process::id(), args.seed));
    let _ = std::fs::remove_dir_all(&scratch);
    std::fs::create_dir_all(&scratch).unwrap();
    let template = scratch.join("template.sqlite3");
    drop(open_repo(&template));
    let env = Env { rt: rt.clone(), scratch: scratch.clone(), template };
    let full = SPlan { every: true, beacons: 0, beacons_last_only: false };

    let emit = |sink: &mut Sink, tag: &str, o: &Outcome, case: &str, only: Option<usize>| {
        let idx = sink.case(tag, &o.req, &o.trace);
        if only.map(|x| x == idx).unwrap_or(true) {
            for (c, w) in &o.sfails {
                sink.sfail(idx, c, w, case);
            }
        }
    };

    let mut grid_branches = [0u64; 5];
    // ---- corpus: the witnesses of the findings, replayed on the real code every run ---------
    let mut wr = rng.fork();
    let o = run_history(&env, &w_skip(), &mut wr, full);
    let rep = o.sfails.iter().any(|s| s.0 == "skip-rollback-to-start");
    sink.note("w_skip", &format!("letters={} sfails={:?}", o.letters, o.sfails));
    emit(&mut sink, "corpus-skip", &o, "witness: roll-back to the scan start after forwards", args.only);
    let _ = rep;

    for (ntx, id) in [(0u8, "C13-rollback-below-store"), (1u8, "C13-rollback-below-store-panic")] {
        let o = run_history(&env, &w_below_store(ntx), &mut wr, full);
        let rep = if ntx == 0 { o.sfails.iter().any(|s| s.0 == "rollback-below-store") } else { o.trace.contains(":panic;") && o.taint.as_deref() == Some("rollback-below-store") };
        sink.witness(id, rep, &format!("letters={} {}", o.letters, o.sfails.first().map(|s| s.1.clone()).unwrap_or_default()));
        emit(&mut sink, "corpus-below-store", &o, "witness: roll-back below the lowest stored block", args.only);
    }
    {
        let o = run_history(&env, &w_pruned_range(), &mut wr, full);
        let rep = o.sfails.iter().any(|s| s.0 == "rollback-into-pruned-range");
        sink.witness("C13-rollback-into-pruned-range", rep, &format!("letters={} {}", o.letters, o.sfails.first().map(|s| s.1.clone()).unwrap_or_default()));
        emit(&mut sink, "corpus-pruned-range", &o, "witness: roll-back anchored in a partially pruned range", args.only);
    }
    {
        let o = run_history(&env, &w_partial_range(), &mut wr, full);
        let rep = o.sfails.iter().any(|s| s.0 == "partial-range-root");
        sink.witness("C13-partial-range-root", rep, &format!("letters={} {}", o.letters, o.sfails.first().map(|s| s.1.clone()).unwrap_or_default()));
        emit(&mut sink, "corpus-partial-range", &o, "witness: import target above the delivered tip", args.only);
    }
    {
        let o = run_history(&env, &w_stale_noop(), &mut wr, full);
        let rep = o.sfails.iter().any(|s| s.0 == "stale-noop-import");
        sink.witness("C13-stale-noop-import", rep, &format!("letters={} {}", o.letters, o.sfails.first().map(|s| s.1.clone()).unwrap_or_default()));
        emit(&mut sink, "corpus-stale-noop", &o, "witness: import at or below the highest stored block after a chain switch", args.only);
    }
    {
        // not a finding: the re-included transaction must be stored under its new block (an S failure here
        // is of the class `reincluded-transaction-lost`)
        let o = run_history(&env, &w_reinclude(), &mut wr, SPlan { every: true, beacons: 3, beacons_last_only: false });
        sink.note("w_reinclude", &format!("letters={} sfails={:?}", o.letters, o.sfails));
        emit(&mut sink, "corpus-reinclude", &o, "a transaction of an abandoned block included again in another block of the new fork", args.only);
    }
    {
        let mut o = run_history(&env, &w_beacon_inside(), &mut wr, SPlan { every: true, beacons: 0, beacons_last_only: false });
        // beacon 40 lies inside the stored range [30,45)
        let a = chain_of(1, 1..=50, |n| n * 10, 1);
        let sim = Arc::new(Mutex::new(Sim::new(a.clone(), false)));
        let far = Node::new(rt.clone(), &scratch, &env.template, sim, 100);
        far.import(50);
        let sim2 = Arc::new(Mutex::new(Sim::new(a, false)));
        let near = Node::new(rt.clone(), &scratch, &env.template, sim2, 100);
        let r_far = far.signable_root(40, true);
        let r_near = near.signable_root(40, true);
        far.close();
        near.close();
        let rep = r_far != r_near;
        if rep {
            o.sfails.push(("beacon-inside-stored-range".into(), format!("beacon 40: a node that imported to 50 offers {} and a node that imports to 40 offers {}", r_far, r_near)));
        }
        sink.witness("C13-beacon-inside-stored-range", rep, &format!("imported-to-50={} imported-to-40={}", r_far, r_near));
        emit(&mut sink, "corpus-beacon-inside", &o, "witness: partial beacon inside a stored block range", args.only);
    }

    // ---- deterministic grids ---------------------------------------------------------------------
    for (tag, h) in grid_histories() {
        if !sink.wanted() {
            sink.skip();
            continue;
        }
        let o = run_history(&env, &h, &mut wr, SPlan { every: true, beacons: 0, beacons_last_only: false });
        for k in 0..5 {
            grid_branches[k] += o.branches[k];
        }
        let t = match &o.taint {
            Some(c) => format!("{}-{}", tag, c),
            None => tag.to_string(),
        };
        let short: String = o.req.chars().take(400).collect();
        emit(&mut sink, &t, &o, &format!("{}: {}…", tag, short), args.only);
    }
    sink.note("grid_streamer_branches", &format!("{:?}", grid_branches));
    let mut reinc = (0u64, 0u64, 0u64);
    for (tag, h) in reinclude_histories() {
        if !sink.wanted() {
            sink.skip();
            continue;
        }
        let o = run_history(&env, &h, &mut wr, SPlan { every: true, beacons: 3, beacons_last_only: true });
        reinc.0 += o.reincluded;
        reinc.1 += o.s_checks;
        reinc.2 += o.s2_checks;
        let t = match &o.taint {
            Some(c) => format!("{}-{}", tag, c),
            None => tag.to_string(),
        };
        let short: String = o.req.chars().take(400).collect();
        emit(&mut sink, &t, &o, &format!("{}: {}…", tag, short), args.only);
    }
    sink.note("grid_reinclude", &format!("re-included transactions stored under a new block={} fresh-import comparisons={} signable-root comparisons={}", reinc.0, reinc.1, reinc.2));

    // ---- generated histories -------------------------------------------------------------------
    let n = args.extra.get("n").and_then(|x| x.parse().ok()).unwrap_or(if args.thorough() { 6_000 } else { 800 });
    let mut letters: BTreeMap<char, u64> = BTreeMap::new();
    let (mut s1, mut s2, mut tainted) = (0u64, 0u64, 0u64);
    let (mut reincluded, mut reinc_hist) = (0u64, 0u64);
    let mut branches = [0u64; 5];
    for i in 0..n {
        let mut r = rng.fork();
        let (h, mode) = gen_history(&mut r, args.thorough());
        if !sink.wanted() {
            sink.skip();
            continue;
        }
        if std::env::var("C13_DEBUG").is_ok() {
            for e in &h.events {
                match e {
                    Event::Mutate(Mutation::Grow(b)) => eprintln!("grow {:?}", b.iter().map(|x| (x.id, x.number, x.slot)).collect::<Vec<_>>()),
                    Event::Mutate(Mutation::Switch { keep, blocks }) => eprintln!("switch keep={} {:?}", keep, blocks.iter().map(|x| (x.id, x.number, x.slot)).collect::<Vec<_>>()),
                    Event::Import { target, mid } => eprintln!("import {} mid={:?}", target, mid.iter().map(|(a, m)| (a, match m { Mutation::Grow(b) => format!("grow{}", b.len()), Mutation::Switch { keep, blocks } => format!("switch keep={} n={}", keep, blocks.len()) })).collect::<Vec<_>>()),
                    other => eprintln!("{:?}", other),
                }
            }
        }
        let plan = SPlan { every: i % 10 == 0, beacons: if i % 3 == 0 { 3 } else { 0 }, beacons_last_only: false };
        let o = run_history(&env, &h, &mut r, plan);
        for c in o.letters.chars() {
            *letters.entry(c).or_insert(0) += 1;
        }
        s1 += o.s_checks;
        s2 += o.s2_checks;
        reincluded += o.reincluded;
        if o.reincluded > 0 {
            reinc_hist += 1;
        }
        for k in 0..5 {
            branches[k] += o.branches[k];
        }
        if o.taint.is_some() {
            tainted += 1;
        }
        let mode = match mode {
            Mode::Clean => "clean",
            Mode::Prune => "prune",
            Mode::Wild => "wild",
        };
        let tag = match &o.taint {
            Some(t) => format!("{}-{}", mode, t),
            None => format!("{}-good", mode),
        };
        let short: String = o.req.chars().take(400).collect();
        emit(&mut sink, &tag, &o, &format!("history {} (seed {}, tier {}; replay with --only <idx>): {}…", i, args.seed, args.tier, short), args.only);
    }
    sink.note("import_class_letters", &format!("{:?}", letters));
    sink.note(
        "streamer_branches",
        &format!(
            "rollbacks resolved in the buffer={} full rollbacks={} skipped initial echo={} forwards dropped above the target={} polls capped by max_roll_forwards_per_poll={}",
            branches[0], branches[1], branches[2], branches[3], branches[4]
        ),
    );
    sink.note("reincluded_transactions_seen_stored_under_a_new_block", &format!("{} in {} generated histories", reincluded, reinc_hist));
    sink.note("imports_with_a_transaction_twice_on_one_chain", &TX_TWICE.load(Ordering::SeqCst).to_string());
    sink.note("S1_fresh_import_comparisons", &s1.to_string());
    sink.note("S2_signable_root_comparisons", &s2.to_string());
    sink.note("histories_with_a_classified_event", &tainted.to_string());
    let _ = std::fs::remove_dir_all(&scratch);
    sink.finish();
}
