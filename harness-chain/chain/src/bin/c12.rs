//! C12 harness: the real `CardanoImmutableDigester` / `CardanoDatabaseSignableBuilder` on generated
//! databases, compared bit-exactly with the Lean model `Digester.root` (K), and the property's
//! clauses evaluated directly on the real code (S):
//!   * same root for every creation order, extra-file placement, content beyond the beacon and
//!     cache history (cold, warm, warm from a longer / shorter run, partially evicted), with the JSON
//!     and the in-memory cache provider;
//!   * without a cache, flipping / truncating / deleting any covered file changes the root or
//!     yields `NotEnoughImmutable`.
use hutil::{Args, Rng, Sink};
use mithril_cardano_node_internal_database::digesters::cache::{
    ImmutableFileDigestCacheProvider, JsonImmutableFileDigestCacheProvider, MemoryImmutableFileDigestCacheProvider,
};
use mithril_cardano_node_internal_database::digesters::{CardanoImmutableDigester, ImmutableDigester, ImmutableDigesterError};
use mithril_cardano_node_internal_database::entities::{ImmutableFile, ImmutableFileListingError};
use mithril_cardano_node_internal_database::signable_builder::CardanoDatabaseSignableBuilder;
use mithril_common::crypto_helper::{MKTree, MKTreeStoreInMemory};
use mithril_common::entities::{CardanoDbBeacon, Epoch, ProtocolMessagePartKey};
use mithril_common::signable_builder::SignableBuilder;
use sha2::{Digest, Sha256};
use std::collections::{BTreeMap, BTreeSet, HashMap};
use std::fs;
use std::path::{Path, PathBuf};
use std::sync::Arc;

fn logger() -> slog::Logger {
    slog::Logger::root(slog::Discard, slog::o!())
}

/// logical database: immutable files by name, plus extras
#[derive(Clone)]
struct Db {
    /// (file name, content) of the immutable trio files
    trios: Vec<(String, Vec<u8>)>,
    /// extra entries: (relative path, Some(content) = file / None = directory)
    extras: Vec<(String, Option<Vec<u8>>)>,
}

fn trio_names(n: u64) -> [String; 3] {
    [format!("{:05}.chunk", n), format!("{:05}.primary", n), format!("{:05}.secondary", n)]
}

fn number_of(name: &str) -> u64 {
    name.split('.').next().unwrap().parse().unwrap()
}

/// write a database under `root`; the creation order of all entries is shuffled when `shuffle`
fn build(root: &Path, db: &Db, up_to: Option<u64>, with_extras: bool, shuffle: Option<&mut Rng>) {
    let imm = root.join("immutable");
    fs::create_dir_all(&imm).unwrap();
    let mut items: Vec<(PathBuf, Option<Vec<u8>>)> = vec![];
    for (n, c) in &db.trios {
        if up_to.map(|u| number_of(n) <= u).unwrap_or(true) {
            items.push((imm.join(n), Some(c.clone())));
        }
    }
    if with_extras {
        for (p, c) in &db.extras {
            items.push((root.join(p), c.clone()));
        }
    }
    if let Some(rng) = shuffle {
        rng.shuffle(&mut items);
    }
    for (p, c) in items {
        match c {
            Some(bytes) => {
                fs::create_dir_all(p.parent().unwrap()).unwrap();
                fs::write(&p, bytes).unwrap();
            }
            None => fs::create_dir_all(&p).unwrap(),
        }
    }
}

fn sha_hex(bytes: &[u8]) -> String {
    hex::encode(Sha256::digest(bytes))
}

/// the request's `dirs=` value: directories below the root in WalkDir order, each with its own
/// entries (name, f|d, sha256 hex of the content)
fn listing(root: &Path) -> String {
    let mut out = String::from("[");
    let mut first = true;
    for e in walkdir::WalkDir::new(root).into_iter().filter_entry(|e| e.file_type().is_dir()).filter_map(|e| e.ok()) {
        if !first {
            out.push(',');
        }
        first = false;
        out.push_str(&format!("(x{},[", e.file_name().to_string_lossy()));
        let mut f2 = true;
        for c in walkdir::WalkDir::new(e.path()).min_depth(1).max_depth(1).into_iter().filter_map(|c| c.ok()) {
            if !f2 {
                out.push(',');
            }
            f2 = false;
            let is_file = c.file_type().is_file();
            let d = if is_file { sha_hex(&fs::read(c.path()).unwrap()) } else { "00".to_string() };
            out.push_str(&format!("(x{},{},x{})", c.file_name().to_string_lossy(), if is_file { "f" } else { "d" }, d));
        }
        out.push_str("])");
    }
    out.push(']');
    out
}

fn err_class(e: &ImmutableDigesterError) -> String {
    match e {
        ImmutableDigesterError::ListImmutablesError(ImmutableFileListingError::MissingImmutableFolder(_)) => "err kind=noimmdir".into(),
        ImmutableDigesterError::ListImmutablesError(ImmutableFileListingError::ImmutableFileCreation(_)) => "err kind=listing".into(),
        ImmutableDigesterError::ListImmutablesError(_) => "err kind=listing-other".into(),
        ImmutableDigesterError::NotEnoughImmutable { found_number, .. } => match found_number {
            None => "err kind=notenough(none)".into(),
            Some(n) => format!("err kind=notenough({})", n),
        },
        ImmutableDigesterError::DigestComputationError(_) => "err kind=io".into(),
        ImmutableDigesterError::MerkleTreeComputationError(_) => "err kind=mktree".into(),
    }
}

enum Provider {
    None,
    Json(PathBuf),
    Memory(Arc<MemoryImmutableFileDigestCacheProvider>),
}

impl Provider {
    fn arc(&self) -> Option<Arc<dyn ImmutableFileDigestCacheProvider>> {
        match self {
            Provider::None => None,
            Provider::Json(p) => Some(Arc::new(JsonImmutableFileDigestCacheProvider::new(p))),
            Provider::Memory(m) => Some(m.clone()),
        }
    }
}

struct Ctx {
    rt: tokio::runtime::Runtime,
}

impl Ctx {
    /// content of a cache for the candidate names, through the provider's own `get`
    fn dump(&self, p: &Provider, names: &BTreeSet<String>) -> BTreeMap<String, String> {
        let mut out = BTreeMap::new();
        if let Some(prov) = p.arc() {
            let files: Vec<ImmutableFile> = names
                .iter()
                .enumerate()
                .map(|(i, n)| ImmutableFile { path: PathBuf::from(format!("/nowhere/{}", n)), number: i as u64, filename: n.clone() })
                .collect();
            if let Ok(m) = self.rt.block_on(prov.get(files)) {
                for (f, v) in m {
                    if let Some(v) = v {
                        out.insert(f.filename, v);
                    }
                }
            }
        }
        out
    }

    /// one run of the real code: canonical outcome (root or error class)
    fn run(&self, root: &Path, beacon: u64, p: &Provider, via_builder: bool) -> String {
        let digester = CardanoImmutableDigester::new(p.arc(), logger());
        let b = CardanoDbBeacon { epoch: Epoch(1), immutable_file_number: beacon };
        if via_builder {
            let builder = CardanoDatabaseSignableBuilder::new(Arc::new(digester), root, logger());
            match self.rt.block_on(builder.compute_protocol_message(b)) {
                Ok(m) => format!("ok root={}", m.get_message_part(&ProtocolMessagePartKey::CardanoDatabaseMerkleRoot).cloned().unwrap_or_default()),
                Err(e) => match e.downcast_ref::<ImmutableDigesterError>() {
                    Some(de) => err_class(de),
                    None => "err kind=other".into(),
                },
            }
        } else {
            match self.rt.block_on(digester.compute_merkle_tree(root, &b)) {
                Ok(t) => match t.compute_root() {
                    Ok(r) => format!("ok root={}", r.to_hex()),
                    Err(_) => "err kind=root".into(),
                },
                Err(e) => err_class(&e),
            }
        }
    }
}

fn show_cache(c: &BTreeMap<String, String>, prefix: &str) -> String {
    let mut s = String::from("[");
    for (i, (k, v)) in c.iter().enumerate() {
        if i > 0 {
            s.push(',');
        }
        s.push_str(&format!("({}{},{}{})", prefix, k, prefix, v));
    }
    s.push(']');
    s
}

struct Scenario<'a> {
    ctx: &'a Ctx,
    sink: &'a mut Sink,
    only: Option<usize>,
    names: BTreeSet<String>,
    via_builder: bool,
}

impl<'a> Scenario<'a> {
    /// K case: run the real code with provider `p` on `root`, compare with the model on the listing
    fn kcase(&mut self, tag: &str, root: &Path, beacon: u64, p: &Provider) -> String {
        let before = self.ctx.dump(p, &self.names);
        self.via_builder = !self.via_builder;
        let res = self.ctx.run(root, beacon, p, self.via_builder);
        let after = self.ctx.dump(p, &self.names);
        let req = format!("c12.root beacon={} prov={} dirs={} cache={}", beacon, if matches!(p, Provider::None) { "none" } else { "some" }, listing(root), show_cache(&before, "x"));
        let imp = if res.starts_with("ok") { format!("{} cache={}", res, show_cache(&after, "")) } else { res.clone() };
        self.sink.case(tag, &req, &imp);
        res
    }
    fn sfail(&mut self, class: &str, what: &str, case: &str) {
        let idx = self.sink.next_index().saturating_sub(1);
        if self.only.map(|o| o == idx).unwrap_or(true) {
            self.sink.sfail(idx, class, what, case);
        }
    }
}

fn gen_db(rng: &mut Rng, big: bool) -> (Db, u64, u64) {
    let n_trios = if big { rng.range(15, 40) } else { rng.range(1, 8) };
    let first = *rng.pick(&[0u64, 0, 1, 1, 7, 98, 99998]);
    let mut trios = vec![];
    let shared_len = rng.range(1, 200) as usize;
    let shared: Vec<u8> = rng.bytes(shared_len);
    for k in 0..n_trios {
        for name in trio_names(first + k) {
            let size = match rng.below(10) {
                0 => 0,
                1 => 1,
                2 => 64,
                3 => 8192,
                _ => rng.range(0, if big { 2048 } else { 8192 }) as usize,
            };
            let content = if rng.chance(1, 12) { shared.clone() } else { rng.bytes(size) };
            trios.push((name, content));
        }
    }
    // extras: never an immutable-looking file inside `immutable/` with a number <= last (that would be a covered file)
    let mut extras: Vec<(String, Option<Vec<u8>>)> = vec![];
    let pool: Vec<(String, Option<Vec<u8>>)> = vec![
        (format!("immutable/{:05}.chunk.tmp", first), Some(rng.bytes(10))),
        ("immutable/lock".into(), Some(vec![])),
        ("immutable/clean".into(), Some(b"x".to_vec())),
        (format!("immutable/{:05}.txt", first), Some(rng.bytes(30))),
        (format!("immutable/{:05}.CHUNK", first), Some(rng.bytes(30))),
        (format!("immutable/{:05}.chunk.bak", first + 1), Some(rng.bytes(30))),
        (format!("immutable/{:05}", first), Some(rng.bytes(30))),
        ("immutable/.chunk".into(), Some(rng.bytes(5))),
        ("immutable/.hidden.tmp".into(), Some(rng.bytes(5))),
        ("immutable/README".into(), Some(b"readme".to_vec())),
        // directories, also one that carries an immutable extension and one named `immutable` below the real one
        ("immutable/sub".into(), None),
        (format!("immutable/sub/{:05}.chunk", first), Some(rng.bytes(20))),
        (format!("immutable/{:05}.chunk", first + 900), None),
        ("immutable/immutable".into(), None),
        (format!("immutable/immutable/{:05}.primary", first), Some(rng.bytes(20))),
        // other directories with immutable-looking files
        (format!("ledger/{:05}.chunk", first), Some(rng.bytes(40))),
        ("ledger/123456".into(), Some(rng.bytes(40))),
        (format!("volatile/{:05}.secondary", first), Some(rng.bytes(40))),
        ("volatile/blocks-0.dat".into(), Some(rng.bytes(40))),
        ("protocolMagicId".into(), Some(b"42".to_vec())),
        (format!("{:05}.chunk", first), Some(rng.bytes(17))),
        ("lock".into(), Some(vec![])),
    ];
    for it in pool {
        if rng.chance(1, 3) {
            extras.push(it);
        }
    }
    (Db { trios, extras }, first, first + n_trios - 1)
}

fn main() {
    let args = Args::parse();
    let mut rng = Rng::new(args.seed ^ 0xC12);
    let mut sink = Sink::new(&args);
    hutil::quiet_panics();
    let ctx = Ctx { rt: tokio::runtime::Builder::new_multi_thread().worker_threads(2).enable_all().build().unwrap() };
    let scratch = std::env::temp_dir().join(format!("verif-c12-{}-{}", std::process::id(), args.seed));
    let _ = fs::remove_dir_all(&scratch);
    fs::create_dir_all(&scratch).unwrap();

    // ---- the two hashes of the model against the crates -------------------------------------
    for len in (0..=130usize).chain([191, 192, 193, 255, 256, 257, 1000]) {
        let m = rng.bytes(len);
        let d = blake2::Blake2s256::digest(&m);
        sink.case("blake2s", &format!("c12.b2s msg={}", hutil::hex(&m)), &hutil::hex(&d));
    }
    // ---- the MMR builder model against MKTree::compute_root ---------------------------------
    let max_leaves = if args.thorough() { 300 } else { 130 };
    for n in 1..=max_leaves {
        let leaves: Vec<String> = (0..n).map(|_| hex::encode(rng.bytes(32))).collect();
        let t = MKTree::<MKTreeStoreInMemory>::new(&leaves).unwrap();
        let req = format!("c12.mmr leaves=[{}]", leaves.iter().map(|l| format!("x{}", l)).collect::<Vec<_>>().join(","));
        sink.case("mmr", &req, &format!("ok root={}", t.compute_root().unwrap().to_hex()));
    }

    // ---- databases ---------------------------------------------------------------------------
    let n_scen = if args.thorough() { 900 } else { 60 };
    let mut stats: BTreeMap<&'static str, u64> = BTreeMap::new();
    for si in 0..n_scen {
        let mut r = rng.fork();
        let big = si % 9 == 8;
        let (db, first, last) = gen_db(&mut r, big);
        let dir = scratch.join(format!("s{}", si));
        let clean = dir.join("clean");
        let messy = dir.join("messy");
        build(&clean, &db, None, false, None);
        build(&messy, &db, None, true, Some(&mut r));
        let mut names: BTreeSet<String> = db.trios.iter().map(|t| t.0.clone()).collect();
        for (p, c) in &db.extras {
            if c.is_some() {
                names.insert(Path::new(p).file_name().unwrap().to_string_lossy().to_string());
            }
        }
        for k in 0..3 {
            names.insert(format!("{}.chunk", first + k)); // unpadded names used by the foreign-cache history
        }
        let mut sc = Scenario { ctx: &ctx, sink: &mut sink, only: args.only, names, via_builder: si % 2 == 0 };
        let case_txt = format!("scenario {} (seed {}): {} trios {}..{}, {} extras", si, args.seed, last - first + 1, first, last, db.extras.len());

        // beacons: all for small databases, a sample for big ones; also below the first and above the last number
        let mut beacons: Vec<u64> = if big {
            let mut v = vec![first, last, last + 1];
            for _ in 0..3 {
                v.push(r.range(first, last));
            }
            v
        } else {
            (first..=last + 1).collect()
        };
        if first > 0 {
            beacons.push(first - 1);
        }
        beacons.sort();
        beacons.dedup();

        // reference roots: clean database, no cache
        let mut reference: BTreeMap<u64, String> = BTreeMap::new();
        for &b in &beacons {
            let res = sc.kcase("clean-nocache", &clean, b, &Provider::None);
            reference.insert(b, res);
        }
        // S: creation order + extra files (messy directory), no cache
        for &b in &beacons {
            let res = sc.kcase("messy-nocache", &messy, b, &Provider::None);
            *stats.entry("S.order+extras").or_insert(0) += 1;
            if res != reference[&b] {
                sc.sfail("layout-dependent", &format!("beacon {}: shuffled creation order + extra files give {} but the clean database gives {}", b, res, reference[&b]), &case_txt);
            }
        }
        // S: files beyond the beacon — a database truncated at the beacon gives the same root
        let trunc_beacons: Vec<u64> = if big { vec![*r.pick(&beacons[..beacons.len() - 1])] } else { beacons.iter().cloned().filter(|b| *b >= first && *b < last).collect() };
        for (k, &b) in trunc_beacons.iter().enumerate() {
            if b < first || b > last {
                continue;
            }
            let t = dir.join(format!("trunc{}", k));
            build(&t, &db, Some(b), false, Some(&mut r));
            let res = sc.kcase("truncated-nocache", &t, b, &Provider::None);
            *stats.entry("S.beyond-beacon").or_insert(0) += 1;
            if res != reference[&b] {
                sc.sfail("beyond-beacon-dependent", &format!("beacon {}: database cut at the beacon gives {} but the longer one gives {}", b, res, reference[&b]), &case_txt);
            }
            let _ = fs::remove_dir_all(&t);
        }

        // S: cache histories, both providers
        let valid: Vec<u64> = beacons.iter().cloned().filter(|b| *b >= first && *b <= last).collect();
        let hist_beacons: Vec<u64> = if valid.len() <= 3 { valid.clone() } else { vec![valid[0], *r.pick(&valid), *valid.last().unwrap()] };
        for (hk, &b) in hist_beacons.iter().enumerate() {
            for prov_kind in 0..2 {
                let mk = |tag: &str| -> Provider {
                    if prov_kind == 0 {
                        Provider::Json(dir.join(format!("cache-{}-{}.json", hk, tag)))
                    } else {
                        Provider::Memory(Arc::new(MemoryImmutableFileDigestCacheProvider::default()))
                    }
                };
                let pk = if prov_kind == 0 { "json" } else { "mem" };
                let check = |sc: &mut Scenario, hist: &str, res: &str, stats: &mut BTreeMap<&'static str, u64>| {
                    *stats.entry("S.cache-history").or_insert(0) += 1;
                    if res != reference[&b] {
                        sc.sfail("cache-dependent", &format!("beacon {} provider {} history {}: {} but without cache {}", b, pk, hist, res, reference[&b]), &case_txt);
                    }
                };
                // cold then warm (same provider, same beacon)
                let p = mk("cw");
                let res = sc.kcase(&format!("cold-{}", pk), &messy, b, &p);
                check(&mut sc, "cold", &res, &mut stats);
                let res = sc.kcase(&format!("warm-{}", pk), &messy, b, &p);
                check(&mut sc, "warm", &res, &mut stats);
                // warm from a longer run
                if b < last {
                    let p = mk("longer");
                    let longer = r.range(b + 1, last);
                    sc.kcase(&format!("prime-{}", pk), &messy, longer, &p);
                    let res = sc.kcase(&format!("warm-from-longer-{}", pk), &messy, b, &p);
                    check(&mut sc, "warm-from-longer", &res, &mut stats);
                }
                // warm from a shorter run
                if b > first {
                    let p = mk("shorter");
                    let shorter = r.range(first, b - 1);
                    sc.kcase(&format!("prime-{}", pk), &messy, shorter, &p);
                    let res = sc.kcase(&format!("warm-from-shorter-{}", pk), &messy, b, &p);
                    check(&mut sc, "warm-from-shorter", &res, &mut stats);
                }
                // partially evicted: a full cache with a random subset of the entries removed
                {
                    let full = mk("full");
                    ctx.run(&messy, last, &full, false);
                    let all = ctx.dump(&full, &sc.names);
                    let kept: Vec<(String, String)> = all.into_iter().filter(|_| r.bool()).collect();
                    let p = match mk("evicted") {
                        Provider::Json(path) => {
                            let jp = JsonImmutableFileDigestCacheProvider::new(&path);
                            ctx.rt.block_on(jp.store(kept)).unwrap();
                            Provider::Json(path)
                        }
                        _ => Provider::Memory(Arc::new(MemoryImmutableFileDigestCacheProvider::from(kept.into_iter().collect::<HashMap<_, _>>()))),
                    };
                    let res = sc.kcase(&format!("evicted-{}", pk), &messy, b, &p);
                    check(&mut sc, "partially-evicted", &res, &mut stats);
                    // … and again on what that run wrote back (a write-back that pairs names with the wrong digests gives
                    // the right root once and a wrong one from then on), at the same and at the last beacon
                    let res = sc.kcase(&format!("evicted-again-{}", pk), &messy, b, &p);
                    check(&mut sc, "partially-evicted, second run", &res, &mut stats);
                    if b < last {
                        let ref_last = match reference.get(&last) { Some(x) => x.clone(), None => sc.kcase("clean-nocache", &clean, last, &Provider::None) };
                        let res = sc.kcase(&format!("evicted-then-last-{}", pk), &messy, last, &p);
                        *stats.entry("S.cache-history").or_insert(0) += 1;
                        if res != ref_last {
                            sc.sfail("cache-dependent", &format!("beacon {} provider {} history partially-evicted at {}, then the last beacon: {} but without cache {}", last, pk, b, res, ref_last), &case_txt);
                        }
                    }
                }
                // K only: a cache holding entries under other names (unpadded numbers, extra files) and a
                // stale entry for one covered file — the model says which ones are used
                {
                    let mut foreign: Vec<(String, String)> = vec![];
                    for k in 0..3 {
                        let fname = format!("{}.chunk", first + k);
                        if !db.trios.iter().any(|t| t.0 == fname) {
                            foreign.push((fname, sha_hex(&r.bytes(8))));
                        }
                    }
                    for (pth, c) in &db.extras {
                        let fname = Path::new(pth).file_name().unwrap().to_string_lossy().to_string();
                        if c.is_some() && r.bool() && !db.trios.iter().any(|t| t.0 == fname) {
                            foreign.push((Path::new(pth).file_name().unwrap().to_string_lossy().to_string(), sha_hex(&r.bytes(8))));
                        }
                    }
                    let stale = r.chance(1, 2);
                    if stale {
                        let victim = &db.trios[r.below(db.trios.len() as u64) as usize];
                        foreign.push((victim.0.clone(), sha_hex(&r.bytes(8))));
                    }
                    let p = match mk("foreign") {
                        Provider::Json(path) => {
                            let jp = JsonImmutableFileDigestCacheProvider::new(&path);
                            ctx.rt.block_on(jp.store(foreign)).unwrap();
                            Provider::Json(path)
                        }
                        _ => Provider::Memory(Arc::new(MemoryImmutableFileDigestCacheProvider::from(foreign.into_iter().collect::<HashMap<_, _>>()))),
                    };
                    let res = sc.kcase(&format!("foreign-{}", pk), &messy, b, &p);
                    if !stale {
                        check(&mut sc, "foreign-names", &res, &mut stats);
                    }
                }
            }
        }

        // S: perturbations without cache — every covered file (a sample for big databases)
        if let Some(&b) = valid.last() {
            let b = if big { b } else { *r.pick(&valid) };
            let base = reference[&b].clone();
            let mut covered: Vec<&(String, Vec<u8>)> = db.trios.iter().filter(|t| number_of(&t.0) <= b).collect();
            if covered.len() > 9 {
                r.shuffle(&mut covered);
                covered.truncate(9);
            }
            for (name, content) in covered {
                let path = messy.join("immutable").join(name);
                let kinds: Vec<&str> = if big { vec![*r.pick(&["flip", "truncate", "delete"])] } else { vec!["flip", "truncate", "delete"] };
                for kind in kinds {
                    let mut c2 = content.clone();
                    match kind {
                        "flip" => {
                            if c2.is_empty() {
                                c2.push(0);
                            } else {
                                let i = r.below(c2.len() as u64) as usize;
                                c2[i] ^= 1 << r.below(8);
                            }
                            fs::write(&path, &c2).unwrap();
                        }
                        "truncate" => {
                            if c2.is_empty() {
                                c2.push(7);
                            } else {
                                c2.pop();
                            }
                            fs::write(&path, &c2).unwrap();
                        }
                        _ => fs::remove_file(&path).unwrap(),
                    }
                    let res = sc.kcase(&format!("perturbed-{}", kind), &messy, b, &Provider::None);
                    *stats.entry("S.sensitivity").or_insert(0) += 1;
                    let changed = res != base && (res.starts_with("ok") || res.starts_with("err kind=notenough"));
                    if !changed {
                        sc.sfail("insensitive", &format!("beacon {}: {} of covered file {} leaves the outcome {} (was {})", b, kind, name, res, base), &case_txt);
                    }
                    fs::write(&path, content).unwrap();
                }
            }
        }

        // K only: an immutable-looking file without a parsable number aborts the listing; a `+` is accepted
        // by u64::from_str; two directories named `immutable` (walk order decides)
        if si % 4 == 0 {
            let odd = dir.join("odd");
            build(&odd, &db, None, false, None);
            let which = si / 4 % 4;
            match which {
                0 => fs::write(odd.join("immutable").join("tmp.chunk"), b"x").unwrap(),
                1 => fs::write(odd.join("immutable").join(format!("+{}.primary", last + 1)), b"plus").unwrap(),
                2 => fs::write(odd.join("immutable").join(format!("{}.chunk", first)), b"unpadded duplicate number").unwrap(),
                _ => {
                    fs::create_dir_all(odd.join("aaa").join("immutable")).unwrap();
                    fs::write(odd.join("aaa").join("immutable").join(format!("{:05}.chunk", first)), b"other").unwrap();
                }
            }
            let tag = ["odd-unparsable", "odd-plus", "odd-unpadded", "odd-two-immutable-dirs"][which];
            for &b in &[first, last, last + 1] {
                sc.kcase(tag, &odd, b, &Provider::None);
            }
        }
        let _ = fs::remove_dir_all(&dir);
    }
    for (k, v) in &stats {
        sink.note(k, &v.to_string());
    }
    sink.note("level", "roots compared bit-exactly (Blake2s-256 and the MMR builder run in Lean); SHA-256 of the contents computed by the harness with the sha2 crate");
    let _ = fs::remove_dir_all(&scratch);
    sink.finish();
}
