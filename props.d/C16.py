CONFIG = {
    "lean_modules": ["MithrilModel.Properties.C16"],
    "theorems": [
        "C16.C16_bound", "C16.C16_bound_keys", "C16.C16_table_inv", "C16.C16_no_two_labels", "C16.C16_no_disappear",
        "C16.C16_no_disappear_keys", "C16.C16_other_rows_kept", "C16.C16_metadata_sound", "C16.C16_all_entrances",
        "C16.C16_relabel_counterexample", "C16.C16_relabel_counterexample_keys",
        "Agg.sigClass_registered_iff", "Agg.run_tbl", "Agg.tbl_init", "Agg.storeSig_other", "Agg.relabel_witness",
        "Attribution.fixed_bound", "Attribution.store_other", "Attribution.relabel_counterexample",
    ],
    "level": "proof",
    "level_text": "After the fix commit 0f16e0135 (verify_single_signature rejects a signature whose signer index does not carry the key "
                  "registered by its party id): the decision of register_single_signature is a Lean theorem in '<->' form (open message "
                  "present, not certified, not expired, message matches, verifies under the signer set in force, KEY AT THE SLOT = KEY "
                  "THE LABEL REGISTERED, label registered for the epoch); over every run of the aggregator model (direct and buffered "
                  "submissions in any order, with crashes) every stored row sits under the party whose key produced it and there is one "
                  "row per party, hence no signature value under two labels; a store operation changes only the row of its own label "
                  "and open message; the certificate's signer list names only parties with a row produced by their own key; the "
                  "hand-over step is the same function as the direct entrance. The pre-fix behaviour is a proved counter-example and "
                  "the harness replays its witness on the real code every run. PARTIAL in the sense of C14: the model is the "
                  "certification core, tied to the code by K.",
    "level_note": "K compares the result class of every submission, the single_signature table (entity, party, identity of the stored "
                  "value) and the sorted signer list of every certificate (plus all other tables as in C14) after every event. S is "
                  "evaluated on the real table with mithril-stm directly: each row verifies with the key registered by the party it is "
                  "stored under; no value under two parties; a submission leaves other parties' rows untouched; rows whose own key "
                  "verifies with >= k distinct indices => the round is certified (nothing vanished), < k => not certified. Entrances: "
                  "the certifier service the HTTP route and the queue consumer both call (BufferedCertifierService over "
                  "MithrilCertifierService), directly and through the buffer; the warp route and the DMQ consumer themselves are not "
                  "driven (the test extensions do not expose them), nor is SingleSignatureAuthenticator (authentication status is set "
                  "by the harness).",
    "harness": [("harness-agg", "c16")],
    "anchors": ["mithril-common/src/protocol/multi_signer.rs", "mithril-common/src/protocol/signer_builder.rs",
                "mithril-common/src/entities/single_signature.rs", "mithril-aggregator/src/multi_signer.rs",
                "mithril-aggregator/src/services/certifier/certifier_service.rs",
                "mithril-aggregator/src/services/certifier/buffered_certifier.rs",
                "mithril-aggregator/src/tools/single_signature_authenticator.rs",
                "mithril-aggregator/src/database/repository/single_signature_repository.rs",
                "mithril-aggregator/src/database/query/single_signature/update_single_signature.rs",
                "mithril-aggregator/src/http_server/routes/signatures_routes.rs",
                "mithril-aggregator/src/services/signature_processor.rs"],
    "rule": "case 0 = the witness world (B's signature under B, then a copy under A; a valid signature under a party id nobody "
            "registered). cases 1.. = one world per (number of fixture signers 2..6, k in {5,40}); in each world, rounds on fresh "
            "CardanoDatabase beacons: a submission set of 2-4 (label, signature) pairs out of own/own, copy of another registered "
            "party's signature under the own label (both directions), under an unregistered party id, with an altered won_indexes "
            "list, with a sub-list of the lottery indices inside the signature; every order of the set (quick: at most 12 orders), "
            "each order once directly on the open message and once through the buffer (authenticated, before the open message "
            "exists, then hand-over), followed by the tick that certifies. quick: 13 sets spread over 5 worlds, about 200 rounds. "
            "The witness world is trivial for the count; distinct = distinct request lines",
    "trivial_tags": ["witness"],
    "trusted_base": ["rustc/cargo; harness-agg (lib.rs, walk.rs, bin/c16.rs); mithril-stm single-signature verification as oracle"],
    "assumptions": ["distinct parties register distinct keys (two party ids with one key would both be 'the own key')",
                    "a signature value is produced by one key (hypothesis of C16_no_two_labels)"],
    "goals_not_proved": ["aggregation-level 'no index of another party vanishes' rests on C02's partial theorem (no value stored twice => "
                         "selection complete); here it is evaluated by S on every round (quorum of own-valid rows <=> certified)",
                         "HTTP route / DMQ consumer / authenticator code paths above the certifier service are not modelled"],
    "timeout": {"quick": 900, "thorough": 3600},
}
