EXTEND = {
    "theorems": [
        # headline wrappers (Properties/C13.lean)
        "C13.C13_multi_import_refines", "C13.C13_multi_import_convergence", "C13.C13_multi_import_transactions",
        "C13.C13_multi_import_single_cut", "C13.C13_multi_import_vs_fresh", "C13.C13_multi_import_transactions_convergence",
        "C13.C13_multi_import_target_bound", "C13.C13_multi_import_targets_not_monotone",
        "C13.C13_uncovered_import_keeps_cache", "C13.C13_rollback_regains_roots_invariant",
        "C13.C13_roots_invariant_lost_for_good", "C13.C13_settled_prefix_survives",
        "C13.C13_no_panic_on_good_scripts", "C13.C13_driver_history_is_multi_import",
        # the lemmas they rest on (ImportMany.lean)
        "ImportMany.many_refines", "ImportMany.many_refines_blocks", "ImportMany.many_refines_fresh", "ImportMany.many_roots",
        "ImportMany.many_roots_upto", "ImportMany.ok_take", "ImportMany.covered_take",
        "ImportMany.many_settled", "ImportMany.many_settled_prefix", "ImportMany.many_convergence", "ImportMany.many_vs_fresh",
        "ImportMany.many_transactions", "ImportMany.many_transactions_convergence", "ImportMany.many_refines_single_cut",
        "ImportMany.naive_single_cut", "ImportMany.applyAll_split", "ImportMany.stepB_spec", "ImportMany.step_J", "ImportMany.step_Q",
        "ImportMany.not_early_below", "ImportMany.highest_le", "ImportMany.runF_run", "ImportMany.importF_spec",
        "ImportMany.uncovered_keeps_cache", "ImportMany.import_settled", "ImportMany.import_regains", "ImportMany.winv_backward",
        "ImportMany.pinv_forwards", "ImportMany.pinv_backward", "ImportMany.pinv_rangesRun", "ImportMany.rinv_iff_pinv",
        "ImportMany.lost_for_good", "ImportMany.lost_for_good_facts", "ImportMany.regained_example", "ImportMany.targets_not_monotone",
        "ImportMany.okB_iff", "ImportMany.okTB_iff", "ImportMany.coveredB_iff", "ImportMany.coversAllB_iff", "ImportMany.relostB_iff",
        "ImportMany.runX_no_panic", "ImportMany.panics_false", "ImportMany.importStep_cases", "ImportMany.importStep_is_step",
        "ImportMany.drive_is_runMany",
    ],
    "lean_modules": ["MithrilModel.ImportMany"],
    "level_text": "MULTI-IMPORT (supersedes the per-import chaining recorded above): the refinement is now proved by induction over an arbitrary LIST "
                  "of imports, each with its own target, resume point, batch size, fuel and reply script (ImportMany.step = early exit of "
                  "BlocksTransactionsImporter::run, or the scan + BlockRangeImporter::run; Importer.importStep, which the driver runs, is an instance, "
                  "and a whole driver history of imports and restarts is a runMany: C13_driver_history_is_multi_import, which also shows that good "
                  "scripts never hit the foreign-key panic). From any chain (the empty store is one), if every import exits early or reads a script that "
                  "is Good relative to the store it starts from (decidable: okB), the stored blocks are the naive application of the consumed reply "
                  "prefixes cut at the respective targets and the store is a chain (C13_multi_import_refines; one cut at the last target when every "
                  "block consumed above a target is rolled back by the next scan, e.g. by the echo of the resume point: C13_multi_import_single_cut). "
                  "What the next import needs from the previous one is identified and proved re-established: Sorted (always), its bound hU (derived "
                  "from 'no early exit', NOT from monotone targets - scanned targets need not be monotone: C13_multi_import_targets_not_monotone), and "
                  "RInv only for the roots: RInv holds after import j as soon as every scan up to j ended covered (all covered: after EVERY import) and the roots "
                  "are then cached R blocks ((T+1)/15) for the last scanned target T. After an UNCOVERED scan (known finding C13-partial-range-root) the roots are still an exact cache of the stored "
                  "blocks and only Below is lost (C13_uncovered_import_keeps_cache); it is regained by a next import whose first store call is an "
                  "effective roll-back (C13_rollback_regains_roots_invariant) and otherwise lost for good - later covered imports never recompute the "
                  "partial range (C13_roots_invariant_lost_for_good, 3 imports, decide); what always survives is the settled prefix: every prefix of "
                  "k ranges that the store covers after every import keeps roots = cache, covered or not (C13_settled_prefix_survives, clause 4 of "
                  "C13_multi_import_refines). Two nodes with different numbers of imports, targets, batch sizes and scripts whose traces fold to the same "
                  "chain end with the same blocks, the same roots (covered, same last target; or on the common settled prefix) and the same cardano_tx "
                  "table (C13_multi_import_convergence, C13_multi_import_transactions(_convergence)); the fresh single import is an instance "
                  "(C13_multi_import_vs_fresh).",
    "goals_not_proved": [
        "the multi-import induction IS now proved (C13_multi_import_refines / _convergence / _transactions; supersedes the entry 'a multi-import "
        "induction is given as per-import invariants'). Not covered: prune steps between imports (ImportMany.drive has imports and restarts only; "
        "known finding C13-rollback-into-pruned-range); Good is relative to the store each import starts from, so the naive fold is cut at every "
        "scanned target (one cut at the end only under the decidable side condition Relost); after an uncovered scan the full roots invariant is "
        "FALSE in general for all later imports (C13_roots_invariant_lost_for_good = known finding C13-partial-range-root) - only the settled "
        "prefix and the regain-by-roll-back theorem hold",
    ],
}
