CONFIG = {
    "lean_modules": ["MithrilModel.Properties.C10"],
    "theorems": [
        "C10.C10_sound", "C10.C10_accepted_nonempty", "C10.C10_report_complete", "C10.C10_report_exact",
        "C10.C10_verdicts", "C10.C10_range_bounds", "C10.C10_digests_binding", "C10.C10_root_binding",
        "C10.C10_swap_counterexample_prefix", "C10.C10_swap_rejected", "C10.C10_copy_rejected",
        "C10.C10_foreign_name_rejected", "C10.C10_symlink_rejected",
        "C10.C10_names_unbound_counterexample", "C10.C10_names_unbound_accepts", "C10.C10_names_bound_partial",
        "Db.verify_sound", "Db.verify_report_complete", "Db.verify_report_exact", "Db.listAll_mem",
        "Db.root_binding", "MmrBuild.root_injective",
        "DbVerify.swap_counterexample", "DbVerify.fixed_sound",
    ],
    "level_text": "Soundness (accepted => every name of the range present unless gaps are allowed, nothing but regular files under "
                  "the names of the range, every immutable file of the range carries the digest certified for its own name) and "
                  "completeness/exactness of the report are Lean theorems about a transliteration of verify_cardano_database as it is "
                  "after two fix commits, for arbitrary name and digest types and every directory content; acceptance of a digest "
                  "list implies it carries the signed leaves in the signed order (root injectivity of the MMR builder, any size). "
                  "The transliteration is compared with the real CardanoDatabaseClient (verify_cardano_database and "
                  "download_and_verify_digests fed from file:// locations) on generated databases, directory tamperings and "
                  "digest-list tamperings, and the specification is evaluated on the real verdicts by reading the real directory. "
                  "That the signed root binds digests to NAMES is false (proved counter-example, known finding).",
    "level_note": "Trusted: Lean kernel (+ propext, Classical.choice, Quot.sound), harness and printer, rustc. The model is parametric in "
                  "the hash: SHA-256 is not implemented in Lean for this property, the harness sends the digests it computed with the "
                  "sha2 crate (interned as tokens). The MMR proof computed by the real tree for leaves it contains is taken to verify "
                  "(compared on every accepted case). The root comparison is modelled as equality of leaf lists, justified by "
                  "MmrBuild.root_injective (value level) (the byte-level variant MmrSized.root_injective_bytes belongs to C12); the Blake2s merge itself is not modelled here.",
    "harness": [("harness-client", "c10")],
    "anchors": ["mithril-client/src/cardano_database_client/proving.rs", "mithril-client/src/cardano_database_client/api.rs",
                "mithril-client/src/cardano_database_client/immutable_file_range.rs", "mithril-client/src/message.rs",
                "internal/cardano-node/mithril-cardano-node-internal-database/src/digesters/cardano_immutable_digester.rs",
                "internal/cardano-node/mithril-cardano-node-internal-database/src/entities/immutable_file.rs",
                "mithril-client-cli/src/commands/cardano_db/verify.rs"],
    "rule": "case = (database of 1-30 trios with file sizes 0-4096 and occasional equal contents, beacon, optional incomplete trio, "
            "range Full/From/UpTo/Range incl. the four invalid shapes, allow_missing, 0-3 directory tamperings aimed at the range ends: "
            "flip, truncate, extend, empty, delete, swap, copy-over, extra files with other padding/extension/number, non numeric "
            "names, directory or symbolic link under a certified name, no immutable directory) and pipeline cases (served digest list "
            "with 0-2 of: shuffle, rename, drop, add, digest change/swap, duplicate entry, shifted names, inconsistent certificate, "
            "other root; then the directory, honest or arranged to match the served list); honest untampered cases are trivial; "
            "distinct = distinct request lines",
    "trivial_tags": ["honest", "pipeline.honest"],
    "trusted_base": ["rustc/cargo; harness-client/c10 and its canonical printer; sha2 crate for the digests sent to the model"],
    "assumptions": ["immutable file numbers stay below 100000 (name order = (number, path) order; beyond, honest databases stop verifying, "
                    "which does not affect soundness)",
                    "exactly one directory named `immutable` below the database directory",
                    "MKTree::compute_proof followed by MKProof::verify succeeds for leaves of the tree (checked on every accepted case)"],
    "goals_not_proved": ["C10_names_bound_goal is FALSE on the current tree (C10_names_unbound_counterexample): known finding C10-digest-names-unbound",
                         "C10_name_order_note (string order of zero padded names = numeric order below 100000) is not stated as a theorem; "
                         "the harness checks that the client's tree equals the aggregator's on every case",
                         "byte-level root injectivity across different list lengths (see C12) is not used here"],
    "timeout": {"quick": 900, "thorough": 3600},
}
