EXTEND = {
    "lean_modules": ["MithrilModel.Vacuity.C05"],
    "theorems": [],
}
