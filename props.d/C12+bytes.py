EXTEND = {
    "theorems": [
        "C12.C12_root_injective_bytes", "C12.C12_root_injective_blake2s", "C12.C12_hash_inputs_are_the_log",
        "C12.C12_tree_injective_bytes", "C12.C12_raw_leaves_note",
        "C12.C12_sensitive_any_shape", "C12.C12_change_detected_any_shape",
        "C12.C12_leaf_order_is_rust_order", "C12.C12_listing_sorted_by_number", "C12.C12_listing_boundary",
        # lemmas of the proof files the property theorems restate
        "MmrBytes.mmr_good", "MmrBytes.node_cases", "MmrBytes.tree_injective_bytes", "MmrBytes.good_tree_injective_bytes",
        "MmrBytes.root_injective_bytes_any", "MmrBytes.rootLog_eq", "MmrBytes.straddle_hex_half",
        "MmrBytes.blake2s256L_length", "MmrBytes.root_injective_blake2s",
        "MmrBytes.variable_length_counterexample", "MmrBytes.node_length_leaf_counterexample",
        "NameOrder.digester_le_iff_rust", "NameOrder.digester_number_first", "NameOrder.listAll_sorted_by_number",
        "NameOrder.listAll_boundary", "NameOrder.digester_boundary", "NameOrder.lexLe_iff_cmpBytes",
    ],
    "lean_modules": ["MithrilModel.MmrBytes", "MithrilModel.NameOrder"],
    "goals_not_proved": [
        "SUPERSEDED: `byte-level root injectivity across different numbers of leaves (needs the extra disjunct …)` above — it IS now proved "
        "(C12_root_injective_bytes, C12_sensitive_any_shape) and WITHOUT the extra disjunct: the MMR builder never makes a (node, leaf) "
        "pair of children (MmrBytes.mmr_good), which is the only place where `a Blake2s output is half a hex digest` could arise; the "
        "disjunct is needed, and returned as an explicit witness, for arbitrary tree shapes (C12_tree_injective_bytes)",
        "collision resistance of Blake2s-256 itself is not (and cannot be) a theorem: the theorems return the two colliding byte strings "
        "(members of MmrBytes.hashInputs, the log of the instrumented builder) instead of assuming there are none",
    ],
    "level_text": "Byte-level sensitivity now holds for ANY two numbers of covered files (MithrilModel/MmrBytes.lean): leaves are modelled as the "
                  "Rust uses them - the raw 64 bytes of the hex digest, not hashed (MKTreeNode::from(&String), merkle_tree.rs:55-77) - nodes as "
                  "H(left ++ right) with 32 output bytes; two leaf lists of any two lengths with the same MMR root are equal, or the proof "
                  "returns two DIFFERENT byte strings that were hashed during the two root computations and have the same hash (also "
                  "instantiated at the Lean Blake2s-256 of the driver, whose 32-byte output length is proved); without the length "
                  "hypotheses the statement is false for every hash (C12_raw_leaves_note, root cause of C09-concat-split / C09-node-as-leaf, "
                  "not reachable for 64-byte digests). The order of the leaves (Digester.le) is proved to be ImmutableFile::cmp != Greater "
                  "for ALL file numbers - the number is compared first, the string order of the names (which flips at 100000) never "
                  "matters for the digest (C12_leaf_order_is_rust_order, C12_listing_boundary).",
}
