EXTEND = {
    "lean_modules": ["MithrilModel.Vacuity.C18"],
    "theorems": ["Vacuity.C18.sR_reach"],
}
