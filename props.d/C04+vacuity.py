EXTEND = {
    "lean_modules": ["MithrilModel.Vacuity.C04"],
    "theorems": [
        # FINDING: for any hash with fixed-length output the disjunct `Collision H` holds outright (pigeonhole)
        "Vacuity.C04.collision_of_fixed_length", "Vacuity.C04.no_injective_fixed_length",
        "Vacuity.C04.C04_collision_disjunct_trivial",
        # repaired statements: the colliding pair is named
        "Vacuity.C04.collision_of_at", "Vacuity.C04.hexH_eq_at", "Vacuity.C04.C04_cert_single_segment_at",
        "Vacuity.C04.C04_field_previous_hash_at", "Vacuity.C04.C04_field_epoch_at",
        "Vacuity.C04.C04_field_signed_message_at", "Vacuity.C04.C04_field_avk_at", "Vacuity.C04.C04_field_signature_at",
        "Vacuity.C04.C04_field_metadata_at", "Vacuity.C04.C04_params_at", "Vacuity.C04.C04_party_at",
        "Vacuity.C04.C04_pm_single_value_at", "Vacuity.C04.C04_pm_digest_injective_at",
        # a hash for which `not Collision` is proved; observation on two-field changes
        "Vacuity.C04.id_no_collision", "Vacuity.C04.two_field_shift_same_hash",
    ],
}
