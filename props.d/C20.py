"""C20 — A signer signs each beacon once with its epoch key, acceptably to aggregators."""

CONFIG = {
    "lean_modules": ["MithrilModel.Properties.C20"],
    "theorems": [
        "C20.C20_offsets", "C20.C20_offsets_run", "C20.C20_offsets_both_sides", "C20.C20_never_before_registered",
        "C20.C20_once_partial", "C20.C20_once_core", "C20.C20_republish_counterexample", "C20.C20_republish_same",
        "C20.C20_restart", "C20.C20_restart_no_blind_signature", "C20.C20_missed_registration_note",
        "Signer.run_once", "Signer.run_reg", "Signer.run_reg_agg", "Signer.publish_only_when_ready",
        "SignerOnce.once", "SignerOnce.offsets_agree", "SignerOnce.republish_counterexample",
    ],
    "level_text": "PARTIAL for 'every run of the signer'. Proved in Lean, for every event list (histories and fault sequences) of a "
                  "hand-written model of the signing core and epoch bookkeeping (four-state machine, runner steps, certifier "
                  "publish-then-mark, epoch service, the three sqlite tables with retention pruning, fake aggregator with its own "
                  "epoch view, fault schedule, restarts): each (entity, beacon) is published at most once as long as no "
                  "mark_beacon_as_signed failure follows a successful publication; every publication comes out of ReadyToSign with a "
                  "stored initializer whose key is in the current signer list; the key was written by a registration sent two epochs "
                  "earlier under recording epoch = retrieval epoch of the signing epoch, the signing epoch is the chain epoch, and the "
                  "key is in the aggregator's own (closed) signer list for that epoch; restart keeps tables and invariants. The model "
                  "is compared event by event with the REAL signer (state machine, runner, services, sqlite files, HTTP client, "
                  "production publisher wiring) driven through /repo's fake aggregator behind a fault-injecting proxy, and the property "
                  "is evaluated directly on the real behaviour: once-ness, verification of every published signature by a real "
                  "SignerBuilder/MultiSigner built from the aggregator's registrations under the protocol's offsets with the stake "
                  "distribution in force, equality of the signed message with the one such an aggregator computes, and 'no publication "
                  "without an eligible registration'. The publish-then-mark defect is a proved counter-example and a known finding.",
    "level_note": "Trusted: Lean kernel (propext, Classical.choice, Quot.sound), harness-signer/c20 and its proxy/decorator, rustc. "
                  "Not modelled: CardanoTransactions/CardanoBlocksTransactions entities (importer, preloader, entity locks), era "
                  "switching, KES period evolution, DMQ publisher, metrics, HTTP details of the aggregator client; BLS/KES results are "
                  "inputs (key = a number, 'all lotteries lost' = an input bit taken from the real run). Acceptance by a real "
                  "aggregator *service* (open messages, buffering) is not composed in Lean (C20_accepted not stated); acceptance is "
                  "checked on the real cryptography by S only. Lost HTTP responses (aggregator stored the signature, signer saw an "
                  "error) are outside the fault model.",
    "harness": [("harness-signer", "c20")],
    "anchors": ["mithril-signer/src/runtime/state_machine.rs", "mithril-signer/src/runtime/runner.rs",
                "mithril-signer/src/services/certifier.rs", "mithril-signer/src/services/single_signer.rs",
                "mithril-signer/src/services/epoch_service.rs",
                "mithril-signer/src/services/signable_builder/signable_seed_builder.rs",
                "mithril-signer/src/services/signature_publisher/retrier.rs",
                "mithril-signer/src/services/signature_publisher/delayer.rs",
                "mithril-signer/src/services/upkeep_service.rs",
                "mithril-signer/src/database/repository/signed_beacon_repository.rs",
                "mithril-signer/src/database/repository/protocol_initializer_repository.rs",
                "mithril-signer/src/database/repository/stake_pool_store.rs",
                "mithril-common/src/entities/epoch.rs", "mithril-common/src/entities/signed_entity_config.rs",
                "mithril-common/src/protocol/signer_builder.rs", "mithril-common/src/protocol/multi_signer.rs",
                "mithril-signer/tests/test_extensions/fake_aggregator_http.rs"],
    "rule": "case = one run of the real signer: 30-200 events over 3-6 epochs drawn from ticks, epoch change of the signer's node and "
            "of the aggregator's node (either first, 0-7 events apart: stale / early epoch settings), immutable progress, other "
            "parties registering a subset, aggregator down, registration round not open (550), failing (500) or silently dropped "
            "registration, n failing signature posts against a retry policy of 1-3 attempts, failing mark_beacon_as_signed (1 run in "
            "6), restart (all services and sqlite connections rebuilt on the same files); per-run parameters: start epoch, enabled "
            "entity types per epoch marker, retention limit none/1/2/3, protocol parameters (one run in four with phi_f=0.3 so that "
            "'all lotteries lost' happens). Observation after EVERY event: state label, cycle result, registration requests "
            "(recording epoch, key number, delivered), signatures received by the aggregator, initializer table (epoch, key number), "
            "stake table (epoch, version), number of signed beacons, and at the end the signed-beacon table. Every run is "
            "non-trivial; distinct = distinct request lines.",
    "trivial_tags": [],
    "trusted_base": ["rustc/cargo; harness-signer/c20 (rig modelled on tests/test_extensions/state_machine_tester.rs with the "
                     "production publisher and pruning wiring, reverse proxy in front of /repo's fake_aggregator_http.rs, "
                     "SignedBeaconStore decorator)"],
    "assumptions": ["a publication counts when the aggregator received it and answered 201 (lost responses are outside the fault model)",
                    "the chain's stake distribution changes only at epoch boundaries and always lists every party",
                    "signing is deterministic given key, message and registration (C20_republish_same)",
                    "key generation uses OsRng inside the signer: which lotteries are won differs from run to run; the bit 'all "
                    "lotteries lost' is read from the real run and given to the model"],
    "goals_not_proved": [
        "C20_once_goal is FALSE on the current tree (C20_republish_counterexample): known finding C20-republish-after-mark-failure",
        "C20_accepted (composition with the aggregator model Agg.registerSignature) not stated; acceptance is checked by S on real "
        "signatures with a real MultiSigner",
        "C20_marked_implies_published (a beacon is marked only after its signature reached the aggregator or no lottery was won; "
        "breaks under mark-before-publish) is evaluated by S on the real signer only, not stated in Lean",
        "stake distribution in force (stakes[epoch-1] = distribution of epoch-2) is checked by K (stake table) and S (verification "
        "under the reference distribution) only",
    ],
    "timeout": {"quick": 900, "thorough": 5400},
    "search_timeout": 1800,
}
