# C20, layer "vacuity" (lean/MithrilModel/Vacuity/C20.lean): non-vacuity instances for every C20 theorem that has
# hypotheses (signer side: C20.witnessEnv / C20.signingEvents, six publications of all three entity kinds; aggregator side:
# reachable states `A n` of a joint run of Agg in which the signer model's signatures are registered and certified, SInv
# derived from Agg.run_sinv), plus the repaired / sharpened statements found by the audit. Lean only.
EXTEND = {
    "lean_modules": ["MithrilModel.Vacuity.C20"],
    "theorems": [
        "Vacuity.C20.signer_facts", "Vacuity.C20.noMarkFault_iff", "Vacuity.C20.othersOnly_iff", "Vacuity.C20.offsets_iff",
        "Vacuity.C20.offsets_run_no_truncation", "Vacuity.C20.one_key_needs_othersOnly",
        "Vacuity.C20.pubs_signEpoch", "Vacuity.C20.accepted_epochs_agree",
        "Vacuity.C20.wfB_sound", "Vacuity.C20.runWfC_take", "Vacuity.C20.aggEvs_wf", "Vacuity.C20.A_sinv",
        "Vacuity.C20.hyps1", "Vacuity.C20.hyps2", "Vacuity.C20.hyps3", "Vacuity.C20.hyps4", "Vacuity.C20.hyps5",
        "Vacuity.C20.hyps6", "Vacuity.C20.hyps_all",
        "Vacuity.C20.accepted_inst", "Vacuity.C20.accepted_msg_inst", "Vacuity.C20.accepted_signing_inst",
        "Vacuity.C20.joint_run", "Vacuity.C20.registered_only_if_pos", "Vacuity.C20.offsets_both_models_decisions",
    ],
}
