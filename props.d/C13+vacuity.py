EXTEND = {
    "lean_modules": ["MithrilModel.Vacuity.C13"],
    "theorems": ["Vacuity.C13.Rj_local", "Vacuity.C13.rinv1", "Vacuity.C13.c2_good"],
}
