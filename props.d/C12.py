CONFIG = {
    "lean_modules": ["MithrilModel.Properties.C12"],
    "theorems": [
        "C12.C12_listing_order", "C12.C12_other_directories", "C12.C12_two_immutable_dirs_note",
        "C12.C12_irrelevant_files", "C12.C12_cache_sound", "C12.C12_cold_cache_ok",
        "C12.C12_root_injective", "C12.C12_sensitive_same_shape", "C12.C12_content_change_detected",
        "C12.C12_missing_last", "C12.C12_unparsable_name_note",
        # lemmas of the model files the property theorems restate
        "Digester.listAll_perm", "Digester.toProcess_irrelevant", "Digester.updateCache_ok",
        "Digester.rootIn_cache", "Digester.toProcess_missing_last",
        "MmrBuild.root_injective", "MmrBuild.root_injective_bytes",
    ],
    "level_text": "Independence of the listing order, of files with other extensions / directories / files numbered above the beacon, "
                  "and of every sound cache state (cold, warm, from a longer or shorter run, partially evicted) are Lean theorems for all "
                  "databases, beacons and hashes about a transliteration of list_all_in_dir / list_immutable_files_to_process / "
                  "process_immutables / update_cache and of the ckb MMR builder; sensitivity is proved as root injectivity in the ordered "
                  "digest list (value level for any two lengths; byte level `same list or Blake2s collision` for equally many 64-byte "
                  "leaves) and as the NotEnoughImmutable clause for a missing last file. The model is compared bit-exactly (root, error "
                  "class, cache content after the run) with the real CardanoImmutableDigester::compute_merkle_tree and "
                  "CardanoDatabaseSignableBuilder::compute_protocol_message on generated databases built on disk, and every clause of "
                  "the property is evaluated directly on the real code's roots.",
    "level_note": "Roots are compared bit-exactly: Blake2s-256 and the MMR builder run in Lean (validated against the blake2 crate and "
                  "MKTree::compute_root for 1..130 leaves in the same run); SHA-256 of the file contents is computed by the harness with "
                  "the sha2 crate and handed to the model (the model is parametric in the file hash). The directory walk order handed to "
                  "the model is WalkDir's own. Trusted: Lean kernel, harness, the file system of TMPDIR (ext4: hash order listing). "
                  "Byte-level injectivity across DIFFERENT numbers of leaves (an inner covered file missing) is proved at value level "
                  "only (injective merge, no leaf is a merge value) and checked by S on every single-file deletion.",
    "harness": [("harness-chain", "c12")],
    "anchors": ["internal/cardano-node/mithril-cardano-node-internal-database/src/digesters/cardano_immutable_digester.rs",
                "internal/cardano-node/mithril-cardano-node-internal-database/src/digesters/immutable_digester.rs",
                "internal/cardano-node/mithril-cardano-node-internal-database/src/entities/immutable_file.rs",
                "internal/cardano-node/mithril-cardano-node-internal-database/src/digesters/cache/json_provider.rs",
                "internal/cardano-node/mithril-cardano-node-internal-database/src/digesters/cache/memory_provider.rs",
                "internal/cardano-node/mithril-cardano-node-internal-database/src/signable_builder/cardano_database.rs",
                "internal/mithril-merkle-tree/src/merkle_tree.rs"],
    "rule": "case = (directory listing with content digests, beacon, cache provider and its content before the run); databases of 1-8 "
            "(every ninth: 15-40) trios numbered from 0/1/7/98/99998, sizes 0..8 KiB incl. empty and identical contents, built in a "
            "sorted and in a shuffled creation order with a random third of 22 extra entries (.tmp, lock, other/upper-case/no extension, "
            "hidden files, sub-directories incl. one named immutable and one with an immutable extension, ledger/ and volatile/ with "
            "immutable-looking files); all beacons from first-1 to last+1; per beacon sample and provider (JSON file, in-memory): cold, "
            "warm, warm from a longer run, from a shorter run, partially evicted, foreign names + stale entry; every covered file (sample "
            "of 9 for big databases) flipped / truncated / deleted without cache; odd names (tmp.chunk, +N.primary, unpadded duplicate "
            "number, two directories named immutable); hash and MMR vectors are trivial; distinct = distinct request lines",
    "trivial_tags": ["blake2s", "mmr"],
    "trusted_base": ["rustc/cargo; harness harness-chain/c12 (builds the databases under TMPDIR, lists them with walkdir, hashes contents with sha2)",
                     "Lean implementation of Blake2s-256 (MithrilModel/Blake2.lean) — compared with the blake2 crate on 138 inputs per run"],
    "assumptions": ["exactly one directory named `immutable` below the database root (C12_two_immutable_dirs_note: with two, the walk order decides)",
                    "file names are distinct within a directory; names are compared bytewise (ASCII names generated)",
                    "no file changes between listing and hashing; symbolic links are not generated (WalkDir does not follow them: they are skipped)"],
    "goals_not_proved": ["byte-level root injectivity across different numbers of leaves (needs the extra disjunct `a Blake2s output parses as half a hex digest`); "
                         "value-level C12_root_injective is proved, S checks every single-file deletion",
                         "an immutable-looking file with an unparsable stem (tmp.chunk) aborts the computation with a listing error: modelled and compared (tag odd-unparsable), "
                         "recorded as C12_unparsable_name_note, not counted as an 'other file'"],
    "timeout": {"quick": 900, "thorough": 3600},
}
