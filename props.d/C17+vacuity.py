EXTEND = {
    "lean_modules": ["MithrilModel.Vacuity.C17"],
    "theorems": ["Vacuity.C17.margin_blocks_additive", "Vacuity.C17.margin_txs_additive", "Vacuity.C17.margin_additive_false_below_sec"],
}
