EXTEND = {
    "theorems": [
        "C10.C10_name_order", "C10.C10_name_order_chars", "C10.C10_name_format", "C10.C10_name_order_boundary",
        "C10.C10_client_order_below_boundary", "C10.C10_client_order_beyond_boundary", "C10.C10_listing_number_first",
        # lemmas of the proof file the property theorems restate
        "NameOrder.pad_eq_fixed", "NameOrder.fixed_lt_iff", "NameOrder.pad5_lt_iff", "NameOrder.name_lt_iff",
        "NameOrder.name_order", "NameOrder.name_order_string", "NameOrder.name_order_boundary",
        "NameOrder.fileName_ascii", "NameOrder.lexLe_iff_not_lt", "NameOrder.toMap_sorted",
        "NameOrder.client_order_below_boundary", "NameOrder.client_order_below_boundary_string",
        "NameOrder.client_order_beyond_boundary", "NameOrder.handler_pad5", "NameOrder.handler_trio",
        "NameOrder.fileLe_iff",
    ],
    "lean_modules": ["MithrilModel.NameOrder"],
    "goals_not_proved": [
        "SUPERSEDED: `C10_name_order_note … is not stated as a theorem` above — it IS now a theorem (C10_name_order: for numbers below "
        "100000 the string order of the names %05d.ext, any extensions, is the (number, name) order; C10_name_order_boundary: "
        "\"100000.chunk\" < \"99999.chunk\"; C10_client_order_below_boundary: the client's BTreeMap keeps the signer's order; "
        "C10_client_order_beyond_boundary: beyond, an honest digest list is rejected by the model)",
        "the rejection of honest databases from immutable file number 100000 on (C10_client_order_beyond_boundary) is shown on the model and "
        "by reading proving.rs:244-256 (BTreeMap<String,_>.values()); it is not replayed on the real client by the harness "
        "(generated numbers stay below 100000); it is a completeness limitation, not a soundness defect",
    ],
    "level_text": "The order of the file names is now a theorem (MithrilModel/NameOrder.lean): with `<` the lexicographic order by code point "
                  "of Lean's String / List Char (= Rust's bytewise String: Ord on these ASCII names, NameOrder.fileName_ascii), for all "
                  "numbers below 100000 and all extensions the string order of format!(\"{n:05}.{ext}\") names is the order by (number, then "
                  "name) of ImmutableFile: Ord, hence the client's BTreeMap<String,_> (Db.toMap with the driver's Names instance) leaves a "
                  "digest list in signer order unchanged; at 99999/100000 the string order flips (decided), and beyond it the client model "
                  "reorders and rejects an honest list (completeness only); the listing used by verify_cardano_database compares numbers "
                  "first for all numbers (C10_listing_number_first).",
}
