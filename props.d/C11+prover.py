# C11, aggregator and client layers: the services that PRODUCE the proofs (prover.rs, prover_legacy.rs over the
# real sqlite store, importer and pooled Merkle-map cache) and the client's MessageBuilder / match_message
EXTEND = {
    "harness": [("harness-prover", "c11b"), ("harness-prover", "c11c")],
    "lean_modules": ["MithrilModel.Prover", "MithrilModel.ProverProofs", "MithrilModel.ClientMsg"],
    "theorems": [
        "C11.C11_prover_certified_exact", "C11.C11_prover_non_certified_exact", "C11.C11_prover_items_under_signed_map",
        "C11.C11_prover_committed", "C11.C11_legacy_prover_exact", "C11.C11_legacy_unaligned_counterexample",
        "C11.C11_prover_not_refused", "C11.C11_legacy_prover_not_refused", "C11.C11_prover_inside_range_counterexample",
        "C11.C11_prover_stale_cache_refused", "C11.C11_range_root_faithful",
        "C11.C11_client_match_binds", "C11.C11_client_match_values", "C11.C11_client_match_complete",
        "Prover.prove2_committed", "Prover.prove2_not_refused", "Prover.proveL_exact_aligned", "Prover.proveL_not_refused",
        "Prover.replaceAll_ok", "Prover.mem_found", "ClientMsg.match_binds", "ClientMsg.get_rebuild_set", "ClientMsg.get_rebuild_other",
        "ClientMsg.text_inj",
    ],
    "anchors": [
        "mithril-aggregator/src/services/prover.rs", "mithril-aggregator/src/services/prover_legacy.rs",
        "mithril-aggregator/src/database/repository/cardano_transaction_repository.rs",
        "mithril-aggregator/src/message_adapters/to_cardano_transactions_proof_message.rs",
        "mithril-aggregator/src/http_server/routes/proof_routes.rs",
        "internal/mithril-persistence/src/database/repository/cardano_transaction_repository.rs",
        "internal/mithril-resource-pool/src/resource_pool.rs",
        "internal/mithril-merkle-tree/src/merkle_map.rs",
        "mithril-common/src/signable_builder/cardano_transactions.rs", "mithril-common/src/signable_builder/cardano_blocks_transactions.rs",
        "mithril-common/src/messages/message_parts/mk_set_proof.rs",
        "mithril-client/src/cardano_stake_distribution_client.rs", "mithril-common/src/messages/certificate.rs",
    ],
    "rule": "c11b: history = a chain of 8-50 (90) blocks with 0-3 transactions and occasional number gaps, grown 1-3 (5) times; per round "
            "optional import ahead, signable of a CardanoBlocksTransactions beacon (any block number, biased to range starts / ends / "
            "multiples of 5) and of a CardanoTransactions beacon (15k-1) through the real signable builders and importer, compute_cache "
            "of both provers (sometimes skipped: stale cache; pool size 1-3), 3-6 (9) requests for transaction / block / legacy proofs "
            "(hashes stored below the beacon, in the beacon's own range, above the beacon, absent, of the other kind, duplicated, none), "
            "mostly at the cached beacon, sometimes an older or newer one, interleaved with chain growth and imports; every fourth "
            "history asks through the REAL HTTP routes (DependenciesBuilder::create_http_routes over the history's provers and a "
            "signed-entity service answering the beacon; hashes sent in another order with a repetition); one case per history plus "
            "one per produced proof. c11c: world = chain + legacy and v2 trees + a stake distribution of 1-40 pools; cases = "
            "15 legacy, 2x14 v2, 7-8 stake-distribution deliveries and 3 signed-value alterations, each a certificate (own message, "
            "signed digest) and a response; all non-trivial; distinct request lines.",
    "level_text": "Aggregator layer: `Prover.lean` models the transaction store, both block-range-root tables as the importer fills them, the "
                  "map both signable builders sign (with the partial last range of CardanoBlocksTransactions), the pooled copy "
                  "(`compute_cache`) and the two provers including their refusals; proved for every store, cache, beacon and request: an "
                  "answer reports exactly requested ∩ stored-at-or-below-the-beacon (items with their stored fields), the non-certified "
                  "list is exactly the rest, every reported item is a leaf of the range sub-tree of the pooled map — which after "
                  "sign-then-cache IS the signed map, in every later state — so a stale or foreign cache is refused, never served wrong; "
                  "under the C13 store invariants and outside the known beacon-inside-stored-range class no request of the certification "
                  "flow is refused. The real MithrilProverService and LegacyMithrilProverService run over the real sqlite repository, "
                  "importer, signable builders and ResourcePool cache on generated histories; K compares per request outcome class, "
                  "certified items, non-certified list and root identity with the model, and replays every produced proof through the "
                  "Lean verifier (verdict + root bytes); S (real vs real, harness chain as oracle): proof accepted by the real client "
                  "verifier, reported items stored at or below the beacon with these fields, none omitted, root = the root the real "
                  "signable builder signed for the cache's beacon, no refusal in the certification flow; over HTTP also the announced block number / offset are the last certificate's. Client layer: "
                  "`ClientMsg.lean` models the four MessageBuilder paths (clone the certificate's message, overwrite root / block number / "
                  "offset / epoch) and match_message; proved: match implies the rebuilt message is the signed one part by part (or a "
                  "digest collision), hence the response's values are the signed ones, and conversely; K compares digest (SHA-256 in "
                  "Lean) and verdict, S demands match iff the values are the signed ones, each altered in turn.",
    "trusted_base": ["harness bins c11b, c11c (harness-prover); sqlite through the real CardanoTransactionRepository; tokio runtime; "
                     "the scripted BlockScanner of c11b (blocks after the start point up to the target, in batches); "
                     "content abstraction of Prover.lean: a Merkle tree is named by its ordered leaves (same leaves => same root is "
                     "functionality; same root => same leaves is C11_range_root_faithful / collision resistance) — the real roots are "
                     "compared through the equality pattern over each history and through the replay of every proof"],
    "goals_not_proved": [
        "the hypotheses hcover / hinside of C11_prover_not_refused are not derived from the import history here (they are C13's "
        "store invariants: roots a function of the stored blocks, kept roots cover kept blocks); without hinside the refusal is real: "
        "known finding C11-beacon-inside-stored-range (C11_prover_inside_range_counterexample)",
        "in the histories that call the services directly the v2 partition `requested \\ certified` of the (private) HTTP handler is "
        "replicated in the harness (the legacy one runs the real ToCardanoTransactionsProofsMessageAdapter); the histories run "
        "through the real routes (every fourth) drive the handlers themselves",
        "proof GENERATION (ckb gen_proof / MKMap::compute_proof) is not modelled: that a produced proof verifies under the map's root is "
        "checked on every produced proof (K replay through Proofs.verifyV2 / verifyLegacy, S through the real verifier), not proved",
    ],
}
