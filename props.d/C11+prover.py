# C11, aggregator and client layers: the services that PRODUCE the proofs and the client's MessageBuilder
EXTEND = {
    "harness": [("harness-prover", "c11b")],
    "theorems": [],
    "lean_modules": ["MithrilModel.Prover"],
    "anchors": ["mithril-aggregator/src/services/prover.rs", "mithril-aggregator/src/services/prover_legacy.rs"],
    "rule": "",
    "level_text": "",
    "trusted_base": [],
    "goals_not_proved": [],
}
