EXTEND = {
    "lean_modules": ["MithrilModel.Vacuity.C10"],
    "theorems": ["Vacuity.C10.C10_root_binding_witness"],
}
