EXTEND = {
    "theorems": [
        # property theorems (Properties/C15.lean)
        "C15.C15_progress_partial", "C15.C15_progress_forever", "C15.C15_progress_forever_fresh",
        "C15.C15_progress_resumes", "C15.C15_genesis_of_run", "C15.C15_flag_has_certificate",
        "C15.C15_progress_goal_overquantified", "C15.C15_buffered_unused_note",
        # lemmas they rest on (AggProgress.lean)
        "Agg.productive_round", "Agg.progress_forever", "Agg.progress_forever_fresh", "Agg.plan_after",
        "Agg.planOk_of_fresh", "Agg.productive_of_after", "Agg.after_of_round",
        "Agg.scan_spec", "Agg.scan_fresh", "Agg.idle_tick", "Agg.ready_tick", "Agg.final_tick", "Agg.sig_phase",
        "Agg.master_some", "Agg.eraseDups_length_mono", "Agg.post_crash", "Agg.step_certs", "Agg.run_genesis",
        "Agg.run_flagged", "Agg.no_quorum_run", "Agg.stuck_for_ever", "Agg.stuck_resolved_by_resubmission",
    ],
    "lean_modules": [],
    "level_text": "PROGRESS (T2) is now proved on the model, under explicit decidable hypotheses: for every history with cut ticks, "
                  "every crash point and every well-formed cut tick, from the state after 'crash; restart' (more generally from every "
                  "state with the state invariant whose runtime is idle or ready) the computable continuation Agg.cont (ticks until "
                  "SIGNING, the valid signatures of the round's parties, one tick) appends exactly one certificate, for the interrupted "
                  "entity when it is still open and offered first, else for the next offered signable entity; such rounds can be iterated "
                  "for ever, the runtime never being blocked as long as no epoch is skipped (C15_progress_partial, C15_progress_forever, "
                  "C15_progress_forever_fresh); no cut leaves an open message flagged certified without its certificate "
                  "(C15_flag_has_certificate). Hypotheses (Agg.Productive / Agg.NextOk): the time point does not go back and offers an entity "
                  "of its epoch that is not flagged certified or expired; genesis epoch < epoch; latest certificate of the epoch or the one "
                  "before; signers registered under the keys epoch-1 and epoch; the submitting parties among them with >= k distinct lottery "
                  "indices; the environment's quorum test accepts k distinct indices. The literal C15_progress_goal is refuted "
                  "(C15_progress_goal_overquantified: it also quantifies over environments whose quorum never passes).",
    "goals_not_proved": [
        "C15_progress_goal as literally written is FALSE (C15_progress_goal_overquantified); C15_progress_partial / C15_progress_forever "
        "are the proved form. Not covered: a continuation that starts in the runtime state SIGNING or BLOCKED (never the case after a "
        "restart); continuations that contain signer registrations (the signers of the next epoch must already be registered in the "
        "post-crash state); progress from ticks alone when the quorum had only been buffered before a stop at 'before_hand_over' is "
        "false (C15_buffered_unused_note) - the parties have to submit again; that the REAL aggregator makes the same progress is "
        "still checked by S on generated cases only",
    ],
}
