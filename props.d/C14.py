CONFIG = {
    "lean_modules": ["MithrilModel.Properties.C14"],
    "theorems": [
        "C14.C14_no_double", "C14.C14_parent_rule", "C14.C14_epoch_order", "C14.C14_avk_of_epoch", "C14.C14_regs_frozen",
        "C14.C14_stored_verified", "C14.C14_quorum", "C14.C14_inserts_newCert", "C14.C14_quorum_idx",
        "C14.C14_signature_verified", "C14.C14_gap_blocks", "C14.C14_gap_blocks_idle",
        # lemmas of the model files the property theorems restate
        "Agg.no_double_certification", "Agg.run_inv", "Agg.inv_init", "Agg.run_sinv", "Agg.sinv_init", "Agg.crashTick_sinv",
        "Agg.CT_append", "Agg.CT_init", "Agg.regs_frozen", "Agg.stored_verify", "Agg.locallyGood_of_good",
        "Chain.verifyChain_of_locally_good", "Agg.createCertificate_eq", "Agg.newCert_spec",
        "Agg.sigClass_registered_iff", "Agg.newCert_none_of_gap", "Agg.idle_blocks_on_gap", "Agg.tick_eq_crashTick",
    ],
    "level": "proof",
    "level_text": "PARTIAL for 'every run of the aggregator': the theorems are about a hand-written executable model of the certification "
                  "core (five runtime states, epoch initialisation, open messages with expiry, direct and buffered single signatures "
                  "with hand-over, create_certificate with the master-certificate query, signed entities, signer registration rounds, "
                  "restart), for ALL event sequences whose tick epochs never decrease: no signed entity certified twice; every "
                  "certificate links to the first certificate of its own epoch or, being the first itself, to the first of the preceding "
                  "epoch (never across a gap); certificates are stored in epoch order; each carries the aggregate key of the signer set "
                  "computed for its own epoch and those registrations are frozen; hence every stored certificate passes the model of the "
                  "client's verify_certificate_chain run over the aggregator's own table; a certificate is inserted only for an open, "
                  "non-expired, non-certified message whose stored (verified, correctly attributed) signatures reach the quorum; no "
                  "parent => nothing inserted, epoch gap => Blocked. The model is compared with the REAL aggregator (RuntimeTester: state "
                  "machine, certifier, sqlite) after every event of generated histories, and the clauses are evaluated on the real store "
                  "with a fresh real MithrilCertificateVerifier.",
    "level_note": "K compares, after EVERY event: the state label, the outcome class of the event (tick ok/err/panic; signature "
                  "registered/buffered/notfound/certified/expired/invalid/panic; registration ok/existing/closed/epoch), and all rows of "
                  "open_message (entity, epoch, is_certified, is_expired), certificate (entity|genesis, epoch, parent ordinal, sorted "
                  "signer list), single_signature (entity, party, identity of the stored value), buffered_single_signature (type, party), "
                  "signed_entity (entity, certificate ordinal) in ROWID order (hashes replaced by insertion ordinals, timestamps dropped). "
                  "Inputs of the model taken from the run: verdicts of the STM primitives for each submitted signature (computed with "
                  "mithril-stm directly, not through the aggregator), and the protocol message of each new open message. Outside the "
                  "model (exercised only): artifact contents, HTTP routing, metrics, era switching, follower synchroniser, "
                  "create_certificate's self-verification (K shows the implementation inserts exactly when the model does), real "
                  "wall-clock expiry (expiry is driven by moving expires_at into the past). Trusted: Lean kernel, harness-agg (driver "
                  "mounted from the aggregator's own tests/test_extensions), rustc.",
    "harness": [("harness-agg", "c14")],
    "anchors": ["mithril-aggregator/src/runtime/state_machine.rs", "mithril-aggregator/src/runtime/runner.rs",
                "mithril-aggregator/src/services/certifier/certifier_service.rs",
                "mithril-aggregator/src/services/certifier/buffered_certifier.rs",
                "mithril-aggregator/src/services/epoch_service.rs",
                "mithril-aggregator/src/services/signer_registration/leader.rs",
                "mithril-aggregator/src/database/repository/certificate_repository.rs",
                "mithril-aggregator/src/database/repository/open_message_repository.rs",
                "mithril-aggregator/src/database/query/certificate/get_master_certificate.rs",
                "mithril-aggregator/src/multi_signer.rs", "mithril-aggregator/src/database/migration.rs",
                "mithril-common/src/protocol/multi_signer.rs"],
    "rule": "quick = 40 histories, thorough = 240. case = one history of 30-100 (quick) / 40-150 (thorough) events on a fresh database with 3-5 fixture signers, k in {5,40,70}, "
            "m=100, entity types MithrilStakeDistribution, CardanoDatabase (+ CardanoStakeDistribution in every second history): ticks; "
            "epoch +1 (and, in every fourth history, +2, an epoch nobody registered for, or an epoch that passes without a certificate); new immutable files; block progress; "
            "registrations of all / some / one signer, repeated, late (round of the previous epoch still open), while the round is "
            "closed after a restart; signatures on time (bursts by a subset of the registered signers), early (buffered when "
            "authenticated, NotFound otherwise), for certified / expired / superseded open messages, repeated, made with the signer "
            "set of a neighbouring epoch, signing another entity's message, under a party id nobody registered; open-message expiry; "
            "restart (rebuild on the same database) between ticks. K on the whole history; S on the real store every 40 events and at "
            "the end: every certificate verifies with its chain under a fresh MithrilCertificateVerifier over the aggregator's "
            "repository, parent rule, no (type, beacon) certified twice, aggregate key / next aggregate key / parameters recomputed "
            "from the registrations of the epoch, no link across an epoch gap, signer list, signed entities. Every history is "
            "non-trivial; distinct = distinct request lines",
    "trivial_tags": [],
    "trusted_base": ["rustc/cargo; harness-agg (lib.rs, walk.rs, bin/c14.rs) incl. /repo/mithril-aggregator/tests/test_extensions mounted by #[path]; "
                     "mithril-stm single-signature verification as the oracle for signature verdicts"],
    "assumptions": ["tick epochs never decrease and the entities offered to a tick belong to its epoch (RunWf / RunWfC)",
                    "distinct parties register distinct keys; a signature value is produced by one key",
                    "sqlite executes each statement atomically; tables are modelled as lists in ROWID order",
                    "integrity / signature verdicts of a stored certificate are those of create_certificate's self-verification"],
    "goals_not_proved": ["the model itself is tied to the code by K on generated histories only (no refinement proof of async Rust)",
                         "C14_stored_verified identifies an aggregate key with the epoch key of its registrations (justified by C14_regs_frozen); "
                         "protocol parameters are constant in the model",
                         "quorum uses the number of distinct lottery indices (exact by C02 when no signature value is stored twice, "
                         "which C16_no_two_labels gives)"],
    "timeout": {"quick": 1200, "thorough": 5400},
}
