EXTEND = {
    "theorems": [
        "C05.C05_legacy_roundtrip_single_signature", "C05.C05_legacy_roundtrip_registration_entry",
        "C05.C05_legacy_roundtrip_batch_path", "C05.C05_legacy_roundtrip_signature_with_party_partial",
        "C05.C05_legacy_roundtrip_concatenation_proof_partial", "C05.C05_legacy_roundtrip_aggregate_signature_partial",
        "C05.C05_legacy_roundtrip_aggregate_signature_compressed_partial",
        "C05.C05_legacy_roundtrip_misrouted_key", "C05.C05_legacy_roundtrip_misrouted_count",
        "LegacyEnc.beU64_be8", "LegacyEnc.idxLoop_enc", "LegacyEnc.valLoop_enc", "LegacyEnc.indLoop_enc",
        "LegacyEnc.sigRegLoop_enc", "LegacyEnc.sigs_count_lt", "LegacyEnc.Routed.reg_of_compressed",
    ],
    "lean_modules": [],
    "level_text": "ROUND TRIP (legacy layouts): for the six legacy decoders, decoding the legacy encoding (the byte layouts the harness "
                  "assembles by hand, transliterated as LegacyEnc) of every well-formed value (sigma 48 bytes / key 96 bytes accepted by the "
                  "point oracle, Merkle values 32 bytes, numbers < 2^64, encoding < 2^63 bytes) returns exactly that value is a Lean theorem; "
                  "for the three envelopes (signature+party, concatenation proof, aggregate signature) under the explicit routing condition "
                  "that no nested payload starts with the CBOR version byte 1 (counts < 2^56, key not starting with byte 1 - implied by the "
                  "compression flag blst requires), without which the model provably takes the CBOR branch.",
}
