EXTEND = {
    "lean_modules": ["MithrilModel.Vacuity.C07"],
    "theorems": [],
}
