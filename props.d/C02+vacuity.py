EXTEND = {
    "lean_modules": ["MithrilModel.Vacuity.C02"],
    "theorems": [],
}
