# C20, layer "compose" (lean/MithrilModel/SignerAgg.lean): the signer model with a history log (marked => published),
# its composition with the aggregator model Agg (accepted), and the stake distribution in force. Lean only: no new
# harness bin, the model `Signer.step` these theorems are about is the one c20 compares with the real signer.
EXTEND = {
    "theorems": [
        # wrappers (Properties/C20.lean)
        "C20.C20_marked_implies_published", "C20.C20_marked_published_when_won", "C20.C20_mark_before_publish_counterexample",
        "C20.C20_publish_before_mark_holds",
        "C20.C20_accepted", "C20.C20_accepted_msg", "C20.C20_accepted_signing", "C20.C20_registered_only_if",
        "C20.C20_offsets_both_models", "C20.C20_one_key_per_round", "C20.C20_stake_in_force",
        # what they rest on (SignerAgg.lean)
        "SignerAgg.stepG_state", "SignerAgg.runG_state", "SignerAgg.runG_inv", "SignerAgg.stepG_log", "SignerAgg.runG_noLottery",
        "SignerAgg.marked_published_or_lost", "SignerAgg.readyG_spec", "SignerAgg.mark_first_two_steps",
        "SignerAgg.mark_first_two_steps_down",
        "SignerAgg.tick_frame", "SignerAgg.step_closed", "SignerAgg.step_next", "SignerAgg.runG_pub_inv", "SignerAgg.run_key",
        "SignerAgg.runG_vers_inv", "SignerAgg.chainVers_sound", "SignerAgg.chainVers_functional", "SignerAgg.pub_facts",
        "SignerAgg.mem_okEpochs", "SignerAgg.keyOf_of_uniq", "SignerAgg.registered_only_row", "SignerAgg.accepted_core",
        "SignerAgg.signersOf_projRegs", "SignerAgg.agg_round_offset", "SignerAgg.agg_register_bridge",
        "SignerAgg.agg_register_other_round",
        "SignerAgg.demo_facts", "SignerAgg.demoAgg_sinv", "SignerAgg.demo_accepted", "SignerAgg.demo_rejected",
    ],
    "lean_modules": ["MithrilModel.SignerAgg"],
    "level_text": "Layer compose (Lean, every history of the same model): MARKED => PUBLISHED is proved - the model run next to a "
                  "chronological log (its state component IS Signer.step, SignerAgg.stepG_state) marks a beacon only after the "
                  "aggregator received its signature, made in that chain epoch, or after 'no lottery won' (C20_marked_implies_published; "
                  "restarts, publish failures with retries, mark failures, pruning included), and the mark-before-publish variant is "
                  "refuted from the initial state (C20_mark_before_publish_counterexample). ACCEPTED is proved against the aggregator "
                  "model: for every signature the aggregator received, of chain epoch E, the signer list it was built from is the "
                  "aggregator's closed list recorded under E-1, the signer sent at most one key per round so the aggregator's "
                  "first-wins key for it is the signing key, the stake distribution is the one the chain reported in E-2 "
                  "(C20_stake_in_force), the message's next aggregate key comes from the list recorded under E and the distribution of "
                  "E-1; with the primitive verdicts of Agg.Sig COMPUTED from keys, lists and distributions (SignerAgg.sigOf), "
                  "Agg.registerSig classifies it `registered` when its open message is the one of that entity and epoch, and then holds "
                  "exactly one row for (open message, signer) whatever was there before (C20_accepted, C20_accepted_msg, "
                  "C20_accepted_signing under Agg's own state invariant); conversely nothing made with a key, list or distribution of "
                  "another epoch is registered (C20_registered_only_if, demo_rejected). The offset relation is stated on both models "
                  "(C20_offsets_both_models: registered when the aggregator announced a, recorded under a+1 by both, used in a+2 through "
                  "key (a+2)-1 by both). A joint run of the two models is evaluated by the kernel (demo_facts, demo_accepted).",
    "assumptions": ["C20_accepted: STM verification is abstracted to what it depends on (SignerAgg.verifiesAt: equal aggregate keys = same "
                    "registrations of the retrieval epoch and same stake distribution; the signer's key registered in that list; the slot's "
                    "key is the key the label registered first); the entity part of the protocol message is computed alike on both sides; "
                    "other parties do not register under the signer's party id (OthersOnly)"],
    "goals_not_proved": [
        "C20_marked_implies_published, C20_accepted and 'stake distribution in force' are now stated and proved on the models (this "
        "supersedes the three entries above saying 'not stated' / 'checked by K and S only'). Still not proved: the two state machines are "
        "not run as ONE product model - the aggregator state is any Agg.St whose registration table agrees with the signer model's fake "
        "aggregator at the retrieval epoch and whose open message / epoch service are in the signing epoch (a joint run is only "
        "evaluated on one history, demo_facts); the buffered path (signature arriving before the open message exists, hand-over "
        "later) is not composed; the cryptographic verdicts are computed by an abstraction (see assumptions), acceptance by the real "
        "aggregator service with real signatures remains an S check; the history log is ghost state of the Lean model (K compares "
        "publications and the signed-beacon table, not the order inside one cycle - the order is read off "
        "compute_publish_single_signature)",
    ],
}
