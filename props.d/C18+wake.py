EXTEND = {
    "theorems": [
        # wrappers (Properties/C18.lean)
        "C18.C18_wake", "C18.C18_wake_counts", "C18.C18_wake_no_lost_wakeup", "C18.C18_wake_timeout_enabled",
        "C18.C18_wake_timeouts_unstick", "C18.C18_wake_fresh", "C18.C18_wake_lost_wakeup_without_atomic_wait",
        "C18.C18_wake_posix_counterexample",
        # lemmas they rest on (PoolWake.lean)
        "PoolWake.step_inv", "PoolWake.run_inv", "PoolWake.wake_safe", "PoolWake.wake_progress", "PoolWake.push_notifies",
        "PoolWake.no_call_between_check_and_park", "PoolWake.step_pool", "PoolWake.run_pool_inv",
        "PoolWake.stolenWakeup_without_G4", "PoolWake.lostWakeup_with_G2", "PoolWake.explore_some",
        "PoolWake.explore_std", "PoolWake.explore_posix",
    ],
    "lean_modules": ["MithrilModel.PoolWake"],
    "level_text": "WAKE-UP (T2, safety form) is now a Lean theorem (C18_wake) on a model that adds, around the unchanged Pool.step, the "
                  "resources mutex and the threads inside acquire_resource (between the emptiness test and wait_timeout; parked; notified or "
                  "spuriously woken and re-locking; timed out and re-locking): for every initial pool and every finite interleaving of "
                  "calls of every public method, parkings, notify_one to ANY blocked thread, spurious wake-ups, time-outs, resumptions and "
                  "returns, by any number of threads, no state has a queued resource, a blocked thread and no pending notification - "
                  "indeed while a thread is blocked every queued resource has its own pending notification (C18_wake_counts). Lost wake-ups "
                  "are excluded because the test and the parking are one critical section (C18_wake_no_lost_wakeup; the two-step wait loses one: "
                  "C18_wake_lost_wakeup_without_atomic_wait). The time-out is enabled in every state and leads out of the excluded state from "
                  "any state (C18_wake_timeout_enabled, C18_wake_timeouts_unstick). Assumed of std: Mutex exclusion; Condvar::wait_timeout "
                  "unlocks and blocks atomically; notify_one wakes one blocked thread if there is one (not buffered, not absorbed by a thread "
                  "already woken); and - NOT documented by std, true of the Linux futex implementation - a waiter taken by a notification "
                  "returns timed_out()==false. Without the last one the statement is FALSE for this code (C18_wake_posix_counterexample: "
                  "two waiters, one push, the notified waiter reports a time-out and acquire_resource returns on timed_out() without "
                  "re-testing the queue; the other waiter stays blocked beside a queued resource until its own time-out).",
    "assumptions": ["C18_wake: std::sync::Condvar guarantees G1-G3 as documented, and G4 (a thread taken by notify_one returns "
                    "timed_out()==false: Linux futex; POSIX pthread_cond_timedwait may consume a signal and report ETIMEDOUT)"],
    "goals_not_proved": [
        "C18_wake is now stated and proved (supersedes the entry 'not stated as a theorem'); not proved: liveness under fairness (a waiter "
        "can be overtaken indefinitely by threads that take the resource before it re-locks; each wait_timeout restarts the FULL timeout, "
        "so the total wait of acquire_resource is not bounded by its argument); the wake model is not compared with real threads by the "
        "harness (Condvar scheduling cannot be driven deterministically) - it is tied to the code by reading acquire_resource / "
        "give_back_resource line by line",
    ],
}
