EXTEND = {
    "lean_modules": ["MithrilModel.Vacuity.C15"],
    "theorems": ["Vacuity.C15.ExQ_quorum", "Vacuity.C15.freshPlan_holds"],
}
