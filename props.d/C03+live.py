EXTEND = {
    "theorems": [
        # wrappers (Properties/C03.lean)
        "C03.C03_acyclic", "C03.C03_acyclic_nodup", "C03.C03_self_loop_guard", "C03.C03_cycle_diverges",
        "C03.C03_live_cache_agrees", "C03.C03_live_accept_implies_model_accept", "C03.C03_live_client_sessions_sound",
        "C03.C03_live_differs_on_revisiting_walk", "C03.C03_concurrent_calls_note",
        "C03.C03_hash_binding_unsatisfiable", "C03.C03_client_sound_on", "C03.C03_client_sessions_sound_on",
        # lemmas they rest on (ChainLive.lean)
        "Chain.acyclic", "Chain.walk_no_repeat", "Chain.walk_suffix", "Chain.accepted_walk_nodup", "Chain.cycle_diverges",
        "Chain.cycle_example", "Chain.phase2_act", "Chain.phase2Wr_act", "Chain.phase2Live_act", "Chain.phase2Live_agrees",
        "Chain.phase1Live_agrees", "Chain.storeAll_eq_extend", "Chain.live_agrees", "Chain.runLive_agrees", "Chain.trap",
        "Chain.sim2", "Chain.sim1", "Chain.live_accept_static", "Chain.runLive_inv", "Chain.sessionLive_sound",
        "Chain.live_differs", "Chain.concurrent_window", "Chain.accepted_walk_nodup_on",
        # ChainBinding.lean
        "Chain.hashBinding_false", "Chain.phase2_sound_on", "Chain.phase1_sound_on", "Chain.client_sound_on",
        "Chain.phase2_sound_wr_on", "Chain.phase1_sound_wr_on", "Chain.run_inv_on", "Chain.session_sound_on",
        "Chain.U3_binding", "Chain.U3_serves",
    ],
    "lean_modules": ["MithrilModel.ChainBinding", "MithrilModel.ChainLive"],
    "level_text": "CYCLES: C03_acyclic is now a theorem - if the walk of verify_certificate_chain comes to the same hash twice, either the "
                  "verification is not accepted or the two certificates are returned as an explicit collision of the content hash (no binding "
                  "hypothesis: its failure is the witness); with hash binding the hashes of an accepted walk are pairwise different; the "
                  "self-loop guard rejects the fixed point at once; a longer cycle of certificates that all pass makes the model answer "
                  "'fuel' for every fuel, i.e. the real loop (no bound, no visited set) does not terminate (C03_cycle_diverges). WITHIN-CALL "
                  "CACHE: Chain.clientVerifyLive threads the cache through the call as verify.rs does (store_validated_certificate right after "
                  "each successful verify_certificate of a non-genesis certificate, in both loops, before the next get_previous_hash); it agrees "
                  "with clientVerify / run - verdict, error class and cache afterwards - on every input whose walk does not come to the same hash "
                  "twice (C03_live_cache_agrees); for EVERY retriever and initial cache an acceptance of the live client is an acceptance of "
                  "clientVerify with the same records (C03_live_accept_implies_model_accept: once a look-up meets a hash the call has already "
                  "come to, the live client can never accept any more), hence session soundness holds for the live client "
                  "(C03_live_client_sessions_sound). The converse fails on a walk that comes back to a hash: C03_live_differs_on_revisiting_walk "
                  "(clientVerify accepts a validly chained certificate, the live client spins for ever between two cache entries; needs an "
                  "initial cache entry pointing from a certificate to its own descendant and a provider answering with another certificate "
                  "than the one asked for). BINDING HYPOTHESIS REPAIRED: Chain.HashBinding, assumed by C03_client_sound / "
                  "C03_client_sessions_sound / C03_client_run_keeps_cache_invariant, quantifies over all abstract records and is refutable "
                  "(C03_hash_binding_unsatisfiable) - those three statements are vacuous. C03_client_sound_on / C03_client_sessions_sound_on / "
                  "C03_live_client_sessions_sound are their non-vacuous form: binding among the certificates of a world U that contains every "
                  "provider answer, every start certificate and every certificate a cache entry was learnt from (a world of three honest "
                  "certificates satisfying all hypotheses, with a call accepted through the cache, is exhibited).",
    "goals_not_proved": [
        "Not proved: termination of the real loops "
        "(they have no bound; on a cycle of the content hash they do not terminate - a denial of service by the certificate provider, no "
        "acceptance); the live model is not driven by the harness (K still compares the real client with clientVerify/run, which "
        "C03_live_cache_agrees justifies on walks without a repeated hash; the differing input is outside what the generators produce: "
        "caches are only warmed by honest validations; it was replayed once on the real MithrilCertificateVerifier by the scratch program "
        "work/L4/replay, experiment A: verify_chain does not return, one aggregator request). CONCURRENT CALLS (two verify_chain calls in flight on one cache: the records of a validation are in the shared cache while it is still in progress) were a genuine defect - C03_concurrent_calls_note on the model, c03c's concurrent session on the real client - repaired by c2300cc69 (one chain validation at a time when a cache is used, which is what the sequential session theorems assume); two verifier INSTANCES sharing one cache object are outside the repair and the model",
    ],
}
