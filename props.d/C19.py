CONFIG = {
    "lean_modules": ["MithrilModel.Properties.C19"],
    "theorems": [
        "C19.C19_ancillary_accept", "C19.C19_move_places_verified_file", "C19.C19_ancillary_sound",
        "C19.C19_ancillary_failure_clean", "C19.C19_tmp_removed", "C19.C19_immutable_dir_clean",
        "C19.C19_foreign_entry_counterexample", "C19.C19_foreign_entry_kept", "C19.C19_range_bound_counterexample_before_repair", "C19.C19_range_bound_repaired", "C19.C19_next_trio_counterexample",
        "C19.C19_unexpected_name_removed", "C19.C19_kept_by_name_counterexample",
        "C19.C19_symlink_counterexample_prefix", "C19.C19_symlink_fixed", "C19.C19_symlink_counterexample_abstract",
        "C19.C19_honest_restore", "C19.C19_bad_signature_nothing_kept", "C19.C19_manifest_hash_note",
        "Restore.Full.verifyData_regular", "Restore.Full.verifyAncillary_some", "Restore.Full.cleanup_spec",
        "Restore.Full.rename_file_missing", "Restore.Full.rename_file_replace", "Restore.Full.ancillaryTask_failure",
        "Restore.restored_reads_vouched", "Restore.moved_is_vouched", "Restore.fixed_rejects_counterexample",
    ],
    "level_text": "The restoration logic of download_unpack (range and option tests, immutable archives unpacked into the target, "
                  "ancillary archive unpacked into a temporary directory, manifest verification with the regular-file test of the fix "
                  "commit, two-pass move, removal of the temporary directory, clean-up of immutable/, bootstrap markers) is "
                  "transliterated on an executable file-system model with symbolic links and the relevant part of tar 0.4.46; the model is "
                  "compared, listing for listing, with the real CardanoDatabaseClient::download_unpack on honest and hostile tar+zstd "
                  "archives served through file:// locations, genuine and altered signed manifests, pre-existing target contents and "
                  "injected failures. Lean theorems over that model: ancillary acceptance implies a parsed, signature-verified manifest "
                  "whose every entry IS a regular file with the listed content; a move places exactly that file; the clean-up leaves only "
                  "expected names in immutable/; a failed verification moves nothing and the temporary directory is removed. That every "
                  "restored vouched path reads as the vouched content is proved for any manifest on the abstract move model. The "
                  "specification (new files = markers, trio files of the range, vouched files read through the restored path) is evaluated "
                  "on the real listings. The immutable half of the property is FALSE on the current tree (three proved counter-examples, "
                  "known findings): archive entries outside immutable/, trio numbers outside the requested range, entries kept by name only.",
    "level_note": "Trusted: Lean kernel (+ propext, Quot.sound), harness and printer, rustc. The model is parametric in the hash: contents "
                  "are tokens (one per distinct SHA-256 value computed by the harness with the sha2 crate), the manifest signature check and "
                  "the JSON parsing of a manifest are oracle inputs computed with the real ManifestVerifier / serde types. tar and the OS "
                  "file system are modelled from reading tar 0.4.46 and POSIX semantics and are validated only by the correspondence runs "
                  "(ownership, permissions and times are not modelled; hard links are modelled as copies; the process runs as root, so "
                  "read-only directories cannot be used to inject failures: destinations that are directories, files in the place of "
                  "directories, dangling links, broken and missing archives are used instead). The general multi-entry read-through "
                  "theorem is on the abstract move model (links in the final component only); on the executable model the corresponding "
                  "statements are per step. Confinement of tar to its destination is not proved, only compared. "
                  "max_parallel_downloads = 1 in all compared cases; the retry delay of the client's downloader is set to zero.",
    "harness": [("harness-client", "c19")],
    "anchors": ["mithril-client/src/cardano_database_client/download_unpack/download_task.rs",
                "mithril-client/src/cardano_database_client/download_unpack/internal_downloader.rs",
                "mithril-client/src/cardano_database_client/download_unpack/download_unpack_options.rs",
                "mithril-client/src/utils/unexpected_downloaded_file_verifier.rs",
                "mithril-client/src/utils/ancillary_verifier.rs", "mithril-client/src/utils/bootstrap_files.rs",
                "mithril-client/src/file_downloader/http.rs", "mithril-client/src/file_downloader/retry.rs",
                "internal/cardano-node/mithril-cardano-node-internal-database/src/entities/ancillary_files_manifest.rs",
                "mithril-aggregator/src/artifact_builder/cardano_database_artifacts/ancillary.rs"],
    "rule": "case = (pre-existing target content, range incl. invalid shapes, beacon 1-5, allow_override, include_ancillary, verifier key "
            "set or not, network, per immutable number 1-2 locations each present/intact or not with honest trio entries plus hostile "
            "ones (entries under ledger/ volatile/ payload/, markers, nested paths, trio numbers at lo-1 hi+1 beacon+1 0, junk names, "
            "absolute and .. paths, symbolic links at top level / at trio names / used as directories, hard links, directory entries, "
            "duplicates), ancillary archive honest or with one of 22 alterations (content changed, manifest entry added/removed, "
            "signature altered/removed/other key/re-used, unparsable or missing manifest, symbolic link / hard link / directory / "
            "dangling link at a vouched path, parent directory a link, manifest itself a link, escaping entries, broken stream, "
            "duplicate entry), faults through pre-existing directories/files/links at destinations); honest cases are trivial; "
            "distinct = distinct request lines",
    "trivial_tags": ["honest"],
    "trusted_base": ["rustc/cargo; harness-client/c19, its archive writer (raw tar headers + zstd) and canonical lister; sha2 crate"],
    "assumptions": ["archives are applied one after the other (max_parallel_downloads = 1); with parallel downloads the order of entries of "
                    "different archives on the same path is a race that the model does not decide",
                    "no symbolic link of a case points above the case directory other than to a non-existent absolute path",
                    "the random download id in the name of the temporary directory is never guessed by an archive (the model calls it ancillary-TMP)"],
    "goals_not_proved": ["C19_immutable_only_goal is FALSE on the current tree (C19_foreign_entry_counterexample, "
                         "C19_kept_by_name_counterexample): known findings C19-foreign-entry, "
                         "C19-immutable-entry-kept-by-name, C19-next-trio-not-from-ancillary (C19-trio-outside-range was repaired by 3360edee4 up to that remainder)",
                         "the multi-entry read-through theorem (C19_ancillary_sound) is proved on the abstract move model, not on Restore.Full "
                         "(where parent directories may be links): per-step statements only",
                         "confinement of unpack to its destination (needed to turn C19_ancillary_failure_clean into 'nothing of the archive "
                         "is kept' without reference to tar) is compared by K, not proved"],
    "timeout": {"quick": 900, "thorough": 3600},
}
