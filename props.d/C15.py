CONFIG = {
    "lean_modules": ["MithrilModel.Properties.C15"],
    "theorems": [
        "C15.C15_store_verifies", "C15.C15_parent_rule", "C15.C15_one_artifact", "C15.C15_signature_table",
        "C15.C15_cut_after_last_write", "C15.C15_double_certificate_note", "C15.C15_nocrash_single_certificate",
        "Agg.crashTick_sinv", "Agg.run_sinv", "Agg.sinv_init", "Agg.run_se", "Agg.se_init", "Agg.run_tbl", "Agg.stored_verify",
        "Agg.crash_double_certificate", "Agg.tick_eq_crashTick", "Chain.verifyChain_of_locally_good",
    ],
    "level": "proof",
    "level_text": "PARTIAL for 'every run of the aggregator': over the same model as C14, extended with the event 'tick cut at a crash "
                  "point' for the nine points of hook H3 (before/after certificate insert, after open-message update, before/after "
                  "artifact computation, after signed-entity insert, before the buffered hand-over, before/after removal from the "
                  "buffer), anywhere and any number of times: the certificate table keeps the parent rule / epoch order / epoch key "
                  "invariants, hence every stored certificate passes the model of verify_certificate_chain; at most one signed entity "
                  "per (type, beacon), each referencing a stored certificate of exactly that entity; the signature table keeps its "
                  "invariants. Progress is NOT proved (goal listed); it is required by S after every crash. The cut ticks are compared "
                  "with the REAL aggregator stopped at the armed point, restarted on the same database and continued.",
    "level_note": "K compares the same observation as C14 after every event; a cut tick's outcome carries whether the armed point "
                  "fired. The observation 'a stop between certificate insert and open-message update leads to a second certificate "
                  "for the same entity' (C15_double_certificate_note) is reproduced by the harness in every such case and recorded as a "
                  "note: C15's clauses hold there (both certificates verify, one artifact referencing the second), the 'certified "
                  "twice' clause is C14's, whose quantifier has no mid-tick stop. A stop during the artifact task leaves a certified "
                  "entity without artifact for good (recorded as a note; not a clause). A 'crash' is the operation stopping with an "
                  "error at the point, the runtime being dropped and rebuilt (RuntimeTester::rebuild) — not a kill of the OS process: "
                  "sqlite's own durability is not exercised.",
    "harness": [("harness-agg", "c15")],
    "anchors": ["mithril-aggregator/src/services/certifier/certifier_service.rs", "mithril-aggregator/src/services/signed_entity.rs",
                "mithril-aggregator/src/services/certifier/buffered_certifier.rs",
                "mithril-aggregator/src/runtime/state_machine.rs", "mithril-aggregator/src/runtime/error.rs",
                "mithril-aggregator/src/database/repository/certificate_repository.rs",
                "mithril-aggregator/src/database/repository/open_message_repository.rs",
                "mithril-aggregator/src/database/repository/signed_entity_store.rs", "mithril-aggregator/src/verif_hooks.rs"],
    "rule": "case = (history prefix drawn as in C14 with restarts, healthy registrations, 3-5 signers; position 8/25/45 events "
            "(thorough: 5 positions); crash point 1..9): after the prefix the harness brings the aggregator to the operation that "
            "passes the point (a signing round with every signer's signature / a new beacon with authenticated early signatures in "
            "the buffer), arms it, ticks until it fires, drops and rebuilds the runtime, then runs three productive rounds over two "
            "new beacons. K on the whole history; S on the real store at the end: chain verification of every certificate with a "
            "fresh verifier, parent rule, one signed entity per entity referencing a certificate of that entity, aggregate keys, and "
            "progress (more certificates than at the crash). quick = 3 histories x 3 positions x 9 points. Every case is non-trivial",
    "trivial_tags": [],
    "trusted_base": ["rustc/cargo; harness-agg (lib.rs, walk.rs, bin/c15.rs); hook H3 (commit 727a6cd62, cfg mithril_verif)"],
    "assumptions": ["as C14", "a stop is modelled at the granularity of the statements create_certificate / create_artifact_task / the "
                    "buffered hand-over execute (each sqlite statement atomic)"],
    "goals_not_proved": ["C15_progress_goal as first written quantifies over every environment and is FALSE (C15_progress_goal_overquantified: a quorum "
                         "predicate that never passes, no registrations for the next epoch, an epoch gap — none depends on the crash); the progress "
                         "statement with its hypotheses explicit is proved (C15_progress_partial, C15_progress_forever, see props.d/C15+progress.py); "
                         "whether the REAL aggregator makes the same progress is checked by S on every generated case",
                         "repeated crashes are generated by the thorough tier prefixes only through ordinary restarts; the theorems cover them"],
    "timeout": {"quick": 1500, "thorough": 7200},
}
