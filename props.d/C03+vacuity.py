EXTEND = {
    "lean_modules": ["MithrilModel.Vacuity.C03"],
    "theorems": [
        # the un-relativised cache invariant holds for EVERY cache (trivially true hypothesis / conclusion)
        "Vacuity.C03.cacheInv_always",
        # the witness of C03_live_differs_on_revisiting_walk satisfies the relativised hypotheses
        "Vacuity.C03.Uw_binding", "Vacuity.C03.Uw_serves", "Vacuity.C03.wCache_inv_on",
        # hypotheses of C03_complete_of_locally_good on a three-certificate store
        "Vacuity.C03.stored3_good", "Vacuity.C03.stored3_closed",
    ],
}
