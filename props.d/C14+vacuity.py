EXTEND = {
    "lean_modules": ["MithrilModel.Vacuity.C14"],
    "theorems": [
        "Vacuity.C14.gap_hypothesis_unreachable", "Vacuity.C14.run_gap", "Vacuity.C14.step_gap", "Vacuity.C14.crashTick_gap",
        "Vacuity.C14.gap_init", "Vacuity.C14.quorum_indices",
    ],
}
