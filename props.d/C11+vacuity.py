EXTEND = {
    "lean_modules": ["MithrilModel.Vacuity.C11"],
    "theorems": [
        "Vacuity.C11.mergeS_not_injective", "Vacuity.C11.collision_of_finite_digest",
        "Vacuity.C11.C11_client_match_binds_says_nothing",
        "Vacuity.C11.C11_client_match_binds_witness", "Vacuity.C11.C11_client_match_values_witness",
        "Vacuity.C11.legacy_ok", "Vacuity.C11.v2_ok",
        "Vacuity.C11.C11_set_committed_witness", "Vacuity.C11.C11_set_committed_witness_sized",
    ],
}
