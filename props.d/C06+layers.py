EXTEND = {
    "harness": [("harness-agg", "c06b")],
    "theorems": [
        "C06.C06_node_perm", "C06.C06_node_key", "C06.C06_node_outcome", "C06.C06_dup_party_note",
        "C06.C06_service_invariant", "C06.C06_service_coherent", "C06.C06_service_ok_coherent",
        "C06.C06_service_lists_honest", "C06.C06_service_function_of_set",
        "C06.C06_service_failed_update_counterexample", "C06.C06_service_stale_snapshot_counterexample",
        "RegPaths.build_perm", "RegPaths.build_eq", "RegService.run_inv", "RegService.run_coherent",
    ],
    "anchors": ["mithril-aggregator/src/services/epoch_service.rs", "mithril-signer/src/services/single_signer.rs",
                "mithril-client/src/message.rs"],
}
