EXTEND = {
    "harness": [("harness-agg", "c06b"), ("harness-client", "c06c"), ("harness-signer", "c06s")],
    "theorems": [
        # node level: SignerBuilder::new as the three nodes call it
        "C06.C06_node_perm", "C06.C06_node_key", "C06.C06_node_outcome", "C06.C06_dup_party_note",
        "C06.C06_signer_perm", "C06.C06_signer_is_build",
        # the aggregator's epoch service (code after the repairs df18c4ce4, 9c9bc53d6)
        "C06.C06_service_coherent", "C06.C06_service_snapshot", "C06.C06_service_invariant",
        "C06.C06_service_lists_honest", "C06.C06_service_function_of_set",
        "C06.C06_service_informed_keys", "C06.C06_service_live_is_fresh",
        "C06.C06_service_failed_update_counterexample_before_repair",
        "C06.C06_service_stale_snapshot_counterexample_before_repair", "C06.C06_service_repaired_examples",
        "RegPaths.build_perm", "RegPaths.build_eq", "RegPaths.build_key", "RegPaths.signerPath_perm",
        "RegPaths.associate_perm", "RegService.run_inv", "RegService.run_coherent", "RegService.run_snapshot",
        "RegService.run_dataWF", "RegService.keys_function_of_set", "RegService.informed_keys",
        "RegService.live_agrees_with_fresh",
    ],
    "anchors": ["mithril-aggregator/src/services/epoch_service.rs", "mithril-signer/src/services/single_signer.rs",
                "mithril-signer/src/services/epoch_service.rs", "mithril-client/src/message.rs",
                "mithril-aggregator/src/database/repository/signer_registration_store.rs"],
    "rule": "c06b: case = one history (6-14 ops after the initial registrations; 8-22 thorough) over 5 parties / 8 real BLS keys / "
            "epochs around e: store writes (own key, second key, another party's key; stakes 0, 5, 1..40, 2^62; one history in eight "
            "with stakes of 2^63-1: totals at and beyond 2^64), prunes, inform_epoch(e / e+1 / 0 / repeated), update_next_signers_with_stake, "
            "precompute_epoch_data; 110 (700) histories, every step observed. c06c: 44 (220) sets of 1..10 KES-certified signers x "
            "{as built, reversed, by party, by stake, 3 (6) shuffles} x {direct, JSON text, JSON value} + empty list, signer listed "
            "twice, party id not the pool, two party ids swapped, total zero, total overflow, one signer less, one stake changed. "
            "c06s: 28 (120) sets of 2..8 certified signers with real protocol initializers, one being the node, announced in 5 (7) "
            "orders directly or through the JSON of EpochSettingsMessage, + listed signer without stake, node not listed, node's "
            "stake changed, signer listed twice, others at 2^63-1 (overflow), others zero, empty list; all non-trivial.",
    "level_text": "LAYERS (aggregator epoch service, client, signer). The node-level builder SignerBuilder::new is modelled with its "
                  "stake map (last entry of a party wins), its registration loop (unknown party, repeated key) and the core close: "
                  "on honest lists (distinct parties, own identity) its outcome - error class or closed registration, every slot, "
                  "total, key - is proved order independent and equal to the core model's key of the listed pairs; the signer node's "
                  "path (stakes from its own store) is proved order independent and equal to the same function when the stores "
                  "agree. The aggregator's MithrilEpochService is a state machine over the registration store (insert-or-replace, "
                  "prune, inform_epoch with the real offsets e-1 / e, update_next_signers_with_stake, precompute_epoch_data, the "
                  "computed cache): for EVERY operation sequence, whenever computed data is present, the cached current key / "
                  "multi-signer is the one of current_signers_with_stake() and the cached next one the one of "
                  "next_signers_with_stake(), and next_signers() / total_next_stakes_signers() are those of next_signers_with_stake() "
                  "(both were false before the fix commits df18c4ce4 and 9c9bc53d6: proved counter-examples on the model of the "
                  "earlier code, witnesses replayed on the real code every run); two services reached by any two histories "
                  "reporting permutations of the same list hold the same keys, slots and totals; a live service whose snapshot "
                  "holds the store's present rows reports what a fresh service computes. K compares, after every step of every history, the real service over the real sqlite stores with the "
                  "model: both signer lists in store order, next_signers, both totals, both keys bit for bit (Lean Blake2b), and the "
                  "slot of every signer in both multi-signers (probed with real single signatures); for the client the literal "
                  "NextAggregateVerificationKey message part; for the signer the signer_index and the key its signature verifies "
                  "under.",
    "level_note": "Slots of the service's multi-signers are observable only through verify_single_signature: the harness offers a real "
                  "signature (raw mithril-stm over the reported list) under every index; when the multi-signer is not the one of the "
                  "reported list nothing verifies and both sides print x. The protocol parameters are the same for all epochs of a "
                  "history (the key does not depend on them; that the multi-signer carries the epoch's parameters is not observed). "
                  "inform_epoch and update_next_signers_with_stake sum stakes with overflow checks on (dev "
                  "profile): a total >= 2^64 is the outcome panic, which ends the history (a panic ends the node; the state after it is "
                  "not modelled - in update_next_signers_with_stake the panic strikes after next_signers was replaced); a release build "
                  "wraps instead. KES / proof-of-possession verdicts are C07's subject: only verifying material is passed.",
    "trusted_base": ["harness bins c06b (aggregator DependenciesBuilder, sqlite), c06c, c06s; mithril-common test fixtures (KES key "
                     "material); raw mithril-stm as reference of the S checks"],
    "assumptions": ["dev-profile overflow checks (stake totals of inform_epoch / update_next_signers_with_stake); a panic ends the node",
                    "stakes below 2^63 in the sqlite stores (a larger stake panics in the signer's stake store: not a value a chain can produce)"],
    "goals_not_proved": [],
}
