EXTEND = {
    "lean_modules": ["MithrilModel.Vacuity.C08"],
    "theorems": [],
}
