EXTEND = {
    "lean_modules": ["MithrilModel.Vacuity.C19"],
    "theorems": [
        # hypotheses of the property theorems on concrete instances (the `example`s apply the theorems to them)
        "Vacuity.C19.accept_hyp", "Vacuity.C19.accept_hyp2", "Vacuity.C19.sound_nodup", "Vacuity.C19.sound_sep",
        "Vacuity.C19.sound_hv", "Vacuity.C19.failure_h0", "Vacuity.C19.failure_hv",
        "Vacuity.C19.failure_removal_succeeds", "Vacuity.C19.broken_not_covered",
        # side conditions: `Separated` satisfiable / degenerate case; the source of a move is gone
        "Vacuity.C19.separated_of_head", "Vacuity.C19.separated_nil_iff", "Vacuity.C19.rename_source_gone",
        # repair of the getD gap: directories are never replaced, the temporary directory is always removed
        "Vacuity.C19.resolveAux_missing", "Vacuity.C19.unpackEntry_dirMono", "Vacuity.C19.unpackFirst_dirMono",
        "Vacuity.C19.rename_dirMono", "Vacuity.C19.ancBody_dirMono", "Vacuity.C19.ancillaryTask_eq",
        "Vacuity.C19.ancillaryTask_tmp_gone", "Vacuity.C19.ancillaryTask_tmp_gone_pointwise",
        "Vacuity.C19.ancillaryTask_failure_clean",
    ],
}
