EXTEND = {
    "theorems": [
        "C09.C09_stm_complete", "C09.C09_stm_complete_u32",
        "StmComplete.verifyBatch_complete", "StmComplete.run_complete", "StmComplete.level_complete",
        "StmComplete.pathLevel_sorted", "StmComplete.pathLevel_mem", "StmComplete.pathLevel_ne_nil",
        "StmComplete.nodeAt_eq_sub", "StmComplete.nodeAt_inner", "StmComplete.nodeAt_pad", "StmComplete.nodeAt_leaf",
        "StmComplete.treeRoot_eq_nodeAt", "StmComplete.nextPow2_eq", "StmComplete.nextPow2_le_pow", "StmComplete.height_le",
    ],
    "lean_modules": [],
    "level_text": "STM completeness IS proved (C09_stm_complete, supersedes 'not proved' above for the STM tree): for every hash "
                  "function, every non-empty leaf list with fewer than 2^63 leaves and every non-empty strictly increasing in-range "
                  "index list, the batch path the transliterated generator (batchPath = compute_merkle_tree_batch_path over the "
                  "node table of MerkleTree::new) emits is accepted by the transliterated verifier (verifyBatch) for the leaves at "
                  "those indices against (treeRoot, number of leaves) - level by level the three sibling cases of generator and "
                  "verifier (sibling next in the list / value taken from the path / right sibling beyond the table = padding "
                  "H[0]) are shown to line up, and the fuel 65 of both loops exceeds the height (at most 63).",
}
