EXTEND = {
    "lean_modules": ["MithrilModel.Vacuity.C06"],
    "theorems": [
        # FINDING: C06_distinct (C09_stm_root_injective) assumes hinj and hlen together: unsatisfiable
        "Vacuity.C06.C06_distinct_hypotheses_unsatisfiable",
        # repair: injectivity / output length relative to the byte strings hashed in the two root computations
        "Vacuity.C06.sub_len_on", "Vacuity.C06.sub_inj_on", "Vacuity.C06.root_injective_on",
        "Vacuity.C06.root_injective_or_collision", "Vacuity.C06.treeRoot_injective_on",
        # ... and the clause on RegModel.avk itself: same key => the registrations are permutations of each other
        "Vacuity.C06.beBytes_length", "Vacuity.C06.beBytes_inj", "Vacuity.C06.leaf_length", "Vacuity.C06.leaf_inj",
        "Vacuity.C06.map_leaf_inj", "Vacuity.C06.avk_ok", "Vacuity.C06.avk_injective_on",
        # instances
        "Vacuity.C06.close_eq_of_sorted", "Vacuity.C06.build_AB", "Vacuity.C06.close1", "Vacuity.C06.close2",
        "Vacuity.C06.close2r", "Vacuity.C06.run1", "Vacuity.C06.run2", "Vacuity.C06.informed3",
    ],
}
