EXTEND = {
    "lean_modules": ["MithrilModel.Vacuity.C01"],
    "theorems": [
        # FINDING: hlen alone gives `Collision H`, so the conclusion of C01_membership (C09_stm_sound) needs no acceptance
        "Vacuity.C01.collision_of_fixed_length", "Vacuity.C01.C01_membership_conclusion_needs_no_acceptance",
        # strength note: the batched pairing verdict `final` is not related to the members' aggregate verdicts
        "Vacuity.C01.batch_accepts_member_failing_alone",
    ],
}
