EXTEND = {
    "lean_modules": ["MithrilModel.Vacuity.C16"],
    "theorems": [],
}
