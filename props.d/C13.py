CONFIG = {
    "lean_modules": ["MithrilModel.Properties.C13", "MithrilModel.Handlers.C13"],
    "theorems": [
        "C13.C13_rollback_exact", "C13.C13_kept_roots_cover_kept_blocks", "C13.C13_roots_function_of_blocks",
        "C13.C13_ranges_idempotent", "C13.C13_import_refines", "C13.C13_convergence",
        "C13.C13_early_exit_keeps_invariant", "C13.C13_good_decidable", "C13.C13_driver_loop_is_proven_loop",
        "C13.C13_skip_counterexample", "C13.C13_rollback_below_store_counterexample", "C13.C13_rollback_below_store",
        "C13.C13_partial_range_counterexample", "C13.C13_signing_root_ignores_beyond_aligned",
        "C13.C13_beacon_inside_stored_range_counterexample",
        # the cardano_tx table: primary key = transaction hash, insert or ignore, on delete cascade
        "C13.C13_rollback_removes_transactions", "C13.C13_reincluded_transaction_under_new_block",
        "C13.C13_transactions_refine", "C13.C13_roots_read_through_join", "C13.C13_goodTx_decidable",
        "C13.C13_reinclusion_needs_cascade",
        "Import.runT_refines", "Import.tinv_backward", "Import.tinv_forwards", "Import.cascade_no_orphan",
        "Import.rollback_removes_transactions", "Import.reincluded_under_new_block", "Import.txsIn_rowsOf",
        "Import.rangesRun_join", "Import.poll_forwards_sorted", "Import.goodTxB_iff", "Import.insertTx_ignored",
        "Handlers.C13.rootNew_local", "Handlers.C13.rootLegacy_local",
        # lemmas of the model files the property theorems restate
        "Import.poll_refines", "Import.run_refines", "Import.import_refines", "Import.importF_refines",
        "Import.rangesRun_cached", "Import.rollbackRoots_cached", "Import.rinv_forwards", "Import.rinv_backward",
        "Import.goodB_iff", "Import.import_refines_of_goodB", "Import.below_store_counterexample",
        "Importer.classB_none_iff", "Importer.runX_eq_runF", "Importer.early_exit_rinv", "Importer.signable_aligned",
        "Store.rollback_exact", "Store.rollback_below_store", "Store.stale_blocks_shadow_canonical",
    ],
    "level_text": "Layer 1 is a Lean refinement theorem for EVERY reply script, batch size, target and store: the transliterated "
                  "ChainReaderBlockStreamer::poll_next / BlocksTransactionsImporter loop / repository roll-back / BlockRangeImporter "
                  "compute exactly the naive fold of the consumed chain-sync events cut at the target, and the cached block-range roots "
                  "are the roots of all complete ranges computed from the stored blocks, provided the script is Good (forwards extend the "
                  "chain, the initial echo roll-back is a no-op, every other roll-back targets a known point) and the last complete range is "
                  "covered; hence any two histories that fold to the same chain converge (C13_convergence; fresh import = empty store). "
                  "Transactions are explicit: the model state holds the rows of cardano_tx (transaction hash -> block hash; primary key = the transaction "
                  "hash ALONE, insert or ignore, on delete cascade on every deletion of blocks) and every root is computed from the join with the stored "
                  "blocks. For every Good script in which no chain presented by the node carries a transaction twice (GoodTx, decidable, evaluated by the "
                  "driver) the table is exactly the rows of the stored blocks (C13_transactions_refine): after a roll-back no row of a removed block remains "
                  "(C13_rollback_removes_transactions) and a transaction of an abandoned block that the new fork includes again — in any block — is stored "
                  "under its new block and under no other (C13_reincluded_transaction_under_new_block); the roots read through the join are the roots of "
                  "the stored blocks (C13_roots_read_through_join); without the cascade the re-included transaction is lost (C13_reinclusion_needs_cascade). "
                  "Good is decidable (goodB_iff, classB_none_iff); the Lean driver evaluates it on the replies the REAL streamer consumed in "
                  "every generated import, so the theorem applies to each history it accepts, and classifies the others. The hypotheses are "
                  "necessary: proved counter-examples for the roll-back below the store (class 2), the partially imported range (class 3) and the "
                  "beacon inside a stored range; the class-1 defect (every roll-back to the scan start skipped) is repaired in /repo (f844fb01c) and "
                  "the model is the repaired code. The model is compared after every step (resume point, store calls, class letter, checksum of "
                  "blocks/transactions/both root tables bit-exact, full dump at the end) with the real CardanoChainDataImporter over the real "
                  "streamer and the real sqlite repository, and convergence is evaluated directly on the real code against a fresh import.",
    "level_note": "Layer 2 — what a Cardano node delivers (chain-sync: intersection echo, roll-back to the intersection after a switch, a new "
                  "connection starts at the origin, no FindIntersect while the client has no agency) — is an ASSUMPTION implemented by the harness's "
                  "simulator of the public ChainBlockReader trait; S checks on every sampled import that the real store equals the real importer "
                  "run once from scratch on the simulator's chain. Block numbers are assumed contiguous along a chain (sparse numbering only "
                  "without the no-agency behaviour: there a forward consumed above the target is lost). The refinement theorem does not cover "
                  "pruned stores, the legacy root table is covered by the same theorem with the 'no transaction' skip predicate, the panic of "
                  "the foreign key (a transaction row that is NOT ignored on its primary key and names a block that is not stored) and prune_transaction "
                  "(with its cascade) are modelled in the driver only (compared by K). The sqlite store is opened as the signer and the aggregator open it: "
                  "ConnectionOptions::EnableForeignKeys + build_pool, every store call on a pooled connection; S also reads the table cardano_tx itself "
                  "(not through the join of the read queries): it must hold no row of a block that is not stored. The in-memory test double "
                  "InMemoryChainDataStore is NOT used: its roll-back keeps roots by block number (start < highest remaining block) and it "
                  "appends without ignore — it is not a model of the production repository. Roots are bit-exact (leaf strings, Blake2s-256 and "
                  "the MMR builder run in Lean).",
    "harness": [("harness-chain", "c13")],
    "anchors": ["internal/cardano-node/mithril-cardano-node-chain/src/chain_importer/blocks_and_transactions_importer.rs",
                "internal/cardano-node/mithril-cardano-node-chain/src/chain_importer/block_ranges_importer.rs",
                "internal/cardano-node/mithril-cardano-node-chain/src/chain_importer/service.rs",
                "internal/cardano-node/mithril-cardano-node-chain/src/chain_scanner/chain_reader_block_streamer.rs",
                "internal/cardano-node/mithril-cardano-node-chain/src/chain_scanner/block_scanner.rs",
                "internal/mithril-persistence/src/database/repository/cardano_transaction_repository.rs",
                "internal/mithril-persistence/src/database/query/block_range_root/delete_block_range_root.rs",
                "internal/mithril-persistence/src/database/query/block_range_root_legacy/delete_block_range_root.rs",
                "internal/mithril-persistence/src/database/query/cardano_block/delete_cardano_block_and_transactions.rs",
                "internal/mithril-persistence/src/database/query/cardano_block/get_cardano_block.rs",
                "internal/mithril-persistence/src/database/query/cardano_block/insert_cardano_block.rs",
                "mithril-signer/src/database/repository/cardano_transaction_repository.rs",
                "mithril-common/src/signable_builder/cardano_blocks_transactions.rs",
                "mithril-common/src/signable_builder/cardano_transactions.rs",
                "mithril-common/src/entities/block_range.rs"],
    "rule": "case = one history = (max_roll_forwards_per_poll in {1,2,3,5,10,30,100}, events over fork trees of <= 140 blocks: chain growth 1..100, "
            "chain switches at the tip / a range boundary and its neighbours / the first block / the origin / the highest imported block / inside the "
            "streamer's buffer, forks that RE-INCLUDE the transactions of the blocks they abandon (mempool: the same transaction hash in an earlier / later "
            "block, the same or another block range, the same block number under another block hash, across successive switches; 3 histories out of 4), imports with targets at/below/above the tip, at range boundaries, at batch-cap boundaries and non-monotone, mutations "
            "scheduled after the k-th reply of an import, restarts, reconnections, pruning); 8 witness histories, 140 deterministic grid histories "
            "(roll-back to every buffer position, to range boundaries +-2, targets around the cap, a restart between every two steps), 60 deterministic "
            "re-inclusion histories (6 placements of the abandoned transactions x batch 4/100 x {plain, pruning before the switch, second switch A->B->C, "
            "restart + scan + pruning between the two switches, switch while fork A is being read}) and 800 random "
            "ones (quick) in three modes (clean 60%, prune 15%, wild 25%); the request holds the replies the real streamer consumed; every history is "
            "non-trivial; distinct = distinct request lines",
    "trivial_tags": [],
    "trusted_base": ["rustc/cargo; harness harness-chain/c13: chain-sync simulator (layer 2), recorder around the real store, class predicates mirrored from Lean (compared by K)",
                     "sqlite (the real repository runs on a file database under TMPDIR, WAL mode)",
                     "Lean implementation of Blake2s-256 (MithrilModel/Blake2.lean), validated against the blake2 crate by the C12 harness"],
    "assumptions": ["layer 2: a Cardano node's chain-sync server behaves as the simulator (see level_note)",
                    "block numbers are contiguous along a chain; slot 0 is only the origin",
                    "transaction hashes are fixed-width decimal names (hash order = numeric order of the ids); a block carries 0..3 transactions of its own plus the re-included ones (up to about a dozen in the re-inclusion grid), delivered in either order",
                    "no chain presented by the node carries a transaction twice (GoodTx; evaluated on every import: class letter x otherwise — never generated)"],
    "goals_not_proved": ["C13_refines_all_scripts_goal is FALSE (C13_rollback_below_store_counterexample): known findings C13-rollback-below-store(-panic)",
                         "roots without the coverage hypothesis: FALSE (C13_partial_range_counterexample): known finding C13-partial-range-root",
                         "C13_signing_root_ignores_beyond_goal is FALSE (C13_beacon_inside_stored_range_counterexample): known finding C13-beacon-inside-stored-range; the aligned case is proved",
                         "pruned stores: outside the refinement theorem (known finding C13-rollback-into-pruned-range found by S); covered by K and S only",
                         "early-exit imports do not consult the node (known finding C13-stale-noop-import): the theorem is about consumed events",
                         "layer 2 (producer) is not proved: assumption checked by S on the simulator",
                         "a multi-import induction is given as per-import invariants (C13_import_refines returns Sorted and RInv; C13_early_exit_keeps_invariant), the driver re-evaluates the decidable hypotheses at every import"],
    "timeout": {"quick": 1500, "thorough": 7200},
}
