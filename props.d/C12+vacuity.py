EXTEND = {
    "lean_modules": ["MithrilModel.Vacuity.C12"],
    "theorems": [
        "Vacuity.C12.root_injective_bytes_hyps_unsat", "Vacuity.C12.root_injective_sized_hyps_unsat_bytes", "Vacuity.C12.collision_of_fixed_length",
        "Vacuity.C12.C12_sensitive_same_shape_says_nothing", "Vacuity.C12.C12_content_change_detected_says_nothing",
        "Vacuity.C12.sha_collision_of_fixed_length", "Vacuity.C12.C12_change_detected_any_shape_says_nothing_for_bytes",
        "Vacuity.C12.hsha_false_for_driver_instance", "Vacuity.C12.digester_merge_not_injective", "Vacuity.C12.encM_inj",
        "Vacuity.C12.C12_sensitive_any_shape_witness", "Vacuity.C12.C12_change_detected_any_shape_witness",
        "Vacuity.C12.rootIn_w", "Vacuity.C12.collisionIn_not_automatic",
    ],
}
