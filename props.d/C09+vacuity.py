EXTEND = {
    "lean_modules": ["MithrilModel.Vacuity.C09"],
    "theorems": [
        # findings (vacuity audit)
        "Vacuity.C09.pigeonhole", "Vacuity.C09.hinj_hlen_unsatisfiable", "Vacuity.C09.collision_of_fixed_length",
        "Vacuity.C09.C09_stm_sound_says_nothing", "Vacuity.C09.concat_merge_not_injective",
        "Vacuity.C09.mergeS_not_injective", "Vacuity.C09.pairM_inj",
        # repaired statements with the witness pair named in the two computations' hash logs
        "Vacuity.C09.levelLog_faithful", "Vacuity.C09.C09_stm_sound_witness",
        "Vacuity.C09.C09_stm_root_injective_witness", "Vacuity.C09.sat_witness",
        # C09(b),(c) at byte level (merge a b = H (a ++ b)), no hypothesis on H, named coincidences
        "Vacuity.C09.claim_cases", "Vacuity.C09.proofLog_faithful", "Vacuity.C09.verify_expr",
        "Vacuity.C09.C09_mkproof_sound_witness", "Vacuity.C09.C09_mkproof_sound_witness_sized",
        "Vacuity.C09.sat_mkproof_witness", "Vacuity.C09.C09_map_exec_sound_witness",
        "Vacuity.C09.C09_map_exec_sound_witness_sized", "Vacuity.C09.tableH_unique", "Vacuity.C09.sat_map_witness",
    ],
}
