//! Shared helpers for the correspondence harnesses: seeded PRNG, case writer,
//! canonical formatting. No dependencies.
use std::collections::BTreeMap;
use std::fmt::Write as _;
use std::fs::File;
use std::io::{BufWriter, Write};
use std::path::PathBuf;

/// splitmix64-seeded xoshiro256**; every random choice of a harness derives from one seed.
#[derive(Clone)]
pub struct Rng {
    s: [u64; 4],
}

impl Rng {
    pub fn new(seed: u64) -> Self {
        let mut z = seed;
        let mut next = || {
            z = z.wrapping_add(0x9E3779B97F4A7C15);
            let mut x = z;
            x = (x ^ (x >> 30)).wrapping_mul(0xBF58476D1CE4E5B9);
            x = (x ^ (x >> 27)).wrapping_mul(0x94D049BB133111EB);
            x ^ (x >> 31)
        };
        Rng { s: [next(), next(), next(), next()] }
    }
    pub fn u64(&mut self) -> u64 {
        let r = self.s[1].wrapping_mul(5).rotate_left(7).wrapping_mul(9);
        let t = self.s[1] << 17;
        self.s[2] ^= self.s[0];
        self.s[3] ^= self.s[1];
        self.s[1] ^= self.s[2];
        self.s[0] ^= self.s[3];
        self.s[2] ^= t;
        self.s[3] = self.s[3].rotate_left(45);
        r
    }
    /// uniform in 0..n (n > 0)
    pub fn below(&mut self, n: u64) -> u64 {
        if n == 0 { 0 } else { self.u64() % n }
    }
    pub fn range(&mut self, lo: u64, hi_incl: u64) -> u64 {
        let span = hi_incl.wrapping_sub(lo).wrapping_add(1);
        if span == 0 { self.u64() } else { lo + self.below(span) }
    }
    pub fn bool(&mut self) -> bool {
        self.u64() & 1 == 1
    }
    pub fn chance(&mut self, num: u64, den: u64) -> bool {
        self.below(den) < num
    }
    pub fn pick<'a, T>(&mut self, xs: &'a [T]) -> &'a T {
        &xs[self.below(xs.len() as u64) as usize]
    }
    pub fn bytes(&mut self, n: usize) -> Vec<u8> {
        (0..n).map(|_| self.u64() as u8).collect()
    }
    pub fn shuffle<T>(&mut self, xs: &mut [T]) {
        for i in (1..xs.len()).rev() {
            let j = self.below(i as u64 + 1) as usize;
            xs.swap(i, j);
        }
    }
    pub fn fork(&mut self) -> Rng {
        Rng::new(self.u64())
    }
}

pub struct Args {
    pub tier: String,
    pub seed: u64,
    pub out: PathBuf,
    pub only: Option<usize>,
    pub extra: BTreeMap<String, String>,
}

impl Args {
    pub fn parse() -> Args {
        let mut tier = "quick".to_string();
        let mut seed = 1u64;
        let mut out = PathBuf::from(".");
        let mut only = None;
        let mut extra = BTreeMap::new();
        let mut it = std::env::args().skip(1);
        while let Some(a) = it.next() {
            let v = it.next().unwrap_or_default();
            match a.as_str() {
                "--tier" => tier = v,
                "--seed" => seed = v.parse().unwrap_or(1),
                "--out" => out = PathBuf::from(v),
                "--only" => only = v.parse().ok(),
                other => {
                    extra.insert(other.trim_start_matches("--").to_string(), v);
                }
            }
        }
        Args { tier, seed, out, only, extra }
    }
    pub fn thorough(&self) -> bool {
        self.tier == "thorough"
    }
}

/// Writes the three per-run files the `check` script consumes:
/// `req.txt` (one request per line, piped to the Lean driver),
/// `impl.txt` (`tag<TAB>canonical output of the implementation`),
/// `sfail.jsonl` (specification failures observed directly on the implementation),
/// and `meta.json` (counters, witness replays).
pub struct Sink {
    req: BufWriter<File>,
    imp: BufWriter<File>,
    sfail: BufWriter<File>,
    out: PathBuf,
    pub n: usize,
    pub tags: BTreeMap<String, u64>,
    pub witnesses: BTreeMap<String, String>,
    pub notes: BTreeMap<String, String>,
    only: Option<usize>,
}

fn jstr(s: &str) -> String {
    let mut o = String::from("\"");
    for c in s.chars() {
        match c {
            '"' => o.push_str("\\\""),
            '\\' => o.push_str("\\\\"),
            '\n' => o.push_str("\\n"),
            '\t' => o.push_str("\\t"),
            c if (c as u32) < 0x20 => {
                let _ = write!(o, "\\u{:04x}", c as u32);
            }
            c => o.push(c),
        }
    }
    o.push('"');
    o
}

impl Sink {
    pub fn new(args: &Args) -> Sink {
        std::fs::create_dir_all(&args.out).unwrap();
        let f = |n: &str| BufWriter::new(File::create(args.out.join(n)).unwrap());
        Sink {
            req: f("req.txt"),
            imp: f("impl.txt"),
            sfail: f("sfail.jsonl"),
            out: args.out.clone(),
            n: 0,
            tags: BTreeMap::new(),
            witnesses: BTreeMap::new(),
            notes: BTreeMap::new(),
            only: args.only,
        }
    }
    /// index the next case will get
    pub fn next_index(&self) -> usize {
        self.n
    }
    /// true if the case with the next index has to be executed (replay filter)
    pub fn wanted(&self) -> bool {
        self.only.map(|o| o == self.n).unwrap_or(true)
    }
    /// skip one index without running it (replay mode)
    pub fn skip(&mut self) {
        self.n += 1;
    }
    /// record one K case: request line for the model and the implementation's output
    pub fn case(&mut self, tag: &str, req: &str, imp: &str) -> usize {
        debug_assert!(!req.contains('\n') && !imp.contains('\n'));
        let idx = self.n;
        if self.only.map(|o| o == idx).unwrap_or(true) {
            writeln!(self.req, "{}", req).unwrap();
            writeln!(self.imp, "{}\t{}\t{}", idx, tag, imp).unwrap();
            *self.tags.entry(tag.to_string()).or_insert(0) += 1;
        }
        self.n += 1;
        idx
    }
    /// record a specification failure observed on the implementation
    pub fn sfail(&mut self, idx: usize, class: &str, what: &str, case: &str) {
        writeln!(
            self.sfail,
            "{{\"idx\":{},\"class\":{},\"what\":{},\"case\":{}}}",
            idx,
            jstr(class),
            jstr(what),
            jstr(case)
        )
        .unwrap();
    }
    /// record the result of replaying a known-finding witness: "reproduced" / "not-reproduced"
    pub fn witness(&mut self, id: &str, reproduced: bool, detail: &str) {
        self.witnesses.insert(
            id.to_string(),
            format!("{}|{}", if reproduced { "reproduced" } else { "not-reproduced" }, detail),
        );
    }
    pub fn note(&mut self, k: &str, v: &str) {
        self.notes.insert(k.to_string(), v.to_string());
    }
    pub fn finish(mut self) {
        self.req.flush().unwrap();
        self.imp.flush().unwrap();
        self.sfail.flush().unwrap();
        let mut m = String::from("{");
        let _ = write!(m, "\"cases\":{},\"tags\":{{", self.n);
        let mut first = true;
        for (k, v) in &self.tags {
            if !first { m.push(','); }
            first = false;
            let _ = write!(m, "{}:{}", jstr(k), v);
        }
        m.push_str("},\"witnesses\":{");
        first = true;
        for (k, v) in &self.witnesses {
            if !first { m.push(','); }
            first = false;
            let _ = write!(m, "{}:{}", jstr(k), jstr(v));
        }
        m.push_str("},\"notes\":{");
        first = true;
        for (k, v) in &self.notes {
            if !first { m.push(','); }
            first = false;
            let _ = write!(m, "{}:{}", jstr(k), jstr(v));
        }
        m.push_str("}}");
        std::fs::write(self.out.join("meta.json"), m).unwrap();
    }
}

pub fn hex(b: &[u8]) -> String {
    if b.is_empty() {
        return "-".to_string();
    }
    let mut s = String::with_capacity(b.len() * 2);
    for x in b {
        let _ = write!(s, "{:02x}", x);
    }
    s
}

pub fn list<T: std::fmt::Display>(xs: &[T]) -> String {
    let mut s = String::from("[");
    for (i, x) in xs.iter().enumerate() {
        if i > 0 { s.push(','); }
        let _ = write!(s, "{}", x);
    }
    s.push(']');
    s
}

thread_local! {
    static IN_CATCH: std::cell::Cell<bool> = const { std::cell::Cell::new(false) };
}

/// run `f`, mapping a panic to `Err(message)`
pub fn catch<T>(f: impl FnOnce() -> T + std::panic::UnwindSafe) -> Result<T, String> {
    let prev = IN_CATCH.with(|c| c.replace(true));
    let r = std::panic::catch_unwind(f);
    IN_CATCH.with(|c| c.set(prev));
    match r {
        Ok(v) => Ok(v),
        Err(e) => Err(if let Some(s) = e.downcast_ref::<&str>() {
            s.to_string()
        } else if let Some(s) = e.downcast_ref::<String>() {
            s.clone()
        } else {
            "panic".to_string()
        }),
    }
}

/// silence the panic message of panics that `catch` turns into outcomes; other panics still print
pub fn quiet_panics() {
    let default = std::panic::take_hook();
    std::panic::set_hook(Box::new(move |info| {
        if !IN_CATCH.with(|c| c.get()) {
            default(info);
        }
    }));
}
