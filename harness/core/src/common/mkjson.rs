//! JSON view of `MKProof` / `MKMapProof<BlockRange>` (private fields) used to build forged proofs the way a
//! hostile aggregator would, and to print them in the line protocol of the Lean driver.
#![allow(dead_code)]
use hutil::hex;
use mithril_common::crypto_helper::{MKMapProof, MKProof, MKTreeNode};
use mithril_common::entities::BlockRange;
use serde_json::{json, Value};

pub fn node_bytes(v: &Value) -> Vec<u8> {
    v["hash"].as_array().unwrap().iter().map(|x| x.as_u64().unwrap() as u8).collect()
}
pub fn node_json(b: &[u8]) -> Value {
    json!({ "hash": b })
}

#[derive(Clone)]
pub struct P {
    pub root: Vec<u8>,
    pub size: u64,
    pub leaves: Vec<(u64, Vec<u8>)>,
    pub items: Vec<Vec<u8>>,
}
impl P {
    pub fn from_proof(p: &MKProof) -> P {
        let v = serde_json::to_value(p).unwrap();
        P {
            root: node_bytes(&v["inner_root"]),
            size: v["inner_proof_size"].as_u64().unwrap(),
            leaves: v["inner_leaves"].as_array().unwrap().iter().map(|l| (l[0].as_u64().unwrap(), node_bytes(&l[1]))).collect(),
            items: v["inner_proof_items"].as_array().unwrap().iter().map(node_bytes).collect(),
        }
    }
    pub fn to_json(&self) -> Value {
        json!({
            "inner_root": node_json(&self.root),
            "inner_leaves": self.leaves.iter().map(|(p, l)| json!([p, node_json(l)])).collect::<Vec<_>>(),
            "inner_proof_size": self.size,
            "inner_proof_items": self.items.iter().map(|i| node_json(i)).collect::<Vec<_>>(),
        })
    }
    pub fn to_proof(&self) -> Option<MKProof> {
        serde_json::from_value(self.to_json()).ok()
    }
    pub fn line(&self) -> String {
        format!(
            "root={} size={} leaves=[{}] items=[{}]",
            hex(&self.root), self.size,
            self.leaves.iter().map(|(p, l)| format!("({},{})", p, hex(l))).collect::<Vec<_>>().join(","),
            self.items.iter().map(|i| hex(i)).collect::<Vec<_>>().join(",")
        )
    }
    pub fn nested(&self, subs: &str) -> String {
        format!(
            "({},{},[{}],[{}],[{}])",
            hex(&self.root), self.size,
            self.leaves.iter().map(|(p, l)| format!("({},{})", p, hex(l))).collect::<Vec<_>>().join(","),
            self.items.iter().map(|i| hex(i)).collect::<Vec<_>>().join(","), subs
        )
    }
}


pub fn merge(a: &[u8], b: &[u8]) -> Vec<u8> {
    (MKTreeNode::new(a.to_vec()) + MKTreeNode::new(b.to_vec())).to_vec()
}


#[derive(Clone)]
pub struct MP {
    pub master: P,
    pub subs: Vec<(BlockRange, Vec<u8>, MP)>, // key, key bytes, sub-proof
}
impl MP {
    pub fn from_value(v: &Value) -> MP {
        let master: MKProof = serde_json::from_value(v["master_proof"].clone()).unwrap();
        let subs = v["sub_proofs"].as_array().unwrap().iter().map(|s| {
            let k: BlockRange = serde_json::from_value(s[0].clone()).unwrap();
            let kb: MKTreeNode = k.clone().into();
            (k, kb.to_vec(), MP::from_value(&s[1]))
        }).collect();
        MP { master: P::from_proof(&master), subs }
    }
    pub fn to_json(&self) -> Value {
        json!({
            "master_proof": self.master.to_json(),
            "sub_proofs": self.subs.iter().map(|(k, _, p)| json!([serde_json::to_value(k).unwrap(), p.to_json()])).collect::<Vec<_>>(),
        })
    }
    pub fn line(&self) -> String {
        let subs = self.subs.iter().map(|(_, kb, p)| format!("({},{})", hex(kb), p.line())).collect::<Vec<_>>().join(",");
        self.master.nested(&subs)
    }
    pub fn all_claimed(&self, out: &mut Vec<Vec<u8>>) {
        for l in &self.master.leaves { out.push(l.1.clone()); }
        for s in &self.subs { s.2.all_claimed(out); }
    }
}

