//! Shared STM fixture for the C01 / C02 / C06 harnesses: real keys, registration, signers.
#![allow(dead_code)]
use mithril_stm::{
    AggregateSignature, AggregateSignatureType, AggregateVerificationKey, AncillaryGenesisData, AncillaryProofInput,
    Clerk, ClosedKeyRegistration, Initializer, KeyRegistration, MithrilMembershipDigest, Parameters, Signer,
    SingleSignature, Stake, VerificationKeyForConcatenation,
};
use rand_chacha::ChaCha20Rng;
use rand_core::SeedableRng;

pub type D = MithrilMembershipDigest;

pub struct Fixture {
    pub params: Parameters,
    pub signers: Vec<Signer<D>>,               // in registration (arrival) order
    pub initializers: Vec<Initializer>,
    pub closed: ClosedKeyRegistration,
    pub clerk: Clerk<D>,
    pub avk: AggregateVerificationKey<D>,
    /// (vk, stake) by signer index (= Merkle tree slot)
    pub by_slot: Vec<(VerificationKeyForConcatenation, Stake)>,
}

pub fn fixture(seed: u64, stakes: &[u64], params: Parameters) -> Fixture {
    let mut s = [0u8; 32];
    s[..8].copy_from_slice(&seed.to_le_bytes());
    let mut rng = ChaCha20Rng::from_seed(s);
    let mut key_reg = KeyRegistration::initialize();
    let mut initializers = vec![];
    for st in stakes {
        let p = Initializer::new(params, *st, &mut rng);
        key_reg.register_by_entry(&p.clone().try_into().unwrap()).unwrap();
        initializers.push(p);
    }
    let closed = key_reg.close_registration(&params).unwrap();
    let signers: Vec<Signer<D>> = initializers.iter().map(|p| p.clone().try_create_signer::<D>(&closed).unwrap()).collect();
    let clerk = Clerk::new_clerk_from_closed_key_registration(&params, &closed);
    let avk = clerk.compute_aggregate_verification_key();
    let n = stakes.len();
    let by_slot = (0..n as u64)
        .map(|i| clerk.get_concatenation_registered_party_for_index(&i).unwrap())
        .collect();
    Fixture { params, signers, initializers, closed, clerk, avk, by_slot }
}

pub fn ancillary() -> AncillaryProofInput {
    AncillaryProofInput::new(None, AncillaryGenesisData::new())
}

pub fn aggregate(f: &Fixture, clerk: &Clerk<D>, sigs: &[SingleSignature], msg: &[u8]) -> Result<AggregateSignature<D>, String> {
    let _ = f;
    clerk
        .aggregate_signatures_with_type(sigs, msg, AggregateSignatureType::Concatenation, ancillary())
        .map(|(a, _)| a)
        .map_err(|e| format!("{:?}", e))
}
