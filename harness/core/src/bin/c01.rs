//! C01 harness: real `AggregateSignature::{verify, batch_verify}` on honest aggregates and on every
//! structural mutation applied through the JSON form, versus the Lean model `StmVerify.verify`.
//! Oracle inputs of the model (computed with the real primitives, separately from the verifier):
//! lottery verdict per (signature, index, claimed stake) with the working tree's eligibility.rs,
//! batch-path verdict through the cfg-guarded wrapper, BLS validity of every signature under its
//! claimed key. S: accepted ⇒ the six clauses of the property, evaluated here on the implementation.
#![allow(dead_code, unused_macros, unused_imports)]
pub type Stake = u64;
pub type PhiFValue = f64;
macro_rules! cfg_num_integer { ($($item:item)*) => { $( $item )* }; }
macro_rules! cfg_rug { ($($item:item)*) => {}; }
#[path = "/repo/mithril-stm/src/proof_system/concatenation/eligibility.rs"]
mod eligibility;
#[path = "../common/stmsetup.rs"]
mod stmsetup;

use blake2::digest::{consts::U64, Digest};
use blake2::Blake2b;
use hutil::{catch, Args, Rng, Sink};
use mithril_stm::verif_hooks::{bls_aggregate, verify_batch, RawLeaf};
use mithril_stm::{AggregateSignature, Parameters, SingleSignature, VerificationKeyForConcatenation};
use serde_json::{json, Value};
use std::collections::BTreeMap;
use stmsetup::*;

// ---- G1 arithmetic on compressed points (blst FFI), used for the coefficient-cancellation attack
fn p1_from(b: &[u8]) -> blst::blst_p1 {
    let mut a = blst::blst_p1_affine::default();
    let mut p = blst::blst_p1::default();
    unsafe { blst::blst_p1_uncompress(&mut a, b.as_ptr()); blst::blst_p1_from_affine(&mut p, &a); }
    p
}
fn p1_to(p: &blst::blst_p1) -> Vec<u8> {
    let mut out = [0u8; 48];
    unsafe { blst::blst_p1_compress(out.as_mut_ptr(), p) };
    out.to_vec()
}
fn p1_add(a: &blst::blst_p1, b: &blst::blst_p1) -> blst::blst_p1 {
    let mut r = blst::blst_p1::default();
    unsafe { blst::blst_p1_add_or_double(&mut r, a, b) };
    r
}
fn p1_neg(a: &blst::blst_p1) -> blst::blst_p1 {
    let mut r = *a;
    unsafe { blst::blst_p1_cneg(&mut r, true) };
    r
}
fn p1_mul128(a: &blst::blst_p1, scalar_le: &[u8]) -> blst::blst_p1 {
    let mut r = blst::blst_p1::default();
    unsafe { blst::blst_p1_mult(&mut r, a, scalar_le.as_ptr(), 128) };
    r
}
/// a point T != 0 of E(Fp) whose order divides the cofactor (no component in the prime-order group G1): r * P for the
/// first curve point P with a small abscissa, r = order of G1
fn cofactor_point() -> Option<blst::blst_p1> {
    const GROUP_ORDER_LE: [u8; 32] = [
        0x01, 0x00, 0x00, 0x00, 0xff, 0xff, 0xff, 0xff, 0xfe, 0x5b, 0xfe, 0xff, 0x02, 0xa4, 0xbd, 0x53,
        0x05, 0xd8, 0xa1, 0x09, 0x08, 0xd8, 0x39, 0x33, 0x48, 0x7d, 0x9d, 0x29, 0x53, 0xa7, 0xed, 0x73,
    ];
    for x in 1u8..=255 {
        let mut compressed = [0u8; 48];
        compressed[0] = 0x80;
        compressed[47] = x;
        unsafe {
            let mut affine = blst::blst_p1_affine::default();
            if blst::blst_p1_uncompress(&mut affine, compressed.as_ptr()) != blst::BLST_ERROR::BLST_SUCCESS { continue; }
            let mut point = blst::blst_p1::default();
            blst::blst_p1_from_affine(&mut point, &affine);
            let mut torsion = blst::blst_p1::default();
            blst::blst_p1_mult(&mut torsion, &point, GROUP_ORDER_LE.as_ptr(), 255);
            if blst::blst_p1_is_inf(&torsion) { continue; }
            return Some(torsion);
        }
    }
    None
}

/// the specification of the coefficients of `BlsSignature::aggregate`: e_i = Blake2b-128(sig_1 ‖ … ‖ sig_n ‖ be64(i))
fn spec_coefficients(sigs: &[Vec<u8>]) -> Vec<Vec<u8>> {
    use blake2::digest::consts::U16;
    let mut h = Blake2b::<U16>::new();
    for s in sigs { h.update(s); }
    (0..sigs.len()).map(|i| { let mut hi = h.clone(); hi.update((i as u64).to_be_bytes()); hi.finalize().to_vec() }).collect()
}

/// oracle of the LAST step of `batch_verify`: the per-member aggregates (hook H4) summed WITHOUT weights and checked by one
/// `aggregate_verify` over msg ‖ root. It is NOT the conjunction of the members' own aggregate checks: errors of
/// different members can cancel.
fn batch_final(root: &[u8], msg: &[u8], members: &[(Value, Parameters)]) -> u8 {
    use blst::min_sig::{AggregateSignature as BlstAgg, PublicKey, Signature};
    let mut sigs = vec![];
    let mut pks = vec![];
    for (v, _) in members {
        let Some(l) = v["signatures"].as_array() else { return 0 };
        let vk_bytes: Vec<Vec<u8>> = l.iter().map(|s| bytes_of(&s[1][0])).collect();
        let sig_bytes: Vec<Vec<u8>> = l.iter().map(|s| bytes_of(&s[0]["sigma"])).collect();
        let Some((vk, sg)) = bls_aggregate(&vk_bytes, &sig_bytes) else { return 0 };
        let (Ok(pk), Ok(sg)) = (PublicKey::from_bytes(&vk), Signature::from_bytes(&sg)) else { return 0 };
        pks.push(pk);
        sigs.push(sg);
    }
    if sigs.is_empty() { return 1; }
    let Ok(sum) = BlstAgg::aggregate(&sigs.iter().collect::<Vec<_>>(), false) else { return 0 };
    let mut m = msg.to_vec();
    m.extend_from_slice(root);
    let msgs: Vec<&[u8]> = members.iter().map(|_| m.as_slice()).collect();
    (sum.to_signature().aggregate_verify(false, &msgs, &[], &pks.iter().collect::<Vec<_>>(), false) == blst::BLST_ERROR::BLST_SUCCESS) as u8
}

fn bytes_of(v: &Value) -> Vec<u8> {
    v.as_array().map(|a| a.iter().map(|x| x.as_u64().unwrap_or(0) as u8).collect()).unwrap_or_default()
}

struct Ctx<'a> {
    f: &'a Fixture,
    msg: Vec<u8>,
    root: Vec<u8>,
    nr_leaves: usize,
    total: u64,
    sigma_ids: BTreeMap<Vec<u8>, usize>,
    vk_ids: BTreeMap<Vec<u8>, usize>,
}

fn class_of(e: &str) -> &'static str {
    if e.contains("is higher than what the security parameter allows") { "indexBound" }
    else if e.contains("Lottery for this epoch was lost") { "lotteryLost" }
    else if e.contains("Indices are not unique") { "indexNotUnique" }
    else if e.contains("Not enough signatures") { "notEnough" }
    else if e.contains("Batch path does not verify") || e.contains("Batch proof is invalid") || e.contains("Could not verify leave membership") { "batchPath" }
    else { "aggInvalid" }
}

impl<'a> Ctx<'a> {
    fn sid(&mut self, b: Vec<u8>) -> usize {
        let n = self.sigma_ids.len();
        *self.sigma_ids.entry(b).or_insert(n)
    }
    fn vid(&mut self, b: Vec<u8>) -> usize {
        let n = self.vk_ids.len();
        *self.vk_ids.entry(b).or_insert(n)
    }
    fn won(&self, params: &Parameters, sigma: &[u8], index: u64, stake: u64) -> bool {
        let mut h = Blake2b::<U64>::new();
        h.update(b"map");
        h.update(&self.msg);
        h.update(&self.root);
        h.update(index.to_le_bytes());
        h.update(sigma);
        let mut ev = [0u8; 64];
        ev.copy_from_slice(&h.finalize());
        let (phi, total) = (params.phi_f, self.total);
        catch(move || eligibility::is_lottery_won(phi, ev, stake, total)).unwrap_or(false)
    }
    /// BLS validity of `sigma` under the claimed key for msg ‖ root (through the public single verifier
    /// on an index-free copy)
    fn bls_ok(&self, params: &Parameters, sigma: &Value, vk: &Value, stake: u64) -> bool {
        let s: Option<SingleSignature> = serde_json::from_value(json!({"sigma": sigma, "indexes": [], "signer_index": 0})).ok();
        let k: Option<VerificationKeyForConcatenation> = serde_json::from_value(vk.clone()).ok();
        match (s, k) {
            (Some(s), Some(k)) => s.verify(params, &k, &stake, &self.f.avk, &self.msg).is_ok(),
            _ => false,
        }
    }
    /// model request (one member) + S-relevant facts
    fn member(&mut self, params: &Parameters, agg: &Value) -> Option<(String, Facts)> {
        let sigs = agg["signatures"].as_array()?;
        let mut parts = vec![];
        let mut leaves = vec![];
        let mut all_bls = true;
        let mut facts = Facts::default();
        for s in sigs {
            let sigma = bytes_of(&s[0]["sigma"]);
            let idx: Vec<u64> = s[0]["indexes"].as_array()?.iter().map(|x| x.as_u64().unwrap()).collect();
            let vkb = bytes_of(&s[1][0]);
            let stake = s[1][1].as_u64()?;
            let bits: Vec<u8> = idx.iter().map(|i| self.won(params, &sigma, *i, stake) as u8).collect();
            let bls = self.bls_ok(params, &s[0]["sigma"], &s[1][0], stake);
            all_bls &= bls;
            let mut l = [0u8; 104];
            if vkb.len() == 96 { l[..96].copy_from_slice(&vkb); }
            l[96..].copy_from_slice(&stake.to_be_bytes());
            leaves.push(RawLeaf(l));
            facts.idx.extend(idx.iter().cloned());
            facts.all_won &= bits.iter().all(|b| *b == 1);
            facts.all_lt_m &= idx.iter().all(|i| *i < params.m);
            let committed = self.f.by_slot.iter().any(|(vk, st)| vk.to_bytes().to_vec() == vkb && *st == stake);
            facts.all_committed &= committed;
            let (sid, vid) = (self.sid(sigma), self.vid(vkb));
            parts.push(format!("({},{},{},{},{})", sid, hutil::list(&idx), vid, stake, hutil::list(&bits)));
        }
        facts.all_bls = all_bls;
        let values: Vec<Vec<u8>> = agg["batch_proof"]["values"].as_array()?.iter().map(bytes_of).collect();
        let indices: Vec<usize> = agg["batch_proof"]["indices"].as_array()?.iter().map(|x| x.as_u64().unwrap() as usize).collect();
        let (root, nr) = (self.root.clone(), self.nr_leaves);
        let batch = match catch(move || verify_batch(root, nr, &leaves, values, indices)) { Ok(true) => 1, Ok(false) => 0, Err(_) => 2 };
        facts.batch_ok = batch == 1;
        // BLS aggregate: empty signature list is an error of `aggregate`
        let agg_bit = (all_bls && !sigs.is_empty()) as u8;
        Some((format!("({},{},[{}],{},{})", params.m, params.k, parts.join(","), batch, agg_bit), facts))
    }
}

#[derive(Clone)]
struct Facts { idx: Vec<u64>, all_won: bool, all_lt_m: bool, all_committed: bool, all_bls: bool, batch_ok: bool }
impl Default for Facts { fn default() -> Self { Facts { idx: vec![], all_won: true, all_lt_m: true, all_committed: true, all_bls: true, batch_ok: true } } }

fn real_verify(f: &Fixture, params: &Parameters, agg: &Value, msg: &[u8]) -> String {
    let parsed: Option<AggregateSignature<D>> = serde_json::from_value(agg.clone()).ok();
    match parsed {
        None => "undecodable".into(),
        Some(a) => {
            let (p, m) = (*params, msg.to_vec());
            match catch(std::panic::AssertUnwindSafe(|| a.verify(&m, &f.avk, &p, None, None))) {
                Ok(Ok(())) => "ok".into(),
                Ok(Err(e)) => format!("err {}", class_of(&format!("{:?}", e))),
                Err(_) => "panic".into(),
            }
        }
    }
}

fn slot_of(agg: &Value) -> u64 { agg["batch_proof"]["indices"][0].as_u64().unwrap_or(0) }

fn s_check(sink: &mut Sink, i: usize, out: &str, params: &Parameters, facts: &Facts, req: &str) {
    if out != "ok" { return; }
    let mut d = facts.idx.clone();
    d.sort();
    d.dedup();
    if (d.len() as u64) < params.k { sink.sfail(i, "quorum", "accepted with fewer than k distinct indices", req); }
    if d.len() != facts.idx.len() { sink.sfail(i, "index-unique", "accepted with a repeated index", req); }
    if !facts.all_lt_m { sink.sfail(i, "index-bound", "accepted with an index outside [0, m)", req); }
    if !facts.all_won { sink.sfail(i, "lottery", "accepted with an index that was not won for the claimed stake", req); }
    if !facts.all_committed { sink.sfail(i, "membership", "accepted with a (key, stake) pair that is not committed by the aggregate key", req); }
    if !facts.all_bls { sink.sfail(i, "signature", "accepted although a contributing signature is not valid under its key", req); }
}

fn main() {
    hutil::quiet_panics();
    let args = Args::parse();
    let mut rng = Rng::new(args.seed);
    let mut sink = Sink::new(&args);
    let worlds = if args.thorough() { 400 } else { 60 };

    for w in 0..worlds {
        let n = rng.range(1, 8) as usize;
        let stakes: Vec<u64> = match rng.below(3) {
            0 => vec![1; n],
            1 => (0..n).map(|i| if i == 0 { 1_000_000 } else { 1 + rng.below(3) }).collect(),
            _ => (0..n).map(|_| rng.range(1, 1000)).collect(),
        };
        let m = rng.range(4, 24);
        let phi = *rng.pick(&[0.2, 0.65, 1.0, 1.0]);
        let mut params = Parameters { m, k: 1, phi_f: phi };
        let f = fixture(args.seed.wrapping_mul(7919) + w as u64, &stakes, params);
        let msg = rng.bytes(32);
        let other_msg = rng.bytes(32);
        let honest: Vec<SingleSignature> = f.signers.iter().filter_map(|s| s.create_single_signature(&msg).ok()).collect();
        if honest.is_empty() { continue; }
        let cover: std::collections::BTreeSet<u64> = honest.iter().flat_map(|s| s.get_concatenation_signature_indices()).collect();
        let k = if rng.chance(2, 3) { cover.len() as u64 } else { rng.range(1, cover.len() as u64) };
        params.k = k;
        let clerk = mithril_stm::Clerk::<D>::new_clerk_from_closed_key_registration(&params, &f.closed);
        let agg = match aggregate(&f, &clerk, &honest, &msg) { Ok(a) => a, Err(_) => continue };
        let honest_v = serde_json::to_value(&agg).unwrap();
        let avk_v = serde_json::to_value(f.avk.to_concatenation_aggregate_verification_key()).unwrap();
        let mut ctx = Ctx {
            f: &f, msg: msg.clone(), root: bytes_of(&avk_v["mt_commitment"]["root"]),
            nr_leaves: avk_v["mt_commitment"]["nr_leaves"].as_u64().unwrap() as usize,
            total: avk_v["total_stake"].as_u64().unwrap(), sigma_ids: BTreeMap::new(), vk_ids: BTreeMap::new(),
        };
        // material for mutations
        let other_sigs: Vec<SingleSignature> = f.signers.iter().filter_map(|s| s.create_single_signature(&other_msg).ok()).collect();
        let foreign = fixture(args.seed.wrapping_mul(31) + 1000 + w as u64, &[5], params);
        let foreign_vk = serde_json::to_value(foreign.by_slot[0].0).unwrap();
        let foreign_sig = foreign.signers[0].create_single_signature(&msg).ok();

        let mut cases: Vec<(&'static str, Value, Parameters)> = vec![("honest", honest_v.clone(), params)];
        let ns = honest_v["signatures"].as_array().unwrap().len();
        let a = rng.below(ns as u64) as usize;
        let b = (a + 1) % ns;
        let mutate = |tag: &'static str, g: &mut dyn FnMut(&mut Value), cases: &mut Vec<(&'static str, Value, Parameters)>| {
            let mut v = honest_v.clone();
            g(&mut v);
            cases.push((tag, v, params));
        };
        // index values at the m boundary
        for (tag, val) in [("idx-m-1", m - 1), ("idx-m", m), ("idx-m+1", m + 1), ("idx-max", u64::MAX)] {
            mutate(tag, &mut |v| { let l = v["signatures"][a][0]["indexes"].as_array_mut().unwrap(); let n = l.len(); if n > 0 { l[n - 1] = json!(val); } else { l.push(json!(val)); } }, &mut cases);
        }
        // an extra index appended (won or not)
        let extra = rng.below(m);
        mutate("idx-appended", &mut |v| { v["signatures"][a][0]["indexes"].as_array_mut().unwrap().push(json!(extra)); }, &mut cases);
        // index of A copied into B, index repeated inside A
        let ia = honest_v["signatures"][a][0]["indexes"][0].clone();
        if !ia.is_null() {
            mutate("idx-copied-across", &mut |v| { v["signatures"][b][0]["indexes"].as_array_mut().unwrap().push(ia.clone()); }, &mut cases);
            mutate("idx-repeated", &mut |v| { v["signatures"][a][0]["indexes"].as_array_mut().unwrap().push(ia.clone()); }, &mut cases);
        }
        // indices dropped to k-1
        mutate("dropped-to-k-1", &mut |v| {
            let mut keep = k.saturating_sub(1);
            for s in v["signatures"].as_array_mut().unwrap() {
                let l = s[0]["indexes"].as_array_mut().unwrap();
                let take = (l.len() as u64).min(keep);
                l.truncate(take as usize);
                keep -= take;
            }
        }, &mut cases);
        // exactly k (boundary, stays valid)
        mutate("trimmed-to-k", &mut |v| {
            let mut keep = k;
            for s in v["signatures"].as_array_mut().unwrap() {
                let l = s[0]["indexes"].as_array_mut().unwrap();
                let take = (l.len() as u64).min(keep);
                l.truncate(take as usize);
                keep -= take;
            }
        }, &mut cases);
        // claimed party: slots swapped, stake +-1 / huge, other registered key, unregistered key
        if ns >= 2 {
            mutate("parties-swapped", &mut |v| { let x = v["signatures"][a][1].clone(); v["signatures"][a][1] = v["signatures"][b][1].clone(); v["signatures"][b][1] = x; }, &mut cases);
            mutate("signatures-reordered", &mut |v| { v["signatures"].as_array_mut().unwrap().swap(a, b); }, &mut cases);
            mutate("vk-other-registered", &mut |v| { v["signatures"][a][1][0] = honest_v["signatures"][b][1][0].clone(); }, &mut cases);
            mutate("sigma-of-other-party", &mut |v| { v["signatures"][a][0]["sigma"] = honest_v["signatures"][b][0]["sigma"].clone(); }, &mut cases);
        }
        let st = honest_v["signatures"][a][1][1].as_u64().unwrap();
        for (tag, ns_) in [("stake+1", st.wrapping_add(1)), ("stake-1", st.wrapping_sub(1)), ("stake-total", ctx.total), ("stake-2x", st.saturating_mul(2).min(ctx.total))] {
            mutate(tag, &mut |v| { v["signatures"][a][1][1] = json!(ns_); }, &mut cases);
        }
        mutate("vk-unregistered", &mut |v| { v["signatures"][a][1][0] = foreign_vk.clone(); }, &mut cases);
        if let Some(fs) = &foreign_sig {
            let fv = serde_json::to_value(fs).unwrap();
            mutate("own-key-party", &mut |v| { v["signatures"][a][0]["sigma"] = fv["sigma"].clone(); v["signatures"][a][1][0] = foreign_vk.clone(); }, &mut cases);
        }
        // sigma over another message
        if let Some(os) = other_sigs.iter().find(|s| s.signer_index == honest_v["signatures"][a][0]["signer_index"].as_u64().unwrap()) {
            let ov = serde_json::to_value(os).unwrap();
            mutate("sigma-other-message", &mut |v| { v["signatures"][a][0]["sigma"] = ov["sigma"].clone(); }, &mut cases);
        }
        mutate("signer-index-field-altered", &mut |v| { v["signatures"][a][0]["signer_index"] = json!(999u64); }, &mut cases);
        // batch path
        let nv = honest_v["batch_proof"]["values"].as_array().unwrap().len();
        if nv > 0 {
            let j = rng.below(nv as u64) as usize;
            mutate("path-value-flipped", &mut |v| { let x = v["batch_proof"]["values"][j][3].as_u64().unwrap(); v["batch_proof"]["values"][j][3] = json!(x ^ 1); }, &mut cases);
            mutate("path-value-dropped", &mut |v| { v["batch_proof"]["values"].as_array_mut().unwrap().remove(j); }, &mut cases);
            mutate("path-value-duplicated", &mut |v| { let x = v["batch_proof"]["values"][j].clone(); v["batch_proof"]["values"].as_array_mut().unwrap().insert(j, x); }, &mut cases);
            mutate("path-value-odd-length", &mut |v| { v["batch_proof"]["values"][j].as_array_mut().unwrap().push(json!(0)); }, &mut cases);
        }
        mutate("path-index-altered", &mut |v| { let l = v["batch_proof"]["indices"].as_array_mut().unwrap(); let x = l[0].as_u64().unwrap(); l[0] = json!((x + 1) % (n as u64 + 1)); }, &mut cases);
        mutate("path-index-duplicated", &mut |v| { let l = v["batch_proof"]["indices"].as_array_mut().unwrap(); let x = l[0].clone(); l.insert(0, x); }, &mut cases);
        mutate("path-index-huge", &mut |v| { let l = v["batch_proof"]["indices"].as_array_mut().unwrap(); let n = l.len(); l[n - 1] = json!(u64::MAX); }, &mut cases);
        mutate("signature-removed", &mut |v| { v["signatures"].as_array_mut().unwrap().remove(a); }, &mut cases);
        // ---- a registered slot listed TWICE in the batch path: the genuine (key, stake) pair with its genuine path,
        // then the same slot again under a claimed stake (the party's own key, so every signature is valid and every
        // index is won for the CLAIMED stake). The two entries are never siblings: a batch verifier that does not
        // insist on ONE node at the top compares only one of them with the root. The aggregate is built from the
        // party's own one-signature aggregate (a clerk of its own with k = 1: the registration is public).
        {
            let own = &honest[rng.below(honest.len() as u64) as usize];
            let lax = Parameters { k: 1, ..params };
            let lax_clerk = mithril_stm::Clerk::<D>::new_clerk_from_closed_key_registration(&lax, &f.closed);
            if let Ok(own_agg) = aggregate(&f, &lax_clerk, std::slice::from_ref(own), &msg) {
                let base = serde_json::to_value(&own_agg).unwrap();
                if base["signatures"].as_array().map(|l| l.len()) == Some(1) && base["batch_proof"]["indices"].as_array().map(|l| l.len()) == Some(1) {
                    let sigma = bytes_of(&base["signatures"][0][0]["sigma"]);
                    let genuine: Vec<u64> = base["signatures"][0][0]["indexes"].as_array().unwrap().iter().map(|x| x.as_u64().unwrap()).collect();
                    let st0 = base["signatures"][0][1][1].as_u64().unwrap();
                    for (tag, claimed, genuine_first) in [("slot-twice-claimed-total", ctx.total, true), ("slot-twice-claimed-stake+1", st0 + 1, true), ("slot-twice-forged-first", ctx.total, false)] {
                        let mut extra: Vec<u64> = (0..m).filter(|i| !genuine.contains(i) && ctx.won(&params, &sigma, *i, claimed)).collect();
                        let mut kept = genuine.clone();
                        if extra.is_empty() && kept.len() >= 2 {
                            // nothing more to win (phi_f = 1, or the party already holds almost everything): the forged
                            // entry takes over half of the genuine indices (won for the larger stake a fortiori)
                            extra = kept.split_off(kept.len() / 2);
                        }
                        if extra.is_empty() { continue; }
                        let mut v = base.clone();
                        v["signatures"][0][0]["indexes"] = json!(kept);
                        let mut forged = v["signatures"][0].clone();
                        forged[0]["indexes"] = json!(extra);
                        forged[1][1] = json!(claimed);
                        if genuine_first { v["signatures"].as_array_mut().unwrap().push(forged); } else { v["signatures"].as_array_mut().unwrap().insert(0, forged); }
                        let slot = v["batch_proof"]["indices"][0].clone();
                        v["batch_proof"]["indices"] = json!([slot.clone(), slot]);
                        let vals = v["batch_proof"]["values"].as_array().unwrap().clone();
                        v["batch_proof"]["values"] = Value::Array(vals.into_iter().flat_map(|x| [x.clone(), x]).collect());
                        let kk = (kept.len() + extra.len()) as u64;
                        cases.push((tag, v.clone(), Parameters { k: kk.min(params.k).max(1), ..params }));
                        if tag == "slot-twice-claimed-total" {
                            // the same forged entry at an index far outside the tree (it never meets the genuine entry
                            // on the way up either); the genuine path is left as it is
                            let mut w = v;
                            let big = (1u64 << 40) - (ctx.nr_leaves as u64).next_power_of_two();
                            w["batch_proof"]["indices"] = json!([slot_of(&base), big]);
                            w["batch_proof"]["values"] = base["batch_proof"]["values"].clone();
                            cases.push(("slot-outside-tree-claimed-total", w, Parameters { k: kk.min(params.k).max(1), ..params }));
                        }
                    }
                }
            }
        }
        // ---- the aggregate check's coefficients ---------------------------------------------------
        if ns >= 2 {
            let sig_bytes: Vec<Vec<u8>> = honest_v["signatures"].as_array().unwrap().iter().map(|s| bytes_of(&s[0]["sigma"])).collect();
            let vk_bytes: Vec<Vec<u8>> = honest_v["signatures"].as_array().unwrap().iter().map(|s| bytes_of(&s[1][0])).collect();
            // (i) K: the coefficient formula (Lean: Blake2b-128 in the driver) and the aggregated signature the code computes
            let coeffs = spec_coefficients(&sig_bytes);
            if sink.wanted() {
                sink.case("coefficients", &format!("c01.coeff sigs=[{}]", sig_bytes.iter().map(|b| hutil::hex(b)).collect::<Vec<_>>().join(",")), &format!("[{}]", coeffs.iter().map(|c| hutil::hex(c)).collect::<Vec<_>>().join(",")));
            } else { sink.skip(); }
            if sink.wanted() {
                let mut acc: Option<blst::blst_p1> = None;
                for (sg, e) in sig_bytes.iter().zip(coeffs.iter()) { let t = p1_mul128(&p1_from(sg), e); acc = Some(match acc { None => t, Some(a) => p1_add(&a, &t) }); }
                let expected = p1_to(&acc.unwrap());
                let got = bls_aggregate(&vk_bytes, &sig_bytes).map(|(_, s)| s);
                let out = if got.as_ref() == Some(&expected) { "match" } else { "mismatch" };
                let i = sink.case("aggregate-point", "c01.aggpoint", out);
                let _ = i; // K only: the property does not prescribe this formula, only that the check is sound
            } else { sink.skip(); }
            // (ii) the cancellation attack that succeeds whenever the coefficients do NOT depend on the signatures:
            // with the aggregation as an oracle O, O(.., s_A + D, ..) - O(..) = e_A*D; then s_A' = s_A + e_B*D,
            // s_B' = s_B - e_A*D leaves e_A*s_A + e_B*s_B unchanged although neither signature is valid.
            let o = |sigs: &[Vec<u8>]| bls_aggregate(&vk_bytes, sigs).map(|(_, s)| p1_from(&s));
            // the forged signatures must still win lotteries: keep, for each, exactly the indices its NEW sigma wins
            // (distinct from everybody else's), lower k to what is covered, and grind the offset D a little.
            let reindex = |ctx: &Ctx, new_a: &[u8], new_b: &[u8]| -> Option<(Value, Parameters)> {
                let mut v = honest_v.clone();
                let mut used: std::collections::BTreeSet<u64> = v["signatures"].as_array().unwrap().iter().enumerate()
                    .filter(|(i, _)| *i != a && *i != b)
                    .flat_map(|(_, s)| s[0]["indexes"].as_array().unwrap().iter().map(|x| x.as_u64().unwrap()).collect::<Vec<_>>()).collect();
                for (slot, sg) in [(a, new_a), (b, new_b)] {
                    let st = v["signatures"][slot][1][1].as_u64().unwrap();
                    let idx: Vec<u64> = (0..m).filter(|i| !used.contains(i) && ctx.won(&params, sg, *i, st)).collect();
                    if idx.is_empty() { return None; }
                    used.extend(idx.iter().cloned());
                    v["signatures"][slot][0]["sigma"] = json!(sg);
                    v["signatures"][slot][0]["indexes"] = json!(idx);
                }
                let mut p2 = params; p2.k = used.len() as u64;
                Some((v, p2))
            };
            if let Some(base) = o(&sig_bytes) {
                let (mut got_coeff, mut got_plain) = (false, false);
                let step = p1_from(&sig_bytes[b]);
                let mut d = step;
                for _try in 0..24 {
                    if got_coeff && got_plain { break; }
                    let mut sa = sig_bytes.clone(); sa[a] = p1_to(&p1_add(&p1_from(&sig_bytes[a]), &d));
                    let mut sb = sig_bytes.clone(); sb[b] = p1_to(&p1_add(&p1_from(&sig_bytes[b]), &d));
                    if let (false, Some(oa), Some(ob)) = (got_coeff, o(&sa), o(&sb)) {
                        let ea_d = p1_add(&oa, &p1_neg(&base));
                        let eb_d = p1_add(&ob, &p1_neg(&base));
                        let new_a = p1_to(&p1_add(&p1_from(&sig_bytes[a]), &eb_d));
                        let new_b = p1_to(&p1_add(&p1_from(&sig_bytes[b]), &p1_neg(&ea_d)));
                        if let Some((v, p2)) = reindex(&ctx, &new_a, &new_b) { cases.push(("coefficient-cancellation", v, p2)); got_coeff = true; }
                    }
                    if !got_plain {
                        // constant-coefficient variant (e_i = 1): s_A + D, s_B - D
                        let ca = p1_to(&p1_add(&p1_from(&sig_bytes[a]), &d));
                        let cb = p1_to(&p1_add(&p1_from(&sig_bytes[b]), &p1_neg(&d)));
                        if ca.iter().any(|x| *x != 0) && cb[0] != 0xc0 {
                            if let Some((v, p2)) = reindex(&ctx, &ca, &cb) { cases.push(("plain-sum-cancellation", v, p2)); got_plain = true; }
                        }
                    }
                    d = p1_add(&d, &step); d = p1_add(&d, &p1_from(&sig_bytes[a]));
                }
            }
        }
        // ---- a signature with a component OUTSIDE the prime-order group: sigma + n*T, T in the cofactor subgroup. The
        // pairing cannot tell it from sigma, the lottery is drawn on its bytes (fresh draws for the same message): it
        // must be refused when decoded (group check). Indices re-derived for the new bytes, k lowered to what is covered.
        if let Some(t) = cofactor_point() {
            let sig_a = bytes_of(&honest_v["signatures"][a][0]["sigma"]);
            let mut acc = p1_from(&sig_a);
            for _n in 0..40 {
                acc = p1_add(&acc, &t);
                let sg = p1_to(&acc);
                let mut v = honest_v.clone();
                let mut used: std::collections::BTreeSet<u64> = v["signatures"].as_array().unwrap().iter().enumerate().filter(|(i, _)| *i != a)
                    .flat_map(|(_, s)| s[0]["indexes"].as_array().unwrap().iter().map(|x| x.as_u64().unwrap()).collect::<Vec<_>>()).collect();
                let st = v["signatures"][a][1][1].as_u64().unwrap();
                let idx: Vec<u64> = (0..m).filter(|i| !used.contains(i) && ctx.won(&params, &sg, *i, st)).collect();
                if idx.is_empty() { continue; }
                used.extend(idx.iter().cloned());
                v["signatures"][a][0]["sigma"] = json!(sg);
                v["signatures"][a][0]["indexes"] = json!(idx);
                let mut p2 = params; p2.k = used.len() as u64;
                cases.push(("sigma-plus-cofactor-point", v, p2));
                break;
            }
        }
        // other parameters: larger k, smaller m than signed for
        { let mut p2 = params; p2.k = cover.len() as u64 + 1; cases.push(("params-k-above", honest_v.clone(), p2)); }
        { let mut p2 = params; p2.m = 1; cases.push(("params-m-small", honest_v.clone(), p2)); }
        // another message
        let mut outs: Vec<(Value, Parameters, String)> = vec![];
        for (tag, v, p) in cases {
            if !sink.wanted() { sink.skip(); continue; }
            let out = real_verify(&f, &p, &v, &msg);
            if out == "undecodable" { sink.case("undecodable", "c01.note", "err"); continue; }
            let (mem, facts) = match ctx.member(&p, &v) { Some(x) => x, None => { continue; } };
            let req = format!("c01.verify member={}", mem);
            let i = sink.case(tag, &req, &out);
            s_check(&mut sink, i, &out, &p, &facts, &req);
            if tag == "honest" && out != "ok" { sink.sfail(i, "honest-rejected", "honest aggregate rejected", &req); }
            outs.push((v, p, out));
        }
        // wrong message for the honest aggregate
        if sink.wanted() {
            let out = real_verify(&f, &params, &honest_v, &other_msg);
            let i = sink.case("other-message", "c01.note", &out.replace("err lotteryLost", "err").replace("err aggInvalid", "err"));
            if out == "ok" { sink.sfail(i, "signature", "aggregate accepted for another message", "honest aggregate, other message"); }
        } else { sink.skip(); }

        // ---- batch verification: 1-4 members with at most one bad member at each position ----
        let bad: Vec<&(Value, Parameters, String)> = outs.iter().filter(|o| o.2 != "ok" && o.2 != "panic").collect();
        for size in 1..=(if args.thorough() { 4 } else { 3 }) {
            for bad_pos in 0..=size {
                if !sink.wanted() { sink.skip(); continue; }
                let mut members: Vec<(Value, Parameters)> = (0..size).map(|_| (honest_v.clone(), params)).collect();
                if bad_pos < size {
                    if bad.is_empty() { sink.skip(); continue; }
                    let bm = bad[rng.below(bad.len() as u64) as usize];
                    members[bad_pos] = (bm.0.clone(), bm.1);
                }
                let parsed: Option<Vec<AggregateSignature<D>>> = members.iter().map(|(v, _)| serde_json::from_value(v.clone()).ok()).collect();
                let parsed = match parsed { Some(p) => p, None => { sink.skip(); continue; } };
                let msgs: Vec<Vec<u8>> = vec![msg.clone(); size];
                let avks = vec![f.avk.clone(); size];
                let ps: Vec<Parameters> = members.iter().map(|m| m.1).collect();
                let none_v = vec![None; size];
                let none_g = vec![None; size];
                let out = match catch(std::panic::AssertUnwindSafe(|| AggregateSignature::batch_verify(&parsed, &msgs, &avks, &ps, &none_v, &none_g))) {
                    Ok(Ok(())) => "ok".to_string(),
                    Ok(Err(_)) => "err".to_string(),
                    Err(_) => "panic".to_string(),
                };
                let mut mems = vec![];
                let mut alone_ok = true;
                for (v, p) in &members {
                    let (mem, _) = ctx.member(p, v).unwrap();
                    mems.push(mem);
                    alone_ok &= real_verify(&f, p, v, &msg) == "ok";
                }
                let req = format!("c01.batch members=[{}]", mems.join(","));
                let i = sink.case(if bad_pos < size { "batch-one-bad" } else { "batch-all-good" }, &req, &out);
                if out == "ok" && !alone_ok { sink.sfail(i, "batch", "batch accepted although a member is rejected alone", &req); }
                if out != "ok" && alone_ok { sink.sfail(i, "batch-complete", "batch of individually valid aggregates rejected", &req); }
            }
        }
        // ---- batch: TWO bad members whose BLS errors cancel ACROSS the batch: single-signature members (no coefficient
        // is applied to a lone signature) with sigma + D and sigma - D; indices re-derived for the new bytes, k = what is won
        if !sink.wanted() { sink.skip(); } else {
            let mut pair: Option<Vec<(Value, Parameters)>> = None;
            'signer: for s in &honest {
                let cov = s.get_concatenation_signature_indices().len() as u64;
                if cov == 0 { continue; }
                let mut p1 = params; p1.k = cov;
                let clerk1 = mithril_stm::Clerk::<D>::new_clerk_from_closed_key_registration(&p1, &f.closed);
                let Ok(single) = aggregate(&f, &clerk1, &[s.clone()], &msg) else { continue };
                let sv = serde_json::to_value(&single).unwrap();
                if sv["signatures"].as_array().map(|l| l.len()) != Some(1) { continue; }
                let sg = bytes_of(&sv["signatures"][0][0]["sigma"]);
                let st = sv["signatures"][0][1][1].as_u64().unwrap();
                let base = p1_from(&sg);
                let mut d = p1_add(&base, &base);
                for _try in 0..24 {
                    let forged = |sgn: Vec<u8>| -> Option<(Value, Parameters)> {
                        if sgn[0] & 0x40 != 0 { return None; } // point at infinity
                        let idx: Vec<u64> = (0..m).filter(|i| ctx.won(&params, &sgn, *i, st)).collect();
                        if idx.is_empty() { return None; }
                        let mut v = sv.clone();
                        v["signatures"][0][0]["sigma"] = json!(sgn);
                        v["signatures"][0][0]["indexes"] = json!(idx);
                        let mut p = params; p.k = idx.len() as u64;
                        Some((v, p))
                    };
                    if let (Some(a), Some(b)) = (forged(p1_to(&p1_add(&base, &d))), forged(p1_to(&p1_add(&base, &p1_neg(&d))))) { pair = Some(vec![a, b]); break 'signer; }
                    d = p1_add(&d, &base);
                }
            }
            match pair {
                None => sink.skip(),
                Some(members) => {
                    let parsed: Option<Vec<AggregateSignature<D>>> = members.iter().map(|(v, _)| serde_json::from_value(v.clone()).ok()).collect();
                    match parsed {
                        None => sink.skip(),
                        Some(parsed) => {
                            let size = members.len();
                            let msgs: Vec<Vec<u8>> = vec![msg.clone(); size];
                            let avks = vec![f.avk.clone(); size];
                            let ps: Vec<Parameters> = members.iter().map(|m| m.1).collect();
                            let (none_v, none_g) = (vec![None; size], vec![None; size]);
                            let out = match catch(std::panic::AssertUnwindSafe(|| AggregateSignature::batch_verify(&parsed, &msgs, &avks, &ps, &none_v, &none_g))) {
                                Ok(Ok(())) => "ok".to_string(),
                                Ok(Err(_)) => "err".to_string(),
                                Err(_) => "panic".to_string(),
                            };
                            let mut mems = vec![];
                            let mut alone_ok = true;
                            for (v, p) in &members {
                                let (mem, _) = ctx.member(p, v).unwrap();
                                mems.push(mem);
                                alone_ok &= real_verify(&f, p, v, &msg) == "ok";
                            }
                            let req = format!("c01.batch members=[{}]", mems.join(","));
                            let i = sink.case("batch-cross-member-cancellation", &req, &out);
                            if out == "ok" && !alone_ok { sink.sfail(i, "batch", "batch accepted although a member is rejected alone", &req); }
                            if w == 0 {
                                // the repaired finding, replayed on the real code every run (the un-weighted sum of the members' aggregates still verifies)
                                sink.witness("C01-batch-cancellation", out == "ok" && !alone_ok, &format!("two members with sigma + D and sigma - D: each alone accepted = {}, batch_verify -> {}, un-weighted sum of the aggregates verifies = {}", alone_ok, out, batch_final(&ctx.root, &msg, &members)));
                            }
                        }
                    }
                }
            }
        }
    }
    sink.finish();
}
