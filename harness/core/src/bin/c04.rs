//! C04 harness: real `Certificate::try_compute_hash` / `ProtocolMessage::compute_hash` versus SHA-256
//! (Lean) of the model pre-image — bit exact; single-field change sweep on the real code (S: the hash
//! changes, except inside the known-finding class); certificate → API message → JSON text →
//! re-serialised (shuffled field order, whitespace) → back (S: same hash, same signed message).
use chrono::{DateTime, TimeZone, Utc};
use hutil::{catch, hex, Args, Rng, Sink};
use mithril_common::entities::{
    BlockNumber, BlockNumberOffset, CardanoDbBeacon, Certificate, CertificateMetadata, CertificateSignature, Epoch,
    ProtocolMessage, ProtocolMessagePartKey, ProtocolParameters, SignedEntityType, StakeDistributionParty,
};
use mithril_common::messages::CertificateMessage;
use mithril_common::test::double::{fake_data, fake_keys};

fn part_keys() -> Vec<ProtocolMessagePartKey> {
    use ProtocolMessagePartKey::*;
    vec![SnapshotDigest, CardanoTransactionsMerkleRoot, CardanoBlocksTransactionsMerkleRoot, NextAggregateVerificationKey,
        NextProtocolParameters, CurrentEpoch, LatestBlockNumber, CardanoBlocksTransactionsBlockNumberOffset,
        CardanoStakeDistributionEpoch, CardanoStakeDistributionMerkleRoot, CardanoDatabaseMerkleRoot]
}

fn rand_string(rng: &mut Rng, kind: u64) -> String {
    let kind = if kind == 99 { rng.below(5) } else { kind };
    match kind {
        0 => String::new(),
        1 => hex(&rng.bytes(32)),
        2 => "préprod-ñ-✓".to_string(),
        3 => (0..rng.range(1, 200)).map(|_| (b'a' + rng.below(26) as u8) as char).collect(),
        _ => format!("net{}", rng.below(1000)),
    }
}

fn rand_time(rng: &mut Rng) -> DateTime<Utc> {
    match rng.below(8) {
        0 => Utc.timestamp_nanos(0),
        1 => Utc.timestamp_nanos(i64::MAX),
        2 => Utc.timestamp_nanos(i64::MIN + 1),
        3 => Utc.timestamp_nanos(1_136_214_245_000_000_000 + rng.below(1_000_000_000) as i64),
        // outside the i64 nanosecond range (1677-09-21 .. 2262-04-11): `timestamp_nanos_opt()` is `None`
        5 => Utc.with_ymd_and_hms(2263 + rng.below(500) as i32, 1 + rng.below(12) as u32, 1, 0, 0, rng.below(60) as u32).unwrap(),
        6 => Utc.with_ymd_and_hms(1000 + rng.below(600) as i32, 1 + rng.below(12) as u32, 1, 0, 0, 0).unwrap(),
        _ => Utc.timestamp_nanos(rng.u64() as i64 >> rng.below(20)),
    }
}

fn rand_entity(rng: &mut Rng) -> SignedEntityType {
    let e = Epoch(match rng.below(3) { 0 => rng.below(1000), 1 => u64::MAX, _ => rng.u64() });
    let n = match rng.below(3) { 0 => rng.below(100000), 1 => u64::MAX, _ => rng.u64() };
    match rng.below(5) {
        0 => SignedEntityType::MithrilStakeDistribution(e),
        1 => SignedEntityType::CardanoStakeDistribution(e),
        2 => SignedEntityType::CardanoDatabase(CardanoDbBeacon::new(*e, n)),
        3 => SignedEntityType::CardanoTransactions(e, BlockNumber(n)),
        _ => SignedEntityType::CardanoBlocksTransactions(e, BlockNumber(n), BlockNumberOffset(rng.below(5000))),
    }
}

fn rand_cert(rng: &mut Rng) -> Certificate {
    let mut c = if rng.chance(1, 4) { fake_data::genesis_certificate("h") } else { fake_data::certificate("h") };
    c.previous_hash = rand_string(rng, 99);
    c.epoch = Epoch(match rng.below(3) { 0 => rng.below(500), 1 => u64::MAX, _ => rng.u64() });
    let cap = if rng.chance(1, 10) { 40 } else { 6 };
    let nsign = rng.below(cap) as usize;
    let signers: Vec<StakeDistributionParty> = (0..nsign)
        .map(|_| StakeDistributionParty { party_id: rand_string(rng, 99), stake: if rng.bool() { rng.below(1 << 40) } else { rng.u64() } })
        .collect();
    let phi = match rng.below(11) {
        0 => 0.2, 1 => 0.65, 2 => 1.0, 3 => 0.0, 4 => 255.99999997,
        // values U8F24 cannot hold (wrapped by the production profile), and non-finite ones (panic everywhere)
        5 => 256.0 * rng.range(1, 3) as f64 + [0.0, 0.2, 0.65][rng.below(3) as usize],
        6 => -[1e-10, 0.3, 255.8, 1e300][rng.below(4) as usize],
        7 => [255.99999999, 1e300, f64::INFINITY, f64::NAN, -0.0, f64::from_bits(1)][rng.below(6) as usize],
        // exact ties of the rounding to 24 fractional bits (to even)
        8 => (rng.below(1 << 24) as f64 + 0.5) / (1u64 << 24) as f64,
        _ => (rng.u64() >> 11) as f64 / (1u64 << 53) as f64,
    };
    c.metadata = CertificateMetadata {
        network: rand_string(rng, 99),
        protocol_version: rand_string(rng, 4),
        protocol_parameters: ProtocolParameters { k: rng.u64() >> rng.below(64), m: rng.u64() >> rng.below(64), phi_f: phi },
        initiated_at: rand_time(rng),
        sealed_at: rand_time(rng),
        signers,
    };
    let mut pm = ProtocolMessage::new();
    for k in part_keys() {
        if rng.chance(1, 3) {
            let v = match rng.below(3) { 0 => hex(&rng.bytes(32)), 1 => rng.below(1_000_000).to_string(), _ => fake_keys::aggregate_verification_key_for_concatenation()[rng.below(3) as usize].to_string() };
            pm.set_message_part(k, v);
        }
    }
    c.protocol_message = pm;
    c.signed_message = if rng.bool() { c.protocol_message.compute_hash() } else { rand_string(rng, 99) };
    c.aggregate_verification_key = fake_keys::aggregate_verification_key_for_concatenation()[rng.below(3) as usize].try_into().unwrap();
    if !c.is_genesis() {
        c.signature = CertificateSignature::MultiSignature(rand_entity(rng), fake_keys::multi_signature()[rng.below(2) as usize].try_into().unwrap());
    } else {
        // two fixed signatures, or 64 arbitrary bytes (an Ed25519 signature is pseudo-random) whose FIRST byte is, half of the
        // time, one a text-sniffing decoder could take for another format: `{ [ " digit n t f space - 0x00 0xff`
        let fixed: mithril_common::crypto_helper::GenesisEd25519Signature = fake_keys::genesis_signature()[rng.below(2) as usize].to_string().try_into().unwrap();
        let sig = if rng.chance(1, 3) { fixed } else {
            let first = if rng.bool() { *rng.pick(&[0x7bu8, 0x5b, 0x22, 0x30, 0x39, 0x6e, 0x74, 0x66, 0x20, 0x2d, 0x00, 0xff]) } else { rng.u64() as u8 };
            let mut b = rng.bytes(64); b[0] = first;
            // (built from the bytes, NOT through the string decoder: that decoder is part of what the round trip judges)
            let arr: [u8; 64] = b.try_into().unwrap();
            let _ = &fixed;
            mithril_common::crypto_helper::ProtocolKey::new(ed25519_dalek::Signature::from_bytes(&arr))
        };
        c.signature = CertificateSignature::GenesisSignature(sig);
    }
    c
}

fn entity_line(c: &Certificate) -> String {
    match &c.signature {
        CertificateSignature::GenesisSignature(_) => "(genesis)".into(),
        CertificateSignature::MultiSignature(e, _) => match e {
            SignedEntityType::MithrilStakeDistribution(e) => format!("(msd,{})", e.0),
            SignedEntityType::CardanoStakeDistribution(e) => format!("(csd,{})", e.0),
            SignedEntityType::CardanoDatabase(b) => format!("(cdb,{},{})", b.epoch.0, b.immutable_file_number),
            SignedEntityType::CardanoTransactions(e, b) => format!("(ctx,{},{})", e.0, b.0),
            SignedEntityType::CardanoBlocksTransactions(e, b, o) => format!("(cbtx,{},{},{})", e.0, b.0, o.0),
        },
    }
}

fn int(v: i64) -> String {
    if v < 0 { format!("n{}", (v as i128).unsigned_abs()) } else { v.to_string() }
}

/// nanoseconds as the line protocol carries them; the fall-back for unrepresentable dates is the MODEL's business
fn nanos(t: &DateTime<Utc>) -> String { t.timestamp_nanos_opt().map(int).unwrap_or("oor".into()) }

fn req_line(c: &Certificate) -> String {
    let m = &c.metadata;
    format!(
        "c04.cert prev={} epoch={} net={} ver={} k={} m={} phi={:016x} init={} sealed={} signers=[{}] pm=[{}] signed={} avk={} entity={} sig={}",
        hex(c.previous_hash.as_bytes()), c.epoch.0, hex(m.network.as_bytes()), hex(m.protocol_version.as_bytes()),
        m.protocol_parameters.k, m.protocol_parameters.m, m.protocol_parameters.phi_f.to_bits(),
        nanos(&m.initiated_at), nanos(&m.sealed_at),
        m.signers.iter().map(|s| format!("({},{})", hex(s.party_id.as_bytes()), s.stake)).collect::<Vec<_>>().join(","),
        c.protocol_message.message_parts.iter().map(|(k, v)| format!("({},{})", hex(k.to_string().as_bytes()), hex(v.as_bytes()))).collect::<Vec<_>>().join(","),
        hex(c.signed_message.as_bytes()), hex(c.aggregate_verification_key.to_json_hex().unwrap().as_bytes()), entity_line(c),
        hex(c.signature.to_bytes_hex_for_certificate_hash().unwrap().as_bytes()),
    )
}

fn real_hash(c: &Certificate) -> String {
    let c2 = c.clone();
    match catch(move || c2.try_compute_hash()) {
        Ok(Ok(h)) => format!("{} {}", h, c.protocol_message.compute_hash()),
        Ok(Err(_)) => "err".into(),
        Err(_) => "panic".into(),
    }
}

/// shuffle object keys recursively and re-serialise with whitespace
fn reshuffle(v: &serde_json::Value, rng: &mut Rng) -> String {
    match v {
        serde_json::Value::Object(m) => {
            let mut ks: Vec<&String> = m.keys().collect();
            rng.shuffle(&mut ks);
            let parts: Vec<String> = ks.iter().map(|k| format!(" {} :\n {}", serde_json::to_string(k).unwrap(), reshuffle(&m[*k], rng))).collect();
            format!("{{{}}}", parts.join(" , "))
        }
        serde_json::Value::Array(a) => format!("[ {} ]", a.iter().map(|x| reshuffle(x, rng)).collect::<Vec<_>>().join(" ,\t")),
        other => serde_json::to_string(other).unwrap(),
    }
}

fn main() {
    hutil::quiet_panics();
    let args = Args::parse();
    let mut rng = Rng::new(args.seed);
    let mut sink = Sink::new(&args);
    let n = if args.thorough() { 40_000 } else { 800 };

    // known finding witness: variants with the same numbers
    {
        let mut a = fake_data::certificate("x");
        let mut b = a.clone();
        a.signature = CertificateSignature::MultiSignature(SignedEntityType::CardanoDatabase(CardanoDbBeacon::new(10, 100)), fake_keys::multi_signature()[0].try_into().unwrap());
        b.signature = CertificateSignature::MultiSignature(SignedEntityType::CardanoTransactions(Epoch(10), BlockNumber(100)), fake_keys::multi_signature()[0].try_into().unwrap());
        sink.witness("C04-entity-variant", a.try_compute_hash().unwrap() == b.try_compute_hash().unwrap(), "CardanoDatabase(10,100) vs CardanoTransactions(10,100)");
    }

    // repaired finding `C04-phi-wrap`: outside debug builds the conversion of phi_f wrapped (256.2 hashed as 0.2)
    {
        let h = |phi: f64| catch(move || ProtocolParameters { k: 5, m: 100, phi_f: phi }.compute_hash()).ok();
        let (a, b) = (h(0.2), h(256.2));
        sink.witness("C04-phi-wrap", a.is_some() && a == b, "ProtocolParameters(5,100,0.2) and (5,100,256.2) have the same hash (and are `==`)");
    }
    {
        let mut lost = 0;
        for k in [3_645_000u64, 1, 77, 16_000_001] {
            let phi = (k as f64 + 0.5) / (1u64 << 24) as f64;
            let p = ProtocolParameters { k: 5, m: 100, phi_f: phi };
            let back: ProtocolParameters = serde_json::from_str(&serde_json::to_string(&p).unwrap()).unwrap();
            if back.compute_hash() != p.compute_hash() { lost += 1; }
        }
        sink.witness("C04-phi-tie-wire", lost > 0, &format!("{} of 4 protocol parameters with phi_f on a U8F24 rounding tie change their hash through JSON", lost));
    }
    let mut oor_collisions = 0u64;

    for _ in 0..n {
        if !sink.wanted() { sink.skip(); continue; }
        let c = rand_cert(&mut rng);
        let out = real_hash(&c);
        let req = req_line(&c);
        let i = sink.case(if c.is_genesis() { "genesis" } else { "standard" }, &req, &out);
        if out == "panic" || out == "err" { continue; }
        // ---- S: single-field sweep on the real code -------------------------------------
        let base = c.try_compute_hash().unwrap();
        let mut variants: Vec<(&str, Certificate)> = vec![];
        let mut v = c.clone(); v.previous_hash.push('x'); variants.push(("previous_hash", v));
        let mut v = c.clone(); v.epoch = Epoch(c.epoch.0.wrapping_add(1)); variants.push(("epoch", v));
        let mut v = c.clone(); v.signed_message.push('0'); variants.push(("signed_message", v));
        let mut v = c.clone(); v.metadata.network.push('x'); variants.push(("network", v));
        let mut v = c.clone(); v.metadata.protocol_version.push('1'); variants.push(("version", v));
        let mut v = c.clone(); v.metadata.protocol_parameters.k = c.metadata.protocol_parameters.k.wrapping_add(1); variants.push(("k", v));
        let mut v = c.clone(); v.metadata.protocol_parameters.m = c.metadata.protocol_parameters.m.wrapping_add(1); variants.push(("m", v));
        let mut v = c.clone(); v.metadata.initiated_at = Utc.timestamp_nanos(c.metadata.initiated_at.timestamp_nanos_opt().unwrap_or(0) ^ 1); variants.push(("initiated_at", v));
        let mut v = c.clone(); v.metadata.sealed_at = Utc.timestamp_nanos(c.metadata.sealed_at.timestamp_nanos_opt().unwrap_or(0) ^ 1); variants.push(("sealed_at", v));
        if !c.metadata.signers.is_empty() {
            let k = rng.below(c.metadata.signers.len() as u64) as usize;
            let mut v = c.clone(); v.metadata.signers[k].stake = c.metadata.signers[k].stake.wrapping_add(1); variants.push(("signer_stake", v));
            let mut v = c.clone(); v.metadata.signers[k].party_id.push('z'); variants.push(("signer_id", v));
            let mut v = c.clone(); v.metadata.signers.remove(k); variants.push(("signer_removed", v));
            if c.metadata.signers.len() >= 2 && c.metadata.signers[0] != c.metadata.signers[1] {
                let mut v = c.clone(); v.metadata.signers.swap(0, 1); variants.push(("signer_order", v));
            }
        }
        if let Some((k, val)) = c.protocol_message.message_parts.iter().next() {
            let mut v = c.clone(); v.protocol_message.set_message_part(*k, format!("{}0", val)); variants.push(("pm_value", v));
        }
        {
            let cur = c.aggregate_verification_key.to_json_hex().unwrap();
            let other = fake_keys::aggregate_verification_key_for_concatenation().iter().find(|k| **k != cur).unwrap().to_string();
            let mut v = c.clone(); v.aggregate_verification_key = other.as_str().try_into().unwrap(); variants.push(("avk", v));
        }
        for (name, v) in variants {
            if v.try_compute_hash().map(|h| h == base).unwrap_or(false) {
                sink.sfail(i, "tamper", &format!("changing only `{}` leaves the certificate hash unchanged", name), &req);
            }
        }
        // phi_f shifted by the modulus of U8F24: must change the hash (class of the repaired finding `C04-phi-wrap`)
        {
            let p = c.metadata.protocol_parameters.phi_f;
            if p.is_finite() && p.abs() < 1024.0 {
                let mut v = c.clone();
                v.metadata.protocol_parameters.phi_f = p + 256.0;
                let b3 = base.clone();
                if catch(move || v.try_compute_hash().map(|h| h == b3).unwrap_or(false)).unwrap_or(false) {
                    sink.sfail(i, "phi-wrap", "changing phi_f by 256 leaves the hash unchanged", &req);
                }
            }
        }
        // dates outside the nanosecond range all hash as 0 (outside the property's quantifier: counted, not judged)
        if c.metadata.initiated_at.timestamp_nanos_opt().is_none() {
            let mut v = c.clone();
            v.metadata.initiated_at = c.metadata.initiated_at + chrono::TimeDelta::days(366);
            if v.try_compute_hash().map(|h| h == base).unwrap_or(false) { oor_collisions += 1; }
        }
        // phi_f at protocol precision: a change below 2^-25 may keep the hash, a change of 2^-20 must not
        if c.metadata.protocol_parameters.phi_f.is_finite() && c.metadata.protocol_parameters.phi_f.abs() < 256.0 {
            let mut v = c.clone();
            let p = c.metadata.protocol_parameters.phi_f;
            v.metadata.protocol_parameters.phi_f = if p < 128.0 { p + 1.0 / 1048576.0 } else { p - 1.0 / 1048576.0 };
            let b3 = base.clone();
            if catch(move || v.try_compute_hash().map(|h| h == b3).unwrap_or(false)).unwrap_or(false) {
                sink.sfail(i, "tamper", "changing phi_f by 2^-20 leaves the hash unchanged", &req);
            }
        }
        // signed entity: another beacon (must change), another variant with the same numbers (known class)
        if let CertificateSignature::MultiSignature(e, s) = &c.signature {
            let base2 = c.try_compute_hash().unwrap();
            let bumped = match e {
                SignedEntityType::MithrilStakeDistribution(x) => SignedEntityType::MithrilStakeDistribution(Epoch(x.0.wrapping_add(1))),
                SignedEntityType::CardanoStakeDistribution(x) => SignedEntityType::CardanoStakeDistribution(Epoch(x.0.wrapping_add(1))),
                SignedEntityType::CardanoDatabase(b) => SignedEntityType::CardanoDatabase(CardanoDbBeacon::new(*b.epoch, b.immutable_file_number.wrapping_add(1))),
                SignedEntityType::CardanoTransactions(x, b) => SignedEntityType::CardanoTransactions(*x, BlockNumber(b.0.wrapping_add(1))),
                SignedEntityType::CardanoBlocksTransactions(x, b, o) => SignedEntityType::CardanoBlocksTransactions(*x, *b, BlockNumberOffset(o.0.wrapping_add(1))),
            };
            let mut v = c.clone(); v.signature = CertificateSignature::MultiSignature(bumped, s.clone());
            if v.try_compute_hash().unwrap() == base2 { sink.sfail(i, "tamper", "changing only the signed-entity beacon leaves the hash unchanged", &req); }
            let twin = match e {
                SignedEntityType::MithrilStakeDistribution(x) => Some(SignedEntityType::CardanoStakeDistribution(*x)),
                SignedEntityType::CardanoStakeDistribution(x) => Some(SignedEntityType::MithrilStakeDistribution(*x)),
                SignedEntityType::CardanoDatabase(b) => Some(SignedEntityType::CardanoTransactions(b.epoch, BlockNumber(b.immutable_file_number))),
                SignedEntityType::CardanoTransactions(x, b) => Some(SignedEntityType::CardanoDatabase(CardanoDbBeacon::new(x.0, b.0))),
                _ => None,
            };
            if let Some(t) = twin {
                let mut v = c.clone(); v.signature = CertificateSignature::MultiSignature(t, s.clone());
                if v.try_compute_hash().unwrap() == base2 { sink.sfail(i, "entity-variant", "another signed-entity variant with the same numbers has the same certificate hash", &req); }
            }
        }
        // ---- S: wire round trip ----------------------------------------------------------
        let mut cc = c.clone();
        cc.hash = base.clone();
        // (a non-finite phi_f has no JSON form — serde_json writes `null` —: never an honest value, not judged here)
        if !c.metadata.protocol_parameters.phi_f.is_finite() { continue; }
        if let Ok(msg) = CertificateMessage::try_from(cc.clone()) {
            let text = serde_json::to_string(&msg).unwrap();
            let val: serde_json::Value = serde_json::from_str(&text).unwrap();
            let text2 = reshuffle(&val, &mut rng);
            match serde_json::from_str::<CertificateMessage>(&text2).map_err(|e| e.to_string()).and_then(|m| Certificate::try_from(m).map_err(|e| e.to_string())) {
                Ok(back) => {
                    let h2 = back.try_compute_hash().unwrap_or_default();
                    if h2 != base || back.signed_message != cc.signed_message || back.hash != cc.hash {
                        // serde_json without `float_roundtrip` re-read ~10% of the doubles one ulp off: on an exact rounding tie of
                        // U8F24 the fixed-point value, hence the hash, changed (class of the repaired finding `C04-phi-tie-wire`)
                        let scaled = c.metadata.protocol_parameters.phi_f * (1u64 << 24) as f64;
                        let on_tie = (scaled - scaled.floor() - 0.5).abs() < 1e-6;
                        sink.sfail(i, if on_tie { "wire-phi-tie" } else { "wire" }, &format!("hash after JSON round trip differs: {} vs {}", h2, base), &req);
                    }
                }
                Err(e) => {
                    // timestamps outside chrono's RFC 3339 text range cannot be re-read; everything else must
                    sink.sfail(i, "wire", &format!("certificate message does not decode after re-serialisation: {}", e), &req);
                }
            }
        }
    }
    sink.note("initiated_at_outside_the_nanosecond_range_changed_without_changing_the_hash", &oor_collisions.to_string());
    sink.finish();
}
