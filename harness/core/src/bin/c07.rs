//! C07 harness: real `KeyRegWrapper::register` (built WITHOUT `allow_skip_signer_certification`) on a
//! valid registration and on every single-component alteration and 2-splice of two parties'
//! components, versus the Lean model `Registration.register`. Oracle bits are computed by calling the
//! real primitives separately (op-cert Ed25519 check, `Sum6KesSig::verify` for every evolution 0..=66,
//! proof of possession, pool id). S: accepted ⇒ every clause of the property, evaluated here.
use hutil::{Args, Rng, Sink};
use kes_summed_ed25519::kes::{Sum6Kes, Sum6KesSig};
use kes_summed_ed25519::traits::{KesSig, KesSk};
use mithril_common::crypto_helper::{
    ColdKeyGenerator, KesEvolutions, KesPeriod, OpCert, ProtocolKeyRegistration as KeyRegWrapper, ProtocolRegistrationErrorWrapper,
    SignerRegistrationParameters,
};
use mithril_stm::{Initializer, Parameters, RegisterError, RegistrationEntry, VerificationKeyProofOfPossessionForConcatenation};
use rand_chacha::ChaCha20Rng;
use rand_core::SeedableRng;
use std::collections::BTreeMap;

struct Party {
    seed: u8,
    opcert: OpCert,
    pool_id: String,
    vkpop: VerificationKeyProofOfPossessionForConcatenation,
}

fn kes_sign(seed: u8, evolutions: u32, msg: &[u8]) -> Option<Sum6KesSig> {
    let mut buf = [0u8; Sum6Kes::SIZE + 4];
    let mut s = [seed; 32];
    let (mut sk, _vk) = Sum6Kes::keygen(&mut buf, &mut s);
    for _ in 0..evolutions {
        sk.update().ok()?;
    }
    Some(sk.sign(msg))
}

fn party(seed: u8, start: u64, rng: &mut ChaCha20Rng) -> Party {
    let cold = ColdKeyGenerator::create_deterministic_keypair([seed; 32]);
    let mut buf = [0u8; Sum6Kes::SIZE + 4];
    let mut s = [seed; 32];
    let (_sk, kes_vk) = Sum6Kes::keygen(&mut buf, &mut s);
    let opcert = OpCert::new(kes_vk, 0, KesPeriod(start), cold);
    let pool_id = opcert.compute_protocol_party_id().unwrap();
    let init = Initializer::new(Parameters { m: 10, k: 5, phi_f: 0.8 }, 1, rng);
    Party { seed, opcert, pool_id, vkpop: init.get_verification_key_proof_of_possession_for_concatenation() }
}

#[derive(Clone)]
struct Case {
    opcert: Option<OpCert>,
    sig: Option<Sum6KesSig>,
    evol: Option<u64>,
    vkpop: VerificationKeyProofOfPossessionForConcatenation,
    claimed_pid: Option<String>,
    sd: Vec<(String, u64)>,
    pre_registered: Vec<VerificationKeyProofOfPossessionForConcatenation>,
}

fn class(e: &anyhow::Error) -> String {
    for c in e.chain() {
        if let Some(w) = c.downcast_ref::<ProtocolRegistrationErrorWrapper>() {
            return match w {
                ProtocolRegistrationErrorWrapper::OpCertMissing => "opCertMissing".into(),
                ProtocolRegistrationErrorWrapper::KesPeriodMissing => "kesPeriodMissing".into(),
                ProtocolRegistrationErrorWrapper::KesSignatureMissing => "kesSigMissing".into(),
                ProtocolRegistrationErrorWrapper::KesSignatureInvalid(_, _, src) => {
                    if format!("{:?}", src).contains("OpCertInvalid") || src.to_string().to_lowercase().contains("operational certificate") { "opCertInvalid".into() } else { "kesInvalid".into() }
                }
                ProtocolRegistrationErrorWrapper::PoolAddressEncoding => "poolId".into(),
                ProtocolRegistrationErrorWrapper::PartyIdNonExisting => "partyNotInDistribution".into(),
                ProtocolRegistrationErrorWrapper::OpCertInvalid => "opCertInvalid".into(),
                other => format!("other:{}", other),
            };
        }
        if let Some(r) = c.downcast_ref::<RegisterError>() {
            return match r {
                RegisterError::EntryAlreadyRegistered(_) => "alreadyRegistered".into(),
                RegisterError::ConcatenationKeyInvalid(_) => "keyInvalid".into(),
                other => format!("other:{}", other),
            };
        }
    }
    format!("other:{:?}", e)
}

/// the proof of possession judged with blst directly, one half at a time (NOT through `RegistrationEntry::new`, which is
/// the code under test): `k1` is a BLS signature of "PoP" under the key, and `e(k2, g2) = e(g1, vk)`.
/// bytes = vk (96, G2 compressed) ‖ k1 (48, G1 compressed) ‖ k2 (48, G1 compressed)
fn pop_halves(bytes: &[u8]) -> (bool, bool) {
    use blst::min_sig::{PublicKey, Signature};
    use blst::*;
    if bytes.len() != 192 { return (false, false); }
    let (vk, k1, k2) = (&bytes[..96], &bytes[96..144], &bytes[144..]);
    let pk = match PublicKey::from_bytes(vk) { Ok(p) => p, Err(_) => return (false, false) };
    let half1 = match Signature::from_bytes(k1) { Ok(sg) => sg.verify(false, b"PoP", &[], &[], &pk, false) == BLST_ERROR::BLST_SUCCESS, Err(_) => false };
    let half2 = unsafe {
        let mut k2a = blst_p1_affine::default();
        let mut vka = blst_p2_affine::default();
        if blst_p1_uncompress(&mut k2a, k2.as_ptr()) != BLST_ERROR::BLST_SUCCESS || blst_p2_uncompress(&mut vka, vk.as_ptr()) != BLST_ERROR::BLST_SUCCESS { false } else {
            let (mut l, mut r) = (blst_fp12::default(), blst_fp12::default());
            blst_miller_loop(&mut l, blst_p2_affine_generator(), &k2a);
            blst_miller_loop(&mut r, &vka, blst_p1_affine_generator());
            blst_fp12_finalverify(&l, &r)
        }
    };
    (half1, half2)
}

fn main() {
    let args = Args::parse();
    let mut rng = Rng::new(args.seed);
    let mut sink = Sink::new(&args);
    let mut crng = ChaCha20Rng::from_seed([args.seed as u8; 32]);
    let params = Parameters { m: 10, k: 5, phi_f: 0.8 };
    let starts = if args.thorough() { vec![0u64, 7, 100] } else { vec![0u64, 7] };

    for &start in &starts {
        let a = party(1, start, &mut crng);
        let b = party(2, start, &mut crng);
        let c = party(3, start + 3, &mut crng);
        let parties = [&a, &b, &c];
        let mut ids: BTreeMap<String, usize> = BTreeMap::new();
        let mut id = |s: String| -> usize { let n = ids.len() + 1; *ids.entry(s).or_insert(n) };

        // signed evolutions to try for A
        let signed_ts: Vec<u32> = if args.thorough() { vec![0, 1, 2, 5, 30, 62, 63] } else { vec![0, 1, 5, 63] };
        let mut cases: Vec<(&'static str, Case)> = vec![];
        for &t in &signed_ts {
            let msg = a.vkpop.to_bytes();
            let sig_a = match kes_sign(a.seed, t, &msg) { Some(s) => s, None => continue };
            let sd_ok = vec![(a.pool_id.clone(), 10u64), (b.pool_id.clone(), 3)];
            let base = Case { opcert: Some(a.opcert.clone()), sig: Some(sig_a), evol: Some(t as u64), vkpop: a.vkpop, claimed_pid: None, sd: sd_ok.clone(), pre_registered: vec![] };
            cases.push(("valid", base.clone()));
            // announced evolutions around the signed one and at the boundaries
            let mut es: Vec<Option<u64>> = vec![None, Some(0), Some(1), Some(62), Some(63), Some(64), Some(65), Some(66), Some(1 << 32), Some(u64::MAX)];
            for d in [-2i64, -1, 1, 2] { let e = t as i64 + d; if e >= 0 { es.push(Some(e as u64)); } }
            for e in es { let mut x = base.clone(); x.evol = e; cases.push(("evolutions", x)); }
            // op-cert component
            let mut x = base.clone(); x.opcert = None; cases.push(("opcert-missing", x));
            for (tag, f) in [("opcert-issue-altered", 1usize), ("opcert-start-altered", 2), ("opcert-kesvk-swapped", 0), ("opcert-sig-altered", 3), ("opcert-coldkey-swapped", 9)] {
                let mut v = serde_json::to_value(&a.opcert).unwrap();
                let vb = serde_json::to_value(&b.opcert).unwrap();
                match f {
                    0 => v[0][0] = vb[0][0].clone(),
                    1 => v[0][1] = serde_json::json!(v[0][1].as_u64().unwrap() + 1),
                    2 => v[0][2] = serde_json::json!(v[0][2].as_u64().unwrap() + 1),
                    3 => { let x0 = v[0][3][5].as_u64().unwrap(); v[0][3][5] = serde_json::json!(x0 ^ 1); }
                    _ => v[1] = vb[1].clone(),
                }
                if let Ok(oc) = serde_json::from_value::<OpCert>(v) { let mut x = base.clone(); x.opcert = Some(oc); cases.push((tag, x)); }
            }
            let mut x = base.clone(); x.opcert = Some(b.opcert.clone()); cases.push(("opcert-of-other-pool", x));
            let mut x = base.clone(); x.opcert = Some(c.opcert.clone()); cases.push(("opcert-of-other-pool", x));
            // KES signature component
            let mut x = base.clone(); x.sig = None; cases.push(("kes-sig-missing", x));
            let mut x = base.clone(); x.sig = kes_sign(b.seed, t, &msg); cases.push(("kes-sig-other-pool-key", x));
            let mut x = base.clone(); x.sig = kes_sign(a.seed, t, &b.vkpop.to_bytes()); cases.push(("kes-sig-over-other-key", x));
            // verification key component
            let mut x = base.clone(); x.vkpop = b.vkpop; cases.push(("vk-swapped", x));
            {
                // A's key with B's proof of possession, KES-signed by A: only the PoP is wrong
                let mut forged = a.vkpop;
                forged.pop = b.vkpop.pop;
                let mut x = base.clone();
                x.vkpop = forged;
                x.sig = kes_sign(a.seed, t, &forged.to_bytes());
                cases.push(("pop-swapped-kes-resigned", x));
                let mut x2 = base.clone(); x2.vkpop = forged; cases.push(("pop-swapped", x2));
            }
            {
                // ONE half of the proof of possession from B (k1, the signature of "PoP"; or k2, the key in G1), the other
                // half A's own, KES-signed by A: a check that lets one valid half pass accepts these
                let (ab, bb) = (a.vkpop.to_bytes(), b.vkpop.to_bytes());
                for (tag, tag_r, lo, hi) in [("pop-k1-of-other", "pop-k1-of-other-kes-resigned", 96usize, 144usize), ("pop-k2-of-other", "pop-k2-of-other-kes-resigned", 144, 192)] {
                    let mut fb = ab.to_vec();
                    fb[lo..hi].copy_from_slice(&bb[lo..hi]);
                    if let Ok(forged) = VerificationKeyProofOfPossessionForConcatenation::from_bytes(&fb) {
                        let mut x = base.clone(); x.vkpop = forged; x.sig = kes_sign(a.seed, t, &forged.to_bytes()); cases.push((tag_r, x));
                        let mut x2 = base.clone(); x2.vkpop = forged; cases.push((tag, x2));
                    }
                }
            }
            // whole registration of B's components under A's op-cert etc. (2-splices)
            let sig_b = kes_sign(b.seed, t, &b.vkpop.to_bytes());
            for mask in 1u8..7 {
                let mut x = base.clone();
                if mask & 1 != 0 { x.opcert = Some(b.opcert.clone()); }
                if mask & 2 != 0 { x.sig = sig_b; }
                if mask & 4 != 0 { x.vkpop = b.vkpop; }
                cases.push(("splice", x));
            }
            { let mut x = base.clone(); x.opcert = Some(b.opcert.clone()); x.sig = sig_b; x.vkpop = b.vkpop; cases.push(("valid-other", x)); }
            // stake distribution and claimed identity
            let mut x = base.clone(); x.sd = vec![(b.pool_id.clone(), 3)]; cases.push(("pool-absent", x));
            let mut x = base.clone(); x.sd = vec![(a.pool_id.clone(), 0)]; cases.push(("stake-zero", x));
            let mut x = base.clone(); x.sd = vec![(a.pool_id.clone(), u64::MAX - 1)]; cases.push(("stake-max", x));
            // the same pool twice in the distribution: `HashMap::from_iter` keeps the LAST pair
            let mut x = base.clone(); x.sd = vec![(a.pool_id.clone(), 10), (a.pool_id.clone(), 20), (b.pool_id.clone(), 3)]; cases.push(("sd-duplicate-pid", x));
            let mut x = base.clone(); x.sd = vec![(a.pool_id.clone(), 20), (b.pool_id.clone(), 3), (a.pool_id.clone(), 10)]; cases.push(("sd-duplicate-pid", x));
            let mut x = base.clone(); x.sd = vec![(a.pool_id.clone(), 0), (a.pool_id.clone(), 7)]; cases.push(("sd-duplicate-pid", x));
            let mut x = base.clone(); x.claimed_pid = Some(b.pool_id.clone()); cases.push(("claimed-other-pid", x));
            let mut x = base.clone(); x.claimed_pid = Some("pool1whatever".into()); x.sd = vec![("pool1whatever".into(), 999), (b.pool_id.clone(), 3)]; cases.push(("claimed-pid-in-distribution", x));
            // duplicate key
            let mut x = base.clone(); x.pre_registered = vec![a.vkpop]; cases.push(("already-registered", x));
            let mut x = base.clone(); x.pre_registered = vec![b.vkpop]; cases.push(("other-registered", x));
        }
        let _ = (&parties, &mut rng);

        for (tag, mut cs) in cases {
            if !sink.wanted() { sink.skip(); continue; }
            if !cs.sd.iter().any(|(p, _)| *p == c.pool_id) { cs.sd.push((c.pool_id.clone(), 1)); }
            // ---- the real registration -----------------------------------------------------
            let mut reg = KeyRegWrapper::init(&cs.sd);
            // pre-registered keys go in through valid registrations of party B / A material: use the STM layer result
            // by registering them with whichever pool of the distribution fits — simpler: register through a
            // separate wrapper is not possible, so pre-register with a valid certified registration of the owner.
            let mut pre_ok = true;
            for pk in &cs.pre_registered {
                let owner = if pk.vk == a.vkpop.vk { &a } else { &b };
                let mut sd2 = cs.sd.clone();
                if !sd2.iter().any(|(p, _)| *p == owner.pool_id) { sd2.push((owner.pool_id.clone(), 1)); }
                reg = KeyRegWrapper::init(&sd2);
                let r = reg.register(SignerRegistrationParameters {
                    party_id: None, operational_certificate: Some(owner.opcert.clone().into()),
                    verification_key_for_concatenation: (*pk).into(),
                    verification_key_signature_for_concatenation: kes_sign(owner.seed, 0, &pk.to_bytes()).map(|s| s.into()),
                    kes_evolutions: Some(KesEvolutions(0)),
                });
                pre_ok &= r.is_ok();
            }
            if !pre_ok { continue; }
            let sd_eff: Vec<(String, u64)> = if cs.pre_registered.is_empty() { cs.sd.clone() } else {
                let owner = if cs.pre_registered[0].vk == a.vkpop.vk { &a } else { &b };
                let mut s = cs.sd.clone(); if !s.iter().any(|(p, _)| *p == owner.pool_id) { s.push((owner.pool_id.clone(), 1)); } s };
            let res = reg.register(SignerRegistrationParameters {
                party_id: cs.claimed_pid.clone(),
                operational_certificate: cs.opcert.clone().map(|o| o.into()),
                verification_key_for_concatenation: cs.vkpop.into(),
                verification_key_signature_for_concatenation: cs.sig.map(|s| s.into()),
                kes_evolutions: cs.evol.map(KesEvolutions),
            });
            // recorded stake: register party C (valid, stake 1) so that the total is positive, close, look the key up
            if res.is_ok() && cs.vkpop.vk != c.vkpop.vk {
                let _ = reg.register(SignerRegistrationParameters {
                    party_id: None, operational_certificate: Some(c.opcert.clone().into()),
                    verification_key_for_concatenation: c.vkpop.into(),
                    verification_key_signature_for_concatenation: kes_sign(c.seed, 0, &c.vkpop.to_bytes()).map(|s| s.into()),
                    kes_evolutions: Some(KesEvolutions(0)),
                });
            }
            let recorded = if res.is_ok() {
                reg.close(&params).ok().and_then(|closed| {
                    (0..closed.number_of_registered_parties() as u64).filter_map(|i| closed.get_registration_entry_for_index(&i).ok())
                        .find(|e| e.get_verification_key_for_concatenation() == cs.vkpop.vk).map(|e| e.get_stake())
                })
            } else { None };
            let out = match &res {
                Ok(pid) => format!("ok {} {}", id(format!("pid:{}", pid)), recorded.map(|s| s.to_string()).unwrap_or("?".into())),
                Err(e) => format!("err {}", class(e)),
            };
            // ---- oracle bits (real primitives, separately) ---------------------------------
            let msg = cs.vkpop.to_bytes();
            let opcert_ok = cs.opcert.as_ref().map(|o| o.validate().is_ok()).unwrap_or(false);
            let kes_ok: Vec<u32> = match (&cs.opcert, &cs.sig) {
                (Some(o), Some(s)) => (0u32..=66).filter(|t| s.verify(*t, &o.get_kes_verification_key(), &msg).is_ok()).collect(),
                _ => vec![],
            };
            let (pop_half1, pop_half2) = pop_halves(&cs.vkpop.to_bytes());
            let pop_ok = pop_half1 && pop_half2;
            let pool = cs.opcert.as_ref().and_then(|o| o.compute_protocol_party_id().ok());
            let pid_id = pool.as_ref().map(|p| id(format!("pid:{}", p)).to_string()).unwrap_or("none".into());
            let sd_line = sd_eff.iter().map(|(p, s)| format!("({},{})", id(format!("pid:{}", p)), s)).collect::<Vec<_>>().join(",");
            let vk_id = id(format!("vk:{}", hutil::hex(&cs.vkpop.vk.to_bytes())));
            let reg_line = cs.pre_registered.iter().map(|k| id(format!("vk:{}", hutil::hex(&k.vk.to_bytes()))).to_string()).collect::<Vec<_>>().join(",");
            let req = format!(
                "c07.register opcert={} sig={} evol={} opcertOk={} kesOk={} popOk={} pid={} sd=[{}] vk={} registered=[{}]",
                cs.opcert.is_some() as u8, cs.sig.is_some() as u8, cs.evol.map(|e| e.to_string()).unwrap_or("none".into()),
                opcert_ok as u8, hutil::list(&kes_ok), pop_ok as u8, pid_id, sd_line, vk_id, reg_line
            );
            let i = sink.case(tag, &req, &out);
            // ---- S on the implementation -----------------------------------------------------
            if let Ok(pid) = &res {
                let e = cs.evol.unwrap_or(u64::MAX);
                let in_window = kes_ok.iter().any(|t| (*t as u64) + 1 >= e && (*t as u64) <= e.saturating_add(1) && *t <= 63);
                let dist = sd_eff.iter().rev().find(|(p, _)| p == pid).map(|(_, s)| *s); // last pair wins (HashMap::from_iter)
                let mut why = vec![];
                if !opcert_ok { why.push("op-cert not signed by the cold key"); }
                if !in_window { why.push("no valid KES evolution within one period of the announced one"); }
                if !pop_ok { why.push("proof of possession invalid"); }
                if Some(pid) != pool.as_ref() { why.push("party id is not the pool id derived from the cold key"); }
                if dist.is_none() { why.push("pool not in the stake distribution"); }
                if recorded != dist { why.push("recorded stake is not the distribution's value"); }
                if cs.pre_registered.iter().any(|k| k.vk == cs.vkpop.vk) { why.push("key was already registered"); }
                if !why.is_empty() { sink.sfail(i, "registration", &format!("accepted although: {}", why.join("; ")), &req); }
            }
        }
    }
    sink.finish();
}
