//! C09 harness, parts (b)/(c): `MKProof` and nested `MKMapProof<BlockRange>` of
//! mithril-merkle-tree (ckb MMR 0.6.1 underneath) versus the Lean transliteration
//! (`Mmr.calcRoot`, `MkProof.verify/contains`, `MapProof.verify/contains`) with the Lean Blake2s.
//! Forged proofs are built through the serde (JSON) form, as a hostile aggregator would.
use hutil::{catch, hex, Args, Rng, Sink};
use mithril_common::crypto_helper::{MKMap, MKMapNode, MKMapProof, MKProof, MKTree, MKTreeNode, MKTreeStoreInMemory};
use mithril_common::entities::{BlockNumber, BlockRange};
use serde_json::{json, Value};
use std::collections::BTreeSet;

type S = MKTreeStoreInMemory;
#[path = "../common/mkjson.rs"]
mod mkjson;
use mkjson::*;

/// S classification of an accepted proof that "contains" a value outside the committed set
fn classify(claimed: &[u8], committed: &[Vec<u8>]) -> &'static str {
    if claimed.len() == 32 {
        "node-as-leaf" // known finding: no leaf/node domain separation, MMR size not bound by the root
    } else if committed.iter().any(|c| claimed.len() > c.len() && claimed.starts_with(c)) {
        "concat-split" // known finding: merge = hash of a raw concatenation of variable-length values
    } else {
        "mk-membership"
    }
}

fn run_mk(sink: &mut Sink, tag: &str, p: &P, committed: &[Vec<u8>]) -> Option<bool> {
    if !sink.wanted() {
        sink.skip();
        return None;
    }
    let q: Vec<Vec<u8>> = p.leaves.iter().map(|l| l.1.clone()).collect();
    let (v, c) = match p.to_proof() {
        Some(proof) => {
            let pr = proof.clone();
            let v = catch(move || pr.verify().is_ok());
            let qn: Vec<MKTreeNode> = q.iter().map(|b| MKTreeNode::new(b.clone())).collect();
            let c = proof.contains(&qn).is_ok();
            (v, c)
        }
        None => (Ok(false), false),
    };
    let out = match v {
        Ok(true) => format!("ok {}", c as u8),
        Ok(false) => format!("err {}", c as u8),
        Err(_) => "panic".to_string(),
    };
    let req = format!("c09.mkverify {} q=[{}]", p.line(), q.iter().map(|b| hex(b)).collect::<Vec<_>>().join(","));
    let i = sink.case(tag, &req, &out);
    if v == Ok(true) {
        for l in &p.leaves {
            if !committed.contains(&l.1) {
                sink.sfail(i, classify(&l.1, committed), "accepted MKProof contains a value that is not a committed leaf", &req);
                break;
            }
        }
    }
    v.ok()
}

fn rand_leaf(rng: &mut Rng, shape: u64) -> Vec<u8> {
    match shape {
        0 => format!("Tx/{}/{}/{}/{}", hex(&rng.bytes(32)), hex(&rng.bytes(32)), rng.below(100000), rng.below(1000000)).into_bytes(),
        1 => hex(&rng.bytes(32)).into_bytes(), // 64-byte hex digest
        2 => {
            let n = 1 + rng.below(80) as usize;
            let mut b = rng.bytes(n);
            if b.len() == 32 { b.push(1); }
            b
        }
        _ => format!("test-{}", rng.below(1_000_000)).into_bytes(),
    }
}

fn distinct_leaves(rng: &mut Rng, n: usize, shape: u64) -> Vec<Vec<u8>> {
    let mut set = BTreeSet::new();
    let mut out = vec![];
    while out.len() < n {
        let l = rand_leaf(rng, shape);
        if set.insert(l.clone()) {
            out.push(l);
        }
    }
    out
}

fn mutate_mk(sink: &mut Sink, rng: &mut Rng, h: &P, committed: &[Vec<u8>], shape: u64) {
    // leaf replaced
    let k = rng.below(h.leaves.len() as u64) as usize;
    let mut p = h.clone();
    p.leaves[k].1 = rand_leaf(rng, shape);
    run_mk(sink, "leaf-replaced", &p, committed);
    // leaf moved to another (leaf) position
    let mut p = h.clone();
    p.leaves[k].0 = match rng.below(3) { 0 => p.leaves[k].0 + 1, 1 => p.leaves[k].0.saturating_sub(1), _ => rng.below(h.size + 3) };
    run_mk(sink, "leaf-moved", &p, committed);
    // duplicate position: identical copy (harmless) and forged copy (the fixed finding)
    let mut p = h.clone();
    p.leaves.push(h.leaves[k].clone());
    run_mk(sink, "dup-identical", &p, committed);
    let mut p = h.clone();
    p.leaves.push((h.leaves[k].0, rand_leaf(rng, shape)));
    run_mk(sink, "dup-forged", &p, committed);
    let mut p = h.clone();
    p.leaves.insert(0, (h.leaves[k].0, rand_leaf(rng, shape)));
    run_mk(sink, "dup-forged-first", &p, committed);
    // proof items altered / dropped / added / swapped
    if !h.items.is_empty() {
        let j = rng.below(h.items.len() as u64) as usize;
        let mut p = h.clone();
        let bl = p.items[j].len() as u64;
        p.items[j][rng.below(bl) as usize] ^= 1;
        run_mk(sink, "item-flipped", &p, committed);
        let mut p = h.clone();
        p.items.remove(j);
        run_mk(sink, "item-dropped", &p, committed);
        let mut p = h.clone();
        p.items.swap(0, j);
        run_mk(sink, "item-swapped", &p, committed);
    }
    let mut p = h.clone();
    p.items.push(rng.bytes(32));
    run_mk(sink, "item-added", &p, committed);
    // root / size altered
    let mut p = h.clone();
    p.root[0] ^= 1;
    run_mk(sink, "root-altered", &p, committed);
    for s in [0u64, 1, h.size.saturating_sub(1), h.size + 1, h.size + 2, 2 * h.size + 1, 1 << 40] {
        let mut p = h.clone();
        p.size = s;
        run_mk(sink, "size-altered", &p, committed);
    }
    // unsorted leaves (the verifier sorts)
    if h.leaves.len() >= 2 {
        let mut p = h.clone();
        p.leaves.reverse();
        run_mk(sink, "unsorted", &p, committed);
    }
    // empty leaves
    let mut p = h.clone();
    p.leaves.clear();
    run_mk(sink, "no-leaves", &p, committed);
}

fn run_map(sink: &mut Sink, tag: &str, mp: &MP, q: &[u8], committed: &[Vec<u8>], allowed_extra: &[Vec<u8>]) {
    if !sink.wanted() {
        sink.skip();
        return;
    }
    let parsed: Option<MKMapProof<BlockRange>> = serde_json::from_value(mp.to_json()).ok();
    let out = match parsed {
        Some(p) => {
            let p2 = p.clone();
            match catch(move || p2.verify().is_ok()) {
                Ok(v) => format!("{} {}", if v { "ok" } else { "err" }, p.contains(&MKTreeNode::new(q.to_vec())).is_ok() as u8),
                Err(_) => "panic".to_string(),
            }
        }
        None => "err 0".to_string(),
    };
    let req = format!("c09.mapverify proof={} q={}", mp.line(), hex(q));
    let i = sink.case(tag, &req, &out);
    if out.starts_with("ok") {
        // S: whatever an accepted nested proof contains is committed (a leaf of a sub-tree, or — by the
        // construction of the map — a link node `key+subroot` / inner value, which is the known class)
        let mut claimed = vec![];
        mp.all_claimed(&mut claimed);
        for c in claimed {
            if !committed.contains(&c) && !allowed_extra.contains(&c) {
                sink.sfail(i, classify(&c, committed), "accepted MKMapProof contains a value that is not committed", &req);
                break;
            }
        }
    }
}

fn main() {
    hutil::quiet_panics();
    let args = Args::parse();
    let mut rng = Rng::new(args.seed);
    let mut sink = Sink::new(&args);

    // ---- witnesses -----------------------------------------------------------------------
    {
        // fixed finding: duplicate position with a forged leaf
        let leaves = distinct_leaves(&mut rng, 5, 3);
        let nodes: Vec<MKTreeNode> = leaves.iter().map(|l| MKTreeNode::new(l.clone())).collect();
        let tree = MKTree::<S>::new(&nodes).unwrap();
        let honest = P::from_proof(&tree.compute_proof(&nodes[1..2]).unwrap());
        let mut forged = honest.clone();
        forged.leaves.push((honest.leaves[0].0, b"FAKE".to_vec()));
        let fp = forged.to_proof().unwrap();
        let accepted = fp.verify().is_ok() && fp.contains(&[MKTreeNode::new(b"FAKE".to_vec())]).is_ok();
        sink.witness("C09-dup-position", accepted, "honest proof + (same position, FAKE)");
        run_mk(&mut sink, "corpus", &forged, &leaves);
        // known finding: inner node presented as a leaf with a smaller MMR size
        let l4 = distinct_leaves(&mut rng, 4, 3);
        let n4: Vec<MKTreeNode> = l4.iter().map(|l| MKTreeNode::new(l.clone())).collect();
        let t4 = MKTree::<S>::new(&n4).unwrap();
        let root = t4.compute_root().unwrap().to_vec();
        let ab = merge(&l4[0], &l4[1]);
        let cd = merge(&l4[2], &l4[3]);
        let nal = P { root: root.clone(), size: 3, leaves: vec![(0, ab.clone())], items: vec![cd.clone()] };
        let ok = nal.to_proof().map(|p| p.verify().is_ok()).unwrap_or(false);
        sink.witness("C09-node-as-leaf", ok, "4 leaves; proof (size 3, leaves [(0, H(l0‖l1))], items [H(l2‖l3)])");
        run_mk(&mut sink, "corpus", &nal, &l4);
        // known finding: concatenation split  merge(L, R) = merge(L ‖ R[..k], R[k..])
        let l2 = vec![b"Tx/T1/B1/12/340".to_vec(), b"Tx/T2/B2/12/345".to_vec()];
        let n2: Vec<MKTreeNode> = l2.iter().map(|l| MKTreeNode::new(l.clone())).collect();
        let t2 = MKTree::<S>::new(&n2).unwrap();
        let r2 = t2.compute_root().unwrap().to_vec();
        let mut forged_leaf = l2[0].clone();
        forged_leaf.extend_from_slice(&l2[1][..l2[1].len() - 1]);
        let split = P { root: r2, size: 3, leaves: vec![(0, forged_leaf)], items: vec![l2[1][l2[1].len() - 1..].to_vec()] };
        let ok = split.to_proof().map(|p| p.verify().is_ok()).unwrap_or(false);
        sink.witness("C09-concat-split", ok, "leaf = L ‖ R[..len-1], item = R[len-1..] under the honest root of [L, R]");
        run_mk(&mut sink, "corpus", &split, &l2);
    }

    // ---- single trees: exhaustive small scope -------------------------------------------
    let max_n = if args.thorough() { 17 } else { 10 };
    let max_sub = if args.thorough() { 12 } else { 7 };
    for n in 1..=max_n {
        let shape = rng.below(4);
        let leaves = distinct_leaves(&mut rng, n, shape);
        let nodes: Vec<MKTreeNode> = leaves.iter().map(|l| MKTreeNode::new(l.clone())).collect();
        let tree = MKTree::<S>::new(&nodes).unwrap();
        let subs: Vec<Vec<usize>> = if n <= max_sub {
            (1u32..(1 << n)).map(|m| (0..n).filter(|i| m >> i & 1 == 1).collect()).collect()
        } else {
            (0..150).map(|_| { let mut s: Vec<usize> = (0..n).filter(|_| rng.chance(1, 3)).collect(); if s.is_empty() { s.push(0); } s }).collect()
        };
        for sub in subs {
            let q: Vec<MKTreeNode> = sub.iter().map(|i| nodes[*i].clone()).collect();
            let honest = P::from_proof(&tree.compute_proof(&q).unwrap());
            if run_mk(&mut sink, "honest", &honest, &leaves) == Some(false) {
                let i = sink.next_index() - 1;
                sink.sfail(i, "mk-complete", "generated MKProof does not verify", &format!("n={} subset={:?}", n, sub));
            }
            if n <= 5 || rng.chance(1, if args.thorough() { 3 } else { 12 }) {
                mutate_mk(&mut sink, &mut rng, &honest, &leaves, shape);
            }
        }
    }
    // larger trees, sampled
    for _ in 0..(if args.thorough() { 400 } else { 40 }) {
        let n = rng.range(11, 300) as usize;
        let shape = rng.below(4);
        let leaves = distinct_leaves(&mut rng, n, shape);
        let nodes: Vec<MKTreeNode> = leaves.iter().map(|l| MKTreeNode::new(l.clone())).collect();
        let tree = MKTree::<S>::new(&nodes).unwrap();
        let mut sub: Vec<usize> = (0..n).filter(|_| rng.chance(1, 10)).collect();
        if sub.is_empty() { sub.push(rng.below(n as u64) as usize); }
        let q: Vec<MKTreeNode> = sub.iter().map(|i| nodes[*i].clone()).collect();
        let honest = P::from_proof(&tree.compute_proof(&q).unwrap());
        run_mk(&mut sink, "honest-large", &honest, &leaves);
        mutate_mk(&mut sink, &mut rng, &honest, &leaves, shape);
    }

    // ---- nested maps ------------------------------------------------------------------------
    for _ in 0..(if args.thorough() { 600 } else { 80 }) {
        let nranges = rng.range(1, 4) as usize;
        let mut committed: Vec<Vec<u8>> = vec![];
        let mut per_range: Vec<(BlockRange, Vec<Vec<u8>>)> = vec![];
        let mut entries = vec![];
        for r in 0..nranges {
            let range = BlockRange::from_block_number(BlockNumber(15 * r as u64 * rng.range(1, 3)));
            if per_range.iter().any(|(k, _)| *k == range) { continue; }
            let nl = rng.range(1, 9) as usize;
            let leaves = distinct_leaves(&mut rng, nl, 0);
            let nodes: Vec<MKTreeNode> = leaves.iter().map(|l| MKTreeNode::new(l.clone())).collect();
            let tree = MKTree::<S>::new(&nodes).unwrap();
            entries.push((range.clone(), MKMapNode::<BlockRange, S>::Tree(std::sync::Arc::new(tree))));
            committed.extend(leaves.iter().cloned());
            per_range.push((range, leaves));
        }
        let map = MKMap::<BlockRange, MKMapNode<BlockRange, S>, S>::new(&entries).unwrap();
        // query: a non-empty subset of all leaves
        let mut q: Vec<MKTreeNode> = committed.iter().filter(|_| rng.chance(1, 3)).map(|l| MKTreeNode::new(l.clone())).collect();
        if q.is_empty() { q.push(MKTreeNode::new(committed[0].clone())); }
        let proof = match map.compute_proof(&q) { Ok(p) => p, Err(_) => continue };
        let honest = MP::from_value(&serde_json::to_value(&proof).unwrap());
        // link nodes are claimed leaves of the master proof by construction
        let links: Vec<Vec<u8>> = honest.master.leaves.iter().map(|l| l.1.clone()).collect();
        let probe = q[0].to_vec();
        run_map(&mut sink, "map-honest", &honest, &probe, &committed, &links);
        let foreign = rand_leaf(&mut rng, 0);
        run_map(&mut sink, "map-honest-foreign-query", &honest, &foreign, &committed, &links);
        // sub-proof tampered: leaf replaced inside a sub proof
        let k = rng.below(honest.subs.len() as u64) as usize;
        let mut m = honest.clone();
        let j = rng.below(m.subs[k].2.master.leaves.len() as u64) as usize;
        m.subs[k].2.master.leaves[j].1 = foreign.clone();
        run_map(&mut sink, "map-sub-leaf-replaced", &m, &foreign, &committed, &links);
        // forged duplicate inside a sub proof (fixed finding, nested)
        let mut m = honest.clone();
        let pos = m.subs[k].2.master.leaves[j].0;
        m.subs[k].2.master.leaves.push((pos, foreign.clone()));
        run_map(&mut sink, "map-sub-dup-forged", &m, &foreign, &committed, &links);
        // sub-proof detached: replaced by a proof of a foreign tree under the same key
        {
            let fl = distinct_leaves(&mut rng, 3, 0);
            let fnodes: Vec<MKTreeNode> = fl.iter().map(|l| MKTreeNode::new(l.clone())).collect();
            let ft = MKTree::<S>::new(&fnodes).unwrap();
            let fp = P::from_proof(&ft.compute_proof(&fnodes[0..1]).unwrap());
            let mut m = honest.clone();
            m.subs[k].2 = MP { master: fp, subs: vec![] };
            run_map(&mut sink, "map-sub-detached", &m, &fl[0], &committed, &links);
            // … and also re-linked in the master's claimed leaves without fixing the master proof
            let mut m2 = m.clone();
            let link = merge(&m2.subs[k].1, &m2.subs[k].2.master.root);
            m2.master.leaves[0].1 = link;
            run_map(&mut sink, "map-sub-detached-relinked", &m2, &fl[0], &committed, &links);
        }
        // an EXTRA sub-proof (proof of a foreign tree under a fresh or an existing key) added at the end / front / middle:
        // the master proof does not commit to it
        {
            let fl = distinct_leaves(&mut rng, 3, 0);
            let fnodes: Vec<MKTreeNode> = fl.iter().map(|l| MKTreeNode::new(l.clone())).collect();
            let ft = MKTree::<S>::new(&fnodes).unwrap();
            let fp = P::from_proof(&ft.compute_proof(&fnodes[0..1]).unwrap());
            for (tag, at) in [("map-extra-sub-appended", honest.subs.len()), ("map-extra-sub-front", 0), ("map-extra-sub-middle", honest.subs.len() / 2)] {
                for fresh_key in [true, false] {
                    let mut m = honest.clone();
                    let key = if fresh_key { BlockRange::from_block_number(BlockNumber(15 * (2000 + rng.below(100)))) } else { honest.subs[rng.below(honest.subs.len() as u64) as usize].0.clone() };
                    let kb: MKTreeNode = key.clone().into();
                    m.subs.insert(at, (key, kb.to_vec(), MP { master: fp.clone(), subs: vec![] }));
                    run_map(&mut sink, tag, &m, &fl[0], &committed, &links);
                }
            }
        }
        // sub-proofs swapped between keys / re-keyed
        if honest.subs.len() >= 2 {
            let mut m = honest.clone();
            let a = m.subs[0].2.clone();
            m.subs[0].2 = m.subs[1].2.clone();
            m.subs[1].2 = a;
            run_map(&mut sink, "map-subs-swapped", &m, &probe, &committed, &links);
        }
        {
            let mut m = honest.clone();
            let nk = BlockRange::from_block_number(BlockNumber(15 * 1000));
            let nkb: MKTreeNode = nk.clone().into();
            m.subs[k].0 = nk;
            m.subs[k].1 = nkb.to_vec();
            run_map(&mut sink, "map-rekeyed", &m, &probe, &committed, &links);
        }
        // master proof tampered
        {
            let mut m = honest.clone();
            m.master.root[0] ^= 1;
            run_map(&mut sink, "map-root-altered", &m, &probe, &committed, &links);
            let mut m = honest.clone();
            if !m.master.items.is_empty() { m.master.items[0][0] ^= 1; }
            else { m.master.size += 1; }
            run_map(&mut sink, "map-master-tampered", &m, &probe, &committed, &links);
            let mut m = honest.clone();
            m.subs.remove(k);
            run_map(&mut sink, "map-sub-removed", &m, &probe, &committed, &links);
        }
    }
    sink.finish();
}
