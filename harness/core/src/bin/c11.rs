//! C11 harness: the real client-side verifiers of certified sets — `CardanoTransactionsProofsMessage::verify`
//! (legacy transaction-hash sets, several parts), `CardanoTransactionsProofsV2Message::verify` and
//! `CardanoBlocksProofsMessage::verify` (v2 leaves `Tx/…`, `Block/…`) — on honest responses of a real
//! `MKMap` of block-range trees and on tampered responses, versus the Lean model `Proofs.verifyLegacy` /
//! `verifyV2`; the stake-distribution tree root versus `MmrBuild.root` (Blake2s in Lean); the recomputed
//! protocol message versus the C04 digest model. S on the real verdicts: every reported item is committed
//! under the single returned root; the recomputed message matches the signed one iff (root, block number,
//! offset) are the signed ones; the verified stake distribution is the certified mapping.
#[path = "../common/mkjson.rs"]
mod mkjson;
use hutil::{hex, Args, Rng, Sink};
use mithril_common::crypto_helper::{MKMap, MKMapNode, MKMapProof, MKTree, MKTreeNode, MKTreeStoreInMemory, ProtocolMkProof};
use mithril_common::entities::{BlockNumber, BlockNumberOffset, BlockRange, CardanoBlock, CardanoTransaction, IntoMKTreeNode, ProtocolMessage, ProtocolMessagePartKey, SlotNumber};
use mithril_common::messages::{CardanoBlockMessagePart, CardanoBlocksProofsMessage, CardanoTransactionMessagePart, CardanoTransactionsProofsMessage, CardanoTransactionsProofsV2Message, CardanoTransactionsSetProofMessagePart, MkSetProofMessagePart};
use mithril_common::signable_builder::CardanoStakeDistributionSignableBuilder;
use mkjson::*;
use std::collections::BTreeMap;
use std::sync::Arc;

type S = MKTreeStoreInMemory;
type Map = MKMap<BlockRange, MKMapNode<BlockRange, S>, S>;

fn map_of(leaves_by_range: &BTreeMap<u64, Vec<Vec<u8>>>) -> Map {
    let entries: Vec<(BlockRange, MKMapNode<BlockRange, S>)> = leaves_by_range.iter().map(|(start, ls)| {
        let nodes: Vec<MKTreeNode> = ls.iter().map(|l| MKTreeNode::new(l.clone())).collect();
        (BlockRange::from_block_number(BlockNumber(*start)), MKMapNode::Tree(Arc::new(MKTree::<S>::new(&nodes).unwrap())))
    }).collect();
    MKMap::new(&entries).unwrap()
}

fn to_proof(mp: &MP) -> Option<MKMapProof<BlockRange>> { serde_json::from_value(mp.to_json()).ok() }

fn classify(claimed: &[u8], committed: &[Vec<u8>]) -> &'static str {
    if claimed.len() == 32 { "node-as-leaf" }
    else if committed.iter().any(|c| claimed.len() > c.len() && claimed.starts_with(c)) { "concat-split" }
    else { "set-membership" }
}

fn hx(ls: &[Vec<u8>]) -> String { format!("[{}]", ls.iter().map(|l| hex(l)).collect::<Vec<_>>().join(",")) }

fn main() {
    let args = Args::parse();
    let mut rng = Rng::new(args.seed);
    let mut sink = Sink::new(&args);
    let worlds = if args.thorough() { 400 } else { 40 };

    for _w in 0..worlds {
        // ---- a chain: blocks with transactions, grouped by block range -------------------------
        let nblocks = rng.range(1, if args.thorough() { 120 } else { 50 });
        let mut txs: Vec<CardanoTransaction> = vec![];
        let mut blocks: Vec<CardanoBlock> = vec![];
        for b in 0..nblocks {
            let bh = hex(&rng.bytes(32));
            let slot = b * 20 + rng.below(20);
            blocks.push(CardanoBlock::new(bh.clone(), BlockNumber(b), SlotNumber(slot)));
            for _ in 0..rng.below(4) {
                txs.push(CardanoTransaction::new(hex(&rng.bytes(32)), BlockNumber(b), SlotNumber(slot), bh.clone()));
            }
        }
        if txs.is_empty() { txs.push(CardanoTransaction::new(hex(&rng.bytes(32)), BlockNumber(0), SlotNumber(0), blocks[0].block_hash.clone())); }
        // legacy tree: leaves = transaction hashes; v2 tree: leaves = Block/… and Tx/… identifiers
        let mut legacy: BTreeMap<u64, Vec<Vec<u8>>> = BTreeMap::new();
        let mut v2: BTreeMap<u64, Vec<Vec<u8>>> = BTreeMap::new();
        for t in &txs { legacy.entry(t.block_number.0 / 15 * 15).or_default().push(t.transaction_hash.clone().into_bytes()); }
        for b in &blocks { v2.entry(b.block_number.0 / 15 * 15).or_default().push(b.clone().into_mk_tree_node().to_vec()); }
        for t in &txs { v2.entry(t.block_number.0 / 15 * 15).or_default().push(t.clone().into_mk_tree_node().to_vec()); }
        let legacy_map = map_of(&legacy);
        let v2_map = map_of(&v2);
        let legacy_committed: Vec<Vec<u8>> = legacy.values().flatten().cloned().collect();
        let v2_committed: Vec<Vec<u8>> = v2.values().flatten().cloned().collect();
        let legacy_root = legacy_map.compute_root().unwrap().to_vec();
        let v2_root = v2_map.compute_root().unwrap().to_vec();
        let latest = BlockNumber(nblocks - 1);
        let offset = BlockNumberOffset(rng.below(100));

        // ================= legacy: 1-3 parts ===================================================
        let nparts = rng.range(1, 3) as usize;
        let mut parts: Vec<(Vec<String>, MP)> = vec![];
        for _ in 0..nparts {
            let mut q: Vec<String> = txs.iter().filter(|_| rng.chance(1, 4)).map(|t| t.transaction_hash.clone()).collect();
            if q.is_empty() { q.push(txs[rng.below(txs.len() as u64) as usize].transaction_hash.clone()); }
            let proof = legacy_map.compute_proof(&q.iter().map(|h| MKTreeNode::from(h.clone())).collect::<Vec<_>>()).unwrap();
            parts.push((q, MP::from_value(&serde_json::to_value(&proof).unwrap())));
        }
        let mut run_legacy = |sink: &mut Sink, tag: &str, parts: &[(Vec<String>, MP)], latest: BlockNumber| {
            if !sink.wanted() { sink.skip(); return; }
            let mut msg_parts = vec![];
            for (hashes, mp) in parts {
                let proof = match to_proof(mp) { Some(p) => p, None => { return; } };
                msg_parts.push(CardanoTransactionsSetProofMessagePart { transactions_hashes: hashes.clone(), proof: ProtocolMkProof::new(proof).to_json_hex().unwrap() });
            }
            let m = CardanoTransactionsProofsMessage::new("cert", msg_parts, vec![], latest);
            let res = m.verify();
            let out = match &res {
                Ok(v) => { let mut pm = ProtocolMessage::new(); v.fill_protocol_message(&mut pm); format!("ok {}", pm.get_message_part(&ProtocolMessagePartKey::CardanoTransactionsMerkleRoot).unwrap()) }
                Err(e) => { let t = format!("{:?}", e); if t.starts_with("InvalidSetProof") { "err invalid".into() } else if t.starts_with("NoCertifiedTransaction") { "err none".into() } else if t.starts_with("NonMatchingMerkleRoot") { "err nonmatching".into() } else { "err malformed".to_string() } }
            };
            let req = format!("c11.legacy parts=[{}]", parts.iter().map(|(h, mp)| format!("({},{})", hx(&h.iter().map(|x| x.clone().into_bytes()).collect::<Vec<_>>()), mp.line())).collect::<Vec<_>>().join(","));
            let i = sink.case(tag, &req, &out);
            if let Ok(v) = &res {
                // S: every reported transaction is committed under the returned root, which is THE certified root
                for h in v.certified_transactions() {
                    if !legacy_committed.contains(&h.clone().into_bytes()) { sink.sfail(i, classify(h.as_bytes(), &legacy_committed), &format!("transaction {} reported as certified but not committed", h), &req); break; }
                }
                let mut pm = ProtocolMessage::new(); v.fill_protocol_message(&mut pm);
                let root_ok = pm.get_message_part(&ProtocolMessagePartKey::CardanoTransactionsMerkleRoot).map(|r| *r == hex(&legacy_root)).unwrap_or(false);
                // message binding (S): recomputed message digest equals the signed one iff root and block number are the signed ones
                let mut signed = ProtocolMessage::new();
                signed.set_message_part(ProtocolMessagePartKey::CardanoTransactionsMerkleRoot, hex(&legacy_root));
                signed.set_message_part(ProtocolMessagePartKey::LatestBlockNumber, (nblocks - 1).to_string());
                signed.set_message_part(ProtocolMessagePartKey::NextAggregateVerificationKey, "avk".into());
                let mut recomputed = signed.clone();
                v.fill_protocol_message(&mut recomputed);
                let matches = recomputed.compute_hash() == signed.compute_hash();
                if matches != (root_ok && latest.0 == nblocks - 1) { sink.sfail(i, "message-binding", "recomputed protocol message matches the signed one although root / block number differ (or the reverse)", &req); }
            }
        };
        run_legacy(&mut sink, "legacy-honest", &parts, latest);
        run_legacy(&mut sink, "legacy-block-number-altered", &parts, BlockNumber(latest.0 + 1));
        run_legacy(&mut sink, "legacy-no-part", &[], latest);
        // a part whose proof text does not decode, at every position, alone and next to parts that fail otherwise: the verifier
        // handles the parts one by one, the first failing part decides the class
        {
            let mut variants: Vec<(&str, Vec<(Vec<String>, MP)>)> = vec![("legacy-malformed-part", parts.clone())];
            { let mut p = parts.clone(); p[0].0.push(hex(&rng.bytes(32))); variants.push(("legacy-malformed-part-and-invalid-first", p)); }
            { let mut p = parts.clone(); let k = p.len() - 1; p[k].1.master.root[0] ^= 1; variants.push(("legacy-malformed-part-and-invalid-last", p)); }
            for (tag, ps) in variants {
                for bad_at in 0..=ps.len() {
                    if !sink.wanted() { sink.skip(); continue; }
                    let mut msg_parts = vec![];
                    let mut lines = vec![];
                    for (hashes, mp) in &ps {
                        let proof = to_proof(mp).unwrap();
                        msg_parts.push(CardanoTransactionsSetProofMessagePart { transactions_hashes: hashes.clone(), proof: ProtocolMkProof::new(proof).to_json_hex().unwrap() });
                        lines.push(format!("({},{})", hx(&hashes.iter().map(|x| x.clone().into_bytes()).collect::<Vec<_>>()), mp.line()));
                    }
                    let bad_hashes = vec![hex(&rng.bytes(32))];
                    msg_parts.insert(bad_at, CardanoTransactionsSetProofMessagePart { transactions_hashes: bad_hashes.clone(), proof: match rng.below(3) { 0 => "invalid".to_string(), 1 => String::new(), _ => "7b7d".to_string() } });
                    lines.insert(bad_at, format!("({},bad)", hx(&bad_hashes.iter().map(|x| x.clone().into_bytes()).collect::<Vec<_>>())));
                    let out = match CardanoTransactionsProofsMessage::new("cert", msg_parts, vec![], latest).verify() {
                        Ok(_) => "ok".to_string(),
                        Err(e) => { let t = format!("{:?}", e); if t.starts_with("InvalidSetProof") { "err invalid".into() } else if t.starts_with("NoCertifiedTransaction") { "err none".into() } else if t.starts_with("NonMatchingMerkleRoot") { "err nonmatching".into() } else { "err malformed".to_string() } }
                    };
                    let req = format!("c11.legacy parts=[{}]", lines.join(","));
                    let i = sink.case(tag, &req, &out);
                    if out == "ok" { sink.sfail(i, "set-membership", "a response with an undecodable part is accepted", &req); }
                }
            }
        }
        {
            // item added / renamed
            let mut p = parts.clone(); p[0].0.push(hex(&rng.bytes(32))); run_legacy(&mut sink, "legacy-item-added", &p, latest);
            let mut p = parts.clone(); p[0].0[0] = hex(&rng.bytes(32)); run_legacy(&mut sink, "legacy-item-renamed", &p, latest);
            // an item that is committed but not covered by this part's proof
            let other = txs[rng.below(txs.len() as u64) as usize].transaction_hash.clone();
            let mut p = parts.clone(); if !p[0].0.contains(&other) { p[0].0.push(other); } run_legacy(&mut sink, "legacy-item-committed-not-proven", &p, latest);
            // forged duplicate position inside a sub-proof together with the forged hash as an item (fixed finding)
            let fake = hex(&rng.bytes(32));
            let mut p = parts.clone();
            if let Some(sub) = p[0].1.subs.get_mut(0) { let pos = sub.2.master.leaves[0].0; sub.2.master.leaves.push((pos, fake.clone().into_bytes())); }
            p[0].0.push(fake);
            run_legacy(&mut sink, "legacy-dup-position-forged", &p, latest);
            // proofs swapped between parts
            if parts.len() >= 2 { let mut p = parts.clone(); let a = p[0].1.clone(); p[0].1 = p[1].1.clone(); p[1].1 = a; run_legacy(&mut sink, "legacy-proofs-swapped", &p, latest); }
            // a part proving under another root (a different honest map)
            let mut other_leaves = legacy.clone(); other_leaves.entry(0).or_default().push(hex(&rng.bytes(32)).into_bytes());
            let other_map = map_of(&other_leaves);
            let q = vec![parts[0].0[0].clone()];
            if let Ok(op) = other_map.compute_proof(&q.iter().map(|h| MKTreeNode::from(h.clone())).collect::<Vec<_>>()) {
                let mut p = parts.clone();
                p.push((q.clone(), MP::from_value(&serde_json::to_value(&op).unwrap())));
                run_legacy(&mut sink, "legacy-part-under-other-root", &p, latest);
                run_legacy(&mut sink, "legacy-only-other-root", &[(q, MP::from_value(&serde_json::to_value(&op).unwrap()))], latest);
            }
            // a forged, self-consistent sub-proof (its own little tree containing a never-certified hash) slipped in under a
            // key the proof already has — before, after — or under a fresh key; the forged hash is listed as an item
            {
                let fake = hex(&rng.bytes(32));
                let fl: Vec<MKTreeNode> = vec![MKTreeNode::new(fake.clone().into_bytes()), MKTreeNode::new(hex(&rng.bytes(32)).into_bytes())];
                let ft = MKTree::<S>::new(&fl).unwrap();
                let fp = P::from_proof(&ft.compute_proof(&fl[0..1]).unwrap());
                if !parts[0].1.subs.is_empty() {
                    let nsub = parts[0].1.subs.len();
                    for (tag, at, fresh) in [("legacy-forged-sub-same-key-front", 0usize, false), ("legacy-forged-sub-same-key-after", nsub, false), ("legacy-forged-sub-same-key-adjacent", 1usize.min(nsub), false), ("legacy-forged-sub-fresh-key", nsub, true)] {
                        let mut p = parts.clone();
                        let key = if fresh { BlockRange::from_block_number(BlockNumber(15 * (3000 + rng.below(100)))) } else { p[0].1.subs[if at == 0 || at == 1 { 0 } else { nsub - 1 }].0.clone() };
                        let kb: MKTreeNode = key.clone().into();
                        p[0].1.subs.insert(at, (key, kb.to_vec(), MP { master: fp.clone(), subs: vec![] }));
                        p[0].0.push(fake.clone());
                        run_legacy(&mut sink, tag, &p, latest);
                    }
                }
            }
            // sub-proof detached / master root altered
            let mut p = parts.clone(); p[0].1.master.root[0] ^= 1; run_legacy(&mut sink, "legacy-root-altered", &p, latest);
            let mut p = parts.clone(); if !p[0].1.subs.is_empty() { p[0].1.subs.remove(0); } run_legacy(&mut sink, "legacy-sub-removed", &p, latest);
        }

        // ================= v2 transactions and blocks ============================================
        let mut q: Vec<CardanoTransaction> = txs.iter().filter(|_| rng.chance(1, 4)).cloned().collect();
        if q.is_empty() { q.push(txs[0].clone()); }
        let proof = v2_map.compute_proof(&q.iter().map(|t| t.clone().into_mk_tree_node()).collect::<Vec<_>>()).unwrap();
        let honest_mp = MP::from_value(&serde_json::to_value(&proof).unwrap());
        let mut run_v2 = |sink: &mut Sink, tag: &str, items: Option<&[CardanoTransaction]>, mp: &MP, latest: BlockNumber, off: BlockNumberOffset| {
            if !sink.wanted() { sink.skip(); return; }
            let part = match items { None => None, Some(items) => {
                let proof = match to_proof(mp) { Some(p) => p, None => return };
                Some(MkSetProofMessagePart::<CardanoTransactionMessagePart> { items: items.iter().map(|t| CardanoTransactionMessagePart { transaction_hash: t.transaction_hash.clone(), block_number: t.block_number, slot_number: t.slot_number, block_hash: t.block_hash.clone() }).collect(), proof: ProtocolMkProof::new(proof).to_bytes_hex().unwrap() })
            } };
            let m = CardanoTransactionsProofsV2Message::new("cert", part, vec![], latest, off);
            let res = m.verify();
            let out = match &res { Ok(v) => format!("ok {}", v.certified_merkle_root()), Err(e) => { let t = format!("{:?}", e); if t.starts_with("InvalidSetProof") { "err invalid".into() } else if t.starts_with("NoCertifiedItem") { "err none".into() } else { "err malformed".to_string() } } };
            let req = match items { None => "c11.v2 part=none".to_string(), Some(items) => format!("c11.v2 part=({},{})", hx(&items.iter().map(|t| t.clone().into_mk_tree_node().to_vec()).collect::<Vec<_>>()), mp.line()) };
            let i = sink.case(tag, &req, &out);
            if let Ok(v) = &res {
                for t in v.certified_transactions() {
                    let leaf = CardanoTransaction::new(t.transaction_hash.clone(), t.block_number, t.slot_number, t.block_hash.clone()).into_mk_tree_node().to_vec();
                    if !v2_committed.contains(&leaf) { sink.sfail(i, classify(&leaf, &v2_committed), &format!("transaction {} (block {}) reported as certified but not committed", t.transaction_hash, t.block_number.0), &req); break; }
                }
                // message binding with the offset
                let mut signed = ProtocolMessage::new();
                signed.set_message_part(ProtocolMessagePartKey::CardanoBlocksTransactionsMerkleRoot, hex(&v2_root));
                signed.set_message_part(ProtocolMessagePartKey::LatestBlockNumber, (nblocks - 1).to_string());
                signed.set_message_part(ProtocolMessagePartKey::CardanoBlocksTransactionsBlockNumberOffset, offset.0.to_string());
                let mut rec = signed.clone();
                rec.set_message_part(ProtocolMessagePartKey::CardanoBlocksTransactionsMerkleRoot, v.certified_merkle_root().to_string());
                rec.set_message_part(ProtocolMessagePartKey::LatestBlockNumber, v.latest_certified_block_number().to_string());
                rec.set_message_part(ProtocolMessagePartKey::CardanoBlocksTransactionsBlockNumberOffset, v.security_parameter().to_string());
                let matches = rec.compute_hash() == signed.compute_hash();
                let same = v.certified_merkle_root() == hex(&v2_root) && latest.0 == nblocks - 1 && off == offset;
                if matches != same { sink.sfail(i, "message-binding", "recomputed v2 message matches the signed one although root / block number / offset differ (or the reverse)", &req); }
            }
        };
        run_v2(&mut sink, "v2-honest", Some(&q), &honest_mp, latest, offset);
        run_v2(&mut sink, "v2-none", None, &honest_mp, latest, offset);
        if sink.wanted() {
            let part = MkSetProofMessagePart::<CardanoTransactionMessagePart> { items: vec![], proof: "00".to_string() };
            let res = CardanoTransactionsProofsV2Message::new("cert", Some(part), vec![], latest, offset).verify();
            let out = match &res { Ok(_) => "ok".to_string(), Err(e) => { let t = format!("{:?}", e); if t.starts_with("InvalidSetProof") { "err invalid".into() } else if t.starts_with("NoCertifiedItem") { "err none".into() } else { "err malformed".to_string() } } };
            sink.case("v2-malformed", "c11.v2 part=([],bad)", &out);
        } else { sink.skip(); }
        run_v2(&mut sink, "v2-offset-altered", Some(&q), &honest_mp, latest, BlockNumberOffset(offset.0 + 1));
        run_v2(&mut sink, "v2-block-number-altered", Some(&q), &honest_mp, BlockNumber(latest.0 + 1), offset);
        {
            let mut it = q.clone(); it[0].block_number = BlockNumber(it[0].block_number.0 + 1); run_v2(&mut sink, "v2-item-moved-to-other-block", Some(&it), &honest_mp, latest, offset);
            let mut it = q.clone(); it[0].slot_number = SlotNumber(it[0].slot_number.0 + 1); run_v2(&mut sink, "v2-item-slot-altered", Some(&it), &honest_mp, latest, offset);
            let mut it = q.clone(); it[0].block_hash = hex(&rng.bytes(32)); run_v2(&mut sink, "v2-item-block-hash-altered", Some(&it), &honest_mp, latest, offset);
            let mut it = q.clone(); it[0].transaction_hash = hex(&rng.bytes(32)); run_v2(&mut sink, "v2-item-renamed", Some(&it), &honest_mp, latest, offset);
            let mut it = q.clone(); it.push(CardanoTransaction::new(hex(&rng.bytes(32)), BlockNumber(1), SlotNumber(1), hex(&rng.bytes(32)))); run_v2(&mut sink, "v2-item-added", Some(&it), &honest_mp, latest, offset);
            // forged self-consistent sub-proof under an existing / a fresh key, the forged transaction listed as an item
            {
                let fake = CardanoTransaction::new(hex(&rng.bytes(32)), BlockNumber(2), SlotNumber(45), hex(&rng.bytes(32)));
                let fl: Vec<MKTreeNode> = vec![fake.clone().into_mk_tree_node(), MKTreeNode::new(rng.bytes(40))];
                let ft = MKTree::<S>::new(&fl).unwrap();
                let fp = P::from_proof(&ft.compute_proof(&fl[0..1]).unwrap());
                if !honest_mp.subs.is_empty() {
                    let nsub = honest_mp.subs.len();
                    for (tag, at, fresh) in [("v2-forged-sub-same-key-front", 0usize, false), ("v2-forged-sub-same-key-after", nsub, false), ("v2-forged-sub-fresh-key", nsub, true)] {
                        let mut mp = honest_mp.clone();
                        let key = if fresh { BlockRange::from_block_number(BlockNumber(15 * (3000 + rng.below(100)))) } else { mp.subs[if at == 0 { 0 } else { nsub - 1 }].0.clone() };
                        let kb: MKTreeNode = key.clone().into();
                        mp.subs.insert(at, (key, kb.to_vec(), MP { master: fp.clone(), subs: vec![] }));
                        let mut it = q.clone(); it.push(fake.clone());
                        run_v2(&mut sink, tag, Some(&it), &mp, latest, offset);
                    }
                }
            }
            let mut mp = honest_mp.clone(); mp.master.root[0] ^= 1; run_v2(&mut sink, "v2-root-altered", Some(&q), &mp, latest, offset);
            let mut mp = honest_mp.clone(); if !mp.subs.is_empty() { let k = rng.below(mp.subs.len() as u64) as usize; mp.subs.remove(k); } run_v2(&mut sink, "v2-sub-removed", Some(&q), &mp, latest, offset);
            // a block leaf presented as a transaction? not expressible: item type fixes the prefix. Proof of blocks for tx items:
            let bq: Vec<MKTreeNode> = blocks.iter().take(2).map(|b| b.clone().into_mk_tree_node()).collect();
            let bp = MP::from_value(&serde_json::to_value(&v2_map.compute_proof(&bq).unwrap()).unwrap());
            run_v2(&mut sink, "v2-proof-of-other-items", Some(&q), &bp, latest, offset);
            // known finding through the real v2 verifier: forged block hash by concatenation split is covered in c09b
        }
        // blocks message (same verifier, `Block/…` leaves): K through the same model op
        if sink.wanted() {
            let bq: Vec<CardanoBlock> = blocks.iter().filter(|_| rng.chance(1, 5)).cloned().collect();
            let bq = if bq.is_empty() { vec![blocks[0].clone()] } else { bq };
            let proof = v2_map.compute_proof(&bq.iter().map(|b| b.clone().into_mk_tree_node()).collect::<Vec<_>>()).unwrap();
            let mp = MP::from_value(&serde_json::to_value(&proof).unwrap());
            let mut items = bq.clone();
            let tamper = rng.chance(1, 2);
            if tamper { items[0].slot_number = SlotNumber(items[0].slot_number.0 + 1); }
            let part = MkSetProofMessagePart::<CardanoBlockMessagePart> { items: items.iter().map(|b| CardanoBlockMessagePart { block_hash: b.block_hash.clone(), block_number: b.block_number, slot_number: b.slot_number }).collect(), proof: ProtocolMkProof::new(proof).to_bytes_hex().unwrap() };
            let m = CardanoBlocksProofsMessage::new("cert", Some(part), vec![], latest, offset);
            let res = m.verify();
            let out = match &res { Ok(v) => format!("ok {}", v.certified_merkle_root()), Err(e) => { let t = format!("{:?}", e); if t.starts_with("InvalidSetProof") { "err invalid".into() } else { "err other".to_string() } } };
            let req = format!("c11.v2 part=({},{})", hx(&items.iter().map(|b| b.clone().into_mk_tree_node().to_vec()).collect::<Vec<_>>()), mp.line());
            let i = sink.case(if tamper { "blocks-slot-altered" } else { "blocks-honest" }, &req, &out);
            if res.is_ok() && tamper { sink.sfail(i, "set-membership", "a block with an altered slot number is reported as certified", &req); }
        } else { sink.skip(); }

        // ================= stake distribution ====================================================
        if sink.wanted() {
            let npools = rng.range(1, 50) as usize;
            let mut sd: BTreeMap<String, u64> = BTreeMap::new();
            // pools WITHOUT stake are entries of the mapping like the others (every second distribution has some)
            let zeros = rng.bool();
            for _ in 0..npools { sd.insert(format!("pool1{}", hex(&rng.bytes(26))), if zeros && rng.chance(1, 3) { 0 } else if rng.chance(1, 8) { 1 } else { rng.range(0, 1 << 40) }); }
            let tree = CardanoStakeDistributionSignableBuilder::compute_merkle_tree_from_stake_distribution(sd.clone()).unwrap();
            let root = tree.compute_root().unwrap().to_vec();
            let leaves: Vec<Vec<u8>> = sd.iter().map(|(k, v)| format!("{}{}", k, v).into_bytes()).collect();
            let i = sink.case("stake-root", &format!("c11.mkroot leaves={}", hx(&leaves)), &format!("ok {}", hex(&root)));
            // S: edits of the distribution change the root — except the known leaf ambiguity
            let (k0, v0) = sd.iter().next().map(|(k, v)| (k.clone(), *v)).unwrap();
            let mut e1 = sd.clone(); e1.insert(k0.clone(), v0 + 1);
            let mut e2 = sd.clone(); e2.remove(&k0); e2.insert(format!("{}x", k0), v0);
            for (what, e) in [("stake altered", e1), ("pool renamed", e2)] {
                let r = CardanoStakeDistributionSignableBuilder::compute_merkle_tree_from_stake_distribution(e).unwrap().compute_root().unwrap().to_vec();
                if r == root { sink.sfail(i, "stake-distribution", &format!("{}: same Merkle root", what), "stake distribution"); }
            }
            // a pool without stake added, removed, renamed: another mapping, so another root
            {
                let mut e4 = sd.clone(); e4.insert(format!("pool1{}", hex(&rng.bytes(26))), 0);
                let mut edits = vec![("pool without stake added", e4)];
                if let Some((kz, _)) = sd.iter().find(|(_, v)| **v == 0).map(|(k, v)| (k.clone(), *v)) {
                    let mut e5 = sd.clone(); e5.remove(&kz); edits.push(("pool without stake removed", e5.clone()));
                    e5.insert(format!("{}x", kz), 0); edits.push(("pool without stake renamed", e5));
                    let mut e6 = sd.clone(); e6.insert(kz.clone(), 1); edits.push(("stake 0 altered to 1", e6));
                }
                for (what, e) in edits {
                    // (an EMPTY distribution has no root: the computation fails, which is another outcome than `root`)
                    let Some(r) = CardanoStakeDistributionSignableBuilder::compute_merkle_tree_from_stake_distribution(e).ok().and_then(|t| t.compute_root().ok()).map(|r| r.to_vec()) else { continue };
                    if r == root { sink.sfail(i, "stake-distribution", &format!("{}: same Merkle root", what), "stake distribution"); }
                }
            }
            // moving a digit from the stake into the identifier: the known finding class
            let mut e3 = sd.clone(); e3.remove(&k0);
            let digits = v0.to_string();
            if digits.len() >= 2 && !digits[1..].starts_with('0') {
                e3.insert(format!("{}{}", k0, &digits[..1]), digits[1..].parse().unwrap());
                let same_order = e3.keys().position(|k| k.starts_with(&k0)) == Some(0);
                let r = CardanoStakeDistributionSignableBuilder::compute_merkle_tree_from_stake_distribution(e3).unwrap().compute_root().unwrap().to_vec();
                if r == root && same_order { sink.sfail(i, "stake-leaf", "a digit moved from the stake into the pool identifier: same Merkle root, different mapping", "stake distribution"); }
            }
        } else { sink.skip(); }
    }
    // known finding witness
    {
        let a: BTreeMap<String, u64> = BTreeMap::from([("pool1abc7".to_string(), 123u64)]);
        let b: BTreeMap<String, u64> = BTreeMap::from([("pool1abc".to_string(), 7123u64)]);
        let ra = CardanoStakeDistributionSignableBuilder::compute_merkle_tree_from_stake_distribution(a).unwrap().compute_root().unwrap();
        let rb = CardanoStakeDistributionSignableBuilder::compute_merkle_tree_from_stake_distribution(b).unwrap().compute_root().unwrap();
        sink.witness("C11-stake-leaf", ra == rb, "{pool1abc7: 123} and {pool1abc: 7123} have the same Merkle root");
    }
    sink.finish();
}
