//! C09 harness, part (a): the STM registration Merkle tree through the cfg-guarded wrappers
//! `mithril_stm::verif_hooks` (root, batch-path generator, batch-path verifier) versus the Lean
//! model `StmTree` running the Lean Blake2b-256. Also the foundation check K.F.hash.
//! Parts (b)/(c) (MKProof / MKMapProof) are in `c09b`.
use blake2::digest::{consts::{U28, U32, U64}, Digest};
use blake2::{Blake2b, Blake2s256};
use hutil::{catch, hex, Args, Rng, Sink};
use mithril_stm::verif_hooks::{batch_path, merkle_root, verify_batch, RawLeaf};

fn hexlist(v: &[Vec<u8>]) -> String {
    format!("[{}]", v.iter().map(|x| hex(x)).collect::<Vec<_>>().join(","))
}

fn leaf(rng: &mut Rng) -> RawLeaf {
    let mut b = [0u8; 104];
    for x in b.iter_mut() {
        *x = rng.u64() as u8;
    }
    RawLeaf(b)
}

fn raw(l: &[RawLeaf]) -> Vec<Vec<u8>> {
    l.iter().map(|x| x.0.to_vec()).collect()
}

struct Case {
    root: Vec<u8>,
    nr: usize,
    claims: Vec<RawLeaf>,
    values: Vec<Vec<u8>>,
    idx: Vec<usize>,
}

fn run_verify(sink: &mut Sink, tag: &str, committed: &[RawLeaf], c: &Case) {
    if !sink.wanted() {
        sink.skip();
        return;
    }
    let (root, nr, claims, values, idx) = (c.root.clone(), c.nr, c.claims.clone(), c.values.clone(), c.idx.clone());
    let out = match catch(move || verify_batch(root, nr, &claims, values, idx)) {
        Ok(true) => "ok",
        Ok(false) => "err",
        Err(_) => "panic",
    };
    let req = format!(
        "c09.stmverify root={} nr={} claims={} values={} idx={} committed={} obs={}",
        hex(&c.root), c.nr, hexlist(&raw(&c.claims)), hexlist(&c.values), hutil::list(&c.idx), hexlist(&raw(committed)), out
    );
    let i = sink.case(tag, &req, out);
    // S evaluated here as well (independent of the Lean side)
    if out == "ok" {
        for (k, ix) in c.idx.iter().enumerate() {
            let good = committed.get(*ix).map(|l| l.0 == c.claims[k].0).unwrap_or(false);
            if !good {
                sink.sfail(i, "stm-membership", &format!("accepted proof vouches for a non-committed leaf at index {}", ix), &req);
                break;
            }
        }
    }
}

fn subsets(n: usize) -> Vec<Vec<usize>> {
    (1u32..(1 << n)).map(|m| (0..n).filter(|i| m >> i & 1 == 1).collect()).collect()
}

fn main() {
    hutil::quiet_panics();
    let args = Args::parse();
    let mut rng = Rng::new(args.seed);
    let mut sink = Sink::new(&args);

    // --- K.F.hash: the Lean hash implementations against the Rust crates -------------------
    let mut inputs: Vec<Vec<u8>> = vec![vec![], b"abc".to_vec(), vec![0u8], vec![0u8; 64], vec![0xff; 128], vec![7u8; 129]];
    for n in 0..300usize {
        if n % (if args.thorough() { 1 } else { 7 }) == 0 {
            inputs.push(rng.bytes(n));
        }
    }
    for d in &inputs {
        for alg in ["sha256", "blake2b256", "blake2b512", "blake2b224", "blake2s256"] {
            if !sink.wanted() { sink.skip(); continue; }
            let out = match alg {
                "sha256" => sha2::Sha256::digest(d).to_vec(),
                "blake2b256" => Blake2b::<U32>::digest(d).to_vec(),
                "blake2b512" => Blake2b::<U64>::digest(d).to_vec(),
                "blake2b224" => Blake2b::<U28>::digest(d).to_vec(),
                _ => Blake2s256::digest(d).to_vec(),
            };
            sink.case("hash", &format!("c00.hash alg={} data={}", alg, hex(d)), &hex(&out));
        }
    }

    // --- roots and generated paths, honest verification: exhaustive small scope -------------
    let max_n = if args.thorough() { 17 } else { 11 };
    let max_sub = if args.thorough() { 13 } else { 9 };
    for n in 1..=max_n {
        let leaves: Vec<RawLeaf> = (0..n).map(|_| leaf(&mut rng)).collect();
        let root = merkle_root(&leaves);
        if sink.wanted() {
            sink.case("root", &format!("c09.stmroot leaves={}", hexlist(&raw(&leaves))), &hex(&root));
        } else { sink.skip(); }
        let subs: Vec<Vec<usize>> = if n <= max_sub { subsets(n) } else { (0..400).map(|_| { let mut s: Vec<usize> = (0..n).filter(|_| rng.chance(1, 3)).collect(); if s.is_empty() { s.push(rng.below(n as u64) as usize); } s }).collect() };
        for idx in subs {
            let (values, indices) = batch_path(&leaves, idx.clone());
            if sink.wanted() {
                sink.case("path", &format!("c09.stmpath leaves={} idx={}", hexlist(&raw(&leaves)), hutil::list(&idx)), &hexlist(&values));
            } else { sink.skip(); }
            let claims: Vec<RawLeaf> = idx.iter().map(|i| leaves[*i]).collect();
            let honest = Case { root: root.clone(), nr: n, claims, values, idx: indices };
            // completeness (S): the generated proof verifies
            {
                let (r2, c2, v2, i2) = (honest.root.clone(), honest.claims.clone(), honest.values.clone(), honest.idx.clone());
                let okv = catch(move || verify_batch(r2, n, &c2, v2, i2)).unwrap_or(false);
                if !okv {
                    let i = sink.next_index();
                    sink.sfail(i, "stm-complete", "generated batch proof does not verify", &format!("n={} idx={:?}", n, honest.idx));
                }
            }
            run_verify(&mut sink, "honest", &leaves, &honest);
            // single mutations (a sample of the subsets to bound the run)
            if n <= 6 || rng.chance(1, if args.thorough() { 4 } else { 24 }) {
                mutate(&mut sink, &mut rng, &leaves, &honest);
            }
        }
    }
    // larger sampled trees
    let reps = if args.thorough() { 300 } else { 40 };
    for _ in 0..reps {
        let n = rng.range(12, 200) as usize;
        let leaves: Vec<RawLeaf> = (0..n).map(|_| leaf(&mut rng)).collect();
        let root = merkle_root(&leaves);
        if sink.wanted() {
            sink.case("root", &format!("c09.stmroot leaves={}", hexlist(&raw(&leaves))), &hex(&root));
        } else { sink.skip(); }
        let mut idx: Vec<usize> = (0..n).filter(|_| rng.chance(1, 8)).collect();
        if idx.is_empty() { idx.push(rng.below(n as u64) as usize); }
        let (values, indices) = batch_path(&leaves, idx.clone());
        let claims: Vec<RawLeaf> = idx.iter().map(|i| leaves[*i]).collect();
        let honest = Case { root, nr: n, claims, values, idx: indices };
        run_verify(&mut sink, "honest-large", &leaves, &honest);
        mutate(&mut sink, &mut rng, &leaves, &honest);
    }
    // several mutations at once on small trees (the single mutations above never combine a duplicated or out-of-range index
    // with an altered leaf count, a short claim list or a re-ordered path): arbitrary index lists, claims, values, nr
    let reps = if args.thorough() { 20_000 } else { 2_000 };
    for _ in 0..reps {
        let n = rng.range(1, 9) as usize;
        let leaves: Vec<RawLeaf> = (0..n).map(|_| leaf(&mut rng)).collect();
        let root = merkle_root(&leaves);
        let mut pool: Vec<Vec<u8>> = vec![root.clone()];
        for _ in 0..4 { let mut s: Vec<usize> = (0..n).filter(|_| rng.bool()).collect(); if s.is_empty() { s.push(0); } pool.extend(batch_path(&leaves, s).0); }
        let len = rng.below(5) as usize;
        let mut idx: Vec<usize> = (0..len).map(|_| rng.below(n as u64 + 2) as usize).collect();
        if !rng.chance(1, 6) { idx.sort(); }
        if rng.chance(1, 4) && !idx.is_empty() { let k = rng.below(idx.len() as u64) as usize; let v = idx[k]; idx.insert(k, v); }
        if rng.chance(1, 12) && !idx.is_empty() { let l = idx.len() - 1; idx[l] = *rng.pick(&[usize::MAX, usize::MAX - 1, 1 << 63, (1 << 63) - 1, usize::MAX / 2 + 2]); }
        let mut claims: Vec<RawLeaf> = idx.iter().map(|i| if *i < n && !rng.chance(1, 8) { leaves[*i] } else { leaves[rng.below(n as u64) as usize] }).collect();
        if rng.chance(1, 10) { claims.pop(); }
        let mut good: Vec<usize> = idx.iter().cloned().filter(|i| *i < n).collect();
        good.sort();
        good.dedup();
        let mut values = if good.is_empty() { vec![] } else { batch_path(&leaves, good).0 };
        for _ in 0..rng.below(3) {
            match rng.below(3) {
                0 => if !values.is_empty() { let k = rng.below(values.len() as u64) as usize; values.remove(k); },
                1 => { let k = rng.below(values.len() as u64 + 1) as usize; values.insert(k, rng.pick(&pool).clone()); },
                _ => if values.len() >= 2 { let k = rng.below(values.len() as u64 - 1) as usize; values.swap(k, k + 1); },
            }
        }
        // the leaf count is altered only to values that keep the leaf offset (same next power of two: the stated indices keep
        // their meaning, so S stays applicable) or to huge ones (overflow panics / 63 levels)
        let np = n.next_power_of_two();
        let nr = match rng.below(8) { 0 | 1 => rng.range(if np == 1 { 0 } else { np as u64 / 2 + 1 }, np as u64) as usize, 2 => *rng.pick(&[1usize << 63, (1 << 63) - 1, (1 << 63) + 1, usize::MAX, 1 << 62, (1 << 62) + 1]), _ => n };
        run_verify(&mut sink, "multi-mutation", &leaves, &Case { root, nr, claims, values, idx });
    }
    sink.finish();
}

fn mutate(sink: &mut Sink, rng: &mut Rng, leaves: &[RawLeaf], h: &Case) {
    let n = leaves.len();
    let clone = |h: &Case| Case { root: h.root.clone(), nr: h.nr, claims: h.claims.clone(), values: h.values.clone(), idx: h.idx.clone() };
    // leaf replaced by a foreign leaf / by another committed leaf
    {
        let mut c = clone(h);
        let k = rng.below(c.claims.len() as u64) as usize;
        c.claims[k] = leaf(rng);
        run_verify(sink, "leaf-replaced", leaves, &c);
        let mut c = clone(h);
        c.claims[k] = leaves[rng.below(n as u64) as usize];
        run_verify(sink, "leaf-other-committed", leaves, &c);
    }
    // leaf moved to another position
    {
        let mut c = clone(h);
        let k = rng.below(c.idx.len() as u64) as usize;
        c.idx[k] = rng.below(n as u64 + 2) as usize;
        run_verify(sink, "index-moved", leaves, &c);
        let mut c2 = clone(h);
        c2.idx[k] = rng.below(n as u64 + 2) as usize;
        c2.idx.sort();
        run_verify(sink, "index-moved-sorted", leaves, &c2);
    }
    // duplicated index (+ duplicated claim)
    {
        let mut c = clone(h);
        let k = rng.below(c.idx.len() as u64) as usize;
        c.idx.insert(k, c.idx[k]);
        c.claims.insert(k, c.claims[k]);
        run_verify(sink, "index-duplicated", leaves, &c);
    }
    // out of range / huge indices
    for big in [n, n + 1, 1 << 20, usize::MAX / 2, usize::MAX - 1, usize::MAX] {
        let mut c = clone(h);
        let last = c.idx.len() - 1;
        c.idx[last] = big;
        run_verify(sink, "index-out-of-range", leaves, &c);
    }
    // unsorted
    if h.idx.len() >= 2 {
        let mut c = clone(h);
        c.idx.swap(0, 1);
        c.claims.swap(0, 1);
        run_verify(sink, "unsorted", leaves, &c);
    }
    // length mismatch, empty
    {
        let mut c = clone(h);
        c.claims.pop();
        run_verify(sink, "length-mismatch", leaves, &c);
        let mut c = clone(h);
        c.claims.clear();
        c.idx.clear();
        run_verify(sink, "empty", leaves, &c);
    }
    // path node altered / dropped / added / odd length
    if !h.values.is_empty() {
        let k = rng.below(h.values.len() as u64) as usize;
        let mut c = clone(h);
        c.values[k][rng.below(32) as usize] ^= 1 << rng.below(8);
        run_verify(sink, "value-flipped", leaves, &c);
        let mut c = clone(h);
        c.values.remove(k);
        run_verify(sink, "value-dropped", leaves, &c);
        let mut c = clone(h);
        c.values[k].push(0);
        run_verify(sink, "value-odd-length", leaves, &c);
        let mut c = clone(h);
        c.values[k].truncate(31);
        run_verify(sink, "value-odd-length", leaves, &c);
        let mut c = clone(h);
        c.values.swap(k, 0);
        run_verify(sink, "value-swapped", leaves, &c);
    }
    {
        let mut c = clone(h);
        c.values.push(rng.bytes(32));
        run_verify(sink, "value-added", leaves, &c);
    }
    // root / nr altered
    {
        let mut c = clone(h);
        c.root[0] ^= 1;
        run_verify(sink, "root-altered", leaves, &c);
        for nr in [0usize, 1, n.saturating_sub(1), n + 1, 2 * n, (1 << 63) - 1, 1 << 63, (1 << 63) + 1, usize::MAX] {
            let mut c = clone(h);
            c.nr = nr;
            run_verify(sink, "nr-altered", leaves, &c);
        }
    }
    // an inner node presented as a leaf is impossible at byte level here (leaves are 104 bytes)
}
